(* snakes.py / seq_bruteforce.bruteforce_compute_snakes: the snakes returned by the single-level and
   the multilevel algorithm are strictly increasing, non-empty, inside their rectangle, and every
   cell of every snake satisfies one of the predicates.  No optimality is claimed or needed. *)
From Coq Require Import List NArith ZArith Bool Lia.
From NB Require Import Base.Res Base.Json Diff.DiffFormat Diff.Patch Diff.Lcs Diff.GenericDiff
     Diff.PatchProofs Diff.LcsProofs.
Import ListNotations.

Definition unit_snake (p : nat * nat) : snake := (fst p, snd p, 1).

(* forward validity with bounds *)
Fixpoint fv (P : nat -> nat -> Prop) (lo_i lo_j : nat) (l : list snake) (hi_i hi_j : nat) : Prop :=
  match l with
  | [] => lo_i <= hi_i /\ lo_j <= hi_j
  | (i, j, n) :: r => lo_i <= i /\ lo_j <= j /\ 0 < n /\ (forall k, k < n -> P (i + k) (j + k))
                      /\ fv P (i + n) (j + n) r hi_i hi_j
  end.

Lemma fv_weaken_lo P l : forall lo_i lo_j lo_i' lo_j' hi_i hi_j,
  fv P lo_i lo_j l hi_i hi_j -> lo_i' <= lo_i -> lo_j' <= lo_j -> fv P lo_i' lo_j' l hi_i hi_j.
Proof. destruct l as [|[[i j] n] r]; simpl; intros; intuition lia. Qed.

Lemma fv_lo_le_hi P l : forall lo_i lo_j hi_i hi_j,
  fv P lo_i lo_j l hi_i hi_j -> lo_i <= hi_i /\ lo_j <= hi_j.
Proof.
  induction l as [|[[i j] n] r IH]; simpl; intros lo_i lo_j hi_i hi_j H; [exact H|].
  destruct H as (H1 & H2 & H3 & _ & H5). apply IH in H5. lia.
Qed.

Lemma fv_impl (P Q : nat -> nat -> Prop) l : (forall i j, P i j -> Q i j) ->
  forall lo_i lo_j hi_i hi_j, fv P lo_i lo_j l hi_i hi_j -> fv Q lo_i lo_j l hi_i hi_j.
Proof.
  intros HPQ. induction l as [|[[i j] n] r IH]; simpl; intros; [assumption|].
  intuition.
Qed.

Section Single.
  Variable compare : json -> json -> bool.

  Lemma snakes_of_indices_unit P : forall ai bi rs si sj sn x y,
    inc_idx P x y ai bi -> si < x ->
    snakes_of_indices ((si, sj, sn) :: rs) ai bi
    = rev (map unit_snake (combine ai bi)) ++ (si, sj, sn) :: rs.
  Proof.
    induction ai as [|i ai IH]; intros bi rs si sj sn x y Hi Hlt; inversion Hi; subst; [reflexivity|].
    cbn [snakes_of_indices].
    replace (Nat.eqb si i) with false by (symmetry; apply Nat.eqb_neq; lia). cbn [andb].
    rewrite (IH bi0 ((si, sj, sn) :: rs) i j 1 (i + 1) (j + 1)); [|assumption | lia].
    cbn [combine map rev unit_snake fst snd]. rewrite <- app_assoc. reflexivity.
  Qed.

  Lemma bruteforce_snakes_unit P ai bi :
    inc_idx P 0 0 ai bi ->
    pop_empty_first (rev (snakes_of_indices [(0, 0, 0)] ai bi)) = map unit_snake (combine ai bi).
  Proof.
    intros Hi. inversion Hi; subst; [reflexivity|].
    cbn [snakes_of_indices].
    destruct (Nat.eqb 0 i && Nat.eqb 0 j) eqn:E.
    - apply andb_true_iff in E as [E1 E2]. apply Nat.eqb_eq in E1, E2. subst i j.
      rewrite (snakes_of_indices_unit P ai0 bi0 [] 0 0 (0 + 1) (0 + 1) (0 + 1)); [|assumption | lia].
      rewrite rev_app_distr, rev_involutive. reflexivity.
    - rewrite (snakes_of_indices_unit P ai0 bi0 [(0, 0, 0)] i j 1 (i + 1) (j + 1)); [|assumption | lia].
      rewrite rev_app_distr, rev_involutive. reflexivity.
  Qed.

  Lemma fv_unit P : forall ai bi x y hi_i hi_j,
    inc_idx P x y ai bi -> x <= hi_i -> y <= hi_j ->
    (forall i j, P i j -> i < hi_i /\ j < hi_j) ->
    fv P x y (map unit_snake (combine ai bi)) hi_i hi_j.
  Proof.
    induction ai as [|i ai IH]; intros bi x y hi_i hi_j Hi Hx Hy Hb; inversion Hi; subst; [simpl; lia|].
    cbn [combine map unit_snake fst snd fv].
    match goal with HP : P i j |- _ => destruct (Hb i j HP) as [Hbi Hbj] end.
    repeat split; try lia.
    - intros k Hk. replace k with 0 by lia. rewrite !Nat.add_0_r. assumption.
    - apply IH; auto; lia.
  Qed.

  Lemma nth_error_firstn' {T} (l : list T) : forall m i, i < m -> nth_error (firstn m l) i = nth_error l i.
  Proof.
    induction l as [|x l IH]; intros m i H; [destruct m, i; reflexivity|].
    destruct m as [|m]; [lia|]. destruct i as [|i]; [reflexivity|]. simpl. apply IH. lia.
  Qed.

  Lemma nth_error_skipn' {T} (l : list T) : forall a i, nth_error (skipn a l) i = nth_error l (a + i).
  Proof.
    induction l as [|x l IH]; intros a i; [destruct a, i; reflexivity|].
    destruct a as [|a]; [reflexivity|]. simpl. apply IH.
  Qed.

  Lemma nth_error_slice {T} (l : list T) a b i v :
    nth_error (slice l a b) i = Some v -> nth_error l (a + i) = Some v /\ a + i < b.
  Proof.
    unfold slice. intros H.
    assert (Hi : i < b - a).
    { assert (i < length (firstn (b - a) (skipn a l))) by (apply nth_error_Some; congruence).
      rewrite firstn_length in H0. lia. }
    rewrite nth_error_firstn' in H by exact Hi. rewrite nth_error_skipn' in H. split; [exact H | lia].
  Qed.

  Lemma cmp_at_slice A B i0 j0 i1 j1 i j :
    cmp_at compare (slice A i0 i1) (slice B j0 j1) i j = true ->
    cmp_at compare A B (i0 + i) (j0 + j) = true /\ i0 + i < i1 /\ j0 + j < j1.
  Proof.
    unfold cmp_at. destruct (nth_error (slice A i0 i1) i) as [a|] eqn:Ea; [|discriminate].
    destruct (nth_error (slice B j0 j1) j) as [b|] eqn:Eb; [|discriminate].
    apply nth_error_slice in Ea as [Ea Ha]. apply nth_error_slice in Eb as [Eb Hb].
    rewrite Ea, Eb. auto.
  Qed.

  Lemma cmp_at_bounds A B i j : cmp_at compare A B i j = true -> i < length A /\ j < length B.
  Proof.
    unfold cmp_at. destruct (nth_error A i) eqn:Ea; [|discriminate].
    destruct (nth_error B j) eqn:Eb; [|discriminate]. intros _.
    split; apply nth_error_Some; congruence.
  Qed.

  Lemma fv_shift (P Q : nat -> nat -> Prop) l d_i d_j : (forall i j, P i j -> Q (d_i + i) (d_j + j)) ->
    forall lo_i lo_j hi_i hi_j, fv P lo_i lo_j l hi_i hi_j ->
    fv Q (lo_i + d_i) (lo_j + d_j) (map (fun '(i, j, n) => (i + d_i, j + d_j, n)) l) (hi_i + d_i) (hi_j + d_j).
  Proof.
    intros HPQ. induction l as [|[[i j] n] r IH]; cbn [map fv]; intros lo_i lo_j hi_i hi_j H; [lia|].
    destruct H as (H1 & H2 & H3 & H4 & H5). repeat split; try lia.
    - intros k Hk. replace (i + d_i + k) with (d_i + (i + k)) by lia.
      replace (j + d_j + k) with (d_j + (j + k)) by lia. apply HPQ. apply H4. exact Hk.
    - replace (i + d_i + n) with (i + n + d_i) by lia. replace (j + d_j + n) with (j + n + d_j) by lia.
      apply IH. exact H5.
  Qed.

  (* snakes.compute_snakes on a rectangle *)
  Theorem compute_snakes_ok A B i0 j0 i1 j1 :
    i0 <= i1 -> j0 <= j1 -> i1 <= length A -> j1 <= length B ->
    exists s, compute_snakes compare A B (i0, j0, i1, j1) = Ok s
              /\ fv (fun i j => cmp_at compare A B i j = true) i0 j0 s i1 j1.
  Proof.
    intros Hi Hj HA HB. unfold compute_snakes, bruteforce_compute_snakes.
    destruct (lcs_indices_ok compare (slice A i0 i1) (slice B j0 j1)) as (ai & bi & Hl & Hinc).
    rewrite Hl. cbn [bind].
    rewrite (bruteforce_snakes_unit _ ai bi Hinc).
    eexists. split; [reflexivity|].
    pose proof (fv_unit _ ai bi 0 0 (i1 - i0) (j1 - j0) Hinc ltac:(lia) ltac:(lia)) as Hfv.
    assert (Hb : forall i j, cmp_at compare (slice A i0 i1) (slice B j0 j1) i j = true -> i < i1 - i0 /\ j < j1 - j0).
    { intros i j H. apply cmp_at_slice in H. lia. }
    specialize (Hfv Hb).
    pose proof (fv_shift _ (fun i j => cmp_at compare A B i j = true) _ i0 j0
                  (fun i j H => proj1 (cmp_at_slice A B i0 j0 i1 j1 i j H)) 0 0 (i1 - i0) (j1 - j0) Hfv) as Hs.
    replace (0 + i0) with i0 in Hs by lia. replace (0 + j0) with j0 in Hs by lia.
    replace (i1 - i0 + i0) with i1 in Hs by lia. replace (j1 - j0 + j0) with j1 in Hs by lia.
    exact Hs.
  Qed.
End Single.

(* ---------- compute_snakes_multilevel ---------- *)
Section Multi.
  Variable compares : list (json -> json -> bool).
  Variables A B : list json.

  Definition Pany (i j : nat) : Prop := exists c, In c compares /\ cmp_at c A B i j = true.

  Lemma level_pred_Pany level i j :
    cmp_at (nth level compares (fun _ _ => false)) A B i j = true -> Pany i j.
  Proof.
    intros H. destruct (Nat.lt_ge_cases level (length compares)) as [L|G].
    - exists (nth level compares (fun _ _ => false)). split; [apply nth_In; exact L | exact H].
    - rewrite nth_overflow in H by exact G. unfold cmp_at in H.
      destruct (nth_error A i), (nth_error B j); discriminate.
  Qed.

  (* reversed list of snakes built so far: relaxed validity (empty snakes allowed) below a bound *)
  Fixpoint rv (rs : list snake) (hi_i hi_j : nat) : Prop :=
    match rs with
    | [] => True
    | (i, j, n) :: rest => i + n <= hi_i /\ j + n <= hi_j /\ (forall k, k < n -> Pany (i + k) (j + k))
                           /\ rv rest i j
    end.

  Definition lo_ok (lo_i lo_j : nat) (s : snake) : Prop :=
    let '(i, j, n) := s in n = 0 \/ (lo_i <= i /\ lo_j <= j).

  Fixpoint pos_but_last (rs : list snake) : Prop :=
    match rs with
    | [] => True
    | (_, _, n) :: rest => match rest with [] => True | _ => 0 < n /\ pos_but_last rest end
    end.

  Lemma rv_weaken rs : forall hi_i hi_j hi_i' hi_j',
    rv rs hi_i hi_j -> hi_i <= hi_i' -> hi_j <= hi_j' -> rv rs hi_i' hi_j'.
  Proof. destruct rs as [|[[i j] n] r]; simpl; intros; intuition lia. Qed.

  Lemma pbl_cons i j n rs : 0 < n -> pos_but_last rs -> pos_but_last ((i, j, n) :: rs).
  Proof. intros; destruct rs; simpl; auto. Qed.

  Lemma pbl_tail x rs : pos_but_last (x :: rs) -> pos_but_last rs.
  Proof. destruct x as [[i j] n]. destruct rs; simpl; [auto | intros [_ H]; exact H]. Qed.

  Lemma pbl_head_pos i j n y rs : pos_but_last ((i, j, n) :: y :: rs) -> 0 < n.
  Proof. simpl. intros [H _]. exact H. Qed.

  (* pushing the (reversed) result of a lower level on top *)
  Lemma rv_push_sub : forall sub rs lo_i lo_j hi_i hi_j,
    fv Pany lo_i lo_j sub hi_i hi_j -> rv rs lo_i lo_j -> rv (rev sub ++ rs) hi_i hi_j.
  Proof.
    induction sub as [|[[i j] n] sub IH]; intros rs lo_i lo_j hi_i hi_j Hf Hr.
    - simpl in *. eapply rv_weaken; eauto; lia.
    - simpl in Hf. destruct Hf as (H1 & H2 & H3 & H4 & H5).
      cbn [rev]. rewrite <- app_assoc. cbn [app].
      apply (IH ((i, j, n) :: rs) (i + n) (j + n)); [exact H5|].
      simpl. repeat split; try lia; auto. eapply rv_weaken; eauto.
  Qed.

  Lemma lo_ok_sub : forall sub lo_i lo_j hi_i hi_j lo_i' lo_j',
    fv Pany lo_i lo_j sub hi_i hi_j -> lo_i' <= lo_i -> lo_j' <= lo_j ->
    Forall (lo_ok lo_i' lo_j') (rev sub).
  Proof.
    induction sub as [|[[i j] n] sub IH]; intros lo_i lo_j hi_i hi_j lo_i' lo_j' Hf Hi Hj; [constructor|].
    simpl in Hf. destruct Hf as (H1 & H2 & H3 & H4 & H5).
    cbn [rev]. apply Forall_app. split.
    - apply (IH (i + n) (j + n) hi_i hi_j); auto; lia.
    - constructor; [|constructor]. simpl. right. lia.
  Qed.

  Lemma pbl_push_sub : forall sub rs lo_i lo_j hi_i hi_j,
    fv Pany lo_i lo_j sub hi_i hi_j -> pos_but_last rs -> pos_but_last (rev sub ++ rs).
  Proof.
    induction sub as [|[[i j] n] sub IH]; intros rs lo_i lo_j hi_i hi_j Hf Hp; [exact Hp|].
    simpl in Hf. destruct Hf as (H1 & H2 & H3 & H4 & H5).
    cbn [rev]. rewrite <- app_assoc. cbn [app].
    apply (IH ((i, j, n) :: rs) (i + n) (j + n) hi_i hi_j H5). apply pbl_cons; assumption.
  Qed.

  Definition St_ok (lo_i lo_j : nat) (st : list snake * nat * nat) : Prop :=
    let '(rnew, i0, j0) := st in
    rnew <> [] /\ rv rnew i0 j0 /\ Forall (lo_ok lo_i lo_j) rnew /\ pos_but_last rnew
    /\ lo_i <= i0 /\ lo_j <= j0.

  Definition recur_ok (recur : rect -> res (list snake)) : Prop :=
    forall a b c d, a <= c -> b <= d -> c <= length A -> d <= length B ->
    exists s, recur (a, b, c, d) = Ok s /\ fv Pany a b s c d.

  Lemma ml_step_ok recur lo_i lo_j rnew i0 j0 i j n :
    recur_ok recur -> St_ok lo_i lo_j (rnew, i0, j0) ->
    i0 <= i -> j0 <= j -> i + n <= length A -> j + n <= length B ->
    (forall k, k < n -> Pany (i + k) (j + k)) ->
    exists rnew', ml_step recur (rnew, i0, j0) (i, j, n) = Ok (rnew', i + n, j + n)
                  /\ St_ok lo_i lo_j (rnew', i + n, j + n).
  Proof.
    intros Hrec (Hne & Hrv & Hlo & Hpos & Hli & Hlj) Hi Hj HA HB HP.
    unfold ml_step.
    (* the recursion into the gap *)
    assert (Hsub : exists r1, (if Nat.ltb i0 i && Nat.ltb j0 j
                               then (do sub <- recur (i0, j0, i, j); Ok (rev sub ++ rnew))
                               else Ok rnew) = Ok r1
                   /\ r1 <> [] /\ rv r1 i j /\ Forall (lo_ok lo_i lo_j) r1 /\ pos_but_last r1).
    { destruct (Nat.ltb i0 i && Nat.ltb j0 j).
      - destruct (Hrec i0 j0 i j) as (sub & Hs & Hf); try lia. rewrite Hs. cbn [bind].
        eexists. split; [reflexivity|]. repeat split.
        + destruct (rev sub); [exact Hne | discriminate].
        + eapply rv_push_sub; eauto.
        + apply Forall_app. split; [eapply lo_ok_sub; eauto | exact Hlo].
        + eapply pbl_push_sub; eauto.
      - exists rnew. split; [reflexivity|]. repeat split; auto. eapply rv_weaken; eauto. }
    destruct Hsub as (r1 & -> & Hne1 & Hrv1 & Hlo1 & Hpos1). cbn [bind].
    eexists. split; [reflexivity|].
    destruct (Nat.ltb_spec 0 n) as [Hn|Hn].
    - destruct r1 as [|[[li lj] ln] rest]; [congruence|].
      destruct (Nat.eqb (li + ln) i && Nat.eqb (lj + ln) j) eqn:E.
      + (* merge contiguous snakes *)
        apply andb_true_iff in E as [E1 E2]. apply Nat.eqb_eq in E1, E2.
        simpl in Hrv1. destruct Hrv1 as (R1 & R2 & R3 & R4).
        unfold St_ok. split; [discriminate|]. split; [|split; [|split; [|split; lia]]].
        * simpl. split; [lia|]. split; [lia|]. split; [|exact R4].
          intros k Hk. destruct (Nat.lt_ge_cases k ln) as [L|G]; [apply R3; exact L|].
          replace (li + k) with (i + (k - ln)) by lia. replace (lj + k) with (j + (k - ln)) by lia.
          apply HP. lia.
        * inversion Hlo1 as [|? ? Hl0 Hl1]; subst. constructor; [|assumption].
          simpl in *. right. destruct Hl0 as [Hz|Hb]; lia.
        * destruct rest; [exact I|]. simpl. split; [lia|].
          apply pbl_tail in Hpos1. exact Hpos1.
      + unfold St_ok. split; [discriminate|]. split; [|split; [|split; [|split; lia]]].
        * simpl. split; [lia|]. split; [lia|]. split; [exact HP | exact Hrv1].
        * constructor; [simpl; right; lia | exact Hlo1].
        * apply pbl_cons; assumption.
    - assert (n = 0) by lia. subst n. rewrite !Nat.add_0_r.
      unfold St_ok. split; [exact Hne1|]. split; [exact Hrv1|]. split; [exact Hlo1|]. split; [exact Hpos1|]. lia.
  Qed.

  (* coarse snakes plus sentinel: a chain inside the bounds, empty snakes allowed *)
  Fixpoint cv (i0 j0 : nat) (l : list snake) : Prop :=
    match l with
    | [] => True
    | (i, j, n) :: r => i0 <= i /\ j0 <= j /\ i + n <= length A /\ j + n <= length B
                        /\ (forall k, k < n -> Pany (i + k) (j + k)) /\ cv (i + n) (j + n) r
    end.

  Lemma cv_of_fv : forall l lo_i lo_j hi_i hi_j,
    fv Pany lo_i lo_j l hi_i hi_j -> hi_i <= length A -> hi_j <= length B ->
    cv lo_i lo_j (l ++ [(hi_i, hi_j, 0)]).
  Proof.
    induction l as [|[[i j] n] l IH]; intros lo_i lo_j hi_i hi_j Hf HA HB.
    - simpl in *. repeat split; try lia; intros; lia.
    - simpl in Hf. destruct Hf as (H1 & H2 & H3 & H4 & H5).
      pose proof (fv_lo_le_hi _ _ _ _ _ _ H5).
      cbn [app cv]. repeat split; try lia; auto.
  Qed.

  Definition end_of (st : list snake * nat * nat) (l : list snake) : nat * nat :=
    match rev l with
    | [] => (snd (fst st), snd st)
    | (i, j, n) :: _ => (i + n, j + n)
    end.

  Lemma ml_loop_ok recur lo_i lo_j : recur_ok recur ->
    forall l rnew i0 j0, cv i0 j0 l -> St_ok lo_i lo_j (rnew, i0, j0) ->
    exists rnew' i' j', ml_loop recur (rnew, i0, j0) l = Ok (rnew', i', j')
                        /\ St_ok lo_i lo_j (rnew', i', j')
                        /\ (l <> [] -> forall i j n, last l (0, 0, 0) = (i, j, n) -> i' = i + n /\ j' = j + n).
  Proof.
    intros Hrec. induction l as [|[[i j] n] l IH]; intros rnew i0 j0 Hc Hs.
    - exists rnew, i0, j0. split; [reflexivity|]. split; [exact Hs | congruence].
    - simpl in Hc. destruct Hc as (H1 & H2 & H3 & H4 & H5 & H6).
      destruct (ml_step_ok recur lo_i lo_j rnew i0 j0 i j n Hrec Hs H1 H2 H3 H4 H5) as (r1 & Hst & Hs1).
      cbn [ml_loop]. rewrite Hst. cbn [bind].
      destruct (IH r1 (i + n) (j + n) H6 Hs1) as (r2 & i' & j' & Hl & Hs2 & Hend).
      exists r2, i', j'. split; [exact Hl|]. split; [exact Hs2|].
      intros _ i2 j2 n2 Hlast. destruct l as [|y l'].
      + simpl in Hlast. inversion Hlast; subst. simpl in Hl. inversion Hl; subst. auto.
      + apply Hend; [discriminate|]. exact Hlast.
  Qed.

  Lemma final_fv lo_i lo_j : forall rs hi_i hi_j tail HI_i HI_j,
    rs <> [] -> rv rs hi_i hi_j -> Forall (lo_ok lo_i lo_j) rs -> pos_but_last rs ->
    lo_i <= hi_i -> lo_j <= hi_j ->
    fv Pany hi_i hi_j tail HI_i HI_j ->
    fv Pany lo_i lo_j (pop_empty_first (rev rs ++ tail)) HI_i HI_j.
  Proof.
    induction rs as [|[[i j] n] rs IH]; intros hi_i hi_j tail HI_i HI_j Hne Hrv Hlo Hpos Hi Hj Ht; [congruence|].
    simpl in Hrv. destruct Hrv as (R1 & R2 & R3 & R4).
    inversion Hlo as [|? ? Hl0 Hlo']; subst.
    destruct rs as [|y rs'].
    - cbn [rev app]. destruct n as [|n'].
      + cbn [pop_empty_first]. eapply fv_weaken_lo; eauto.
      + cbn [pop_empty_first]. simpl in Hl0. destruct Hl0 as [Hz|[Ha Hb]]; [lia|].
        cbn [fv]. repeat split; try lia; auto. eapply fv_weaken_lo; eauto.
    - pose proof (pbl_head_pos _ _ _ _ _ Hpos) as Hn. apply pbl_tail in Hpos.
      simpl in Hl0. destruct Hl0 as [Hz|[Ha Hb]]; [lia|].
      change (rev ((i, j, n) :: y :: rs') ++ tail) with ((rev (y :: rs') ++ [(i, j, n)]) ++ tail).
      rewrite <- app_assoc. cbn [app].
      apply (IH i j ((i, j, n) :: tail) HI_i HI_j); auto; try discriminate.
      cbn [fv]. repeat split; try lia; auto. eapply fv_weaken_lo; eauto.
  Qed.

  Lemma snakes_multilevel_S lvl i0 j0 i1 j1 :
    snakes_multilevel compares A B (S lvl) (i0, j0, i1, j1) =
    do snakes <- compute_snakes (nth (S lvl) compares (fun _ _ => false)) A B (i0, j0, i1, j1);
    do st <- ml_loop (snakes_multilevel compares A B lvl) ([(0, 0, 0)], i0, j0) (snakes ++ [(i1, j1, 0)]);
    Ok (pop_empty_first (rev (fst (fst st)))).
  Proof. reflexivity. Qed.

  Theorem snakes_multilevel_ok : forall level i0 j0 i1 j1,
    i0 <= i1 -> j0 <= j1 -> i1 <= length A -> j1 <= length B ->
    exists s, snakes_multilevel compares A B level (i0, j0, i1, j1) = Ok s
              /\ fv Pany i0 j0 s i1 j1.
  Proof.
    induction level as [|lvl IH]; intros i0 j0 i1 j1 Hi Hj HA HB.
    - cbn [snakes_multilevel].
      destruct (compute_snakes_ok (nth 0 compares (fun _ _ => false)) A B i0 j0 i1 j1 Hi Hj HA HB) as (s & Hs & Hf).
      rewrite Hs. cbn [bind]. exists s. split; [reflexivity|].
      eapply fv_impl; [|exact Hf]. intros i j H. exact (level_pred_Pany 0 i j H).
    - rewrite snakes_multilevel_S.
      destruct (compute_snakes_ok (nth (S lvl) compares (fun _ _ => false)) A B i0 j0 i1 j1 Hi Hj HA HB) as (s & Hs & Hf).
      rewrite Hs. cbn [bind].
      assert (Hf' : fv Pany i0 j0 s i1 j1)
        by (eapply fv_impl; [|exact Hf]; intros i j H; exact (level_pred_Pany (S lvl) i j H)).
      assert (Hrec : recur_ok (snakes_multilevel compares A B lvl))
        by (intros a b c d; apply IH).
      destruct (ml_loop_ok _ i0 j0 Hrec (s ++ [(i1, j1, 0)]) [(0, 0, 0)] i0 j0) as (r2 & i' & j' & Hl & Hs2 & Hend).
      + apply cv_of_fv; auto.
      + unfold St_ok. split; [discriminate|]. split; [|split; [|split; [exact I | lia]]].
        * simpl. split; [lia|]. split; [lia|]. split; [intros k Hk; lia | exact I].
        * constructor; [left; reflexivity | constructor].
      + unfold snake in *. rewrite Hl. cbn [bind fst snd]. eexists. split; [reflexivity|].
        destruct (Hend ltac:(destruct s; discriminate) i1 j1 0) as [E1 E2]; [apply last_last|].
        rewrite !Nat.add_0_r in *. subst i' j'.
        destruct Hs2 as (Hne & Hrv & Hlo & Hpos & _ & _).
        rewrite <- (app_nil_r (rev r2)).
        apply (final_fv i0 j0 r2 i1 j1 [] i1 j1); auto. simpl. lia.
  Qed.
End Multi.
