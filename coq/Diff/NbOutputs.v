(* notebooks.diff_single_outputs for display_data / execute_result: the output without its data
   bundle and the data bundle are diffed separately and the two diffs are put together.  If each
   part is a good diff, so is the whole. *)
From Coq Require Import List NArith ZArith Bool Lia.
From NB Require Import Base.Res Base.Json Base.PyStr Diff.DiffFormat Diff.Patch Diff.GenericDiff
     Diff.Wf Diff.DictProofs Diff.DictWf Diff.MasterProofs Diff.SpecProofs Diff.NbGood.
Import ListNotations.

Definition not_key (k0 : pystr) (p : pystr * json) : bool := negb (str_eqb (fst p) k0).

Lemma obj_get_filter k0 k kv :
  obj_get k (filter (not_key k0) kv) = if str_eqb k k0 then None else obj_get k kv.
Proof.
  induction kv as [|[k' v] kv IH]; cbn [filter obj_get]; [destruct (str_eqb k k0); reflexivity|].
  change (not_key k0 (k', v)) with (negb (str_eqb k' k0)).
  destruct (str_eqb k' k0) eqn:E'; cbn [negb].
  - rewrite IH. destruct (str_eqb k k0) eqn:E; [reflexivity|].
    destruct (str_eqb k k') eqn:E2; [|reflexivity].
    apply str_eqb_eq in E2. subst k'. congruence.
  - cbn [obj_get]. destruct (str_eqb k k') eqn:E2.
    + apply str_eqb_eq in E2. subst k'. rewrite E'. reflexivity.
    + exact IH.
Qed.

Lemma filter_sorted f kv : keys_sorted kv = true -> keys_sorted (filter f kv) = true.
Proof.
  induction kv as [|[k v] kv IH]; intros Hs; [reflexivity|].
  pose proof (sorted_keys_gt _ _ _ Hs) as Hgt. apply keys_sorted_cons in Hs as [_ Hs].
  cbn [filter]. destruct (f (k, v)); [|apply IH; exact Hs].
  apply keys_sorted_cons. split; [|apply IH; exact Hs].
  clear IH Hs. induction kv as [|[k' v'] kv IH]; [exact I|]. cbn [filter].
  destruct (f (k', v')).
  - cbn [first_key_gt]. apply Hgt. left. reflexivity.
  - apply IH. intros k'' Hin. apply Hgt. right. exact Hin.
Qed.

Lemma wfj_filter f kv : wfj (JObj kv) = true -> wfj (JObj (filter f kv)) = true.
Proof.
  cbn [wfj]. intros H. apply andb_true_iff in H as [H1 H2]. apply andb_true_iff. split; [apply filter_sorted; exact H1|].
  rewrite forallb_forall in *. intros p Hp. apply filter_In in Hp as [Hp _]. apply H2. exact Hp.
Qed.

Lemma depth_filter_le f kv : depth (JObj (filter f kv)) <= depth (JObj kv).
Proof.
  cbn [depth]. apply le_n_S. induction kv as [|p kv IH]; [apply le_n|]. cbn [filter fold_right].
  destruct (f p); cbn [fold_right]; lia.
Qed.

(* ---------- mapping diffs: changing the base off the keys of the diff; inserting an entry ---------- *)
Lemma wf_map_lift recb kv kv' : forall l prev,
  (forall e, In e l -> obj_get (key_str e) kv' = obj_get (key_str e) kv) ->
  wf_map_of recb kv' prev l = true -> wf_map_of recb kv prev l = true.
Proof.
  induction l as [|e l IH]; intros prev Hk H; [reflexivity|]. cbn [wf_map_of] in *.
  destruct (dkey e) as [i|k] eqn:Ek; [discriminate|].
  apply andb_true_iff in H as [H H3]. apply andb_true_iff in H as [H1 H2].
  assert (Hg : obj_get k kv' = obj_get k kv).
  { specialize (Hk e (or_introl eq_refl)). unfold key_str in Hk. rewrite Ek in Hk. exact Hk. }
  rewrite H1. cbn [andb]. rewrite (IH (Some k)); [|intros e' He'; apply Hk; right; exact He' | exact H3].
  rewrite andb_true_r. unfold obj_has in *. rewrite <- Hg. exact H2.
Qed.

Lemma wf_map_prev recb kv l prev prev' :
  wf_map_of recb kv prev l = true ->
  (forall e k, hd_error l = Some e -> dkey e = KS k -> match prev' with None => True | Some p => str_ltb p k = true end) ->
  wf_map_of recb kv prev' l = true.
Proof.
  destruct l as [|e l]; intros H Hp; [reflexivity|]. cbn [wf_map_of] in *.
  destruct (dkey e) as [i|k] eqn:Ek; [discriminate|].
  apply andb_true_iff in H as [H H3]. apply andb_true_iff in H as [H1 H2]. rewrite H2, H3, !andb_true_r.
  specialize (Hp e k eq_refl Ek). destruct prev'; [exact Hp | reflexivity].
Qed.

Lemma wf_map_insert recb kv k dd : forall l prev r,
  wf_map_of recb kv prev l = true ->
  map_insert (DPatch (KS k) dd) l = Ok r ->
  match prev with None => True | Some p => str_ltb p k = true end ->
  match obj_get k kv with Some x => is_container x && negb (Nat.eqb (length dd) 0) && recb x dd | None => false end = true ->
  wf_map_of recb kv prev r = true.
Proof.
  induction l as [|x l IH]; intros prev r Hw Hi Hp Hc.
  - cbn [map_insert] in Hi. inversion Hi; subst r. cbn [wf_map_of dkey]. rewrite Hc.
    destruct prev; [rewrite Hp|]; reflexivity.
  - cbn [map_insert] in Hi. change (key_str (DPatch (KS k) dd)) with k in Hi.
    pose proof Hw as Hw0. cbn [wf_map_of] in Hw. destruct (dkey x) as [i|kx] eqn:Ex; [discriminate|].
    assert (Hkx : key_str x = kx) by (unfold key_str; rewrite Ex; reflexivity). rewrite Hkx in Hi.
    apply andb_true_iff in Hw as [Hw H3]. apply andb_true_iff in Hw as [H1 H2].
    destruct (str_cmp k kx) eqn:Ec; [discriminate| |].
    + inversion Hi; subst r. cbn [wf_map_of dkey]. rewrite Hc.
      replace (match prev with None => true | Some p => str_ltb p k end) with true by (destruct prev; [rewrite Hp|]; reflexivity).
      cbn [andb]. apply (wf_map_prev recb kv (x :: l) prev (Some k) Hw0).
      intros e k' He Hk'. inversion He; subst e. rewrite Ex in Hk'. inversion Hk'; subst k'.
      unfold str_ltb. rewrite Ec. reflexivity.
    + apply bind_ok in Hi as (r' & Hr' & Hi). inversion Hi; subst r. cbn [wf_map_of]. rewrite Ex, H1, H2. cbn [andb].
      apply (IH (Some kx) r' H3 Hr'); [|exact Hc].
      unfold str_ltb. rewrite str_cmp_antisym, Ec. reflexivity.
Qed.

Lemma find_entry_map_insert k0 dd k : forall l r,
  (forall e, In e l -> exists ke, dkey e = KS ke) ->
  map_insert (DPatch (KS k0) dd) l = Ok r ->
  find_entry k r = if str_eqb k k0 then Some (DPatch (KS k0) dd) else find_entry k l.
Proof.
  induction l as [|x l IH]; intros r Hks Hi; cbn [map_insert] in Hi.
  - inversion Hi; subst r. cbn [find_entry dkey]. reflexivity.
  - change (key_str (DPatch (KS k0) dd)) with k0 in Hi.
    destruct (Hks x (or_introl eq_refl)) as (kx & Ex).
    assert (Hkx : key_str x = kx) by (unfold key_str; rewrite Ex; reflexivity). rewrite Hkx in Hi.
    destruct (str_cmp k0 kx) eqn:Ec; [discriminate| |].
    + inversion Hi; subst r. cbn [find_entry dkey]. reflexivity.
    + apply bind_ok in Hi as (r' & Hr' & Hi). inversion Hi; subst r. cbn [find_entry]. rewrite Ex.
      rewrite (IH r' (fun e He => Hks e (or_intror He)) Hr').
      destruct (str_eqb k kx) eqn:E1; [|reflexivity].
      apply str_eqb_eq in E1.
      destruct (str_eqb k k0) eqn:E2; [|reflexivity].
      apply str_eqb_eq in E2. rewrite <- E1, <- E2 in Ec. rewrite (proj2 (str_cmp_eq k k) eq_refl) in Ec. discriminate.
Qed.

Lemma patch_obj_inv m kv d r : patch (S m) (JObj kv) d = Ok (JObj r) -> patch_dict (patch m) kv d = Ok r.
Proof. cbn [patch]. intros H. apply bind_ok in H as (r' & Hr & H). inversion H; subst. exact Hr. Qed.

Section ConjLift.
  Variables ka kb : list (pystr * json).
  Variables da db : json.
  Variables dd_conj dd : list dentry.
  Hypothesis Hwa : wfj (JObj ka) = true.
  Hypothesis Hwb : wfj (JObj kb) = true.
  Hypothesis Hda : obj_get s_data ka = Some da.
  Hypothesis Hdb : obj_get s_data kb = Some db.
  Let a_conj := filter (not_key s_data) ka.
  Let b_conj := filter (not_key s_data) kb.
  Hypothesis Hconj : Good (JObj a_conj) (JObj b_conj) dd_conj.
  Hypothesis Hdata : Good da db dd.

  Let Hwac : wfj (JObj a_conj) = true := wfj_filter _ _ Hwa.

  Lemma rec_spec m' kv : wfj (JObj kv) = true ->
    forall k x dd0, obj_get k kv = Some x -> wf_diff m' x dd0 = true -> patch m' x dd0 = Ok (spec_patch m' x dd0).
  Proof. intros Hw k x dd0 Hx Hwf. apply (patch_is_spec m' x dd0 (wfj_in_obj kv k x Hw Hx) Hwf m' (le_n _)). Qed.

  Lemma conj_wf f' : depth (JObj ka) <= f' -> wf_map_of (wf_diff f') a_conj None dd_conj = true.
  Proof.
    intros Hf. destruct Hconj as (_ & _ & _ & Hw). rewrite <- wf_diff_obj. apply Hw.
    pose proof (depth_filter_le (not_key s_data) ka). fold a_conj in H. lia.
  Qed.

  Lemma conj_patch m' : depth (JObj ka) <= m' -> patch_dict (patch m') a_conj dd_conj = Ok b_conj.
  Proof.
    intros Hm. destruct Hconj as (_ & _ & Hp & _). apply patch_obj_inv. apply Hp.
    pose proof (depth_filter_le (not_key s_data) ka). fold a_conj in H. lia.
  Qed.

  Lemma conj_meaning m' : depth (JObj ka) <= m' ->
    Forall (entry_spec_ok (patch m') (spec_patch m') a_conj) dd_conj /\ NoDup (dkeys dd_conj)
    /\ forall k, obj_get k b_conj = dmeaning (patch m') a_conj dd_conj k.
  Proof.
    intros Hm.
    destruct (wf_map_entries (wf_diff m') (patch m') (spec_patch m') a_conj (rec_spec m' a_conj Hwac) dd_conj None (conj_wf m' Hm))
      as (H1 & H2 & _).
    split; [exact H1|]. split; [exact H2|].
    assert (Hok : Forall (entry_ok (patch m') a_conj) dd_conj).
    { rewrite Forall_forall in *. intros e He. apply entry_spec_entry_ok with (sub := spec_patch m'). apply H1. exact He. }
    destruct (patch_dict_spec (patch m') a_conj dd_conj Hok H2) as (r & Hr & _ & Hget).
    rewrite (conj_patch m' Hm) in Hr. inversion Hr; subst r. exact Hget.
  Qed.

  Lemma conj_get_none : obj_get s_data a_conj = None /\ obj_get s_data b_conj = None.
  Proof. unfold a_conj, b_conj. rewrite !obj_get_filter, str_eqb_refl. split; reflexivity. Qed.

  (* no entry of the diff of the outputs-without-data is about "data" *)
  Lemma conj_keys : forall e, In e dd_conj -> exists ke, dkey e = KS ke /\ str_eqb ke s_data = false.
  Proof.
    destruct (conj_meaning _ (le_n _)) as (H1 & H2 & Hget). destruct conj_get_none as [Na Nb].
    rewrite Forall_forall in H1. intros e He.
    assert (Hks : exists ke, dkey e = KS ke).
    { specialize (H1 e He). destruct e as [[i|k] v|[i|k]|[i|k] v|[i|k] vs|[i|k] len|[i|k] dd0]; cbn in H1; try contradiction; eexists; reflexivity. }
    destruct Hks as (ke & Eke). exists ke. split; [exact Eke|].
    destruct (str_eqb ke s_data) eqn:E; [|reflexivity]. apply str_eqb_eq in E. subst ke. exfalso.
    assert (Hin : In s_data (dkeys dd_conj)).
    { unfold dkeys. apply in_map_iff. exists e. split; [unfold key_str; rewrite Eke; reflexivity | exact He]. }
    specialize (Hget s_data). rewrite Nb in Hget. unfold dmeaning in Hget.
    destruct (find_entry s_data dd_conj) as [e'|] eqn:Ef.
    - pose proof (find_entry_key _ _ _ Ef) as Hk'. pose proof (find_entry_in _ _ _ Ef) as Hin'.
      specialize (H1 e' Hin').
      destruct e' as [[i|k] v|[i|k]|[i|k] v|[i|k] vs|[i|k] len|[i|k] dd0]; cbn in H1; try contradiction;
        unfold key_str in Hk'; cbn [dkey] in Hk'; subst k; cbn [is_remove set_of] in Hget.
      + discriminate.
      + unfold obj_has in H1. rewrite Na in H1. discriminate.
      + unfold obj_has in H1. rewrite Na in H1. discriminate.
      + destruct H1 as (x & Hx & _). rewrite Na in Hx. discriminate.
    - revert Ef. clear - Hin H1 He Eke. intros Ef.
      assert (Hall : forall e0, In e0 dd_conj -> exists k0, dkey e0 = KS k0).
      { intros e0 H0. specialize (H1 e0 H0).
        destruct e0 as [[i|k] v|[i|k]|[i|k] v|[i|k] vs|[i|k] len|[i|k] dd0]; cbn in H1; try contradiction; eexists; reflexivity. }
      clear H1 Hin. induction dd_conj as [|x l IH]; [destruct He|].
      cbn [find_entry] in Ef. destruct (Hall x (or_introl eq_refl)) as (kx & Ex). rewrite Ex in Ef.
      destruct He as [->|He].
      + rewrite Eke in Ex. inversion Ex; subst kx. rewrite str_eqb_refl in Ef. discriminate.
      + destruct (str_eqb s_data kx); [discriminate|]. apply IH; auto. intros e0 H0. apply Hall. right. exact H0.
  Qed.

  Lemma conj_get_same e : In e dd_conj -> obj_get (key_str e) a_conj = obj_get (key_str e) ka.
  Proof.
    intros He. destruct (conj_keys e He) as (ke & Eke & Ene). unfold key_str. rewrite Eke.
    unfold a_conj. rewrite obj_get_filter, Ene. reflexivity.
  Qed.

  Lemma dmeaning_conj rec l k : str_eqb k s_data = false -> dmeaning rec ka l k = dmeaning rec a_conj l k.
  Proof.
    intros Ek. unfold dmeaning.
    assert (Hg : obj_get k a_conj = obj_get k ka) by (unfold a_conj; rewrite obj_get_filter, Ek; reflexivity).
    destruct (find_entry k l) as [e|] eqn:Ef; [|symmetry; exact Hg].
    pose proof (find_entry_key _ _ _ Ef) as Hk. destruct (is_remove e); [reflexivity|].
    destruct e as [[i|k'] v|[i|k']|[i|k'] v|[i|k'] vs|[i|k'] len|[i|k'] dd0]; cbn [set_of]; try reflexivity.
    unfold key_str in Hk. cbn [dkey] in Hk. subst k'. rewrite Hg. reflexivity.
  Qed.

  Variable d : list dentry.
  Hypothesis Hd : match dd with [] => Ok dd_conj | _ => map_insert (DPatch (KS s_data) dd) dd_conj end = Ok d.

  Lemma lift_wf f' : depth (JObj ka) <= f' -> wf_map_of (wf_diff f') ka None d = true.
  Proof.
    intros Hf.
    assert (Hl : wf_map_of (wf_diff f') ka None dd_conj = true).
    { apply (wf_map_lift (wf_diff f') ka a_conj dd_conj None); [exact conj_get_same | apply conj_wf; exact Hf]. }
    destruct dd as [|e0 dd'] eqn:Edd; [inversion Hd; subst d; exact Hl|].
    apply (wf_map_insert (wf_diff f') ka s_data (e0 :: dd') dd_conj None d Hl Hd I).
    rewrite Hda. destruct Hdata as (Hc & _ & _ & Hw). rewrite Hc. cbn [length Nat.eqb negb andb].
    apply Hw. pose proof (depth_in_obj _ _ _ Hda). lia.
  Qed.

  Lemma lift_patch m' : depth (JObj ka) <= m' -> patch_dict (patch m') ka d = Ok kb.
  Proof.
    intros Hm.
    destruct (wf_map_entries (wf_diff m') (patch m') (spec_patch m') ka (rec_spec m' ka Hwa) d None (lift_wf m' Hm))
      as (H1 & H2 & _).
    assert (Hok : Forall (entry_ok (patch m') ka) d).
    { rewrite Forall_forall in *. intros e He. apply entry_spec_entry_ok with (sub := spec_patch m'). apply H1. exact He. }
    destruct (patch_dict_spec (patch m') ka d Hok H2) as (r & Hr & Sr & Hget).
    rewrite Hr. f_equal. apply sorted_ext; [exact Sr | exact (wfj_obj_sorted _ Hwb) |].
    destruct (conj_meaning m' Hm) as (_ & _ & Hcget).
    intros k. rewrite Hget. destruct (str_eqb k s_data) eqn:Ek.
    - apply str_eqb_eq in Ek. subst k. rewrite Hdb. unfold dmeaning.
      destruct dd as [|e0 dd'] eqn:Edd.
      + inversion Hd; subst d.
        assert (Hnone : find_entry s_data dd_conj = None).
        { apply find_entry_notin. intros Hin. unfold dkeys in Hin. apply in_map_iff in Hin as (e & Hke & He).
          destruct (conj_keys e He) as (ke & Eke & Ene). unfold key_str in Hke. rewrite Eke in Hke. subst ke.
          rewrite str_eqb_refl in Ene. discriminate. }
        rewrite Hnone, Hda. f_equal. apply Good_nil; [exact (wfj_in_obj ka _ _ Hwa Hda) | exact Hdata].
      + rewrite (find_entry_map_insert s_data (e0 :: dd') s_data dd_conj d); [|intros e He; destruct (conj_keys e He) as (ke & Eke & _); exists ke; exact Eke | exact Hd].
        rewrite str_eqb_refl. cbn [is_remove set_of]. rewrite Hda.
        destruct Hdata as (_ & _ & Hp & _). rewrite Hp; [reflexivity|]. pose proof (depth_in_obj _ _ _ Hda). lia.
    - assert (Hfe : find_entry k d = find_entry k dd_conj).
      { destruct dd as [|e0 dd'] eqn:Edd; [inversion Hd; reflexivity|].
        rewrite (find_entry_map_insert s_data (e0 :: dd') k dd_conj d); [rewrite Ek; reflexivity | | exact Hd].
        intros e He; destruct (conj_keys e He) as (ke & Eke & _); exists ke; exact Eke. }
      transitivity (dmeaning (patch m') ka dd_conj k); [unfold dmeaning; rewrite Hfe; reflexivity|].
      rewrite (dmeaning_conj _ _ _ Ek), <- Hcget. unfold b_conj. rewrite obj_get_filter, Ek. reflexivity.
  Qed.

  Theorem conj_lift : Good (JObj ka) (JObj kb) d.
  Proof.
    split; [reflexivity|]. split; [reflexivity|]. split.
    - intros m Hm. destruct m as [|m']; [lia|]. cbn [patch]. rewrite (lift_patch m' ltac:(lia)). reflexivity.
    - intros f Hf. destruct f as [|f']; [lia|]. rewrite wf_diff_obj. apply lift_wf. lia.
  Qed.
End ConjLift.
