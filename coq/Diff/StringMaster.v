(* diff_strings_linewise followed by patch_string reproduces the target string (the string part of
   C02), and the line diff is well-formed (C11), for every similarity heuristic and every valid
   difflib edit script. *)
From Coq Require Import List NArith ZArith Bool Lia.
From NB Require Import Base.Res Base.Json Base.PyStr Diff.DiffFormat Diff.Patch Diff.Lcs Diff.GenericDiff
     Diff.Wf Diff.PatchProofs Diff.SeqProofs Diff.LoopProofs Diff.SnakesProofs Diff.WfProofs Diff.StringProofs.
Import ListNotations.

(* ---------- from validity of snakes to the hypotheses of the producer lemmas ---------- *)
Lemma vsn_of_fv (A B : list json) (P : nat -> nat -> Prop) : forall l lo_i lo_j,
  fv P lo_i lo_j l (length A) (length B) ->
  vsn A B lo_i lo_j (l ++ [(length A, length B, 0)])
  /\ (forall i j n, In (i, j, n) (l ++ [(length A, length B, 0)]) ->
        i + n <= length A /\ j + n <= length B /\ forall k, k < n -> P (i + k) (j + k)).
Proof.
  induction l as [|[[i j] n] l IH]; intros lo_i lo_j Hf.
  - simpl in Hf. split; [constructor; lia|]. intros i j n [E|[]]. inversion E; subst. repeat split; try lia; intros; lia.
  - simpl in Hf. destruct Hf as (H1 & H2 & H3 & H4 & H5).
    destruct (IH _ _ H5) as [V Hall]. pose proof (fv_lo_le_hi _ _ _ _ _ _ H5) as [B1 B2].
    split; [cbn [app]; constructor; auto; lia|].
    intros i' j' n' [E|Hin]; [inversion E; subst; repeat split; auto; lia | apply Hall; exact Hin].
Qed.

Lemma chars_inj s t : chars s = chars t -> s = t.
Proof.
  unfold chars. revert t. induction s as [|c s IH]; intros [|d t] H; simpl in *; try discriminate; [reflexivity|].
  inversion H; subst. f_equal. apply IH. assumption.
Qed.

Section FlattenSound.
  Variable rec_c : json -> diff -> res json.
  Variable lines : list (list N).
  Hypothesis Hne : Forall (fun l : list N => l <> []) lines.

  Theorem flatten_sound d (lb : list (list N)) :
    wf_lines lines d = true ->
    patch_list (line_rec rec_c) (map JStr lines) d = Ok (map JStr lb) ->
    exists fd, flatten lines d = Ok fd
               /\ patch_list rec_c (chars (concat lines)) fd = Ok (chars (concat lb)).
  Proof.
    intros Hwf Hline. unfold wf_lines in Hwf.
    destruct (swf_st_of_swf _ _ _ d 0 true Hwf) as ([t' a'] & Hst).
    destruct (flatten_line_sim rec_c lines Hne d 0 true t' a' [] 0 0 [] Hst)
      as (accL' & ch & tc' & accC' & H1 & H2 & H3 & H4 & H5 & H6 & H7 & H8); try (cbn; lia).
    { reflexivity. }
    destruct (combine_go_ok rec_c (chars (concat lines)) ch [] 0 H7) as (comb & Hc & Hgc & Hp).
    exists comb. split.
    - unfold flatten. rewrite H2. cbn [bind]. rewrite Hc. cbn [bind]. rewrite (sort_sorted comb 0 Hgc). reflexivity.
    - unfold patch_list in *. rewrite go_pst in *. rewrite Hp. cbn [rev app]. rewrite H3. cbn [bind fst snd].
      rewrite H1 in Hline. cbn [bind fst snd] in Hline. inversion Hline as [Hl].
      f_equal.
      assert (Hrest : skipn tc' (chars (concat lines)) =
                      slice (chars (concat lines)) tc' (offk lines t') ++ chars (concat (skipn t' lines))).
      { rewrite <- slice_to_end. rewrite chars_length.
        rewrite <- (slice_app _ tc' (offk lines t') (length (concat lines))); [|exact H5|].
        - f_equal. rewrite <- (offk_all lines). rewrite slice_chars. unfold pystr in *. rewrite (slice_offsets lines t' (length lines) H4 (le_n _)).
          rewrite slice_to_end. reflexivity.
        - rewrite <- (offk_all lines). apply offk_mono. exact H4. }
      rewrite Hrest, app_assoc, H6.
      rewrite <- chars_app. f_equal.
      rewrite <- (concat_strs_JStr lb), <- Hl, concat_strs_app, skipn_map, concat_strs_JStr. reflexivity.
  Qed.
End FlattenSound.

(* ---------- the string round trip ---------- *)
Section Strings.
  Variable O : oracles.
  Variable cfg : config.
  Hypothesis Hops : opcodes_valid O.

  Definition line_diffit (x y : json) : res (list dentry) :=
    match x, y with
    | JStr u, JStr v => Ok (diff_strings_by_char O u v)
    | _, _ => Err AssertionError
    end.

  Lemma diff_strings_linewise_unfold n s t :
    diff_strings_linewise O cfg (S n) s t =
    if str_eqb s t then Ok [] else
    let la := map JStr (splitlines s) in
    let lb := map JStr (splitlines t) in
    do snakes <- snakes_multilevel [eval_pred O PSim; eval_pred O PEq] la lb 1 (0, 0, length la, length lb);
    diff_from_snakes line_diffit la lb (snakes ++ [(length la, length lb, 0)]) 0 0 [].
  Proof. reflexivity. Qed.

  Lemma char_diff_ok rec_c u v :
    exists cd, diff_strings_by_char O u v = cd
               /\ (cd = [] -> u = v)
               /\ patch_list rec_c (chars u) cd = Ok (chars v)
               /\ (cd <> [] -> wf_chars (length u) cd = true).
  Proof.
    unfold diff_strings_by_char. destruct (str_eqb u v) eqn:E.
    - apply str_eqb_eq in E. subst. exists []. repeat split; auto; congruence.
    - assert (Hneq : u <> v) by (intros ->; rewrite str_eqb_refl in E; discriminate).
      destruct (opcodes_to_diff_ok rec_c u v (o_opcodes O u v) 0 0 true [] (Hops u v Hneq)) as (d & Hd & Hp & Hw).
      + exists 0, []. split; [reflexivity | apply Rec_init].
      + exists 0, true. split; [reflexivity | lia].
      + intros _. apply Wfb_init.
      + exists d. split; [exact Hd|]. split; [|split; [exact Hp | intros _; exact Hw]].
        intros ->. cbn in Hp. inversion Hp as [Hc]. apply chars_inj. exact Hc.
  Qed.

  Theorem string_roundtrip : forall n m s t, 0 < n -> 1 < m ->
    exists d, diff_strings_linewise O cfg n s t = Ok d
              /\ patch m (JStr s) d = Ok (JStr t)
              /\ wf_lines (splitlines s) d = true.
  Proof.
    intros n m s t Hn Hm. destruct n as [|n']; [lia|]. destruct m as [|m']; [lia|].
    rewrite diff_strings_linewise_unfold. destruct (str_eqb s t) eqn:E.
    - apply str_eqb_eq in E. subst t. exists []. split; [reflexivity|]. split; [|reflexivity].
      cbn [patch flatten flatten_entries bind combine_go rev sort_by_key fold_left].
      unfold patch_list. cbn [patch_list_go app skipn bind]. rewrite join_chars'. reflexivity.
    - cbv zeta. set (ls := splitlines s). set (lt := splitlines t).
      set (la := map JStr ls). set (lb := map JStr lt).
      destruct (snakes_multilevel_ok [eval_pred O PSim; eval_pred O PEq] la lb 1 0 0 (length la) (length lb))
        as (snakes & Hs & Hfv); try lia.
      rewrite Hs. cbn [bind].
      destruct (vsn_of_fv la lb _ snakes 0 0 Hfv) as [Hv Hall].
      set (rec_c := patch m').
      (* every paired couple of lines: a correct, well-formed character diff *)
      assert (Hpair : forall i j n, In (i, j, n) (snakes ++ [(length la, length lb, 0)]) ->
                pairs_ok (line_rec rec_c) line_diffit la lb i j n
                /\ pairs_wf la lb (line_patch_ok ls) line_diffit i j n).
      { intros i j n Hin. destruct (Hall i j n Hin) as (Bi & Bj & _). split.
        - intros k Hk.
          destruct (nth_error la (i + k)) as [x|] eqn:Ex; [|apply nth_error_None in Ex; lia].
          destruct (nth_error lb (j + k)) as [y|] eqn:Ey; [|apply nth_error_None in Ey; lia].
          exists x, y. split; [reflexivity|]. split; [reflexivity|].
          unfold la in Ex. unfold lb in Ey. rewrite nth_error_map in Ex, Ey.
          destruct (nth_error ls (i + k)) as [u|]; [|discriminate]. destruct (nth_error lt (j + k)) as [v|]; [|discriminate].
          cbn in Ex, Ey. inversion Ex; inversion Ey; subst x y.
          destruct (char_diff_ok rec_c u v) as (cd & Hcd & Hnil & Hp & _).
          exists cd. split; [cbn [line_diffit]; rewrite Hcd; reflexivity|].
          destruct cd as [|c cd']; [rewrite (Hnil eq_refl); reflexivity|].
          cbn [line_rec]. rewrite Hp. cbn [bind]. rewrite join_chars'. reflexivity.
        - intros k x y cd Hk Ex Ey Hd Hne.
          unfold la in Ex. unfold lb in Ey. rewrite nth_error_map in Ex, Ey.
          destruct (nth_error ls (i + k)) as [u|] eqn:Eu; [|discriminate]. destruct (nth_error lt (j + k)) as [v|]; [|discriminate].
          cbn in Ex, Ey. inversion Ex; inversion Ey; subst x y.
          destruct (char_diff_ok rec_c u v) as (cd' & Hcd & _ & _ & Hw).
          cbn [line_diffit] in Hd. inversion Hd; subst cd. rewrite Hcd in *.
          unfold line_patch_ok. unfold pystr in *. rewrite Eu. rewrite (Hw Hne).
          destruct cd'; [congruence | reflexivity]. }
      destruct (diff_from_snakes_ok (line_rec rec_c) line_diffit la lb _ 0 0 [] Hv) as (d & Hd & Hp).
      + intros i j n Hin. apply (Hpair i j n Hin).
      + exists 0, []. split; [reflexivity | apply Rec_init].
      + constructor.
      + exists d. split; [exact Hd|].
        assert (Hwf : wf_lines ls d = true).
        { unfold wf_lines.
          replace (length ls) with (length la) by (unfold la; apply map_length).
          apply (diff_from_snakes_wf la lb vl_is_lines (line_patch_ok ls)) with (diffit := line_diffit)
            (snakes := snakes ++ [(length la, length lb, 0)]) (i0 := 0) (j0 := 0) (di := []); auto.
          - intros y j. cbn [vl_is_lines]. unfold lb. rewrite slice_map. unfold all_strs. rewrite forallb_forall.
            intros x Hx. apply in_map_iff in Hx as (w & <- & _). reflexivity.
          - intros i j n Hin. apply (Hpair i j n Hin).
          - apply Wfb_init. }
        split; [|exact Hwf].
        assert (Hnels : Forall (fun l : list N => l <> []) ls) by apply splitlines_nonempty.
        destruct (flatten_sound rec_c ls Hnels d lt Hwf Hp) as (fd & Hfd & Hpc).
        cbn [patch]. fold ls. rewrite Hfd. cbn [bind].
        unfold ls in Hpc. rewrite splitlines_concat in Hpc. fold rec_c. rewrite Hpc. cbn [bind].
        unfold lt. rewrite splitlines_concat, join_chars'. reflexivity.
  Qed.
End Strings.
