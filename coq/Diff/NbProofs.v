(* The notebook differ (generic.diff with the notebook tables: multilevel cell / output alignment,
   source lines, mime bundles, attachments, single outputs): WHENEVER it returns a diff, patching the
   base with it gives exactly the target, and the diff is well-formed (C01 / C11), for every
   similarity heuristic. *)
From Coq Require Import List NArith ZArith Bool Lia.
From NB Require Import Base.Res Base.Json Base.PyStr Diff.DiffFormat Diff.Patch Diff.Lcs Diff.GenericDiff
     Diff.Wf Diff.PatchProofs Diff.SeqProofs Diff.LoopProofs Diff.LcsProofs Diff.SnakesProofs Diff.DictProofs
     Diff.WfProofs Diff.DictWf Diff.StringProofs Diff.StringMaster Diff.MasterProofs Diff.NbPartial Diff.NbGood Diff.NbOutputs.
Import ListNotations.

(* ---------- the configured differ ---------- *)
Definition df_ok (d : differ) : bool :=
  match d with DfDiff | DfStringLines | DfSeqMultilevel | DfSingleOutputs | DfAttachments => true | _ => false end.
Definition preds_ok (l : list pred) : bool :=
  match l with [PStrictEq] => true | [_] => false | _ => true end.
(* what the proof needs of the tables: strict value comparisons; a lone predicate is strict equality;
   no ignoring differs (they drop changes on purpose); no character differ at table level *)
Definition cfg_ok (cfg : config) : bool :=
  c_dict_strict cfg && c_mime_strict cfg
  && match c_generic_pred cfg with PStrictEq :: _ => true | _ => false end
  && preds_ok (c_pred_default cfg) && forallb (fun p => preds_ok (snd p)) (c_predicates cfg)
  && df_ok (c_differ_default cfg) && forallb (fun p => df_ok (snd p)) (c_differs cfg).

Lemma assoc_in {T} k (l : list (pystr * T)) v : assoc k l = Some v -> exists k', In (k', v) l.
Proof.
  induction l as [|[k0 v0] l IH]; cbn [assoc]; [discriminate|].
  destruct (str_eqb k k0); [intros E; inversion E; subst; exists k0; left; reflexivity|].
  intros H. destruct (IH H) as (k' & Hin). exists k'. right. exact Hin.
Qed.

Section Nb.
  Variable O : oracles.
  Variable cfg : config.
  Hypothesis Hops : opcodes_valid O.
  Hypothesis Hcfg : cfg_ok cfg = true.

  Lemma cfg_dict_strict : c_dict_strict cfg = true.
  Proof. unfold cfg_ok in Hcfg. repeat (apply andb_true_iff in Hcfg as [Hcfg ?]). assumption. Qed.
  Lemma cfg_mime_strict : c_mime_strict cfg = true.
  Proof. unfold cfg_ok in Hcfg. repeat (apply andb_true_iff in Hcfg as [Hcfg ?]). assumption. Qed.
  Lemma cfg_generic_pred : hd PEq (c_generic_pred cfg) = PStrictEq.
  Proof.
    unfold cfg_ok in Hcfg. repeat (apply andb_true_iff in Hcfg as [Hcfg ?]).
    destruct (c_generic_pred cfg) as [|[] ?]; try discriminate. reflexivity.
  Qed.
  Lemma cfg_preds path : preds_ok (get_predicates cfg path) = true.
  Proof.
    unfold cfg_ok in Hcfg. repeat (apply andb_true_iff in Hcfg as [Hcfg ?]).
    unfold get_predicates. destruct (assoc path (c_predicates cfg)) as [p|] eqn:E; [|assumption].
    destruct (assoc_in _ _ _ E) as (k' & Hin).
    match goal with H : forallb _ (c_predicates cfg) = true |- _ => rewrite forallb_forall in H; exact (H _ Hin) end.
  Qed.
  Lemma cfg_differ path : df_ok (get_differ cfg path) = true.
  Proof.
    unfold cfg_ok in Hcfg. repeat (apply andb_true_iff in Hcfg as [Hcfg ?]).
    unfold get_differ. destruct (assoc path (c_differs cfg)) as [p|] eqn:E; [|assumption].
    destruct (assoc_in _ _ _ E) as (k' & Hin).
    match goal with H : forallb _ (c_differs cfg) = true |- _ => rewrite forallb_forall in H; exact (H _ Hin) end.
  Qed.

  Lemma Hstr : forall n m s t, 0 < n -> 1 < m ->
    exists d, diff_strings_linewise O cfg n s t = Ok d /\ patch m (JStr s) d = Ok (JStr t)
              /\ wf_lines (splitlines s) d = true.
  Proof. exact (string_roundtrip O cfg Hops). Qed.

  (* lists of lines given to diff_string_lines hold strings (what Python's == on them decides exactly) *)
  Definition kids (f : pystr -> json -> bool) (path : pystr) (a : json) : bool :=
    match a with
    | JArr l => forallb (f (subpath path star)) l
    | JObj kv => forallb (fun p => f (subpath path (fst p)) (snd p)) kv
    | _ => true
    end.
  Fixpoint lines_ok (path : pystr) (a : json) {struct a} : bool :=
    match get_differ cfg path, a with DfStringLines, JArr l => all_strs l | _, _ => true end
    && match a with
       | JArr l => forallb (lines_ok (subpath path star)) l
       | JObj kv => forallb (fun p => lines_ok (subpath path (fst p)) (snd p)) kv
                    && match get_differ cfg path with
                       | DfSingleOutputs => forallb (fun p => lines_ok (subpath [] (fst p)) (snd p)) kv
                       | _ => true end
       | _ => true
       end.

  Lemma lines_ok_kids path a : lines_ok path a = true -> kids lines_ok path a = true.
  Proof.
    destruct a; cbn [lines_ok kids]; intros H; try reflexivity.
    - apply andb_true_iff in H as [_ H]. exact H.
    - apply andb_true_iff in H as [_ H]. apply andb_true_iff in H as [H _]. exact H.
  Qed.

  Definition P_run n := forall path a b d, wfj a = true -> wfj b = true -> lines_ok path a = true ->
    run O cfg n (get_differ cfg path) path a b = Ok d -> Good a b d.
  Definition P_diff n := forall path a b d, wfj a = true -> wfj b = true -> kids lines_ok path a = true ->
    diff_ O cfg n path a b = Ok d -> Good a b d.
  Definition P_default n := forall a b d, wfj a = true -> wfj b = true ->
    diff_default O cfg n a b = Ok d -> Good a b d.
  Definition P_lists n := forall path l m d, wfj (JArr l) = true -> wfj (JArr m) = true ->
    kids lines_ok path (JArr l) = true -> diff_lists O cfg n path l m = Ok d -> Good (JArr l) (JArr m) d.
  Definition P_lists_default n := forall l m d, wfj (JArr l) = true -> wfj (JArr m) = true ->
    diff_lists_default O cfg n l m = Ok d -> Good (JArr l) (JArr m) d.
  Definition P_multi n := forall path l m d, wfj (JArr l) = true -> wfj (JArr m) = true ->
    kids lines_ok path (JArr l) = true -> diff_sequence_multilevel O cfg n path l m = Ok d -> Good (JArr l) (JArr m) d.
  Definition P_dicts n := forall path ka kb d, wfj (JObj ka) = true -> wfj (JObj kb) = true ->
    kids lines_ok path (JObj ka) = true -> diff_dicts O cfg n path ka kb = Ok d -> Good (JObj ka) (JObj kb) d.
  Definition P_mime n := forall a b d, wfj a = true -> wfj b = true ->
    diff_mime_bundle O cfg n a b = Ok d -> Good a b d.
  Definition P n := P_run n /\ P_diff n /\ P_default n /\ P_lists n /\ P_lists_default n /\ P_multi n
                    /\ P_dicts n /\ P_mime n.

  Lemma Good_str n s t d : diff_strings_linewise O cfg n s t = Ok d -> Good (JStr s) (JStr t) d.
  Proof.
    intros Hd. assert (Hn : 0 < n) by (destruct n; [discriminate | lia]).
    split; [reflexivity|]. split; [reflexivity|]. split.
    - intros m Hm. cbn [depth] in Hm. destruct (Hstr n m s t Hn ltac:(lia)) as (d' & Hd' & Hp & _). congruence.
    - intros f Hf. cbn [depth] in Hf. destruct f as [|f']; [lia|]. cbn [wf_diff].
      destruct (Hstr n 3 s t Hn ltac:(lia)) as (d' & Hd' & _ & Hw). congruence.
  Qed.

  (* ---------- one-step unfoldings ---------- *)
  Definition oc_default n : ocdiff := fun k va vb =>
    if kind_eqb (kind_of va) (kind_of vb) && is_container va then
      do dd <- diff_default O cfg n va vb;
      match dd with [] => Ok [] | _ => Ok [DPatch (KS k) dd] end
    else if value_eqb (c_dict_strict cfg) va vb then Ok [] else Ok [DReplace (KS k) vb].

  Lemma U_default n a b : diff_default O cfg (S n) a b =
    match a, b with
    | JArr l, JArr m => diff_lists_default O cfg n l m
    | JObj ka, JObj kb => dict_diff (oc_default n) ka kb
    | JStr s, JStr t => diff_strings_linewise O cfg n s t
    | _, _ => Err RuntimeError
    end.
  Proof. reflexivity. Qed.

  Lemma U_lists_default n a b : diff_lists_default O cfg (S n) a b =
    do shallow <- diff_sequence_bruteforce (eval_pred O (hd PEq (c_generic_pred cfg))) a b;
    diff_lists_loop (fun x y => if is_container x then diff_default O cfg n x y else Ok []) a b shallow 0 0 [].
  Proof. reflexivity. Qed.

  Lemma U_diff n path a b : diff_ O cfg (S n) path a b =
    match a, b with
    | JArr l, JArr m => diff_lists O cfg n path l m
    | JObj ka, JObj kb => diff_dicts O cfg n path ka kb
    | JStr s, JStr t => diff_strings_linewise O cfg n s t
    | _, _ => Err RuntimeError
    end.
  Proof. reflexivity. Qed.

  Lemma U_lists n path a b : diff_lists O cfg (S n) path a b =
    match get_predicates cfg (path_or_root path) with
    | [] => Err IndexError
    | [c0] =>
        do shallow <- diff_sequence_bruteforce (eval_pred O c0) a b;
        let sp := subpath path star in
        diff_lists_loop (fun x y => if is_atomic cfg x sp then Ok [] else run O cfg n (get_differ cfg sp) sp x y)
                        a b shallow 0 0 []
    | _ => diff_sequence_multilevel O cfg n path a b
    end.
  Proof. reflexivity. Qed.

  Lemma U_multi n path a b : diff_sequence_multilevel O cfg (S n) path a b =
    let compares := get_predicates cfg (path_or_root path) in
    match compares with
    | [] => Err IndexError
    | _ =>
      do snakes <- snakes_multilevel (map (eval_pred O) compares) a b (length compares - 1) (0, 0, length a, length b);
      let sp := subpath path star in
      diff_from_snakes (fun x y => run O cfg n (get_differ cfg sp) sp x y) a b
                       (snakes ++ [(length a, length b, 0)]) 0 0 []
    end.
  Proof. reflexivity. Qed.

  Definition oc_dicts n path : ocdiff := fun k va vb =>
    let sp := subpath path k in
    if kind_eqb (kind_of va) (kind_of vb) && negb (is_atomic cfg va sp) then
      do dd <- run O cfg n (get_differ cfg sp) sp va vb;
      match dd with [] => Ok [] | _ => Ok [DPatch (KS k) dd] end
    else if existsb (str_eqb (path_or_root path)) (c_pred_keys cfg) then Err RuntimeError
    else if value_eqb (c_dict_strict cfg) va vb then Ok [] else Ok [DReplace (KS k) vb].

  Lemma U_dicts n path a b : diff_dicts O cfg (S n) path a b = dict_diff (oc_dicts n path) a b.
  Proof. reflexivity. Qed.

  Definition oc_mime n : ocdiff := fun k va vb =>
    let mimetype := lower k in
    match va, vb with
    | JStr s, JStr t => if str_eqb s t then Ok [] else
        if existsb (fun tm => starts_with tm mimetype) (c_split_mimes cfg) then
          do dd <- diff_default O cfg n va vb;
          match dd with [] => Ok [] | _ => Ok [DPatch (KS k) dd] end
        else Ok [DReplace (KS k) vb]
    | _, _ =>
        if existsb (fun tm => starts_with tm mimetype) (c_split_mimes cfg)
           && (negb (c_mime_guard cfg) || (kind_eqb (kind_of va) (kind_of vb) && is_container va)) then
          do dd <- diff_default O cfg n va vb;
          match dd with [] => Ok [] | _ => Ok [DPatch (KS k) dd] end
        else if value_eqb (c_mime_strict cfg) va vb then Ok [] else Ok [DReplace (KS k) vb]
    end.

  Lemma U_mime n a b : diff_mime_bundle O cfg (S n) a b =
    match a, b with
    | JObj ka, JObj kb => dict_diff (oc_mime n) ka kb
    | _, _ => Err TypeError
    end.
  Proof. reflexivity. Qed.

  (* a sub-diff wrapped as the entries for a common key *)
  Lemma wrap_good k va vb dd es :
    wfj va = true -> Good va vb dd ->
    match dd with [] => Ok [] | _ => Ok [DPatch (KS k) dd] end = Ok es ->
    (es = [] /\ va = vb) \/ (exists dd0, es = [DPatch (KS k) dd0] /\ dd0 <> [] /\ Good va vb dd0)
    \/ es = [DReplace (KS k) vb].
  Proof.
    intros Hw Hg Hes. destruct dd as [|e dd'].
    - inversion Hes. left. split; [reflexivity | apply Good_nil; assumption].
    - inversion Hes. right. left. eexists. split; [reflexivity|]. split; [discriminate | exact Hg].
  Qed.

  Lemma strict_good k va vb es :
    (if json_eqb va vb then Ok [] else Ok [DReplace (KS k) vb]) = Ok es ->
    (es = [] /\ va = vb) \/ (exists dd0, es = [DPatch (KS k) dd0] /\ dd0 <> [] /\ Good va vb dd0)
    \/ es = [DReplace (KS k) vb].
  Proof.
    destruct (json_eqb va vb) eqn:E; intros H; inversion H.
    - left. split; [reflexivity | apply json_eqb_eq; exact E].
    - right. right. reflexivity.
  Qed.

  Lemma step_default n : P n -> P_default (S n).
  Proof.
    intros (_ & _ & HPd & _ & HPld & _) a b d Hwa Hwb Hd. rewrite U_default in Hd.
    destruct a as [| | | |s|l|ka]; try discriminate; destruct b as [| | | |t|m0|kb]; try discriminate.
    - eapply Good_str. exact Hd.
    - apply HPld; assumption.
    - apply (dict_good (oc_default n)); auto.
      intros k va vb es Hva Hvb Hes. unfold oc_default in Hes.
      pose proof (wfj_in_obj ka k va Hwa Hva) as Hwva. pose proof (wfj_in_obj kb k vb Hwb Hvb) as Hwvb.
      destruct (kind_eqb (kind_of va) (kind_of vb) && is_container va).
      + apply bind_ok in Hes as (dd & Hdd & Hes). eapply wrap_good; eauto.
      + rewrite cfg_dict_strict in Hes. apply strict_good. exact Hes.
  Qed.

  Lemma step_lists_default n : P n -> P_lists_default (S n).
  Proof.
    intros (_ & _ & HPd & _) l m0 d Hwa Hwb Hd. rewrite U_lists_default, cfg_generic_pred in Hd.
    change (eval_pred O PStrictEq) with json_eqb in Hd.
    eapply seq_loop_good; [ | exact Hd].
    intros x y cd Hx Hy Hcd Hne. cbv beta in Hcd. revert Hcd. destruct (is_container x); intros Hcd; [|inversion Hcd; congruence].
    apply HPd; [exact (wfj_in_arr l x Hwa Hx) | exact (wfj_in_arr m0 y Hwb Hy) | exact Hcd].
  Qed.

  Lemma step_diff n : P n -> P_diff (S n).
  Proof.
    intros (_ & _ & _ & HPl & _ & _ & HPdi & _) path a b d Hwa Hwb Hk Hd. rewrite U_diff in Hd.
    destruct a as [| | | |s|l|ka]; try discriminate; destruct b as [| | | |t|m0|kb]; try discriminate.
    - eapply Good_str. exact Hd.
    - eapply HPl; eassumption.
    - eapply HPdi; eassumption.
  Qed.

  Lemma kids_arr path l x : kids lines_ok path (JArr l) = true -> In x l -> lines_ok (subpath path star) x = true.
  Proof. cbn [kids]. rewrite forallb_forall. auto. Qed.

  Lemma obj_get_In k kv v : obj_get k kv = Some v -> In (k, v) kv.
  Proof.
    induction kv as [|[k' v'] kv IH]; cbn [obj_get]; [discriminate|].
    destruct (str_eqb k k') eqn:E; [apply str_eqb_eq in E; subst; intros H; inversion H; left; reflexivity|].
    intros H. right. apply IH. exact H.
  Qed.

  Lemma kids_obj path kv k v : kids lines_ok path (JObj kv) = true -> obj_get k kv = Some v ->
    lines_ok (subpath path k) v = true.
  Proof. cbn [kids]. rewrite forallb_forall. intros H Hg. exact (H (k, v) (obj_get_In _ _ _ Hg)). Qed.

  Lemma step_lists n : P n -> P_lists (S n).
  Proof.
    intros (HPr & _ & _ & _ & _ & HPm & _) path l m0 d Hwa Hwb Hk Hd. rewrite U_lists in Hd.
    pose proof (cfg_preds (path_or_root path)) as Hp.
    destruct (get_predicates cfg (path_or_root path)) as [|c0 [|c1 rest]] eqn:Ep; [discriminate| |].
    - destruct c0; try discriminate. change (eval_pred O PStrictEq) with json_eqb in Hd. cbv zeta in Hd.
      eapply seq_loop_good; [ | exact Hd].
      intros x y cd Hx Hy Hcd Hne. cbv beta in Hcd. revert Hcd. destruct (is_atomic cfg x (subpath path star)); intros Hcd; [inversion Hcd; congruence|].
      eapply HPr; [exact (wfj_in_arr l x Hwa Hx) | exact (wfj_in_arr m0 y Hwb Hy) | | exact Hcd].
      eapply kids_arr; eassumption.
    - eapply HPm; eassumption.
  Qed.

  Lemma step_multi n : P n -> P_multi (S n).
  Proof.
    intros (HPr & _) path l m0 d Hwa Hwb Hk Hd. rewrite U_multi in Hd. cbv zeta in Hd.
    destruct (get_predicates cfg (path_or_root path)) as [|c0 rest] eqn:Ep; [discriminate|].
    set (compares := c0 :: rest) in *.
    destruct (snakes_multilevel_ok (map (eval_pred O) compares) l m0 (length compares - 1) 0 0 (length l) (length m0))
      as (s & Hs & Hfv); try lia.
    rewrite Hs in Hd. cbn [bind] in Hd.
    destruct (vsn_of_fv l m0 _ s 0 0 Hfv) as [Hv _].
    assert (Hsd : forall x y cd, In x l -> In y m0 ->
              run O cfg n (get_differ cfg (subpath path star)) (subpath path star) x y = Ok cd -> Good x y cd).
    { intros x y cd Hx Hy Hcd.
      eapply HPr; [exact (wfj_in_arr l x Hwa Hx) | exact (wfj_in_arr m0 y Hwb Hy) | | exact Hcd].
      eapply kids_arr; eassumption. }
    eapply seq_snakes_good; [ | | exact Hv | exact Hd].
    - intros x y cd Hx Hy Hcd _. eapply Hsd; eassumption.
    - intros x y Hx Hy Hcd. apply Good_nil; [exact (wfj_in_arr l x Hwa Hx) | eapply Hsd; eassumption].
  Qed.

  Lemma step_dicts n : P n -> P_dicts (S n).
  Proof.
    intros (HPr & _) path ka kb d Hwa Hwb Hk Hd. rewrite U_dicts in Hd.
    apply (dict_good (oc_dicts n path)); auto.
    intros k va vb es Hva Hvb Hes. unfold oc_dicts in Hes. cbv zeta in Hes.
    pose proof (wfj_in_obj ka k va Hwa Hva) as Hwva. pose proof (wfj_in_obj kb k vb Hwb Hvb) as Hwvb.
    destruct (kind_eqb (kind_of va) (kind_of vb) && negb (is_atomic cfg va (subpath path k))).
    - apply bind_ok in Hes as (dd & Hdd & Hes). eapply wrap_good; eauto.
      eapply HPr; [exact Hwva | exact Hwvb | | exact Hdd]. eapply kids_obj; eassumption.
    - destruct (existsb _ (c_pred_keys cfg)); [discriminate|].
      rewrite cfg_dict_strict in Hes. apply strict_good. exact Hes.
  Qed.

  Lemma step_mime n : P n -> P_mime (S n).
  Proof.
    intros (_ & _ & HPd & _) a b d Hwa Hwb Hd. rewrite U_mime in Hd.
    destruct a as [| | | |s|l|ka]; try discriminate; destruct b as [| | | |t|m0|kb]; try discriminate.
    apply (dict_good (oc_mime n)); auto.
    intros k va vb es Hva Hvb Hes. unfold oc_mime in Hes. cbv zeta in Hes.
    pose proof (wfj_in_obj ka k va Hwa Hva) as Hwva. pose proof (wfj_in_obj kb k vb Hwb Hvb) as Hwvb.
    assert (Hsub : forall es', (do dd <- diff_default O cfg n va vb;
                               match dd with [] => Ok [] | _ => Ok [DPatch (KS k) dd] end) = Ok es' ->
              (es' = [] /\ va = vb) \/ (exists dd0, es' = [DPatch (KS k) dd0] /\ dd0 <> [] /\ Good va vb dd0)
              \/ es' = [DReplace (KS k) vb]).
    { intros es' H. apply bind_ok in H as (dd & Hdd & H). eapply wrap_good; eauto. }
    assert (Hother : (if existsb (fun tm => starts_with tm (lower k)) (c_split_mimes cfg)
                         && (negb (c_mime_guard cfg) || (kind_eqb (kind_of va) (kind_of vb) && is_container va))
                      then (do dd <- diff_default O cfg n va vb;
                            match dd with [] => Ok [] | _ => Ok [DPatch (KS k) dd] end)
                      else if value_eqb (c_mime_strict cfg) va vb then Ok [] else Ok [DReplace (KS k) vb]) = Ok es ->
              (es = [] /\ va = vb) \/ (exists dd0, es = [DPatch (KS k) dd0] /\ dd0 <> [] /\ Good va vb dd0)
              \/ es = [DReplace (KS k) vb]).
    { intros H. destruct (_ && _); [apply Hsub; exact H|]. rewrite cfg_mime_strict in H. apply strict_good. exact H. }
    destruct va; try (apply Hother; exact Hes). destruct vb; try (apply Hother; exact Hes).
    destruct (str_eqb s s0) eqn:E.
    - inversion Hes. left. split; [reflexivity|]. apply str_eqb_eq in E. subst. reflexivity.
    - destruct (existsb _ (c_split_mimes cfg)); [apply Hsub; exact Hes|].
      inversion Hes. right. right. reflexivity.
  Qed.

  (* ---------- run ---------- *)
  Definition single_outputs_body n path (a b : json) : res (list dentry) :=
    match a, b with
    | JObj ka, JObj kb =>
        match obj_get s_output_type ka, obj_get s_output_type kb with
        | Some ta, Some tb =>
            if negb (py_eqb ta tb) then Err AssertionError else
            if py_eqb ta (JStr s_execute_result) || py_eqb ta (JStr s_display_data) then
              match obj_get s_data ka, obj_get s_data kb with
              | Some da, Some db =>
                  let a_conj := filter (fun p => negb (str_eqb (fst p) s_data)) ka in
                  let b_conj := filter (fun p => negb (str_eqb (fst p) s_data)) kb in
                  do dd_conj <- (if c_conj_cfg cfg then diff_ O cfg n path (JObj a_conj) (JObj b_conj)
                                 else diff_default O cfg n (JObj a_conj) (JObj b_conj));
                  do dd <- diff_mime_bundle O cfg n da db;
                  match dd with
                  | [] => Ok dd_conj
                  | _ => map_insert (DPatch (KS s_data) dd) dd_conj
                  end
              | _, _ => Err KeyError
              end
            else diff_ O cfg n [] a b
        | _, _ => Err KeyError
        end
    | _, _ => Err KeyError
    end.

  Lemma U_run n df path a b : run O cfg (S n) df path a b =
    match df with
    | DfDiff => diff_ O cfg n path a b
    | DfIgnore => Ok []
    | DfIgnoreKeys inner keys =>
        do d <- run O cfg n inner path a b;
        Ok (filter (fun e => match dkey e with
                             | KS k => negb (existsb (str_eqb k) keys)
                             | KI _ => true end) d)
    | DfStringLines =>
        match a, b with
        | JStr s, JStr t => if str_eqb s t then Ok [] else diff_strings_linewise O cfg n s t
        | JArr l, JArr m => if Nat.eqb (length l) (length m) && py_eqb a b then Ok [] else Err AssertionError
        | _, _ => Err AssertionError
        end
    | DfStringsByChar =>
        match a, b with
        | JStr s, JStr t => Ok (diff_strings_by_char O s t)
        | _, _ => Err AssertionError
        end
    | DfSeqMultilevel =>
        match a, b with
        | JArr l, JArr m => diff_sequence_multilevel O cfg n path l m
        | _, _ => Err TypeError
        end
    | DfSingleOutputs =>
        if negb (str_eqb path p_outputs_item) then Err AssertionError else single_outputs_body n path a b
    | DfAttachments =>
        if negb (str_eqb path p_attachments) then Err AssertionError else
        match a, b with
        | JObj ka, JObj kb =>
            dict_diff (fun k va vb =>
                         do dd <- diff_mime_bundle O cfg n va vb;
                         match dd with [] => Ok [] | _ => Ok [DPatch (KS k) dd] end) ka kb
        | _, _ => Err TypeError
        end
    end.
  Proof. reflexivity. Qed.

  Lemma py_eqb_strs : forall l m, all_strs l = true -> py_eqb (JArr l) (JArr m) = true -> l = m.
  Proof.
    intros l m. cbn [py_eqb num_of].
    revert m. induction l as [|x l IH]; intros [|y m] Hs H; try discriminate; [reflexivity|].
    cbn [all_strs forallb] in Hs. apply andb_true_iff in Hs as [Hx Hs].
    apply andb_true_iff in H as [Hxy H]. f_equal; [|apply IH; assumption].
    destruct x; try discriminate. destruct y; cbn [py_eqb num_of] in Hxy; try discriminate.
    - destruct (Z.eqb m0 0); discriminate.
    - apply str_eqb_eq in Hxy. subst. reflexivity.
  Qed.

  Lemma lines_ok_single path ka : get_differ cfg path = DfSingleOutputs -> lines_ok path (JObj ka) = true ->
    kids lines_ok path (JObj ka) = true /\ kids lines_ok [] (JObj ka) = true.
  Proof.
    intros Edf H. cbn [lines_ok] in H. rewrite Edf in H. cbn [andb] in H.
    apply andb_true_iff in H as [H1 H2]. split; [exact H1 | exact H2].
  Qed.

  Lemma kids_filter f path kv : kids lines_ok path (JObj kv) = true -> kids lines_ok path (JObj (filter f kv)) = true.
  Proof.
    cbn [kids]. rewrite !forallb_forall. intros H p Hp. apply filter_In in Hp as [Hp _]. apply H. exact Hp.
  Qed.

  Lemma single_outputs_good n path a b d :
    P n -> wfj a = true -> wfj b = true -> lines_ok path a = true -> get_differ cfg path = DfSingleOutputs ->
    single_outputs_body n path a b = Ok d -> Good a b d.
  Proof.
    intros (_ & HPdiff & HPdef & _ & _ & _ & _ & HPmime) Hwa Hwb Hl Edf Hd. unfold single_outputs_body in Hd.
    destruct a as [| | | | | |ka]; try discriminate; destruct b as [| | | | | |kb]; try discriminate.
    destruct (lines_ok_single path ka Edf Hl) as [Hk1 Hk2].
    destruct (obj_get s_output_type ka) as [ta|]; [|discriminate].
    destruct (obj_get s_output_type kb) as [tb|]; [|discriminate].
    destruct (negb (py_eqb ta tb)); [discriminate|].
    destruct (py_eqb ta (JStr s_execute_result) || py_eqb ta (JStr s_display_data)).
    - destruct (obj_get s_data ka) as [da|] eqn:Eda; [|discriminate].
      destruct (obj_get s_data kb) as [db|] eqn:Edb; [|discriminate].
      cbv zeta in Hd. apply bind_ok in Hd as (dd_conj & Hc & Hd). apply bind_ok in Hd as (dd & Hm & Hd).
      change (fun p : pystr * json => negb (str_eqb (fst p) s_data)) with (not_key s_data) in Hc.
      apply (conj_lift ka kb da db dd_conj dd Hwa Hwb Eda Edb); [| |exact Hd].
      + destruct (c_conj_cfg cfg).
        * eapply HPdiff; [apply wfj_filter; exact Hwa | apply wfj_filter; exact Hwb | apply kids_filter; exact Hk1 | exact Hc].
        * eapply HPdef; [apply wfj_filter; exact Hwa | apply wfj_filter; exact Hwb | exact Hc].
      + eapply HPmime; [exact (wfj_in_obj ka _ _ Hwa Eda) | exact (wfj_in_obj kb _ _ Hwb Edb) | exact Hm].
    - eapply HPdiff; [exact Hwa | exact Hwb | exact Hk2 | exact Hd].
  Qed.

  Lemma step_run n : P n -> P_run (S n).
  Proof.
    intros HP path a b d Hwa Hwb Hl Hd. pose proof HP as (_ & HPdiff & _ & _ & _ & HPmulti & _ & HPmime).
    pose proof (cfg_differ path) as Hok. rewrite U_run in Hd.
    destruct (get_differ cfg path) eqn:Edf; try discriminate.
    - (* generic.diff *) eapply HPdiff; [exact Hwa | exact Hwb | apply lines_ok_kids; exact Hl | exact Hd].
    - (* diff_string_lines *)
      destruct a as [| | | |s|l| ]; try discriminate; destruct b as [| | | |t|m0| ]; try discriminate.
      + destruct (str_eqb s t) eqn:E; [|eapply Good_str; exact Hd].
        apply str_eqb_eq in E. subst t. inversion Hd. apply Good_refl; [exact Hwa | reflexivity].
      + destruct (Nat.eqb (length l) (length m0) && py_eqb (JArr l) (JArr m0)) eqn:E; [|discriminate].
        apply andb_true_iff in E as [_ E]. inversion Hd.
        cbn [lines_ok] in Hl. rewrite Edf in Hl. apply andb_true_iff in Hl as [Hs _].
        rewrite <- (py_eqb_strs l m0 Hs E). apply Good_refl; [exact Hwa | reflexivity].
    - (* diff_sequence_multilevel *)
      destruct a as [| | | | |l| ]; try discriminate; destruct b as [| | | | |m0| ]; try discriminate.
      eapply HPmulti; [exact Hwa | exact Hwb | apply lines_ok_kids; exact Hl | exact Hd].
    - (* diff_single_outputs *)
      destruct (negb (str_eqb path p_outputs_item)); [discriminate|].
      eapply single_outputs_good; eassumption.
    - (* diff_attachments *)
      destruct (negb (str_eqb path p_attachments)); [discriminate|].
      destruct a as [| | | | | |ka]; try discriminate; destruct b as [| | | | | |kb]; try discriminate.
      eapply dict_good; [exact Hwa | exact Hwb | | exact Hd].
      intros k va vb es Hva Hvb Hes. cbv beta in Hes. apply bind_ok in Hes as (dd & Hdd & Hes).
      pose proof (wfj_in_obj ka k va Hwa Hva) as Hwva. pose proof (wfj_in_obj kb k vb Hwb Hvb) as Hwvb.
      eapply wrap_good; eauto.
  Qed.

  Lemma P_zero : P 0.
  Proof. repeat split; repeat intro; discriminate. Qed.

  Theorem P_all n : P n.
  Proof.
    induction n as [|n IH]; [exact P_zero|].
    split; [apply step_run; exact IH|]. split; [apply step_diff; exact IH|]. split; [apply step_default; exact IH|].
    split; [apply step_lists; exact IH|]. split; [apply step_lists_default; exact IH|].
    split; [apply step_multi; exact IH|]. split; [apply step_dicts; exact IH | apply step_mime; exact IH].
  Qed.

  (* nbdime.diff_notebooks(a, b) = diff(a, b, path="", config=notebook_config) *)
  Theorem nb_diff_partial_correct n a b d :
    wfj a = true -> wfj b = true -> kids lines_ok [] a = true ->
    diff_ O cfg n [] a b = Ok d -> Good a b d.
  Proof. intros Hwa Hwb Hk Hd. destruct (P_all n) as (_ & HPdiff & _). eapply HPdiff; eassumption. Qed.
End Nb.
