(* Lemmas about patch_list's take/skip cursor: a state-returning reading, composition over appended
   diffs, single-entry steps, and the reconstruction invariant used by every producer of sequence
   diffs (diff_from_lcs, the consumed-item loop, compute_diff_from_snakes, opcodes_to_diff). *)
From Coq Require Import List NArith ZArith Bool Lia.
From NB Require Import Base.Res Base.Json Diff.DiffFormat Diff.Patch.
Import ListNotations.

(* ---------- list facts ---------- *)
Lemma slice_nil_ge {A} (l : list A) a b : b <= a -> slice l a b = [].
Proof. intros H. unfold slice. replace (b - a) with 0 by lia. reflexivity. Qed.

Lemma slice_same {A} (l : list A) a : slice l a a = [].
Proof. apply slice_nil_ge. lia. Qed.

Lemma skipn_skipn {A} (l : list A) a b : skipn a (skipn b l) = skipn (b + a) l.
Proof.
  revert l; induction b as [|b IH]; intros l; simpl; [reflexivity|].
  destruct l; [destruct a; reflexivity | apply IH].
Qed.

Lemma firstn_add {A} (l : list A) n m : firstn (n + m) l = firstn n l ++ firstn m (skipn n l).
Proof.
  revert l; induction n as [|n IH]; intros l; simpl; [reflexivity|].
  destruct l; simpl; [destruct m; reflexivity | f_equal; apply IH].
Qed.

Lemma slice_app {A} (l : list A) a b c : a <= b -> b <= c -> slice l a b ++ slice l b c = slice l a c.
Proof.
  intros H1 H2. unfold slice.
  replace (c - a) with ((b - a) + (c - b)) by lia.
  rewrite firstn_add. f_equal. f_equal. rewrite skipn_skipn. f_equal. lia.
Qed.

Lemma slice_to_end {A} (l : list A) a : slice l a (length l) = skipn a l.
Proof.
  unfold slice. apply firstn_all2. rewrite skipn_length. lia.
Qed.

Lemma slice_length {A} (l : list A) a b : b <= length l -> length (slice l a b) = b - a.
Proof. intros H. unfold slice. rewrite firstn_length, skipn_length. lia. Qed.

Lemma slice_0 {A} (l : list A) b : slice l 0 b = firstn b l.
Proof. unfold slice. simpl. f_equal. lia. Qed.

Lemma firstn_slice {A} (l : list A) y m : firstn y l ++ slice l y (y + m) = firstn (y + m) l.
Proof. rewrite <- !slice_0. apply slice_app; lia. Qed.

Lemma slice_one {A} (l : list A) i x : nth_error l i = Some x -> slice l i (i + 1) = [x].
Proof.
  revert i; induction l as [|y l IH]; intros [|i] H; simpl in *; try discriminate.
  - inversion H; subst. unfold slice. simpl. reflexivity.
  - unfold slice in *. simpl. replace (S (i + 1) - S i) with (i + 1 - i) by lia. apply IH. exact H.
Qed.

(* elementwise equality of two windows *)
Definition windows_eq {A} (l m : list A) (x y n : nat) : Prop :=
  forall k, k < n -> nth_error l (x + k) = nth_error m (y + k) /\ nth_error l (x + k) <> None.

Lemma windows_eq_slice {A} (l m : list A) x y n :
  windows_eq l m x y n -> slice l x (x + n) = slice m y (y + n).
Proof.
  revert x y; induction n as [|n IH]; intros x y H.
  - rewrite !slice_nil_ge by lia. reflexivity.
  - destruct (H 0 ltac:(lia)) as [E NE]. rewrite !Nat.add_0_r in *.
    destruct (nth_error l x) as [v|] eqn:Ev; [|congruence].
    rewrite <- (slice_app l x (x + 1) (x + S n)) by lia.
    rewrite <- (slice_app m y (y + 1) (y + S n)) by lia.
    rewrite (slice_one l x v Ev), (slice_one m y v (eq_sym E)).
    f_equal. replace (x + S n) with ((x + 1) + n) by lia. replace (y + S n) with ((y + 1) + n) by lia.
    apply IH. intros k Hk. specialize (H (S k) ltac:(lia)).
    replace (x + 1 + k) with (x + S k) by lia. replace (y + 1 + k) with (y + S k) by lia. exact H.
Qed.

(* ---------- state-returning patch_list ---------- *)
Section St.
  Variable rec : json -> diff -> res json.

  Fixpoint pst (obj : list json) (take : nat) (d : diff) (acc : list json) : res (nat * list json) :=
    match d with
    | [] => Ok (take, acc)
    | e :: d' =>
        match dkey e with
        | KS _ => Err AssertionError
        | KI index =>
            let acc := acc ++ slice obj take index in
            match e with
            | DAddRange _ vs => pst obj (Nat.max take index) d' (acc ++ vitems vs)
            | DRemoveRange _ len => pst obj (Nat.max take (index + len)) d' acc
            | DPatch _ dd =>
                do x <- nth_res obj index;
                do p <- rec x dd;
                pst obj (Nat.max take (index + 1)) d' (acc ++ [p])
            | DAdd _ v => pst obj (Nat.max take index) d' (acc ++ [v])
            | DRemove _ => pst obj (Nat.max take (index + 1)) d' acc
            | DReplace _ v => pst obj (Nat.max take (index + 1)) d' (acc ++ [v])
            end
        end
    end.

  Lemma go_pst obj d : forall take acc,
    patch_list_go rec obj take d acc =
    do s <- pst obj take d acc; Ok (snd s ++ skipn (fst s) obj).
  Proof.
    induction d as [|e d IH]; intros take acc; [reflexivity|].
    cbn [patch_list_go pst]. destruct (dkey e); [|reflexivity].
    destruct e; try apply IH.
    destruct (nth_res obj i); [|reflexivity]. cbn [bind].
    destruct (rec a d0); [|reflexivity]. cbn [bind]. apply IH.
  Qed.

  Lemma pst_app obj d1 : forall d2 take acc,
    pst obj take (d1 ++ d2) acc = do s <- pst obj take d1 acc; pst obj (fst s) d2 (snd s).
  Proof.
    induction d1 as [|e d1 IH]; intros d2 take acc; [reflexivity|].
    cbn [app pst]. destruct (dkey e); [|reflexivity].
    destruct e; try apply IH.
    destruct (nth_res obj i); [|reflexivity]. cbn [bind].
    destruct (rec a d); [|reflexivity]. cbn [bind]. apply IH.
  Qed.

  (* reconstruction invariant: output so far plus the pending kept segment obj[t..x) is B[0..y) *)
  Definition Rec (obj B : list json) (t : nat) (acc : list json) (x y : nat) : Prop :=
    t <= x /\ x <= length obj /\ y <= length B /\ acc ++ slice obj t x = firstn y B.

  Lemma Rec_init obj B : Rec obj B 0 [] 0 0.
  Proof. unfold Rec. rewrite slice_same. simpl. repeat split; lia. Qed.

  Lemma Rec_keep obj B t acc x y n :
    Rec obj B t acc x y -> windows_eq obj B x y n -> x + n <= length obj -> y + n <= length B ->
    Rec obj B t acc (x + n) (y + n).
  Proof.
    intros (H1 & H2 & H3 & H4) Hw Hx Hy. unfold Rec. repeat split; try lia.
    rewrite <- (slice_app obj t x (x + n)) by lia. rewrite app_assoc, H4.
    rewrite (windows_eq_slice _ _ _ _ _ Hw). apply firstn_slice.
  Qed.

  Lemma step_removerange obj B t acc x y len :
    Rec obj B t acc x y -> x + len <= length obj ->
    exists acc', pst obj t [DRemoveRange (KI x) len] acc = Ok (x + len, acc')
                 /\ Rec obj B (x + len) acc' (x + len) y.
  Proof.
    intros (H1 & H2 & H3 & H4) Hl. cbn [pst dkey].
    exists (acc ++ slice obj t x). split.
    - f_equal. f_equal. lia.
    - unfold Rec. rewrite slice_same, app_nil_r. repeat split; try lia. exact H4.
  Qed.

  Lemma step_addrange obj B t acc x y vs m :
    Rec obj B t acc x y -> vitems vs = slice B y (y + m) -> y + m <= length B ->
    exists acc', pst obj t [DAddRange (KI x) vs] acc = Ok (x, acc')
                 /\ Rec obj B x acc' x (y + m).
  Proof.
    intros (H1 & H2 & H3 & H4) Hv Hm. cbn [pst dkey].
    exists (acc ++ slice obj t x ++ vitems vs). split.
    - rewrite app_assoc. f_equal. f_equal. lia.
    - unfold Rec. rewrite slice_same, app_nil_r. repeat split; try lia.
      rewrite app_assoc, H4, Hv. apply firstn_slice.
  Qed.

  Lemma step_patch obj B t acc x y a b dd :
    Rec obj B t acc x y -> nth_error obj x = Some a -> nth_error B y = Some b ->
    rec a dd = Ok b ->
    exists acc', pst obj t [DPatch (KI x) dd] acc = Ok (x + 1, acc')
                 /\ Rec obj B (x + 1) acc' (x + 1) (y + 1).
  Proof.
    intros (H1 & H2 & H3 & H4) Ha Hb Hr. cbn [pst dkey]. unfold nth_res. rewrite Ha. cbn [bind].
    rewrite Hr. cbn [bind].
    exists ((acc ++ slice obj t x) ++ [b]). split.
    - f_equal. f_equal. lia.
    - assert (x < length obj) by (apply nth_error_Some; congruence).
      assert (y < length B) by (apply nth_error_Some; congruence).
      unfold Rec. rewrite slice_same, app_nil_r. repeat split; try lia.
      rewrite H4. rewrite <- (slice_one B y b Hb). apply firstn_slice.
  Qed.

  Lemma Rec_final obj B t acc :
    Rec obj B t acc (length obj) (length B) -> acc ++ skipn t obj = B.
  Proof.
    intros (H1 & H2 & H3 & H4). rewrite slice_to_end in H4. rewrite H4. apply firstn_all.
  Qed.
End St.

(* ---------- builder: appending in key order is list append ---------- *)
Definition keys_lt (x : nat) (d : list dentry) : Prop := Forall (fun e => knat e < x) d.
Definition keys_le (x : nat) (d : list dentry) : Prop := Forall (fun e => knat e <= x) d.

Lemma keys_lt_le x d : keys_lt x d -> keys_le x d.
Proof. apply Forall_impl. intros; lia. Qed.

Lemma keys_lt_mono x x' d : x <= x' -> keys_lt x d -> keys_lt x' d.
Proof. intros H. apply Forall_impl. intros; lia. Qed.

Lemma keys_le_lt x x' d : x < x' -> keys_le x d -> keys_lt x' d.
Proof. intros H. apply Forall_impl. intros; lia. Qed.

Lemma keys_lt_app x d1 d2 : keys_lt x d1 -> keys_lt x d2 -> keys_lt x (d1 ++ d2).
Proof. intros. apply Forall_app. split; assumption. Qed.

Lemma seq_append_rev_head rd e :
  match rd with
  | [] => True
  | x :: _ => (if is_addrange e then Nat.leb (knat e) (knat x) else Nat.ltb (knat e) (knat x)) = false
  end -> seq_append_rev rd e = e :: rd.
Proof. destruct rd as [|x rd]; simpl; intros H; [reflexivity | rewrite H; reflexivity]. Qed.

(* a non-addrange entry whose key is >= every key goes to the end *)
Lemma seq_append_end_le d e :
  is_addrange e = false -> keys_le (knat e) d -> seq_append d e = d ++ [e].
Proof.
  intros Ha Hk. unfold seq_append. rewrite seq_append_rev_head.
  - simpl. rewrite rev_involutive. reflexivity.
  - destruct (rev d) as [|x rd] eqn:E; [exact I|]. rewrite Ha.
    assert (In x d) by (apply in_rev; rewrite E; left; reflexivity).
    unfold keys_le in Hk. rewrite Forall_forall in Hk. specialize (Hk x H).
    apply Nat.ltb_ge. exact Hk.
Qed.

(* an addrange entry whose key is > every key goes to the end *)
Lemma seq_append_end_lt d e :
  keys_lt (knat e) d -> seq_append d e = d ++ [e].
Proof.
  intros Hk. unfold seq_append. rewrite seq_append_rev_head.
  - simpl. rewrite rev_involutive. reflexivity.
  - destruct (rev d) as [|x rd] eqn:E; [exact I|].
    assert (In x d) by (apply in_rev; rewrite E; left; reflexivity).
    unfold keys_lt in Hk. rewrite Forall_forall in Hk. specialize (Hk x H).
    destruct (is_addrange e); [apply Nat.leb_gt | apply Nat.ltb_ge]; lia.
Qed.

(* addrange after a removerange at the same key is inserted before it *)
Lemma seq_append_add_before_remove d x len vs :
  keys_lt x d ->
  seq_append (d ++ [DRemoveRange (KI x) len]) (DAddRange (KI x) vs)
  = d ++ [DAddRange (KI x) vs; DRemoveRange (KI x) len].
Proof.
  intros Hk. unfold seq_append. rewrite rev_app_distr. cbn [rev app seq_append_rev is_addrange knat dkey].
  rewrite Nat.leb_refl. rewrite seq_append_rev_head.
  - cbn [rev]. rewrite rev_involutive. rewrite <- !app_assoc. reflexivity.
  - destruct (rev d) as [|y rd] eqn:E; [exact I|].
    assert (In y d) by (apply in_rev; rewrite E; left; reflexivity).
    unfold keys_lt in Hk. rewrite Forall_forall in Hk. specialize (Hk y H).
    cbn [is_addrange knat dkey]. apply Nat.leb_gt. exact Hk.
Qed.
