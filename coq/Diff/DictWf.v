(* Well-formedness (C11) of the mapping diffs produced by the sorted walk of diff_dicts /
   diff_mime_bundle / diff_attachments: keys strictly increasing, additions name absent keys,
   removals / replacements / patches name present ones, nested patches admissible. *)
From Coq Require Import List NArith ZArith Bool Lia.
From NB Require Import Base.Res Base.Json Diff.DiffFormat Diff.Patch Diff.GenericDiff Diff.Wf Diff.DictProofs.
Import ListNotations.

(* the mapping part of wf_diff as a named function *)
Definition wf_map_of (rec : json -> list dentry -> bool) (kv : list (pystr * json)) :=
  fix wf_map (prev : option pystr) (d : list dentry) {struct d} : bool :=
    match d with
    | [] => true
    | e :: r =>
        match dkey e with
        | KI _ => false
        | KS k =>
            match prev with None => true | Some p => str_ltb p k end &&
            match e with
            | DAdd _ _ => negb (obj_has k kv)
            | DRemove _ => obj_has k kv
            | DReplace _ _ => obj_has k kv
            | DPatch _ dd =>
                match obj_get k kv with
                | Some x => is_container x && negb (Nat.eqb (length dd) 0) && rec x dd
                | None => false
                end
            | _ => false
            end && wf_map (Some k) r
        end
    end.

Lemma wf_diff_obj f kv d : wf_diff (S f) (JObj kv) d = wf_map_of (wf_diff f) kv None d.
Proof. reflexivity. Qed.

Section WalkWf.
  Variable rec : json -> list dentry -> bool.
  Variable on_common : pystr -> json -> json -> res (list dentry).
  Variable A0 : list (pystr * json).

  Definition common_wf (k : pystr) (va vb : json) : Prop :=
    forall es, on_common k va vb = Ok es ->
      es = [] \/ (exists dd, es = [DPatch (KS k) dd] /\ is_container va = true /\ dd <> [] /\ rec va dd = true)
      \/ es = [DReplace (KS k) vb].

  Definition prev_lt (prev : option pystr) (l : list pystr) : Prop :=
    match prev with None => True | Some p => forall k, In k l -> str_ltb p k = true end.

  Lemma dict_walk_wf : forall fuel a b d prev,
    dict_walk on_common fuel a b = Ok d ->
    keys_sorted a = true -> keys_sorted b = true ->
    (forall k va, obj_get k a = Some va -> obj_get k A0 = Some va) ->
    (forall k, obj_has k A0 = true -> In k (okeys a) \/ forall k', In k' (okeys b) -> str_ltb k k' = true) ->
    prev_lt prev (okeys a) -> prev_lt prev (okeys b) ->
    (forall k va vb, obj_get k a = Some va -> obj_get k b = Some vb -> common_wf k va vb) ->
    wf_map_of rec A0 prev d = true.
  Proof.
    induction fuel as [|fuel IH]; intros a b d prev Hd Sa Sb Hsub Hinv Pa Pb Hc; [discriminate|].
    assert (Hprev : forall k, (In k (okeys a) \/ In k (okeys b)) ->
                    match prev with None => true | Some p => str_ltb p k end = true).
    { intros k Hk. destruct prev as [p|]; [|reflexivity]. destruct Hk; [apply Pa | apply Pb]; assumption. }
    destruct a as [|[ka va] a'], b as [|[kb vb] b']; cbn [dict_walk] in Hd.
    - inversion Hd. reflexivity.
    - (* add kb *)
      destruct (dict_walk on_common fuel [] b') as [r|] eqn:Er; [|discriminate]. cbn [bind] in Hd. inversion Hd; subst d.
      apply keys_sorted_cons in Sb as [Gb Sb'].
      cbn [wf_map_of dkey]. rewrite (Hprev kb) by (right; left; reflexivity). cbn [andb].
      assert (Habs : obj_has kb A0 = false).
      { destruct (obj_has kb A0) eqn:E; [|reflexivity]. destruct (Hinv kb E) as [[]|H].
        specialize (H kb ltac:(left; reflexivity)). rewrite str_ltb_irrefl in H. discriminate. }
      rewrite Habs. cbn [negb andb].
      apply (IH [] b' r (Some kb) Er); [reflexivity | exact Sb' | intros k va H; discriminate | | intros k [] | | intros k va vb0 H; discriminate].
      + intros k E. destruct (Hinv k E) as [[]|H]. right. intros k' Hk'. apply H. right. exact Hk'.
      + intros k Hk. eapply sorted_keys_gt with (v := vb); [apply keys_sorted_cons; split; eauto | exact Hk].
    - (* remove ka *)
      destruct (dict_walk on_common fuel a' []) as [r|] eqn:Er; [|discriminate]. cbn [bind] in Hd. inversion Hd; subst d.
      pose proof Sa as Sa0. apply keys_sorted_cons in Sa as [Ga Sa'].
      cbn [wf_map_of dkey]. rewrite (Hprev ka) by (left; left; reflexivity). cbn [andb].
      assert (Hpres : obj_has ka A0 = true).
      { unfold obj_has. rewrite (Hsub ka va); [reflexivity|]. cbn [obj_get]. rewrite str_eqb_refl. reflexivity. }
      rewrite Hpres. cbn [andb].
      apply (IH a' [] r (Some ka) Er); [exact Sa' | reflexivity | | intros k E; right; intros k' [] | | intros k [] | ].
      + intros k v Hk. apply Hsub. cbn [obj_get]. destruct (str_eqb k ka) eqn:E; [|exact Hk].
        apply str_eqb_eq in E. subst. rewrite (sorted_get_lt ka a') in Hk; [discriminate | exact Ga | exact Sa'].
      + intros k Hk. eapply sorted_keys_gt; eauto.
      + intros k v vb0 Hk Hb. discriminate.
    - pose proof Sa as Sa0. pose proof Sb as Sb0.
      apply keys_sorted_cons in Sa as [Ga Sa']. apply keys_sorted_cons in Sb as [Gb Sb'].
      assert (Hsub' : forall k v, obj_get k a' = Some v -> obj_get k A0 = Some v).
      { intros k v Hk. apply Hsub. cbn [obj_get]. destruct (str_eqb k ka) eqn:E; [|exact Hk].
        apply str_eqb_eq in E. subst. rewrite (sorted_get_lt ka a') in Hk; [discriminate | exact Ga | exact Sa']. }
      assert (Hca : forall k v, obj_get k a' = Some v -> obj_get k ((ka, va) :: a') = Some v).
      { intros k v Hk. cbn [obj_get]. destruct (str_eqb k ka) eqn:E; [|exact Hk].
        apply str_eqb_eq in E. subst. rewrite (sorted_get_lt ka a') in Hk; [discriminate | exact Ga | exact Sa']. }
      assert (Hcb : forall k v, obj_get k b' = Some v -> obj_get k ((kb, vb) :: b') = Some v).
      { intros k v Hk. cbn [obj_get]. destruct (str_eqb k kb) eqn:E; [|exact Hk].
        apply str_eqb_eq in E. subst. rewrite (sorted_get_lt kb b') in Hk; [discriminate | exact Gb | exact Sb']. }
      assert (Hpres : obj_get ka A0 = Some va) by (apply Hsub; cbn [obj_get]; rewrite str_eqb_refl; reflexivity).
      destruct (str_cmp ka kb) eqn:C.
      + (* common key *)
        apply str_cmp_eq in C. subst kb.
        destruct (on_common ka va vb) as [es|] eqn:Ees; [|discriminate]. cbn [bind] in Hd.
        destruct (dict_walk on_common fuel a' b') as [r|] eqn:Er; [|discriminate]. cbn [bind] in Hd. inversion Hd; subst d.
        assert (Hinv' : forall k, obj_has k A0 = true -> In k (okeys a') \/ forall k', In k' (okeys b') -> str_ltb k k' = true).
        { intros k E. destruct (Hinv k E) as [[E1|H]|H].
          - cbn in E1. subst k. right. intros k' Hk'. eapply sorted_keys_gt; eauto.
          - left. exact H.
          - right. intros k' Hk'. apply H. right. exact Hk'. }
        assert (Hrest : forall p, prev_lt p (okeys a') -> prev_lt p (okeys b') -> wf_map_of rec A0 p r = true)
          by (intros p P1 P2; apply (IH a' b' r p Er); [exact Sa' | exact Sb' | exact Hsub' | exact Hinv' | exact P1 | exact P2 | intros k v w H1 H2; apply Hc; [apply Hca; exact H1 | apply Hcb; exact H2]]).
        assert (Hrest_ka : wf_map_of rec A0 (Some ka) r = true).
        { apply Hrest; intros k Hk; [exact (sorted_keys_gt ka va a' Sa0 k Hk) | exact (sorted_keys_gt ka vb b' Sb0 k Hk)]. }
        destruct (Hc ka va vb ltac:(cbn [obj_get]; rewrite str_eqb_refl; reflexivity) ltac:(cbn [obj_get]; rewrite str_eqb_refl; reflexivity) es Ees) as [->|[(dd & -> & Hcont & Hne & Hrec)| ->]]; cbn [app].
        * apply Hrest; destruct prev as [p|]; cbn [prev_lt] in *; auto; intros k Hk; [apply Pa | apply Pb]; right; exact Hk.
        * cbn [wf_map_of dkey]. rewrite (Hprev ka) by (left; left; reflexivity). rewrite Hpres, Hcont, Hrec.
          destruct dd; [congruence|]. cbn [length Nat.eqb negb andb]. exact Hrest_ka.
        * cbn [wf_map_of dkey]. rewrite (Hprev ka) by (left; left; reflexivity).
          unfold obj_has. rewrite Hpres. cbn [andb]. exact Hrest_ka.
      + (* ka < kb : remove ka *)
        assert (Lab : str_ltb ka kb = true) by (unfold str_ltb; rewrite C; reflexivity).
        destruct (dict_walk on_common fuel a' ((kb, vb) :: b')) as [r|] eqn:Er; [|discriminate]. cbn [bind] in Hd. inversion Hd; subst d.
        cbn [wf_map_of dkey]. rewrite (Hprev ka) by (left; left; reflexivity).
        unfold obj_has at 1. rewrite Hpres. cbn [andb].
        apply (IH a' ((kb, vb) :: b') r (Some ka) Er); [exact Sa' | exact Sb0 | exact Hsub' | | | | intros k v w H1 H2; apply Hc; [apply Hca; exact H1 | exact H2]].
        * intros k E. destruct (Hinv k E) as [[E1|H]|H].
          -- cbn in E1. subst k. right. intros k' [E2|Hk']; [cbn in E2; subst; exact Lab|].
             eapply str_ltb_trans; [exact Lab|]. eapply sorted_keys_gt; eauto.
          -- left. exact H.
          -- right. exact H.
        * intros k Hk. eapply sorted_keys_gt; eauto.
        * intros k [E|Hk]; [cbn in E; subst; exact Lab|]. eapply str_ltb_trans; [exact Lab|]. eapply sorted_keys_gt; eauto.
      + (* kb < ka : add kb *)
        assert (Lba : str_ltb kb ka = true) by (unfold str_ltb; rewrite str_cmp_antisym, C; reflexivity).
        destruct (dict_walk on_common fuel ((ka, va) :: a') b') as [r|] eqn:Er; [|discriminate]. cbn [bind] in Hd. inversion Hd; subst d.
        cbn [wf_map_of dkey]. rewrite (Hprev kb) by (right; left; reflexivity). cbn [andb].
        assert (Habs : obj_has kb A0 = false).
        { destruct (obj_has kb A0) eqn:E; [|reflexivity]. destruct (Hinv kb E) as [[E1|H]|H].
          - cbn in E1. subst. rewrite str_ltb_irrefl in Lba. discriminate.
          - pose proof (sorted_keys_gt ka va a' Sa0 kb H) as L. rewrite (str_ltb_asym _ _ L) in Lba. discriminate.
          - specialize (H kb ltac:(left; reflexivity)). rewrite str_ltb_irrefl in H. discriminate. }
        rewrite Habs. cbn [negb andb].
        apply (IH ((ka, va) :: a') b' r (Some kb) Er); [exact Sa0 | exact Sb' | exact Hsub | | | | intros k v w H1 H2; apply Hc; [exact H1 | apply Hcb; exact H2]].
        * intros k E. destruct (Hinv k E) as [H|H]; [left; exact H|]. right. intros k' Hk'. apply H. right. exact Hk'.
        * intros k [E|Hk]; [cbn in E; subst; exact Lba|]. eapply str_ltb_trans; [exact Lba|]. eapply sorted_keys_gt; eauto.
        * intros k Hk. eapply sorted_keys_gt; eauto.
  Qed.
End WalkWf.
