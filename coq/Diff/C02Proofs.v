(* C02 for the generic differ with the tables read from /repo (Gen/NbConfig.v). *)
From Coq Require Import List NArith ZArith Bool Lia String.
From NB Require Import Base.Res Base.Json Base.PyStr Diff.DiffFormat Diff.Patch Diff.GenericDiff Diff.Wf
     Diff.Codec Diff.StringProofs Diff.StringMaster Diff.MasterProofs Diff.SpecProofs Gen.NbConfig.
Import ListNotations.

Lemma generic_roundtrip O n a b :
  opcodes_valid O -> 2 * depth a < n -> wfj a = true -> wfj b = true -> same_container a b ->
  exists d, diff_default O generic_config n a b = Ok d /\ (forall m, depth a < m -> patch m a d = Ok b)
            /\ (forall f, depth a < f -> wf_diff f a d = true).
Proof.
  intros Hops. apply diff_default_roundtrip.
  - reflexivity.
  - reflexivity.
  - exact (string_roundtrip O generic_config Hops).
Qed.

Lemma generic_empty_only_if_equal O n a b :
  opcodes_valid O -> 2 * depth a < n -> wfj a = true -> wfj b = true -> same_container a b ->
  diff_default O generic_config n a b = Ok [] -> a = b.
Proof.
  intros Hops. apply diff_default_empty_only_if_equal.
  - reflexivity.
  - reflexivity.
  - exact (string_roundtrip O generic_config Hops).
Qed.

(* non-vacuity: a concrete pair meets the hypotheses and the statement computes *)
Definition ex_oracles : oracles :=
  {| o_sim := fun _ _ => false; o_opcodes := fun _ _ => []; o_cell := fun _ _ _ => false; o_output := fun _ _ _ => false |}.
Example roundtrip_example :
  let a := JArr [JInt 1; JObj [(of_ascii "k"%string, JBool true)]; JArr []] in
  let b := JArr [JFlt 1 0; JObj [(of_ascii "k"%string, JInt 1)]; JArr [JNull]] in
  exists d, diff_default ex_oracles generic_config 10 a b = Ok d /\ patch 5 a d = Ok b /\ d <> [].
Proof. eexists. split; [vm_compute; reflexivity|]. split; [vm_compute; reflexivity | discriminate]. Qed.

(* the diff nbdime produces, read by the position-wise meaning of the format (no cursor, no flattening),
   is well-formed and denotes the target: an independent implementation following the documented
   format obtains the same result *)
Lemma generic_diff_denotes_target O n a b :
  opcodes_valid O -> 2 * depth a < n -> wfj a = true -> wfj b = true -> same_container a b ->
  exists d, diff_default O generic_config n a b = Ok d /\ forall f, depth a < f -> check_diff f a b d = true.
Proof.
  intros Hops Hn Hwa Hwb Hc.
  destruct (generic_roundtrip O n a b Hops Hn Hwa Hwb Hc) as (d & Hd & Hp & Hw).
  exists d. split; [exact Hd|]. intros f Hf. unfold check_diff. rewrite (Hw f Hf). cbn [andb].
  rewrite (check_diff_of_patch f a b d Hwa (Hw f Hf) (Hp f Hf)). apply json_eqb_refl.
Qed.

Example spec_example :
  let a := JArr [JInt 1; JObj [(of_ascii "k"%string, JBool true)]; JStr (of_ascii "ab"%string)] in
  let d := [DAddRange (KI 0) (VList [JNull]); DRemoveRange (KI 0) 1;
            DPatch (KI 1) [DReplace (KS (of_ascii "k"%string)) (JInt 1)];
            DPatch (KI 2) [DPatch (KI 0) [DAddRange (KI 1) (VStr (of_ascii "x"%string))]]] in
  wf_diff 4 a d = true /\ patch 4 a d = Ok (spec_patch 4 a d)
  /\ spec_patch 4 a d = JArr [JNull; JObj [(of_ascii "k"%string, JInt 1)]; JStr (of_ascii "axb"%string)].
Proof. vm_compute. repeat split. Qed.
