(* C02 for the generic differ with the tables read from /repo (Gen/NbConfig.v). *)
From Coq Require Import List NArith ZArith Bool Lia String.
From NB Require Import Base.Res Base.Json Base.PyStr Diff.DiffFormat Diff.Patch Diff.GenericDiff Diff.Wf
     Diff.Codec Diff.StringProofs Diff.StringMaster Diff.MasterProofs Gen.NbConfig.
Import ListNotations.

Lemma generic_roundtrip O n a b :
  opcodes_valid O -> 2 * depth a < n -> wfj a = true -> wfj b = true -> same_container a b ->
  exists d, diff_default O generic_config n a b = Ok d /\ (forall m, depth a < m -> patch m a d = Ok b)
            /\ (forall f, depth a < f -> wf_diff f a d = true).
Proof.
  intros Hops. apply diff_default_roundtrip.
  - reflexivity.
  - reflexivity.
  - exact (string_roundtrip O generic_config Hops).
Qed.

Lemma generic_empty_only_if_equal O n a b :
  opcodes_valid O -> 2 * depth a < n -> wfj a = true -> wfj b = true -> same_container a b ->
  diff_default O generic_config n a b = Ok [] -> a = b.
Proof.
  intros Hops. apply diff_default_empty_only_if_equal.
  - reflexivity.
  - reflexivity.
  - exact (string_roundtrip O generic_config Hops).
Qed.

(* non-vacuity: a concrete pair meets the hypotheses and the statement computes *)
Definition ex_oracles : oracles :=
  {| o_sim := fun _ _ => false; o_opcodes := fun _ _ => []; o_cell := fun _ _ _ => false; o_output := fun _ _ _ => false |}.
Example roundtrip_example :
  let a := JArr [JInt 1; JObj [(of_ascii "k"%string, JBool true)]; JArr []] in
  let b := JArr [JFlt 1 0; JObj [(of_ascii "k"%string, JInt 1)]; JArr [JNull]] in
  exists d, diff_default ex_oracles generic_config 10 a b = Ok d /\ patch 5 a d = Ok b /\ d <> [].
Proof. eexists. split; [vm_compute; reflexivity|]. split; [vm_compute; reflexivity | discriminate]. Qed.
