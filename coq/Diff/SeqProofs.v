(* Correctness of the producers of sequence diffs, relative to patch_list:
   patch_items, compute_diff_from_snakes, the consumed-item loop of diff_lists, opcodes_to_diff. *)
From Coq Require Import List NArith ZArith Bool Lia.
From NB Require Import Base.Res Base.Json Diff.DiffFormat Diff.Patch Diff.Lcs Diff.GenericDiff Diff.PatchProofs.
Import ListNotations.

Section Producers.
  Variable rec : json -> diff -> res json.       (* patch, one level down *)

  (* a sub-differ is right on a pair: it succeeds, an empty result means equal items, a non-empty one
     patches the first into the second *)
  Definition pair_ok (subdiff : json -> json -> res (list dentry)) (x y : json) : Prop :=
    exists cd, subdiff x y = Ok cd /\ match cd with [] => x = y | _ => rec x cd = Ok y end.

  Definition pairs_ok subdiff (A B : list json) (i j n : nat) : Prop :=
    forall k, k < n -> exists a b, nth_error A (i + k) = Some a /\ nth_error B (j + k) = Some b
                                   /\ pair_ok subdiff a b.

  (* builder state: the diff built so far replays to patch state (t, acc) *)
  Definition Built (A B : list json) (di : list dentry) (x y : nat) : Prop :=
    exists t acc, pst rec A 0 di [] = Ok (t, acc) /\ Rec A B t acc x y.

  Lemma Built_snoc A B di x y e t' x' y' :
    Built A B di x y ->
    (forall t acc, Rec A B t acc x y -> exists acc', pst rec A t [e] acc = Ok (t', acc') /\ Rec A B t' acc' x' y') ->
    Built A B (di ++ [e]) x' y'.
  Proof.
    intros (t & acc & Hp & Hr) Hs. destruct (Hs t acc Hr) as (acc2 & Hp2 & Hr2).
    exists t', acc2. split; [|exact Hr2]. rewrite pst_app, Hp. cbn [bind fst snd]. exact Hp2.
  Qed.

  Lemma Built_removerange A B di x y x' :
    Built A B di x y -> x < x' -> x' <= length A ->
    Built A B (di ++ [DRemoveRange (KI x) (x' - x)]) x' y.
  Proof.
    intros Hb H1 H2. assert (E : x + (x' - x) = x') by lia.
    pose proof (Built_snoc A B di x y (DRemoveRange (KI x) (x' - x)) (x + (x' - x)) (x + (x' - x)) y Hb) as Hs.
    rewrite E in Hs. apply Hs. intros t acc Hr.
    pose proof (step_removerange rec A B t acc x y (x' - x) Hr) as H. rewrite E in H. apply H. exact H2.
  Qed.

  Lemma Built_addrange A B di x y y' vs :
    Built A B di x y -> y <= y' -> y' <= length B -> vitems vs = slice B y y' ->
    Built A B (di ++ [DAddRange (KI x) vs]) x y'.
  Proof.
    intros Hb H1 H2 Hv. assert (E : y + (y' - y) = y') by lia.
    apply (Built_snoc A B di x y _ x x y' Hb). intros t acc Hr.
    pose proof (step_addrange rec A B t acc x y vs (y' - y) Hr) as H. rewrite E in H. apply H; assumption.
  Qed.

  Lemma patch_items_ok subdiff A B i j : forall n k di,
    pairs_ok subdiff A B (i + k) (j + k) n ->
    Built A B di (i + k) (j + k) -> keys_le (i + k) di ->
    exists di', patch_items subdiff A B i j k n di = Ok di'
                /\ Built A B di' (i + k + n) (j + k + n)
                /\ keys_le (i + k + n) di' /\ (0 < n -> keys_lt (i + k + n) di').
  Proof.
    induction n as [|n IH]; intros k di Hp Hb Hk.
    - exists di. rewrite !Nat.add_0_r. repeat split; auto. lia.
    - destruct (Hp 0 ltac:(lia)) as (a & b & Ha & Hbb & cd & Hcd & Hres). rewrite !Nat.add_0_r in *.
      cbn [patch_items]. unfold nth_res. rewrite Ha, Hbb. cbn [bind]. rewrite Hcd. cbn [bind].
      assert (Hla : i + k < length A) by (apply nth_error_Some; congruence).
      assert (Hlb : j + k < length B) by (apply nth_error_Some; congruence).
      set (di1 := b_patch di (i + k) cd).
      assert (H1 : Built A B di1 (i + (S k)) (j + (S k)) /\ keys_lt (i + S k) di1).
      { unfold di1, b_patch. destruct cd as [|c cd'].
        - subst b. split.
          + destruct Hb as (t & acc & Hpst & Hrec). exists t, acc. split; [exact Hpst|].
            replace (i + S k) with (i + k + 1) by lia. replace (j + S k) with (j + k + 1) by lia.
            apply Rec_keep; try lia; auto.
            intros k0 Hk0. replace k0 with 0 by lia. rewrite !Nat.add_0_r. rewrite Ha, Hbb. split; congruence.
          + eapply keys_le_lt; [|exact Hk]. lia.
        - rewrite seq_append_end_le; [|reflexivity | exact Hk]. split.
          + replace (i + S k) with (i + k + 1) by lia. replace (j + S k) with (j + k + 1) by lia.
            eapply Built_snoc; [exact Hb|]. intros t acc Hr.
            eapply step_patch; eauto.
          + apply keys_lt_app; [eapply keys_le_lt; [|exact Hk]; lia|].
            constructor; [|constructor]. cbn [knat dkey]. lia. }
      destruct H1 as [Hb1 Hk1].
      destruct (IH (S k) di1) as (di' & Hpi & Hb' & Hle & Hlt).
      + intros k0 Hk0. specialize (Hp (S k0) ltac:(lia)).
        replace (i + S k + k0) with (i + k + S k0) by lia. replace (j + S k + k0) with (j + k + S k0) by lia. exact Hp.
      + exact Hb1.
      + apply keys_lt_le. exact Hk1.
      + exists di'. split; [exact Hpi|].
        replace (i + k + S n) with (i + S k + n) by lia. replace (j + k + S n) with (j + S k + n) by lia.
        repeat split; auto. intros _. destruct n as [|n'].
        * cbn [patch_items] in Hpi. inversion Hpi; subst. rewrite Nat.add_0_r. exact Hk1.
        * apply Hlt. lia.
  Qed.

  (* ---------- compute_diff_from_snakes ---------- *)
  (* valid snake lists (sentinel included): increasing in both coordinates, non-empty, in bounds *)
  Inductive vsn (A B : list json) : nat -> nat -> list snake -> Prop :=
  | vsn_last i0 j0 : i0 <= length A -> j0 <= length B ->
      vsn A B i0 j0 [(length A, length B, 0)]
  | vsn_cons i0 j0 i j n r : i0 <= i -> j0 <= j -> 0 < n -> i + n <= length A -> j + n <= length B ->
      vsn A B (i + n) (j + n) r -> vsn A B i0 j0 ((i, j, n) :: r).

  Lemma gap_ok A B di i0 j0 i j :
    Built A B di i0 j0 -> keys_lt i0 di -> i0 <= i -> j0 <= j -> i <= length A -> j <= length B ->
    let di1 := if Nat.ltb i0 i then b_removerange di i0 (i - i0) else di in
    let di2 := if Nat.ltb j0 j then b_addrange di1 i0 (VList (slice B j0 j)) else di1 in
    Built A B di2 i j /\ keys_le i di2.
  Proof.
    intros Hb Hk Hi Hj HiA HjB. cbv zeta.
    assert (Kadd : keys_le i [DAddRange (KI i0) (VList (slice B j0 j))])
      by (repeat constructor; cbn [knat dkey]; lia).
    assert (Krem : keys_le i [DRemoveRange (KI i0) (i - i0)])
      by (repeat constructor; cbn [knat dkey]; lia).
    assert (Kdi : keys_le i di) by (eapply Forall_impl; [|exact Hk]; cbn; intros; lia).
    destruct (Nat.ltb_spec i0 i) as [Ei|Ei], (Nat.ltb_spec j0 j) as [Ej|Ej].
    - (* remove then add: the addrange is inserted before the removerange *)
      unfold b_removerange. replace (Nat.eqb (i - i0) 0) with false by (symmetry; apply Nat.eqb_neq; lia).
      rewrite seq_append_end_le; [|reflexivity | apply keys_lt_le; exact Hk].
      unfold b_addrange. cbn [vlen]. rewrite slice_length by lia.
      replace (Nat.eqb (j - j0) 0) with false by (symmetry; apply Nat.eqb_neq; lia).
      rewrite seq_append_add_before_remove by exact Hk.
      split.
      + replace (di ++ [DAddRange (KI i0) (VList (slice B j0 j)); DRemoveRange (KI i0) (i - i0)])
          with ((di ++ [DAddRange (KI i0) (VList (slice B j0 j))]) ++ [DRemoveRange (KI i0) (i - i0)])
          by (rewrite <- app_assoc; reflexivity).
        apply Built_removerange; try lia. apply (Built_addrange A B di i0 j0 j); auto; lia.
      + apply Forall_app. split; [exact Kdi|]. repeat constructor; cbn [knat dkey]; lia.
    - unfold b_removerange. replace (Nat.eqb (i - i0) 0) with false by (symmetry; apply Nat.eqb_neq; lia).
      rewrite seq_append_end_le; [|reflexivity | apply keys_lt_le; exact Hk].
      assert (j = j0) by lia. subst j. split.
      + apply Built_removerange; auto.
      + apply Forall_app. split; assumption.
    - assert (i = i0) by lia. subst i.
      unfold b_addrange. cbn [vlen]. rewrite slice_length by lia.
      replace (Nat.eqb (j - j0) 0) with false by (symmetry; apply Nat.eqb_neq; lia).
      rewrite seq_append_end_lt by exact Hk. split.
      + apply (Built_addrange A B di i0 j0 j); auto; lia.
      + apply Forall_app. split; assumption.
    - assert (i = i0) by lia. assert (j = j0) by lia. subst. split; [exact Hb | exact Kdi].
  Qed.

  Lemma diff_from_snakes_ok diffit A B : forall snakes i0 j0 di,
    vsn A B i0 j0 snakes ->
    (forall i j n, In (i, j, n) snakes -> pairs_ok diffit A B i j n) ->
    Built A B di i0 j0 -> keys_lt i0 di ->
    exists d, diff_from_snakes diffit A B snakes i0 j0 di = Ok d
              /\ patch_list rec A d = Ok B.
  Proof.
    induction snakes as [|[[i j] n] rest IH]; intros i0 j0 di Hv Hp Hb Hk; [inversion Hv|].
    cbn [diff_from_snakes].
    inversion Hv; subst.
    - (* sentinel *)
      destruct (gap_ok A B di i0 j0 (length A) (length B) Hb Hk) as (Hb2 & _); try lia.
      cbn [patch_items bind diff_from_snakes].
      eexists. split; [reflexivity|].
      destruct Hb2 as (t & acc & Hpst & Hrec).
      unfold patch_list. rewrite go_pst, Hpst. cbn [bind fst snd]. f_equal.
      eapply Rec_final. exact Hrec.
    - destruct (gap_ok A B di i0 j0 i j Hb Hk) as (Hb2 & Hle); try lia.
      set (di2 := if Nat.ltb j0 j then _ else _) in *.
      destruct (patch_items_ok diffit A B i j n 0 di2) as (di' & Hpi & Hb' & _ & Hlt).
      + rewrite !Nat.add_0_r. apply Hp. left. reflexivity.
      + rewrite !Nat.add_0_r. exact Hb2.
      + rewrite Nat.add_0_r. exact Hle.
      + rewrite Hpi. cbn [bind]. rewrite !Nat.add_0_r in *.
        apply IH; auto. intros. apply Hp. right. assumption.
  Qed.
End Producers.
