(* The documented meaning of the diff format, written position-wise with no cursor (Wf.spec_patch), is
   what nbdime's patch computes on every well-formed diff: lists here, objects via DictProofs, strings
   via StringMaster.flatten_sound.  This is the "independent implementation obtains the same result"
   clause of C02. *)
From Coq Require Import List NArith ZArith Bool Lia.
From NB Require Import Base.Res Base.Json Base.PyStr Diff.DiffFormat Diff.Patch Diff.Wf Diff.PatchProofs Diff.WfProofs Diff.StringProofs Diff.StringMaster Diff.GenericDiff Diff.DictProofs Diff.DictWf.
Import ListNotations.

Section SeqSpec.
  Variable n : nat.
  Variable vl_ok : vlist -> bool.
  Variable patch_ok : nat -> list dentry -> bool.

  (* a well-formed diff from cursor c mentions no position below c ... *)
  Lemma swf_below d : forall c a p,
    swf n vl_ok patch_ok c a d = true -> p < c ->
    inserts_at p d = [] /\ removed_at p d = false /\ patch_at p d = None.
  Proof.
    induction d as [|e d IH]; intros c a p H Hp; [repeat split|].
    destruct e as [k v|k|k v|[k|k] vs|[k|k] len|[k|k] dd]; cbn [swf] in H; try discriminate.
    - apply andb_true_iff in H as [H1 H2]. apply andb_true_iff in H1 as [H1 H3].
      assert (Hck : c <= k).
      { apply orb_true_iff in H3 as [H3|H3]; [apply Nat.ltb_lt in H3; lia|].
        apply andb_true_iff in H3 as [H3 _]. apply Nat.eqb_eq in H3. lia. }
      destruct (IH k false p H2 ltac:(lia)) as (I1 & I2 & I3).
      cbn [inserts_at flat_map removed_at existsb patch_at].
      replace (Nat.eqb k p) with false by (symmetry; apply Nat.eqb_neq; lia).
      fold (inserts_at p d). fold (removed_at p d). rewrite I1, I2, I3. repeat split.
    - apply andb_true_iff in H as [H1 H2]. apply andb_true_iff in H1 as [H1 H4]. apply andb_true_iff in H1 as [H1 H3].
      apply Nat.leb_le in H3.
      destruct (IH (k + len) true p H2 ltac:(lia)) as (I1 & I2 & I3).
      cbn [inserts_at flat_map removed_at existsb patch_at].
      fold (inserts_at p d). fold (removed_at p d). rewrite I1, I2, I3.
      replace (Nat.leb k p) with false by (symmetry; apply Nat.leb_gt; lia). repeat split.
    - apply andb_true_iff in H as [H1 H2]. apply andb_true_iff in H1 as [H1 H4]. apply andb_true_iff in H1 as [H1 H3].
      apply Nat.leb_le in H1.
      destruct (IH (k + 1) true p H2 ltac:(lia)) as (I1 & I2 & I3).
      cbn [inserts_at flat_map removed_at existsb patch_at].
      fold (inserts_at p d). fold (removed_at p d). rewrite I1, I2, I3.
      replace (Nat.eqb k p) with false by (symmetry; apply Nat.eqb_neq; lia). repeat split.
  Qed.

  (* ... and, once an addrange at c has been seen, inserts nothing more at c *)
  Lemma swf_no_insert_at d : forall c p,
    swf n vl_ok patch_ok c false d = true -> p <= c -> inserts_at p d = [].
  Proof.
    destruct d as [|e d]; intros c p H Hp; [reflexivity|].
    destruct e as [k v|k|k v|[k|k] vs|[k|k] len|[k|k] dd]; cbn [swf] in H; try discriminate.
    - apply andb_true_iff in H as [H1 H2]. apply andb_true_iff in H1 as [H1 H3].
      rewrite andb_false_r, orb_false_r in H3. apply Nat.ltb_lt in H3.
      cbn [inserts_at flat_map]. replace (Nat.eqb k p) with false by (symmetry; apply Nat.eqb_neq; lia).
      fold (inserts_at p d). destruct (swf_below d k false p H2 ltac:(lia)) as (I1 & _). rewrite I1. reflexivity.
    - apply andb_true_iff in H as [H1 H2]. apply andb_true_iff in H1 as [H1 H4]. apply andb_true_iff in H1 as [H1 H3].
      apply Nat.leb_le in H3. apply negb_true_iff, Nat.eqb_neq in H1.
      cbn [inserts_at flat_map]. fold (inserts_at p d).
      destruct (swf_below d (k + len) true p H2 ltac:(lia)) as (I1 & _). exact I1.
    - apply andb_true_iff in H as [H1 H2]. apply andb_true_iff in H1 as [H1 H4]. apply andb_true_iff in H1 as [H1 H3].
      apply Nat.leb_le in H1.
      cbn [inserts_at flat_map]. fold (inserts_at p d).
      destruct (swf_below d (k + 1) true p H2 ltac:(lia)) as (I1 & _). exact I1.
  Qed.
End SeqSpec.

(* ---------- position-wise semantics: congruence and untouched prefixes ---------- *)
Section SpecSeq.
  Variable sub : json -> list dentry -> json.

  Definition same_from (d1 d2 : list dentry) (p : nat) : Prop :=
    forall q, p <= q -> inserts_at q d1 = inserts_at q d2 /\ removed_at q d1 = removed_at q d2
                        /\ patch_at q d1 = patch_at q d2.

  Lemma spec_seq_congr d1 d2 : forall items p, same_from d1 d2 p ->
    spec_seq sub d1 items p = spec_seq sub d2 items p.
  Proof.
    induction items as [|x items IH]; intros p H; cbn [spec_seq].
    - apply (H p). lia.
    - destruct (H p ltac:(lia)) as (H1 & H2 & H3). rewrite H1, H2, H3. f_equal. f_equal.
      apply IH. intros q Hq. apply H. lia.
  Qed.

  Lemma spec_seq_nil : forall items p, spec_seq sub [] items p = items.
  Proof. induction items as [|x items IH]; intros p; cbn; [reflexivity | rewrite IH; reflexivity]. Qed.

  Lemma spec_seq_untouched d (all : list json) : forall m c,
    c + m <= length all ->
    (forall p, c <= p -> p < c + m -> inserts_at p d = [] /\ removed_at p d = false /\ patch_at p d = None) ->
    spec_seq sub d (skipn c all) c = slice all c (c + m) ++ spec_seq sub d (skipn (c + m) all) (c + m).
  Proof.
    induction m as [|m IH]; intros c Hl H.
    - rewrite Nat.add_0_r, slice_same. reflexivity.
    - destruct (nth_error all c) as [x|] eqn:Ex; [|apply nth_error_None in Ex; lia].
      assert (Hs : skipn c all = x :: skipn (S c) all).
      { clear - Ex. revert c Ex. induction all as [|y all IH]; intros [|c] Ex; simpl in *; try discriminate.
        - inversion Ex. reflexivity.
        - apply IH. exact Ex. }
      rewrite Hs. cbn [spec_seq].
      destruct (H c ltac:(lia) ltac:(lia)) as (H1 & H2 & H3). rewrite H1, H2, H3. cbn [app].
      rewrite (IH (S c)); [| lia | intros p Hp1 Hp2; apply H; lia].
      replace (S c + m) with (c + S m) by lia.
      rewrite <- (slice_app all c (c + 1) (c + S m)) by lia. rewrite (slice_one all c x Ex).
      replace (c + 1) with (S c) by lia. reflexivity.
  Qed.

  Lemma spec_seq_untouched' d (all : list json) c k :
    c <= k -> k <= length all ->
    (forall p, c <= p -> p < k -> inserts_at p d = [] /\ removed_at p d = false /\ patch_at p d = None) ->
    spec_seq sub d (skipn c all) c = slice all c k ++ spec_seq sub d (skipn k all) k.
  Proof.
    intros H1 H2 H. replace k with (c + (k - c)) by lia. apply spec_seq_untouched; [lia|].
    intros p Hp1 Hp2. apply H; lia.
  Qed.
End SpecSeq.

(* ---------- patch_list on a well-formed diff is the position-wise meaning ---------- *)
Section PatchIsSpec.
  Variable rec : json -> diff -> res json.
  Variable sub : json -> list dentry -> json.
  Variable all : list json.
  Variable vl_ok : vlist -> bool.
  Variable patch_ok : nat -> list dentry -> bool.
  (* admissible nested patches are computed by rec, and sub names their result *)
  Hypothesis Hpatch : forall k dd, patch_ok k dd = true ->
    exists x, nth_error all k = Some x /\ rec x dd = Ok (sub x dd).

  Notation n := (length all).

  Lemma patch_list_go_spec : forall d c a acc,
    swf n vl_ok patch_ok c a d = true -> c <= n ->
    patch_list_go rec all c d acc = Ok (acc ++ spec_seq sub d (skipn c all) c).
  Proof.
    induction d as [|e d IH]; intros c a acc Hwf Hc.
    - cbn [patch_list_go]. rewrite spec_seq_nil. reflexivity.
    - destruct e as [k v|k|k v|[k|k] vs|[k|k] len|[k|k] dd]; cbn [swf] in Hwf; try discriminate.
      + (* addrange *)
        apply andb_true_iff in Hwf as [H1 H2]. apply andb_true_iff in H1 as [H1 H3].
        apply andb_true_iff in H1 as [H1 H4]. apply Nat.leb_le in H4.
        assert (Hck : c <= k).
        { apply orb_true_iff in H3 as [H3|H3]; [apply Nat.ltb_lt in H3; lia|].
          apply andb_true_iff in H3 as [H3 _]. apply Nat.eqb_eq in H3. lia. }
        cbn [patch_list_go dkey]. replace (Nat.max c k) with k by lia.
        rewrite (IH k false _ H2 H4).
        (* the spec side *)
        rewrite (spec_seq_untouched' sub (DAddRange (KI k) vs :: d) all c k Hck H4).
        *
          assert (Hstep : spec_seq sub (DAddRange (KI k) vs :: d) (skipn k all) k = vitems vs ++ spec_seq sub d (skipn k all) k).
          { destruct (skipn k all) as [|x rest] eqn:Es; cbn [spec_seq inserts_at flat_map]; rewrite Nat.eqb_refl;
              fold (inserts_at k d); rewrite (swf_no_insert_at _ _ _ d k k H2 (le_n _)).
            - rewrite app_nil_r. reflexivity.
            - cbn [removed_at existsb patch_at]. fold (removed_at k d). rewrite app_nil_r. cbn [app orb].
              f_equal. f_equal.
              apply spec_seq_congr. intros q Hq. cbn [inserts_at flat_map removed_at existsb patch_at].
              replace (Nat.eqb k q) with false by (symmetry; apply Nat.eqb_neq; lia). repeat split. }
          rewrite Hstep. rewrite <- !app_assoc. reflexivity.
        * intros p Hp1 Hp2. cbn [inserts_at flat_map removed_at existsb patch_at].
          replace (Nat.eqb k p) with false by (symmetry; apply Nat.eqb_neq; lia).
          fold (inserts_at p d). fold (removed_at p d).
          destruct (swf_below _ _ _ d k false p H2 ltac:(lia)) as (I1 & I2 & I3). rewrite I1, I2, I3. repeat split.
      + (* removerange *)
        apply andb_true_iff in Hwf as [H1 H2]. apply andb_true_iff in H1 as [H1 H4]. apply andb_true_iff in H1 as [H1 H3].
        apply Nat.leb_le in H3, H4. apply negb_true_iff, Nat.eqb_neq in H1.
        cbn [patch_list_go dkey]. replace (Nat.max c (k + len)) with (k + len) by lia.
        rewrite (IH (k + len) true _ H2 H4).
        rewrite (spec_seq_untouched' sub (DRemoveRange (KI k) len :: d) all c k ltac:(lia) ltac:(lia)).
        *
          assert (Hstep : spec_seq sub (DRemoveRange (KI k) len :: d) (skipn k all) k = spec_seq sub d (skipn (k + len) all) (k + len)).
          { clear IH.
            assert (forall j k0, k0 + j = k + len -> k <= k0 -> k0 + j <= n ->
                      spec_seq sub (DRemoveRange (KI k) len :: d) (skipn k0 all) k0 = spec_seq sub d (skipn (k0 + j) all) (k0 + j)) as Hgen.
            { induction j as [|j IHj]; intros k0 E Hk0 Hn.
              - rewrite Nat.add_0_r. apply spec_seq_congr. intros q Hq.
                cbn [inserts_at flat_map removed_at existsb patch_at].
                replace (Nat.leb k q && Nat.ltb q (k + len)) with false by (symmetry; apply andb_false_iff; right; apply Nat.ltb_ge; lia).
                repeat split.
              - destruct (nth_error all k0) as [x|] eqn:Ex; [|apply nth_error_None in Ex; lia].
                assert (Hs : skipn k0 all = x :: skipn (S k0) all).
                { clear - Ex. revert k0 Ex. induction all as [|y l IHl]; intros [|k0] Ex; simpl in *; try discriminate.
                  - inversion Ex. reflexivity.
                  - apply IHl. exact Ex. }
                rewrite Hs. cbn [spec_seq inserts_at flat_map removed_at existsb].
                fold (inserts_at k0 d).
                destruct (swf_below _ _ _ d (k + len) true k0 H2 ltac:(lia)) as (I1 & _). rewrite I1.
                replace (Nat.leb k k0 && Nat.ltb k0 (k + len)) with true
                  by (symmetry; apply andb_true_iff; split; [apply Nat.leb_le | apply Nat.ltb_lt]; lia).
                cbn [orb app]. rewrite (IHj (S k0)); try lia. replace (S k0 + j) with (k0 + S j) by lia. reflexivity. }
            exact (Hgen len k eq_refl (le_n _) H4). }
          rewrite Hstep. rewrite <- app_assoc. reflexivity.
        * intros p Hp1 Hp2. cbn [inserts_at flat_map removed_at existsb patch_at].
          fold (inserts_at p d). fold (removed_at p d).
          destruct (swf_below _ _ _ d (k + len) true p H2 ltac:(lia)) as (I1 & I2 & I3). rewrite I1, I2, I3.
          replace (Nat.leb k p) with false by (symmetry; apply Nat.leb_gt; lia). repeat split.
      + (* patch *)
        apply andb_true_iff in Hwf as [H1 H2]. apply andb_true_iff in H1 as [H1 H4]. apply andb_true_iff in H1 as [H1 H3].
        apply Nat.leb_le in H1. apply Nat.ltb_lt in H3.
        destruct (Hpatch k dd H4) as (x & Hx & Hr).
        cbn [patch_list_go dkey]. unfold nth_res. rewrite Hx. cbn [bind]. rewrite Hr. cbn [bind].
        replace (Nat.max c (k + 1)) with (k + 1) by lia.
        rewrite (IH (k + 1) true _ H2 ltac:(lia)).
        rewrite (spec_seq_untouched' sub (DPatch (KI k) dd :: d) all c k ltac:(lia) ltac:(lia)).
        *
          assert (Hs : skipn k all = x :: skipn (S k) all).
          { clear - Hx. revert k Hx. induction all as [|y l IHl]; intros [|k] Hx; simpl in *; try discriminate.
            - inversion Hx. reflexivity.
            - apply IHl. exact Hx. }
          rewrite Hs. cbn [spec_seq inserts_at flat_map removed_at existsb patch_at]. rewrite Nat.eqb_refl.
          fold (inserts_at k d). fold (removed_at k d).
          destruct (swf_below _ _ _ d (k + 1) true k H2 ltac:(lia)) as (I1 & I2 & _). rewrite I1, I2. cbn [app].
          replace (k + 1) with (S k) by lia. rewrite <- !app_assoc. cbn [app orb]. do 3 f_equal.
          symmetry. f_equal. apply spec_seq_congr. intros q Hq. cbn [inserts_at flat_map removed_at existsb patch_at].
          replace (Nat.eqb k q) with false by (symmetry; apply Nat.eqb_neq; lia). repeat split.
        * intros p Hp1 Hp2. cbn [inserts_at flat_map removed_at existsb patch_at].
          replace (Nat.eqb k p) with false by (symmetry; apply Nat.eqb_neq; lia).
          fold (inserts_at p d). fold (removed_at p d).
          destruct (swf_below _ _ _ d (k + 1) true p H2 ltac:(lia)) as (I1 & I2 & I3). rewrite I1, I2, I3. repeat split.
  Qed.

  Theorem patch_list_is_spec d :
    swf n vl_ok patch_ok 0 true d = true ->
    patch_list rec all d = Ok (spec_seq sub d all 0).
  Proof. intros H. unfold patch_list. rewrite (patch_list_go_spec d 0 true [] H (Nat.le_0_l _)). reflexivity. Qed.
End PatchIsSpec.

(* ---------- strings: every produced item is a string ---------- *)
Lemma all_strs_app l1 l2 : all_strs (l1 ++ l2) = all_strs l1 && all_strs l2.
Proof. unfold all_strs. apply forallb_app. Qed.

Lemma swf_inserts_strs n vl_ok patch_ok :
  (forall vs, vl_ok vs = true -> all_strs (vitems vs) = true) ->
  forall d c a, swf n vl_ok patch_ok c a d = true -> forall q, all_strs (inserts_at q d) = true.
Proof.
  intros Hv. induction d as [|e d IH]; intros c a H q; [reflexivity|].
  destruct e as [k v|k|k v|[k|k] vs|[k|k] len|[k|k] dd]; cbn [swf] in H; try discriminate;
    cbn [inserts_at flat_map]; fold (inserts_at q d).
  - apply andb_true_iff in H as [H1 H2]. do 3 apply andb_true_iff in H1 as [H1 _].
    rewrite all_strs_app, (IH _ _ H2 q), andb_true_r. destruct (Nat.eqb k q); [apply Hv; exact H1 | reflexivity].
  - apply andb_true_iff in H as [_ H2]. exact (IH _ _ H2 q).
  - apply andb_true_iff in H as [_ H2]. exact (IH _ _ H2 q).
Qed.

Lemma spec_seq_all_strs sub d :
  (forall q, all_strs (inserts_at q d) = true) ->
  (forall x dd, all_strs [x] = true -> all_strs [sub x dd] = true) ->
  forall items p, all_strs items = true -> all_strs (spec_seq sub d items p) = true.
Proof.
  intros Hi Hs. induction items as [|x items IH]; intros p Ha; cbn [spec_seq]; [apply Hi|].
  change (x :: items) with ([x] ++ items) in Ha. rewrite all_strs_app in Ha. apply andb_true_iff in Ha as [Hx Hr].
  rewrite !all_strs_app, Hi, (IH (S p) Hr), andb_true_r. cbn [andb].
  destruct (removed_at p d); [reflexivity|]. destruct (patch_at p d); [apply Hs|]; exact Hx.
Qed.

Lemma all_strs_chars s : all_strs (chars s) = true.
Proof. unfold chars, all_strs. rewrite forallb_forall. intros x Hx. apply in_map_iff in Hx as (c & <- & _). reflexivity. Qed.

Lemma all_strs_is_map l : all_strs l = true -> exists ls, l = map JStr ls.
Proof.
  induction l as [|x l IH]; intros H; [exists []; reflexivity|].
  cbn [all_strs forallb] in H. apply andb_true_iff in H as [Hx Hl]. destruct x; try discriminate.
  destruct (IH Hl) as (ls & ->). eexists (_ :: ls). reflexivity.
Qed.

Lemma line_rec_spec rec_c line dd :
  wf_chars (length line) dd = true -> line_rec rec_c (JStr line) dd = Ok (spec_line (JStr line) dd).
Proof.
  intros H. unfold wf_chars in H. rewrite <- (chars_length line) in H.
  cbn [line_rec spec_line].
  rewrite (patch_list_is_spec rec_c (fun c _ => c) (chars line) vl_is_str (fun _ _ => false)); [|discriminate|exact H].
  cbn [bind]. rewrite join_strs_all; [reflexivity|].
  apply spec_seq_all_strs; [| intros x _ Hx; exact Hx | apply all_strs_chars].
  refine (swf_inserts_strs _ _ _ _ dd 0 true H).
  intros [l|t] Hv; [discriminate|]. cbn [vitems]. apply (all_strs_chars t).
Qed.

Lemma spec_line_str x dd : all_strs [x] = true -> all_strs [spec_line x dd] = true.
Proof. destruct x; intros H; try discriminate. reflexivity. Qed.

Theorem patch_string_is_spec m s d :
  wf_lines (splitlines s) d = true -> patch (S m) (JStr s) d = Ok (JStr (spec_str s d)).
Proof.
  intros Hwf. set (lines := splitlines s) in *. set (rec_c := patch m).
  assert (Hpl : patch_list (line_rec rec_c) (map JStr lines) d = Ok (spec_seq spec_line d (map JStr lines) 0)).
  { unfold wf_lines in Hwf. rewrite <- (map_length JStr lines) in Hwf.
    apply (patch_list_is_spec (line_rec rec_c) spec_line (map JStr lines) _ _) with (2 := Hwf).
    intros k dd Hk. rewrite nth_error_map. destruct (nth_error lines k) as [line|]; [|discriminate].
    apply andb_true_iff in Hk as [_ Hk]. exists (JStr line). split; [reflexivity|]. apply line_rec_spec. exact Hk. }
  assert (Hall : all_strs (spec_seq spec_line d (map JStr lines) 0) = true).
  { apply spec_seq_all_strs; [| apply spec_line_str |].
    - refine (swf_inserts_strs _ _ _ _ d 0 true Hwf).
      intros [l|t] Hv; [exact Hv | discriminate].
    - unfold all_strs. rewrite forallb_forall. intros x Hx. apply in_map_iff in Hx as (c & <- & _). reflexivity. }
  destruct (all_strs_is_map _ Hall) as (lb & Hlb). rewrite Hlb in Hpl.
  destruct (flatten_sound rec_c lines (splitlines_nonempty s) d lb Hwf Hpl) as (fd & Hfd & Hpc).
  cbn [patch]. fold lines. rewrite Hfd. cbn [bind].
  unfold lines in Hpc. rewrite splitlines_concat in Hpc. fold rec_c. rewrite Hpc. cbn [bind].
  rewrite join_chars'. unfold spec_str. fold lines. rewrite Hlb, concat_strs_JStr. reflexivity.
Qed.

(* ---------- objects ---------- *)
Section ObjSpec.
  Variable rec : json -> diff -> res json.
  Variable sub : json -> list dentry -> json.
  Variable kv : list (pystr * json).
  Hypothesis Hsorted : keys_sorted kv = true.

  Definition keep (d : list dentry) (p : pystr * json) : list (pystr * json) :=
    match find_entry (fst p) d with
    | None => [p]
    | Some (DRemove _) => []
    | Some (DReplace _ v) => [(fst p, v)]
    | Some (DPatch _ dd) => [(fst p, sub (snd p) dd)]
    | Some _ => [p]
    end.
  Definition addf (acc : list (pystr * json)) (e : dentry) : list (pystr * json) :=
    match e with DAdd (KS k) v => obj_set k v acc | _ => acc end.
  Definition spec_obj (d : list dentry) : list (pystr * json) := fold_left addf d (flat_map (keep d) kv).

  Definition kept_val (d : list dentry) (k : pystr) (v : json) : option json :=
    match find_entry k d with
    | None => Some v
    | Some (DRemove _) => None
    | Some (DReplace _ v') => Some v'
    | Some (DPatch _ dd) => Some (sub v dd)
    | Some _ => Some v
    end.

  Lemma keep_shape d k v : keep d (k, v) = match kept_val d k v with Some v' => [(k, v')] | None => [] end.
  Proof. unfold keep, kept_val. cbn [fst snd]. destruct (find_entry k d) as [[]|]; reflexivity. Qed.

  Lemma keep_get d : forall l k, keys_sorted l = true ->
    obj_get k (flat_map (keep d) l) = match obj_get k l with Some v => kept_val d k v | None => None end.
  Proof.
    induction l as [|[k0 v0] l IH]; intros k Hs; [reflexivity|].
    apply keys_sorted_cons in Hs as [Hgt Hs]. cbn [flat_map obj_get]. rewrite keep_shape.
    destruct (str_eqb k k0) eqn:E.
    - apply str_eqb_eq in E. subst k0. destruct (kept_val d k v0) as [v'|].
      + cbn [app obj_get]. rewrite str_eqb_refl. reflexivity.
      + cbn [app]. rewrite (IH k Hs), (sorted_get_lt k l Hgt Hs). reflexivity.
    - destruct (kept_val d k0 v0) as [v'|]; cbn [app obj_get]; [rewrite E|]; apply IH; exact Hs.
  Qed.

  Lemma keep_sorted d : forall l, keys_sorted l = true ->
    keys_sorted (flat_map (keep d) l) = true
    /\ forall k, (forall k', In k' (okeys l) -> str_ltb k k' = true) -> first_key_gt k (flat_map (keep d) l).
  Proof.
    induction l as [|[k0 v0] l IH]; intros Hs; [split; [reflexivity | intros; exact I]|].
    pose proof (sorted_keys_gt _ _ _ Hs) as Hgt0.
    apply keys_sorted_cons in Hs as [Hgt Hs]. destruct (IH Hs) as [I1 I2].
    cbn [flat_map]. rewrite keep_shape. destruct (kept_val d k0 v0) as [v'|]; cbn [app].
    - split.
      + apply keys_sorted_cons. split; [apply I2; exact Hgt0 | exact I1].
      + intros k Hk. cbn [first_key_gt]. apply Hk. left. reflexivity.
    - split; [exact I1|]. intros k Hk. apply I2. intros k' Hin. apply Hk. right. exact Hin.
  Qed.

  Lemma fold_add_sorted : forall d acc, keys_sorted acc = true -> keys_sorted (fold_left addf d acc) = true.
  Proof.
    induction d as [|e d IH]; intros acc Ha; [exact Ha|]. cbn [fold_left]. apply IH.
    destruct e as [[k|k] v| | | | |]; cbn [addf]; try exact Ha. apply obj_set_sorted. exact Ha.
  Qed.

  (* the value the last addition for key k gives *)
  Fixpoint last_add (k : pystr) (d : list dentry) : option json :=
    match d with
    | [] => None
    | e :: r => match last_add k r with
                | Some v => Some v
                | None => match e with DAdd (KS k') v => if str_eqb k k' then Some v else None | _ => None end
                end
    end.

  Lemma fold_add_get k : forall d acc,
    obj_get k (fold_left addf d acc) = match last_add k d with Some v => Some v | None => obj_get k acc end.
  Proof.
    induction d as [|e d IH]; intros acc; [reflexivity|]. cbn [fold_left last_add]. rewrite IH.
    destruct (last_add k d); [reflexivity|].
    destruct e as [[k'|k'] v| | | | |]; cbn [addf]; try reflexivity. rewrite obj_get_set. destruct (str_eqb k k'); reflexivity.
  Qed.

  (* entries the documented reading accepts, with [sub] naming the result of nested patches *)
  Definition entry_spec_ok (e : dentry) : Prop :=
    match e with
    | DAdd (KS k) _ => obj_has k kv = false
    | DRemove (KS k) => obj_has k kv = true
    | DReplace (KS k) _ => obj_has k kv = true
    | DPatch (KS k) dd => exists x, obj_get k kv = Some x /\ rec x dd = Ok (sub x dd)
    | _ => False
    end.

  Lemma entry_spec_entry_ok e : entry_spec_ok e -> entry_ok rec kv e.
  Proof.
    destruct e as [[k|k] v|[k|k]|[k|k] v|[k|k] vs|[k|k] len|[k|k] dd]; cbn; try tauto.
    intros (x & H1 & H2). exists x, (sub x dd). split; assumption.
  Qed.

  Lemma find_entry_in k : forall d e, find_entry k d = Some e -> In e d.
  Proof.
    induction d as [|e0 d IH]; intros e H; [discriminate|]. cbn [find_entry] in H.
    destruct (dkey e0) as [k'|k']; try (right; apply IH; exact H).
    destruct (str_eqb k k'); [inversion H; left; reflexivity | right; apply IH; exact H].
  Qed.

  Lemma last_add_find : forall d, Forall entry_spec_ok d -> NoDup (dkeys d) ->
    forall k, last_add k d = match find_entry k d with Some (DAdd _ v) => Some v | _ => None end.
  Proof.
    induction d as [|e d IH]; intros Hok Hnd k; [reflexivity|].
    inversion Hok as [|? ? He Hok']; subst. inversion Hnd as [|? ? Hni Hnd']; subst.
    rewrite (find_entry_cons rec kv k e d (entry_spec_entry_ok e He)). cbn [last_add]. rewrite (IH Hok' Hnd' k).
    destruct (str_eqb k (key_str e)) eqn:E.
    - apply str_eqb_eq in E. subst k. rewrite (find_entry_notin _ _ Hni).
      destruct e as [[k|k] v|[k|k]|[k|k] v|[k|k] vs|[k|k] len|[k|k] dd]; cbn in He; try tauto; try reflexivity.
      unfold key_str. cbn [dkey]. rewrite str_eqb_refl. reflexivity.
    - destruct (find_entry k d) as [[]|]; try reflexivity;
      destruct e as [[k'|k'] v'|[k'|k']|[k'|k'] v'|[k'|k'] vs'|[k'|k'] len'|[k'|k'] dd']; cbn in He; try tauto; try reflexivity;
      unfold key_str in E; cbn [dkey] in E; rewrite E; reflexivity.
  Qed.

  Theorem patch_dict_is_spec d :
    Forall entry_spec_ok d -> NoDup (dkeys d) -> patch_dict rec kv d = Ok (spec_obj d).
  Proof.
    intros Hok Hnd.
    assert (Hok' : Forall (entry_ok rec kv) d).
    { rewrite Forall_forall in *. intros e He. apply entry_spec_entry_ok, Hok, He. }
    destruct (patch_dict_spec rec kv d Hok' Hnd) as (r & Hr & Sr & Hget).
    rewrite Hr. f_equal. apply sorted_ext; [exact Sr | |].
    - unfold spec_obj. apply fold_add_sorted. apply keep_sorted. exact Hsorted.
    - intros k. rewrite Hget. unfold spec_obj. rewrite fold_add_get, (last_add_find d Hok Hnd k), (keep_get d kv k Hsorted).
      unfold dmeaning, kept_val.
      destruct (find_entry k d) as [e|] eqn:Ef.
      + pose proof (find_entry_key _ _ _ Ef) as Hk.
        assert (He : entry_spec_ok e) by (rewrite Forall_forall in Hok; apply Hok; eapply find_entry_in; exact Ef).
        destruct e as [[k'|k'] v|[k'|k']|[k'|k'] v|[k'|k'] vs|[k'|k'] len|[k'|k'] dd]; cbn in He; try tauto;
          unfold key_str in Hk; cbn [dkey] in Hk; subst k'; cbn [is_remove set_of].
        * destruct (obj_get k kv); reflexivity.
        * unfold obj_has in He. destruct (obj_get k kv); [reflexivity | discriminate].
        * destruct He as (x & H1 & H2). rewrite H1, H2. reflexivity.
      + destruct (obj_get k kv); reflexivity.
  Qed.
End ObjSpec.

(* ---------- the whole format ---------- *)
Lemma wf_map_entries (recb : json -> list dentry -> bool) rec sub kv :
  (forall k x dd, obj_get k kv = Some x -> recb x dd = true -> rec x dd = Ok (sub x dd)) ->
  forall d prev, wf_map_of recb kv prev d = true ->
    Forall (entry_spec_ok rec sub kv) d /\ NoDup (dkeys d)
    /\ forall k, In k (dkeys d) -> match prev with None => True | Some p => str_ltb p k = true end.
Proof.
  intros Hrec. induction d as [|e d IH]; intros prev H.
  - split; [constructor|]. split; [constructor|]. intros k [].
  - cbn [wf_map_of] in H. destruct (dkey e) as [k|k] eqn:Ek; try discriminate.
    apply andb_true_iff in H as [H H3]. apply andb_true_iff in H as [H1 H2].
    destruct (IH (Some k) H3) as (I1 & I2 & I3).
    assert (Hks : key_str e = k) by (unfold key_str; rewrite Ek; reflexivity).
    split; [|split].
    + constructor; [|exact I1].
      destruct e as [[k'|k'] v|[k'|k']|[k'|k'] v|[k'|k'] vs|[k'|k'] len|[k'|k'] dd]; cbn [dkey] in Ek; inversion Ek; subst k';
        cbn [entry_spec_ok]; try discriminate.
      * apply negb_true_iff in H2. exact H2.
      * exact H2.
      * exact H2.
      * destruct (obj_get k kv) as [x|] eqn:Ex; [|discriminate].
        apply andb_true_iff in H2 as [_ H2]. exists x. split; [reflexivity|]. apply (Hrec k x dd Ex H2).
    + cbn [dkeys map]. rewrite Hks. constructor; [|exact I2].
      intros Hin. specialize (I3 k Hin). cbn in I3. rewrite str_ltb_irrefl in I3. discriminate.
    + intros k0 [E|Hin].
      * rewrite Hks in E. subst k0. destruct prev; [exact H1 | exact I].
      * specialize (I3 k0 Hin). cbn in I3. destruct prev as [p|]; [|exact I]. eapply str_ltb_trans; eassumption.
Qed.

Lemma wfj_obj_get k kv x : wfj (JObj kv) = true -> obj_get k kv = Some x -> wfj x = true.
Proof.
  cbn [wfj]. intros H. apply andb_true_iff in H as [_ H]. rewrite forallb_forall in H.
  induction kv as [|[k' v] kv IH]; cbn [obj_get]; [discriminate|].
  destruct (str_eqb k k').
  - intros E. inversion E; subst. apply (H (k', x)). left. reflexivity.
  - apply IH. intros p Hp. apply H. right. exact Hp.
Qed.

Theorem patch_is_spec : forall f a d, wfj a = true -> wf_diff f a d = true ->
  forall m, f <= m -> patch m a d = Ok (spec_patch f a d).
Proof.
  induction f as [|f IH]; intros a d Hwa Hwf m Hm; [discriminate|].
  destruct m as [|m]; [lia|]. assert (Hfm : f <= m) by lia.
  destruct a as [| | | |s|items|kv]; try discriminate.
  - (* strings *)
    cbn [wf_diff] in Hwf. rewrite (patch_string_is_spec m s d Hwf). reflexivity.
  - (* lists *)
    cbn [wf_diff] in Hwf. cbn [patch spec_patch].
    rewrite (patch_list_is_spec (patch m) (spec_patch f) items _ _) with (2 := Hwf); [reflexivity|].
    intros k dd Hk. destruct (nth_error items k) as [x|] eqn:Ex; [|discriminate].
    apply andb_true_iff in Hk as [_ Hk]. exists x. split; [reflexivity|].
    apply IH; [|exact Hk|exact Hfm].
    cbn [wfj] in Hwa. rewrite forallb_forall in Hwa. apply Hwa. eapply nth_error_In. exact Ex.
  - (* objects *)
    rewrite wf_diff_obj in Hwf.
    destruct (wf_map_entries (wf_diff f) (patch m) (spec_patch f) kv) with (d := d) (prev := @None pystr)
      as (H1 & H2 & _); [|exact Hwf|].
    { intros k x dd Ex Hx. apply IH; [eapply wfj_obj_get; eassumption | exact Hx | exact Hfm]. }
    assert (Hs : keys_sorted kv = true) by (cbn [wfj] in Hwa; apply andb_true_iff in Hwa as [Hs _]; exact Hs).
    cbn [patch]. rewrite (patch_dict_is_spec (patch m) (spec_patch f) kv Hs d H1 H2). reflexivity.
Qed.

(* corollary: what the produced diff means, read position-wise, is the target *)
Corollary check_diff_of_patch f a b d :
  wfj a = true -> wf_diff f a d = true -> patch f a d = Ok b -> spec_patch f a d = b.
Proof.
  intros Hwa Hwf Hp. rewrite (patch_is_spec f a d Hwa Hwf f (le_n _)) in Hp. inversion Hp. reflexivity.
Qed.
