(* C13 -- proofs about the store model Diff/Store.v.

   Method.  Fix a set [G] of "good" locations containing every location allocated after the call started
   ([F0 <= l]).  Every function that only ALLOCATES (deepcopy, patch_s) extends the heap by cells whose children
   are in G ([gext]); hence (a) no pre-existing cell is written at all and (b) everything reachable from the
   result is in G.  Instantiating G with "fresh, or reachable from a value carried by the diff" gives the
   aliasing theorems; functions that also write in place (apply_s) keep the invariant [inv]: cells outside G are
   exactly as in the initial heap. *)
From Coq Require Import String.
From Coq Require Import List NArith ZArith Bool Lia.
From NB Require Import Base.Res.
From NB Require Import Base.Json.
From NB Require Import Base.PyStr.
From NB Require Import Diff.DiffFormat.
From NB Require Import Diff.Patch.
From NB Require Import Diff.Codec.
From NB Require Import Diff.Store.
Import ListNotations.

(* ------------------------------------------------------------------ heaps *)
Lemma nth_error_upd h l c l0 :
  nth_error (upd h l c) l0 = if Nat.eqb l0 l then (match nth_error h l with Some _ => Some c | None => None end)
                             else nth_error h l0.
Proof.
  revert l l0; induction h as [|x t IH]; intros l l0.
  - simpl. destruct l0, l; simpl; try reflexivity; destruct (Nat.eqb l0 l); reflexivity.
  - destruct l, l0; simpl; auto.
Qed.

Lemma length_upd h l c : length (upd h l c) = length h.
Proof. revert l; induction h; intros [|l]; simpl; auto. Qed.

Lemma nth_error_upd_other h l c l0 : l0 <> l -> nth_error (upd h l c) l0 = nth_error h l0.
Proof. intros H. rewrite nth_error_upd. destruct (Nat.eqb_spec l0 l); congruence. Qed.

Lemma nth_error_upd_same h l c c0 : nth_error h l = Some c0 -> nth_error (upd h l c) l = Some c.
Proof. intros H. rewrite nth_error_upd, Nat.eqb_refl, H. reflexivity. Qed.

Definition vgood (G : loc -> Prop) (v : sval) : Prop := match v with VRef l => G l | VAtom _ => True end.
Definition cgood (G : loc -> Prop) (c : cell) : Prop := forall l, In l (crefs c) -> G l.
Definition gext (G : loc -> Prop) (h h' : heap) : Prop := exists e, h' = h ++ e /\ Forall (cgood G) e.

Lemma in_vrefs l vs : In l (vrefs vs) <-> In (VRef l) vs.
Proof.
  unfold vrefs. rewrite in_flat_map. split.
  - intros [[j|l'] [H1 H2]]; simpl in H2; [contradiction|]. destruct H2 as [->|[]]. exact H1.
  - intros H. exists (VRef l). split; simpl; auto.
Qed.

Lemma cgood_list G vs : Forall (vgood G) vs -> cgood G (CList vs).
Proof. intros H l Hl. simpl in Hl. apply in_vrefs in Hl. rewrite Forall_forall in H. apply (H _ Hl). Qed.

Lemma cgood_dict G (kv : list (pystr * sval)) : Forall (fun p => vgood G (snd p)) kv -> cgood G (CDict kv).
Proof.
  intros H l Hl. simpl in Hl. apply in_vrefs in Hl. apply in_map_iff in Hl as [[k v] [E Hin]]. simpl in E; subst.
  rewrite Forall_forall in H. apply (H _ Hin).
Qed.

Lemma gext_refl G h : gext G h h.
Proof. exists []. rewrite app_nil_r. auto. Qed.

Lemma gext_trans G h1 h2 h3 : gext G h1 h2 -> gext G h2 h3 -> gext G h1 h3.
Proof.
  intros [e1 [-> F1]] [e2 [-> F2]]. exists (e1 ++ e2). rewrite app_assoc. split; auto. apply Forall_app; auto.
Qed.

Lemma gext_length G h h' : gext G h h' -> length h <= length h'.
Proof. intros [e [-> _]]. rewrite app_length. lia. Qed.

Lemma gext_alloc G h c : cgood G c -> gext G h (fst (alloc h c)).
Proof. intros H. exists [c]. simpl. auto. Qed.

Lemma gext_weaken (G G' : loc -> Prop) h h' : (forall l, G l -> G' l) -> gext G h h' -> gext G' h h'.
Proof.
  intros HG [e [-> F]]. exists e. split; auto. eapply Forall_impl; [|exact F]. intros c Hc l Hl. auto.
Qed.

Lemma gext_old G h h' l : gext G h h' -> l < length h -> nth_error h' l = nth_error h l.
Proof. intros [e [-> _]] Hl. apply nth_error_app1. exact Hl. Qed.

Lemma gext_new G h h' l c : gext G h h' -> length h <= l -> nth_error h' l = Some c -> cgood G c.
Proof.
  intros [e [-> F]] Hl Hc. rewrite nth_error_app2 in Hc by exact Hl. apply nth_error_In in Hc.
  rewrite Forall_forall in F. auto.
Qed.

Lemma vgood_weaken (G G' : loc -> Prop) v : (forall l, G l -> G' l) -> vgood G v -> vgood G' v.
Proof. destruct v; simpl; auto. Qed.

(* reachability stays inside a set closed under children *)
Lemma reach_closed (G : loc -> Prop) h v l :
  (forall l c l', G l -> nth_error h l = Some c -> In l' (crefs c) -> G l') ->
  vgood G v -> reach h v l -> G l.
Proof.
  intros Hcl Hv Hr. induction Hr as [l|v l c l' Hr IH Hc Hin].
  - exact Hv.
  - eapply Hcl; eauto.
Qed.

(* ------------------------------------------------------------------ deepcopy allocates only fresh cells *)
Section Fresh.
  Variable F0 : nat.
  Definition fresh0 (l : loc) : Prop := F0 <= l.

  Definition producer (f : heap -> sval -> res (heap * sval)) : Prop :=
    forall h v h' v', F0 <= length h -> f h v = Ok (h', v') -> gext fresh0 h h' /\ vgood fresh0 v'.

  Lemma copy_list_fresh f : producer f ->
    forall vs h h' vs', F0 <= length h -> copy_list f h vs = Ok (h', vs') ->
                        gext fresh0 h h' /\ Forall (vgood fresh0) vs'.
  Proof.
    intros Hf. induction vs as [|v rest IH]; intros h h' vs' Hlen H; simpl in H.
    - inversion H; subst. split; [apply gext_refl | constructor].
    - destruct (f h v) as [[h1 v1]|] eqn:E1; simpl in H; [|discriminate].
      destruct (copy_list f h1 rest) as [[h2 rest']|] eqn:E2; simpl in H; [|discriminate].
      inversion H; subst. destruct (Hf _ _ _ _ Hlen E1) as [X1 V1].
      assert (F0 <= length h1) by (apply gext_length in X1; lia).
      destruct (IH _ _ _ H0 E2) as [X2 V2]. split; [eapply gext_trans; eauto | constructor; auto].
  Qed.

  Lemma copy_kv_fresh f : producer f ->
    forall kv h h' kv', F0 <= length h -> copy_kv f h kv = Ok (h', kv') ->
                        gext fresh0 h h' /\ Forall (fun p => vgood fresh0 (snd p)) kv'.
  Proof.
    intros Hf. induction kv as [|[k v] rest IH]; intros h h' kv' Hlen H; simpl in H.
    - inversion H; subst. split; [apply gext_refl | constructor].
    - destruct (f h v) as [[h1 v1]|] eqn:E1; simpl in H; [|discriminate].
      destruct (copy_kv f h1 rest) as [[h2 rest']|] eqn:E2; simpl in H; [|discriminate].
      inversion H; subst. destruct (Hf _ _ _ _ Hlen E1) as [X1 V1].
      assert (F0 <= length h1) by (apply gext_length in X1; lia).
      destruct (IH _ _ _ H0 E2) as [X2 V2]. split; [eapply gext_trans; eauto | constructor; auto].
  Qed.

  Lemma deepcopy_fresh n : forall h v h' v',
      F0 <= length h -> deepcopy n h v = Ok (h', v') ->
      gext fresh0 h h' /\ (match v with VRef _ => vgood fresh0 v' | VAtom _ => v' = v end).
  Proof.
    induction n as [|n IH]; intros h v h' v' Hlen H; destruct v as [j|l]; simpl in H;
      try (inversion H; subst; split; [apply gext_refl | reflexivity]); try discriminate.
    assert (P : producer (deepcopy n)).
    { intros h0 v0 h0' v0' Hl0 H0. destruct (IH _ _ _ _ Hl0 H0) as [X V]. split; auto.
      destruct v0; [subst; exact I | exact V]. }
    destruct (nth_error h l) as [[vs|kv]|]; [| |discriminate].
    - destruct (copy_list (deepcopy n) h vs) as [[h1 vs']|] eqn:E; simpl in H; [|discriminate].
      inversion H; subst. destruct (copy_list_fresh _ P _ _ _ _ Hlen E) as [X V].
      split.
      + eapply gext_trans; [exact X|]. apply (gext_alloc fresh0 h1 (CList vs')). apply cgood_list; exact V.
      + simpl. unfold fresh0. apply gext_length in X. lia.
    - destruct (copy_kv (deepcopy n) h kv) as [[h1 kv']|] eqn:E; simpl in H; [|discriminate].
      inversion H; subst. destruct (copy_kv_fresh _ P _ _ _ _ Hlen E) as [X V].
      split.
      + eapply gext_trans; [exact X|]. apply (gext_alloc fresh0 h1 (CDict kv')). apply cgood_dict; exact V.
      + simpl. unfold fresh0. apply gext_length in X. lia.
  Qed.

  Lemma deepcopy_producer n : producer (deepcopy n).
  Proof.
    intros h v h' v' Hl H. destruct (deepcopy_fresh n _ _ _ _ Hl H) as [X V]. split; auto.
    destruct v; [subst; exact I | exact V].
  Qed.
End Fresh.

(* ------------------------------------------------------------------ patch_s *)
Lemma evalues_patch k dd : evalues (SPatch k dd) = dvalues dd.
Proof. simpl. induction dd as [|x xs IH]; simpl; [reflexivity|]. rewrite IH. reflexivity. Qed.

Section PatchGood.
  Variable cfg : pcfg.
  Variable G : loc -> Prop.
  Variable F0 : nat.
  Hypothesis Hcu : copy_untouched cfg = true.
  Hypothesis HG : forall l, F0 <= l -> G l.

  Definition dgood (d : list sentry) : Prop := copy_diffvals cfg = false -> Forall (vgood G) (dvalues d).

  Lemma gext_f h h' : gext (fresh0 F0) h h' -> gext G h h'.
  Proof. apply gext_weaken. exact HG. Qed.

  Lemma vsgood_f vs : Forall (vgood (fresh0 F0)) vs -> Forall (vgood G) vs.
  Proof. apply Forall_impl. intros v. apply vgood_weaken. exact HG. Qed.

  Lemma cp_list_untouched n h vs h' vs' :
    F0 <= length h -> cp_list (copy_untouched cfg) n h vs = Ok (h', vs') -> gext G h h' /\ Forall (vgood G) vs'.
  Proof.
    rewrite Hcu. unfold cp_list. intros Hl H.
    destruct (copy_list_fresh F0 _ (deepcopy_producer F0 n) _ _ _ _ Hl H) as [X V].
    split; [apply gext_f; exact X | apply vsgood_f; exact V].
  Qed.

  Lemma cp_untouched n h v h' v' :
    F0 <= length h -> cp (copy_untouched cfg) n h v = Ok (h', v') -> gext G h h' /\ vgood G v'.
  Proof.
    rewrite Hcu. unfold cp. intros Hl H.
    destruct (deepcopy_producer F0 n _ _ _ _ Hl H) as [X V].
    split; [apply gext_f; exact X | eapply vgood_weaken; [exact HG | exact V]].
  Qed.

  Lemma cp_list_diffvals n h vs h' vs' :
    F0 <= length h -> (copy_diffvals cfg = false -> Forall (vgood G) vs) ->
    cp_list (copy_diffvals cfg) n h vs = Ok (h', vs') -> gext G h h' /\ Forall (vgood G) vs'.
  Proof.
    unfold cp_list. intros Hl Hd H. destruct (copy_diffvals cfg).
    - destruct (copy_list_fresh F0 _ (deepcopy_producer F0 n) _ _ _ _ Hl H) as [X V].
      split; [apply gext_f; exact X | apply vsgood_f; exact V].
    - inversion H; subst. split; [apply gext_refl | auto].
  Qed.

  Lemma cp_diffvals n h v h' v' :
    F0 <= length h -> (copy_diffvals cfg = false -> vgood G v) ->
    cp (copy_diffvals cfg) n h v = Ok (h', v') -> gext G h h' /\ vgood G v'.
  Proof.
    unfold cp. intros Hl Hd H. destruct (copy_diffvals cfg).
    - destruct (deepcopy_producer F0 n _ _ _ _ Hl H) as [X V].
      split; [apply gext_f; exact X | eapply vgood_weaken; [exact HG | exact V]].
    - inversion H; subst. split; [apply gext_refl | auto].
  Qed.

  Definition rec_good (rec : heap -> sval -> list sentry -> res (heap * sval)) : Prop :=
    forall h x dd h' r, F0 <= length h -> dgood dd -> rec h x dd = Ok (h', r) -> gext G h h' /\ vgood G r.

  Lemma dgood_cons_tail e d : dgood (e :: d) -> dgood d.
  Proof. intros H Hf. specialize (H Hf). unfold dvalues in *. simpl in H. apply Forall_app in H. tauto. Qed.

  Lemma dgood_cons_head e d : dgood (e :: d) -> copy_diffvals cfg = false -> Forall (vgood G) (evalues e).
  Proof. intros H Hf. specialize (H Hf). unfold dvalues in *. simpl in H. apply Forall_app in H. tauto. Qed.

  Ltac step_len X := let L := fresh "L" in pose proof (gext_length _ _ _ X) as L.

  Lemma patch_list_go_good rec n : rec_good rec ->
    forall d h obj take acc h' out,
      F0 <= length h -> dgood d -> Forall (vgood G) acc ->
      patch_list_go_s cfg rec n h obj take d acc = Ok (h', out) ->
      gext G h h' /\ Forall (vgood G) out.
  Proof.
    intros Hrec. induction d as [|e d' IH]; intros h obj take acc h' out Hl Hd Hacc H; simpl in H.
    - destruct (cp_list (copy_untouched cfg) n h (skipn take obj)) as [[h1 rest]|] eqn:E; simpl in H; [|discriminate].
      inversion H; subst. destruct (cp_list_untouched _ _ _ _ _ Hl E) as [X V].
      split; auto. apply Forall_app; auto.
    - pose proof (dgood_cons_tail _ _ Hd) as Hd'. pose proof (dgood_cons_head _ _ Hd) as Hde.
      destruct (skey e) as [index|s] eqn:Ek; [|discriminate].
      destruct (cp_list (copy_untouched cfg) n h (slice obj take index)) as [[h1 mid]|] eqn:E; simpl in H; [|discriminate].
      destruct (cp_list_untouched _ _ _ _ _ Hl E) as [X1 V1]. step_len X1.
      assert (Hacc1 : Forall (vgood G) (acc ++ mid)) by (apply Forall_app; auto).
      assert (Hl1 : F0 <= length h1) by lia.
      destruct e as [k v|k|k v|k vs|k s|k len|k dd]; simpl in H.
      + destruct (cp (copy_diffvals cfg) n h1 v) as [[h2 v']|] eqn:E2; simpl in H; [|discriminate].
        destruct (cp_diffvals _ _ _ _ _ Hl1 (fun Hf => Forall_inv (Hde Hf)) E2) as [X2 V2]. step_len X2.
        assert (Hl2 : F0 <= length h2) by lia.
        destruct (IH _ _ _ _ _ _ Hl2 Hd' (proj2 (Forall_app _ _ _) (conj Hacc1 (Forall_cons _ V2 (Forall_nil _)))) H) as [X3 V3].
        split; auto. eapply gext_trans; [exact X1|]. eapply gext_trans; eauto.
      + destruct (IH _ _ _ _ _ _ Hl1 Hd' Hacc1 H) as [X3 V3]. split; auto. eapply gext_trans; eauto.
      + destruct (cp (copy_diffvals cfg) n h1 v) as [[h2 v']|] eqn:E2; simpl in H; [|discriminate].
        destruct (cp_diffvals _ _ _ _ _ Hl1 (fun Hf => Forall_inv (Hde Hf)) E2) as [X2 V2]. step_len X2.
        assert (Hl2 : F0 <= length h2) by lia.
        destruct (IH _ _ _ _ _ _ Hl2 Hd' (proj2 (Forall_app _ _ _) (conj Hacc1 (Forall_cons _ V2 (Forall_nil _)))) H) as [X3 V3].
        split; auto. eapply gext_trans; [exact X1|]. eapply gext_trans; eauto.
      + destruct (cp_list (copy_diffvals cfg) n h1 vs) as [[h2 vs']|] eqn:E2; simpl in H; [|discriminate].
        destruct (cp_list_diffvals _ _ _ _ _ Hl1 Hde E2) as [X2 V2]. step_len X2.
        assert (Hl2 : F0 <= length h2) by lia.
        destruct (IH _ _ _ _ _ _ Hl2 Hd' (proj2 (Forall_app _ _ _) (conj Hacc1 V2)) H) as [X3 V3].
        split; auto. eapply gext_trans; [exact X1|]. eapply gext_trans; eauto.
      + assert (Hchars : Forall (vgood G) (map (fun c => VAtom (char_json c)) s)).
        { apply Forall_forall. intros x Hx. apply in_map_iff in Hx as [c [<- _]]. exact I. }
        destruct (IH _ _ _ _ _ _ Hl1 Hd' (proj2 (Forall_app _ _ _) (conj Hacc1 Hchars)) H) as [X3 V3].
        split; auto. eapply gext_trans; eauto.
      + destruct (IH _ _ _ _ _ _ Hl1 Hd' Hacc1 H) as [X3 V3]. split; auto. eapply gext_trans; eauto.
      + destruct (nth_res obj index) as [x|] eqn:En; simpl in H; [|discriminate].
        destruct (rec h1 x dd) as [[h2 p]|] eqn:E2; simpl in H; [|discriminate].
        assert (Hdd : dgood dd). { intros Hf. specialize (Hde Hf). rewrite evalues_patch in Hde. exact Hde. }
        destruct (Hrec _ _ _ _ _ Hl1 Hdd E2) as [X2 V2]. step_len X2.
        assert (Hl2 : F0 <= length h2) by lia.
        destruct (IH _ _ _ _ _ _ Hl2 Hd' (proj2 (Forall_app _ _ _) (conj Hacc1 (Forall_cons _ V2 (Forall_nil _)))) H) as [X3 V3].
        split; auto. eapply gext_trans; [exact X1|]. eapply gext_trans; eauto.
  Qed.

  Definition kvgood (kv : list (pystr * sval)) : Prop := Forall (fun p => vgood G (snd p)) kv.

  Lemma kvgood_snoc kv k v : kvgood kv -> vgood G v -> kvgood (kv ++ [(k, v)]).
  Proof. intros H1 H2. apply Forall_app. split; [exact H1 | constructor; [exact H2 | constructor]]. Qed.

  Lemma patch_dict_go_good rec n : rec_good rec ->
    forall d h obj newobj deleted h' newobj' deleted',
      F0 <= length h -> dgood d -> kvgood newobj ->
      patch_dict_go_s cfg rec n h obj d newobj deleted = Ok (h', newobj', deleted') ->
      gext G h h' /\ kvgood newobj'.
  Proof.
    intros Hrec. induction d as [|e d' IH]; intros h obj newobj deleted h' newobj' deleted' Hl Hd Hn H; simpl in H.
    - inversion H; subst. split; [apply gext_refl | exact Hn].
    - pose proof (dgood_cons_tail _ _ Hd) as Hd'. pose proof (dgood_cons_head _ _ Hd) as Hde.
      destruct (skey e) as [i|k] eqn:Ek; [discriminate|].
      destruct (has_key k newobj); [discriminate|].
      destruct e as [k0 v|k0|k0 v|k0 vs|k0 s|k0 len|k0 dd]; simpl in H; try discriminate.
      + destruct (has_key k obj); [discriminate|].
        destruct (cp (copy_diffvals cfg) n h v) as [[h1 v']|] eqn:E2; simpl in H; [|discriminate].
        destruct (cp_diffvals _ _ _ _ _ Hl (fun Hf => Forall_inv (Hde Hf)) E2) as [X2 V2]. step_len X2.
        assert (Hl2 : F0 <= length h1) by lia.
        destruct (IH _ _ _ _ _ _ _ Hl2 Hd' (kvgood_snoc _ k _ Hn V2) H) as [X3 V3].
        split; auto. eapply gext_trans; eauto.
      + eapply IH; eauto.
      + destruct (existsb (str_eqb k) deleted); [discriminate|].
        destruct (cp (copy_diffvals cfg) n h v) as [[h1 v']|] eqn:E2; simpl in H; [|discriminate].
        destruct (cp_diffvals _ _ _ _ _ Hl (fun Hf => Forall_inv (Hde Hf)) E2) as [X2 V2]. step_len X2.
        assert (Hl2 : F0 <= length h1) by lia.
        destruct (IH _ _ _ _ _ _ _ Hl2 Hd' (kvgood_snoc _ k _ Hn V2) H) as [X3 V3].
        split; auto. eapply gext_trans; eauto.
      + destruct (existsb (str_eqb k) deleted); [discriminate|].
        destruct (assoc k obj) as [x|]; [|discriminate].
        destruct (rec h x dd) as [[h1 p]|] eqn:E2; simpl in H; [|discriminate].
        assert (Hdd : dgood dd). { intros Hf. specialize (Hde Hf). rewrite evalues_patch in Hde. exact Hde. }
        destruct (Hrec _ _ _ _ _ Hl Hdd E2) as [X2 V2]. step_len X2.
        assert (Hl2 : F0 <= length h1) by lia.
        destruct (IH _ _ _ _ _ _ _ Hl2 Hd' (kvgood_snoc _ k _ Hn V2) H) as [X3 V3].
        split; auto. eapply gext_trans; eauto.
  Qed.

  Lemma patch_dict_rest_good n :
    forall obj h newobj deleted h' kv',
      F0 <= length h -> kvgood newobj ->
      patch_dict_rest_s cfg n h obj newobj deleted = Ok (h', kv') ->
      gext G h h' /\ kvgood kv'.
  Proof.
    induction obj as [|[k v] rest IH]; intros h newobj deleted h' kv' Hl Hn H; simpl in H.
    - inversion H; subst. split; [apply gext_refl | exact Hn].
    - destruct (existsb (str_eqb k) deleted || has_key k newobj).
      + eapply IH; eauto.
      + destruct (cp (copy_untouched cfg) n h v) as [[h1 v']|] eqn:E; simpl in H; [|discriminate].
        destruct (cp_untouched _ _ _ _ _ Hl E) as [X1 V1]. step_len X1.
        assert (Hl1 : F0 <= length h1) by lia.
        destruct (IH _ _ _ _ _ Hl1 (kvgood_snoc _ k _ Hn V1) H) as [X2 V2].
        split; auto. eapply gext_trans; eauto.
  Qed.

  Local Arguments Patch.patch : simpl never.
  Local Arguments reify : simpl never.
  Lemma patch_s_good n : rec_good (patch_s cfg n).
  Proof.
    induction n as [|n IH]; intros h obj d h' r Hl Hd H; simpl in H; [discriminate|].
    destruct obj as [j|l].
    - destruct j; try discriminate.
      destruct (reify n h d) as [d'|]; simpl in H; [|discriminate].
      destruct (Patch.patch (S n) (JStr s) d') as [x|]; simpl in H; [|discriminate].
      inversion H; subst. split; [apply gext_refl | exact I].
    - destruct (nth_error h l) as [[vs|kv]|]; [| |discriminate].
      + destruct (patch_list_go_s cfg (patch_s cfg n) n h vs 0 d []) as [[h1 vs']|] eqn:E; simpl in H; [|discriminate].
        inversion H; subst.
        destruct (patch_list_go_good _ n IH _ _ _ _ _ _ _ Hl Hd (Forall_nil _) E) as [X V].
        split.
        * eapply gext_trans; [exact X|]. apply (gext_alloc G h1 (CList vs')). apply cgood_list. exact V.
        * simpl. apply HG. apply gext_length in X. lia.
      + destruct (patch_dict_go_s cfg (patch_s cfg n) n h kv d [] []) as [[[h1 newobj] deleted]|] eqn:E; simpl in H; [|discriminate].
        destruct (patch_dict_rest_s cfg n h1 kv newobj deleted) as [[h2 kv']|] eqn:E2; simpl in H; [|discriminate].
        inversion H; subst.
        destruct (patch_dict_go_good _ n IH _ _ _ _ _ _ _ _ Hl Hd (Forall_nil _) E) as [X V].
        pose proof (gext_length _ _ _ X) as L.
        assert (Hl1 : F0 <= length h1) by lia.
        destruct (patch_dict_rest_good n _ _ _ _ _ _ Hl1 V E2) as [X2 V2].
        pose proof (gext_length _ _ _ X2) as L2.
        split.
        * eapply gext_trans; [exact X|]. eapply gext_trans; [exact X2|].
          apply (gext_alloc G h2 (CDict kv')). apply cgood_dict. exact V2.
        * simpl. apply HG. lia.
  Qed.
End PatchGood.

(* ---------- the theorems about patch ---------- *)

(* the set reachable from the values carried by a diff, in heap h *)
Definition from_diff (h : heap) (d : list sentry) (l : loc) : Prop :=
  exists v, In v (dvalues d) /\ reach h v l.

(* 1. patch never writes to an existing object: the heap only grows.  Hence the base AND the diff (and every
      other object alive before the call) have exactly the same contents afterwards. *)
Theorem patch_inputs_untouched cfg n h obj d h' r :
  copy_untouched cfg = true ->
  patch_s cfg n h obj d = Ok (h', r) ->
  (exists e, h' = h ++ e) /\ forall l, l < length h -> nth_error h' l = nth_error h l.
Proof.
  intros Hcu H.
  assert (X : gext (fun _ => True) h h').
  { eapply (patch_s_good cfg (fun _ => True) (length h) Hcu (fun _ _ => I) n h obj d h' r); auto.
    intros _. apply Forall_forall. intros v _. destruct v; exact I. }
  split.
  - destruct X as [e [-> _]]. eauto.
  - intros l Hl. eapply gext_old; eauto.
Qed.

(* 2. every object reachable from the result was allocated by the call, or (only when the source inserts the
      diff's values without copying them) is reachable from a value carried by the diff *)
Theorem patch_result_reach cfg n h obj d h' r :
  copy_untouched cfg = true ->
  patch_s cfg n h obj d = Ok (h', r) ->
  forall l, reach h' r l -> length h <= l \/ (copy_diffvals cfg = false /\ from_diff h d l).
Proof.
  intros Hcu H.
  set (G := fun l => length h <= l \/ (copy_diffvals cfg = false /\ from_diff h d l)).
  assert (HG : forall l, length h <= l -> G l) by (intros; left; auto).
  assert (Hd : dgood cfg G d).
  { intros Hf. apply Forall_forall. intros v Hv. destruct v as [j|l0]; simpl; auto.
    right. split; auto. exists (VRef l0). split; auto. constructor. }
  destruct (patch_s_good cfg G (length h) Hcu HG n h obj d h' r (le_n _) Hd H) as [X V].
  intros l Hr. eapply (reach_closed G h' r l); eauto.
  intros l1 c l' Hg Hc Hin.
  destruct (Nat.lt_ge_cases l1 (length h)) as [Hlt|Hge].
  - rewrite (gext_old _ _ _ _ X Hlt) in Hc.
    destruct Hg as [Hg|[Hf [v [Hv Hrv]]]]; [lia|].
    right. split; auto. exists v. split; auto. eapply reach_step; eauto.
  - eapply (gext_new _ _ _ _ _ X Hge Hc); eauto.
Qed.

(* values inside the old heap: everything reachable is in bounds *)
Definition closed_in (h : heap) (v : sval) : Prop := forall l, reach h v l -> l < length h.

Lemma reach_ext_old G h h' v l : gext G h h' -> closed_in h v -> reach h' v l -> reach h v l.
Proof.
  intros X Hc Hr. induction Hr as [l|v l c l' Hr IH Hcell Hin].
  - constructor.
  - specialize (IH Hc). pose proof (Hc _ IH) as Hlt. rewrite (gext_old _ _ _ _ X Hlt) in Hcell.
    eapply reach_step; eauto.
Qed.

(* 3. no object reachable from the result is reachable from the base (when base and diff are separate, as they
      are for two documents loaded independently) *)
Theorem patch_result_disjoint_from_base_gen cfg n h obj d h' r :
  copy_untouched cfg = true ->
  closed_in h obj ->
  (forall l, from_diff h d l -> ~ reach h obj l) ->
  patch_s cfg n h obj d = Ok (h', r) ->
  forall l, reach h' r l -> ~ reach h' obj l.
Proof.
  intros Hcu Hcl Hsep H l Hr Ho.
  assert (X : gext (fun _ => True) h h').
  { eapply (patch_s_good cfg (fun _ => True) (length h) Hcu (fun _ _ => I) n h obj d h' r); auto.
    intros _. apply Forall_forall. intros v _. destruct v; exact I. }
  pose proof (reach_ext_old _ _ _ _ _ X Hcl Ho) as Ho'.
  destruct (patch_result_reach cfg n h obj d h' r Hcu H l Hr) as [Hf|[_ Hd]].
  - pose proof (Hcl _ Ho'). lia.
  - exact (Hsep _ Hd Ho').
Qed.

(* 4. the aliasing clause.  If the source deep-copies the diff's values, the result shares nothing with the diff *)
Theorem patch_result_disjoint_from_diff_gen cfg n h obj d h' r :
  copy_untouched cfg = true -> copy_diffvals cfg = true ->
  (forall v, In v (dvalues d) -> closed_in h v) ->
  patch_s cfg n h obj d = Ok (h', r) ->
  forall l, reach h' r l -> forall v, In v (dvalues d) -> ~ reach h' v l.
Proof.
  intros Hcu Hcd Hcl H l Hr v Hv Hrv.
  assert (X : gext (fun _ => True) h h').
  { eapply (patch_s_good cfg (fun _ => True) (length h) Hcu (fun _ _ => I) n h obj d h' r); auto.
    intros _. apply Forall_forall. intros v0 _. destruct v0; exact I. }
  pose proof (reach_ext_old _ _ _ _ _ X (Hcl _ Hv) Hrv) as Hrv'.
  pose proof (Hcl _ Hv _ Hrv') as Hlt.
  destruct (patch_result_reach cfg n h obj d h' r Hcu H l Hr) as [Hf|[Hf _]]; [lia | congruence].
Qed.

(* ... and if it does not, it does: witness  patch([], [addrange(0, [[]])])  -- the inserted list IS the diff's.
   Appending to result[0] changes what the diff reads as. *)
Definition wit_h : heap := [CList []; CList []].
Definition wit_d : list sentry := [SAddRange (KI 0) [VRef 1]].

Theorem patch_result_shares_diff_value cfg :
  copy_diffvals cfg = false ->
  exists h' r l v,
    patch_s cfg 3 wit_h (VRef 0) wit_d = Ok (h', r) /\
    reach h' r l /\ In v (dvalues wit_d) /\ reach h' v l /\
    (* mutating the object through the result alters the diff *)
    (exists h'', store_item h' r (KI 0) (VRef l) = Ok h'' /\ True) /\
    read 5 (upd h' l (CList [VAtom JNull])) v <> read 5 h' v.
Proof.
  intros Hf. destruct cfg as [cu cd]. simpl in Hf. subst cd.
  exists (wit_h ++ [CList [VRef 1]]), (VRef 2), 1, (VRef 1).
  split; [destruct cu; reflexivity|].
  split.
  - eapply reach_step; [constructor | reflexivity | simpl; auto].
  - split; [simpl; auto|]. split; [constructor|]. split.
    + eexists. split; [reflexivity | exact I].
    + vm_compute. discriminate.
Qed.

(* non-vacuity of the hypotheses of theorems 1-4: a concrete patch of a dict holding a list *)
Example patch_hypotheses_satisfiable :
  let '(h1, obj) := load [] (JObj [(of_ascii "a"%string, JArr [JInt 1]); (of_ascii "b"%string, JObj [])]) in
  let '(h2, d) := load_diff h1 [DReplace (KS (of_ascii "b"%string)) (JArr [JObj []])] in
  exists h' r, patch_s {| copy_untouched := true; copy_diffvals := false |} 5 h2 obj d = Ok (h', r) /\
               read 5 h' r = Ok (JObj [(of_ascii "b"%string, JArr [JObj []]); (of_ascii "a"%string, JArr [JInt 1])]).
Proof. vm_compute. eexists. eexists. split; reflexivity. Qed.

(* ------------------------------------------------------------------ association lists *)
Lemma str_eqb_spec a b : reflect (a = b) (str_eqb a b).
Proof.
  destruct (str_eqb a b) eqn:E; constructor.
  - apply str_eqb_eq. exact E.
  - intros ->. rewrite str_eqb_refl in E. discriminate.
Qed.

Lemma assoc_remove_key {A} k k' (kv : list (pystr * A)) :
  assoc k' (remove_key k kv) = if str_eqb k' k then None else assoc k' kv.
Proof.
  induction kv as [|[q v] rest IH]; simpl.
  - destruct (str_eqb k' k); reflexivity.
  - destruct (str_eqb_spec k q) as [->|Hkq]; simpl.
    + rewrite IH. destruct (str_eqb_spec k' q); reflexivity.
    + rewrite IH. destruct (str_eqb_spec k' q) as [->|Hq]; [|reflexivity].
      destruct (str_eqb_spec q k); [congruence | reflexivity].
Qed.

Lemma assoc_set_key {A} k (v : A) k' kv :
  assoc k' (set_key k v kv) = if str_eqb k' k then Some v else assoc k' kv.
Proof.
  induction kv as [|[q w] rest IH]; simpl.
  - destruct (str_eqb k' k); reflexivity.
  - destruct (str_eqb_spec k q) as [->|Hkq]; simpl.
    + destruct (str_eqb_spec k' q); reflexivity.
    + rewrite IH. destruct (str_eqb_spec k' q) as [->|Hq]; [|reflexivity].
      destruct (str_eqb_spec q k); [congruence | reflexivity].
Qed.

Lemma set_key_absent {A} k (v : A) kv : assoc k kv = None -> set_key k v kv = kv ++ [(k, v)].
Proof.
  induction kv as [|[q w] rest IH]; simpl; intros H; [reflexivity|].
  destruct (str_eqb k q); [discriminate|]. rewrite IH; auto.
Qed.

Lemma remove_key_absent {A} k (kv : list (pystr * A)) : assoc k kv = None -> remove_key k kv = kv.
Proof.
  induction kv as [|[q w] rest IH]; simpl; intros H; [reflexivity|].
  destruct (str_eqb k q); [discriminate|]. rewrite IH; auto.
Qed.

(* pop k then d[k] = v restores the dict as a mapping (not its insertion order) *)
Lemma pop_restore_assoc {A} k (v : A) kv :
  assoc k kv = Some v -> forall q, assoc q (set_key k v (remove_key k kv)) = assoc q kv.
Proof.
  intros H q. rewrite assoc_set_key, assoc_remove_key. destruct (str_eqb_spec q k) as [->|]; auto.
Qed.

(* ------------------------------------------------------------------ diff_single_outputs *)
(* two cells are the same mapping / the same list *)
Definition cells_equiv (c c' : cell) : Prop :=
  c = c' \/ exists kv kv', c = CDict kv /\ c' = CDict kv' /\ forall k, assoc k kv = assoc k kv'.

(* every object of h is still there in h' with the same contents up to dict insertion order *)
Definition heap_equiv (h h' : heap) : Prop :=
  forall l c, nth_error h l = Some c -> exists c', nth_error h' l = Some c' /\ cells_equiv c c'.

Lemma cells_equiv_trans a b c : cells_equiv a b -> cells_equiv b c -> cells_equiv a c.
Proof.
  intros [->|[k1 [k2 [-> [-> H1]]]]] [E|[k3 [k4 [E3 [-> H2]]]]]; subst.
  - left; auto.
  - right. eauto.
  - right. eauto.
  - inversion E3; subst. right. exists k1, k4. repeat split; auto. intros k. rewrite H1. apply H2.
Qed.

Lemma heap_equiv_refl h : heap_equiv h h.
Proof. intros l c H. exists c. split; auto. left; auto. Qed.

Lemma heap_equiv_trans h1 h2 h3 : heap_equiv h1 h2 -> heap_equiv h2 h3 -> heap_equiv h1 h3.
Proof.
  intros A B l c H. destruct (A _ _ H) as [c2 [H2 E2]]. destruct (B _ _ H2) as [c3 [H3 E3]].
  exists c3. split; auto. eapply cells_equiv_trans; eauto.
Qed.

Lemma nth_error_lt {A} (l : list A) i x : nth_error l i = Some x -> i < length l.
Proof. intros H. apply nth_error_Some. congruence. Qed.

(* one pop / deepcopy / restore round on the dict at l, no fault *)
Lemma pop_copy_restore_ok fin n h l h' cj :
  pop_copy_restore fin false n h l = (h', POk cj) ->
  exists kv v,
    nth_error h l = Some (CDict kv) /\ assoc k_data kv = Some v /\
    nth_error h' l = Some (CDict (remove_key k_data kv ++ [(k_data, v)])) /\
    length h <= length h' /\
    forall l0, l0 <> l -> l0 < length h -> nth_error h' l0 = nth_error h l0.
Proof.
  unfold pop_copy_restore, dict_pop. intros H.
  destruct (nth_error h l) as [[vs|kv]|] eqn:Ec; try (inversion H; fail).
  destruct (assoc k_data kv) as [v|] eqn:Ea; [|inversion H].
  set (h1 := upd h l (CDict (remove_key k_data kv))) in *.
  destruct (deepcopy n h1 (VRef l)) as [[h2 cj']|e] eqn:Ed.
  2:{ destruct fin; [destruct (dict_set h1 l k_data v)|]; inversion H. }
  destruct (deepcopy_fresh (length h1) n h1 (VRef l) h2 cj' (le_n _) Ed) as [X _].
  pose proof (nth_error_lt _ _ _ Ec) as Hl.
  assert (L1 : length h1 = length h) by apply length_upd.
  assert (C1 : nth_error h1 l = Some (CDict (remove_key k_data kv))) by (eapply nth_error_upd_same; eauto).
  assert (C2 : nth_error h2 l = Some (CDict (remove_key k_data kv))).
  { rewrite (gext_old _ _ _ _ X); [exact C1 | lia]. }
  unfold dict_set in H. rewrite C2 in H. inversion H; subst. clear H.
  exists kv, v. repeat split; auto.
  - erewrite nth_error_upd_same by eauto. f_equal. f_equal. apply set_key_absent.
    rewrite assoc_remove_key. rewrite str_eqb_refl. reflexivity.
  - rewrite length_upd. apply gext_length in X. lia.
  - intros l0 Hne Hlt. rewrite nth_error_upd_other by exact Hne.
    rewrite (gext_old _ _ _ _ X) by lia. apply nth_error_upd_other. exact Hne.
Qed.

Lemma pop_copy_restore_equiv fin n h l h' cj :
  pop_copy_restore fin false n h l = (h', POk cj) -> heap_equiv h h' /\ length h <= length h'.
Proof.
  intros H. destruct (pop_copy_restore_ok _ _ _ _ _ _ H) as [kv [v [Hc [Ha [Hc' [Hlen Hother]]]]]].
  split; auto. intros l0 c Hl0. destruct (Nat.eq_dec l0 l) as [->|Hne].
  - rewrite Hc in Hl0. inversion Hl0; subst. eexists. split; [exact Hc'|]. right.
    exists kv, (remove_key k_data kv ++ [(k_data, v)]). repeat split; auto.
    intros k. rewrite <- (set_key_absent k_data v (remove_key k_data kv)).
    + symmetry. apply pop_restore_assoc. exact Ha.
    + rewrite assoc_remove_key, str_eqb_refl. reflexivity.
  - exists c. split; [|left; auto]. rewrite Hother; auto. eapply nth_error_lt; eauto.
Qed.

Lemma dso_no_fault_inv fin n h a b h' :
  dso fin None n h a b = (h', Returned) ->
  exists h1 oc1 oc2, pop_copy_restore fin false n h a = (h1, POk oc1) /\
                     pop_copy_restore fin false n h1 b = (h', POk oc2).
Proof.
  unfold dso. intros H.
  destruct (pop_copy_restore fin false n h a) as [h1 [oc1| |e1]] eqn:E1; try (inversion H; fail).
  destruct (pop_copy_restore fin false n h1 b) as [h2 [oc2| |e2]] eqn:E2; try (inversion H; fail).
  inversion H; subst. eauto.
Qed.

(* on the normal path every object alive before the call -- in particular both outputs and everything they
   hold -- has the same contents afterwards, as JSON values (dicts compared as mappings) *)
Theorem dso_restores fin n h a b h' :
  dso fin None n h a b = (h', Returned) -> heap_equiv h h'.
Proof.
  intros H. destruct (dso_no_fault_inv _ _ _ _ _ _ H) as [h1 [oc1 [oc2 [E1 E2]]]].
  eapply heap_equiv_trans; [eapply pop_copy_restore_equiv; eauto | eapply pop_copy_restore_equiv; eauto].
Qed.

(* ... but 'data' has moved to the end of each output's key order *)
Theorem dso_moves_data_last fin n h a b h' :
  a <> b -> b < length h -> dso fin None n h a b = (h', Returned) ->
  exists kva va kvb vb,
    nth_error h a = Some (CDict kva) /\ assoc k_data kva = Some va /\
    nth_error h b = Some (CDict kvb) /\ assoc k_data kvb = Some vb /\
    nth_error h' a = Some (CDict (remove_key k_data kva ++ [(k_data, va)])) /\
    nth_error h' b = Some (CDict (remove_key k_data kvb ++ [(k_data, vb)])).
Proof.
  intros Hab Lb H. destruct (dso_no_fault_inv _ _ _ _ _ _ H) as [h1 [oc1 [oc2 [E1 E2]]]].
  destruct (pop_copy_restore_ok _ _ _ _ _ _ E1) as [kva [va [Ha [Hva [Ha1 [Hlen1 Ho1]]]]]].
  destruct (pop_copy_restore_ok _ _ _ _ _ _ E2) as [kvb [vb [Hb [Hvb [Hb2 [Hlen2 Ho2]]]]]].
  pose proof (nth_error_lt _ _ _ Ha) as La.
  assert (Hb0 : nth_error h b = Some (CDict kvb)) by (rewrite <- Ho1; auto).
  exists kva, va, kvb, vb. repeat split; auto.
  rewrite Ho2; auto. lia.
Qed.

(* concrete outputs: {"data": {"text/plain": "x"}, "metadata": {}, "output_type": "display_data"} *)
Definition wit_output (txt : pystr) : json :=
  JObj [(of_ascii "data"%string, JObj [(of_ascii "text/plain"%string, JStr txt)]);
        (of_ascii "metadata"%string, JObj []);
        (of_ascii "output_type"%string, JStr (of_ascii "display_data"%string))].

Definition run_dso (fin : bool) (fault : option nat) (ja jb : json) : option (heap * heap * outcome * sval * sval) :=
  let '(h1, va) := load [] ja in
  let '(h2, vb) := load h1 jb in
  match va, vb with
  | VRef la, VRef lb => let '(h3, out) := dso fin fault 6 h2 la lb in Some (h2, h3, out, va, vb)
  | _, _ => None
  end.

(* the hypotheses of dso_restores are satisfiable, and the key order DOES change while the canonical value does not *)
Theorem dso_changes_key_order_only :
  exists h h' va vb,
    run_dso false None (wit_output (of_ascii "x"%string)) (wit_output (of_ascii "y"%string)) = Some (h, h', Returned, va, vb) /\
    read 6 h' va <> read 6 h va /\ cread 6 h' va = cread 6 h va /\ cread 6 h' vb = cread 6 h vb.
Proof.
  vm_compute. do 4 eexists. split; [reflexivity|]. split; [discriminate|]. split; reflexivity.
Qed.

(* hazard: when copy.deepcopy raises between pop and restore and the restore is not in a finally clause,
   the output has lost its 'data' *)
Theorem dso_fault_loses_data :
  exists h h' va vb,
    run_dso false (Some 0) (wit_output (of_ascii "x"%string)) (wit_output (of_ascii "y"%string)) = Some (h, h', Raised 0, va, vb) /\
    cread 6 h' va <> cread 6 h va.
Proof. vm_compute. do 4 eexists. split; [reflexivity | discriminate]. Qed.

(* with the restore in a finally clause the same fault is harmless *)
Theorem dso_fault_protected_example :
  exists h h' va vb,
    run_dso true (Some 0) (wit_output (of_ascii "x"%string)) (wit_output (of_ascii "y"%string)) = Some (h, h', Raised 0, va, vb) /\
    cread 6 h' va = cread 6 h va /\ cread 6 h' vb = cread 6 h vb.
Proof. vm_compute. do 4 eexists. split; [reflexivity | split; reflexivity]. Qed.

(* ------------------------------------------------------------------ MergeDecisionBuilder.validated *)
Definition strip_strategy (c : cell) : cell :=
  match c with CDict kv => CDict (remove_key k_strategy kv) | CList _ => c end.

Lemma strip_idem c : strip_strategy (strip_strategy c) = strip_strategy c.
Proof.
  destruct c as [vs|kv]; simpl; auto. f_equal. apply remove_key_absent.
  rewrite assoc_remove_key, str_eqb_refl. reflexivity.
Qed.

Definition is_ref (l : loc) (v : sval) : bool := match v with VRef l' => Nat.eqb l l' | VAtom _ => false end.

Lemma del_strategy_spec h v l :
  nth_error (del_strategy h v) l =
  if is_ref l v then option_map strip_strategy (nth_error h l) else nth_error h l.
Proof.
  destruct v as [j|l']; simpl; auto.
  destruct (nth_error h l') as [[vs|kv]|] eqn:E.
  - destruct (Nat.eqb_spec l l') as [->|]; auto. rewrite E. reflexivity.
  - unfold has_key. destruct (assoc k_strategy kv) eqn:Ea.
    + rewrite nth_error_upd. destruct (Nat.eqb_spec l l') as [->|]; auto. rewrite E. reflexivity.
    + destruct (Nat.eqb_spec l l') as [->|]; auto. rewrite E. simpl. rewrite remove_key_absent; auto.
  - destruct (Nat.eqb_spec l l') as [->|]; auto. rewrite E. reflexivity.
Qed.

Lemma fold_del_strategy_spec ds : forall h l,
  nth_error (fold_left del_strategy ds h) l =
  if existsb (is_ref l) ds then option_map strip_strategy (nth_error h l) else nth_error h l.
Proof.
  induction ds as [|v ds IH]; intros h l; simpl; auto.
  rewrite IH, del_strategy_spec. destruct (is_ref l v); simpl.
  - destruct (existsb (is_ref l) ds); auto. destruct (nth_error h l); simpl; auto. rewrite strip_idem. reflexivity.
  - reflexivity.
Qed.

(* validated() writes only to the decision dicts held in the builder's own list, and all it does to them is
   delete the key "strategy"; every other object (in particular the diffs the decisions point to, which are
   shared with the caller's arguments) keeps its contents *)
Theorem validated_only_touches_own_gen h bl ds h' r :
  nth_error h bl = Some (CList ds) ->
  validated_s h bl = Ok (h', r) ->
  forall l, l < length h ->
    nth_error h' l = if existsb (is_ref l) ds then option_map strip_strategy (nth_error h l) else nth_error h l.
Proof.
  unfold validated_s. intros Hb H l Hl. rewrite Hb in H. inversion H; subst. clear H.
  unfold alloc. simpl. rewrite nth_error_app1.
  - apply fold_del_strategy_spec.
  - assert (forall ds h, length (fold_left del_strategy ds h) = length h) as L.
    { clear. induction ds as [|v ds IH]; intros h; simpl; auto. rewrite IH.
      destruct v as [j|l]; simpl; auto. destruct (nth_error h l) as [[vs|kv]|]; auto.
      destruct (has_key k_strategy kv); auto. apply length_upd. }
    rewrite L. exact Hl.
Qed.

Example validated_example :
  let h := [CDict [(of_ascii "action"%string, VAtom (JStr (of_ascii "base"%string))); (k_strategy, VAtom JNull); (of_ascii "local_diff"%string, VRef 1)];
            CList []; CList [VRef 0]] in
  exists h' r, validated_s h 2 = Ok (h', r) /\
               nth_error h' 0 = Some (CDict [(of_ascii "action"%string, VAtom (JStr (of_ascii "base"%string))); (of_ascii "local_diff"%string, VRef 1)]) /\
               nth_error h' 1 = nth_error h 1.
Proof. vm_compute. do 2 eexists. repeat split; reflexivity. Qed.

(* ------------------------------------------------------------------ apply_decisions *)
Section ApplyInv.
  Variable cfg : pcfg.
  Variable h0 : heap.
  Variable S : loc -> Prop.
  Hypothesis Hcu : copy_untouched cfg = true.
  Definition GA (l : loc) : Prop := length h0 <= l \/ S l.
  (* S is closed under children in the initial heap *)
  Hypothesis HS : forall l c l', S l -> nth_error h0 l = Some c -> In l' (crefs c) -> GA l'.

  Definition inv (h : heap) : Prop :=
    length h0 <= length h /\
    (forall l, ~ GA l -> nth_error h l = nth_error h0 l) /\
    (forall l c l', GA l -> nth_error h l = Some c -> In l' (crefs c) -> GA l').

  Lemma inv_init : inv h0.
  Proof.
    split; [lia|]. split; [auto|]. intros l c l' [Hf|Hs] Hc Hin.
    - apply nth_error_lt in Hc. lia.
    - eapply HS; eauto.
  Qed.

  Lemma inv_gext h h' : inv h -> gext GA h h' -> inv h'.
  Proof.
    intros [L [Fr Cl]] X. pose proof (gext_length _ _ _ X) as L'.
    split; [lia|]. split.
    - intros l Hn. assert (l < length h0) by (unfold GA in Hn; lia).
      rewrite (gext_old _ _ _ _ X) by lia. auto.
    - intros l c l' Hg Hc Hin. destruct (Nat.lt_ge_cases l (length h)) as [Hlt|Hge].
      + rewrite (gext_old _ _ _ _ X Hlt) in Hc. eauto.
      + eapply (gext_new _ _ _ _ _ X Hge Hc); eauto.
  Qed.

  Lemma vrefs_set_nth vs i x l : In l (vrefs (set_nth vs i x)) -> In l (vrefs vs) \/ x = VRef l.
  Proof.
    revert i; induction vs as [|v rest IH]; intros [|i]; simpl; auto.
    - intros H. apply in_app_or in H as [H|H].
      + destruct x as [j|lx]; simpl in H; [contradiction|]. destruct H as [->|[]]. auto.
      + left. apply in_or_app. auto.
    - intros H. apply in_app_or in H as [H|H].
      + left. apply in_or_app. auto.
      + destruct (IH _ H); auto. left. apply in_or_app. auto.
  Qed.

  Lemma vrefs_set_key s x (kv : list (pystr * sval)) l :
    In l (vrefs (map snd (set_key s x kv))) -> In l (vrefs (map snd kv)) \/ x = VRef l.
  Proof.
    induction kv as [|[q w] rest IH]; simpl.
    - intros H. apply in_app_or in H as [H|[]]. destruct x as [j|lx]; simpl in H; [contradiction|].
      destruct H as [->|[]]. auto.
    - destruct (str_eqb s q); simpl; intros H; apply in_app_or in H as [H|H].
      + destruct x as [j|lx]; simpl in H; [contradiction|]. destruct H as [->|[]]. auto.
      + left. apply in_or_app. auto.
      + left. apply in_or_app. auto.
      + destruct (IH H); auto. left. apply in_or_app. auto.
  Qed.

  Lemma inv_store h par k x h' :
    inv h -> vgood GA par -> vgood GA x -> store_item h par k x = Ok h' -> inv h'.
  Proof.
    intros [L [Fr Cl]] Hp Hx H. destruct par as [j|l]; simpl in H; [discriminate|]. simpl in Hp.
    destruct (nth_error h l) as [[vs|kv]|] eqn:Ec; [| |discriminate]; destruct k as [i|s]; try discriminate.
    - destruct (Nat.ltb i (length vs)); [|discriminate]. inversion H; subst. clear H.
      split; [rewrite length_upd; lia|]. split.
      + intros l0 Hn. rewrite nth_error_upd_other; auto. intros ->. contradiction.
      + intros l0 c l' Hg Hc Hin. rewrite nth_error_upd in Hc. destruct (Nat.eqb_spec l0 l) as [->|].
        * rewrite Ec in Hc. inversion Hc; subst. simpl in Hin. apply vrefs_set_nth in Hin as [Hin| ->].
          -- eapply Cl; eauto.
          -- exact Hx.
        * eapply Cl; eauto.
    - inversion H; subst. clear H.
      split; [rewrite length_upd; lia|]. split.
      + intros l0 Hn. rewrite nth_error_upd_other; auto. intros ->. contradiction.
      + intros l0 c l' Hg Hc Hin. rewrite nth_error_upd in Hc. destruct (Nat.eqb_spec l0 l) as [->|].
        * rewrite Ec in Hc. inversion Hc; subst. simpl in Hin. apply vrefs_set_key in Hin as [Hin| ->].
          -- eapply Cl; eauto.
          -- exact Hx.
        * eapply Cl; eauto.
  Qed.

  Lemma assoc_in {A} k (kv : list (pystr * A)) x : assoc k kv = Some x -> In x (map snd kv).
  Proof.
    induction kv as [|[q w] rest IH]; simpl; [discriminate|].
    destruct (str_eqb k q); intros H; [inversion H; auto | auto].
  Qed.

  Lemma child_good h v k x : inv h -> vgood GA v -> child h v k = Ok x -> vgood GA x.
  Proof.
    intros [L [Fr Cl]] Hv H. destruct v as [j|l]; simpl in H; [discriminate|]. simpl in Hv.
    destruct x as [jx|lx]; simpl; auto.
    destruct (nth_error h l) as [[vs|kv]|] eqn:Ec; [| |discriminate]; destruct k as [i|s]; try discriminate.
    - unfold nth_res in H. destruct (nth_error vs i) eqn:En; [|discriminate]. inversion H; subst.
      apply nth_error_In in En. eapply Cl; eauto. simpl. apply in_vrefs. exact En.
    - destruct (assoc s kv) eqn:Ea; [|discriminate]. inversion H; subst.
      eapply Cl; eauto. simpl. apply in_vrefs. eapply assoc_in; eauto.
  Qed.

  Lemma resolve_good h path : forall resolved parent parent' resolved',
    inv h -> vgood GA resolved ->
    (match parent with Some (p, _) => vgood GA p | None => True end) ->
    resolve h resolved parent path = Ok (parent', resolved') ->
    vgood GA resolved' /\ (match parent' with Some (p, _) => vgood GA p | None => True end).
  Proof.
    induction path as [|k rest IH]; intros resolved parent parent' resolved' Hi Hr Hp H; simpl in H.
    - inversion H; subst. auto.
    - destruct (child h resolved k) as [x|] eqn:Ech; simpl in H; [|discriminate].
      eapply (IH x (Some (resolved, k))); [exact Hi | eapply child_good; eauto | exact Hr | exact H].
  Qed.

  Definition groups_good (groups : list (list key * list sentry)) : Prop :=
    forall p d, In (p, d) groups -> dgood cfg GA d.

  Lemma apply_groups_inv n : forall groups h merged h' m',
    inv h -> vgood GA merged -> groups_good groups ->
    apply_groups cfg n h merged groups = Ok (h', m') -> inv h' /\ vgood GA m'.
  Proof.
    induction groups as [|[path d] rest IH]; intros h merged h' m' Hi Hm Hg H; simpl in H.
    - inversion H; subst. auto.
    - destruct (resolve h merged None path) as [[parent resolved]|] eqn:Er; simpl in H; [|discriminate].
      destruct (resolve_good h path merged None parent resolved Hi Hm I Er) as [Hres Hpar].
      destruct (patch_s cfg n h resolved d) as [[h1 p]|] eqn:Ep; simpl in H; [|discriminate].
      assert (HGf : forall l, length h0 <= l -> GA l) by (intros; left; auto).
      destruct (patch_s_good cfg GA (length h0) Hcu HGf n h resolved d h1 p (proj1 Hi) (Hg _ _ (or_introl eq_refl)) Ep) as [X V].
      pose proof (inv_gext _ _ Hi X) as Hi1.
      assert (Hg' : groups_good rest) by (intros p0 d0 Hin; eapply Hg; right; eauto).
      destruct parent as [[par k]|].
      + destruct (store_item h1 par k p) as [h2|] eqn:Es; simpl in H; [|discriminate].
        apply (IH h2 merged h' m'); auto. eapply (inv_store h1 par k p h2); eauto.
      + apply (IH h1 p h' m'); auto.
  Qed.
End ApplyInv.

(* apply_decisions(base, decisions): the objects of base keep their contents.  (Hypotheses: base is a closed value
   of the initial heap, separate from the values carried by the decisions' diffs.) *)
Theorem apply_base_untouched_gen cfg n h0 base groups h' m :
  copy_untouched cfg = true ->
  closed_in h0 base ->
  (forall p d l, In (p, d) groups -> from_diff h0 d l -> ~ reach h0 base l) ->
  apply_s cfg true n h0 base groups = Ok (h', m) ->
  forall l, reach h0 base l -> nth_error h' l = nth_error h0 l.
Proof.
  intros Hcu Hcl Hsep H l Hr.
  set (S := fun l => exists p d, In (p, d) groups /\ from_diff h0 d l).
  assert (HS : forall l c l', S l -> nth_error h0 l = Some c -> In l' (crefs c) -> GA h0 S l').
  { intros l1 c l' [p [d [Hin [v [Hv Hrv]]]]] Hc Hl'. right. exists p, d. split; auto. exists v. split; auto.
    eapply reach_step; eauto. }
  unfold apply_s in H. unfold cp in H.
  destruct (deepcopy n h0 base) as [[h1 merged]|] eqn:Ed; simpl in H; [|discriminate].
  destruct (deepcopy_producer (length h0) n h0 base h1 merged (le_n _) Ed) as [X V].
  assert (HGf : forall l, fresh0 (length h0) l -> GA h0 S l) by (intros l1 Hl1; left; exact Hl1).
  pose proof (inv_gext h0 S _ _ (inv_init h0 S HS) (gext_weaken _ _ _ _ HGf X)) as Hi1.
  assert (Hg : groups_good cfg h0 S groups).
  { intros p d Hin Hf. apply Forall_forall. intros v Hv. destruct v as [j|lv]; simpl; auto.
    right. exists p, d. split; auto. exists (VRef lv). split; auto. constructor. }
  destruct (apply_groups_inv cfg h0 S Hcu n groups h1 merged h' m Hi1 (vgood_weaken _ _ _ HGf V) Hg H) as [[_ [Fr _]] _].
  apply Fr. intros [Hf|[p [d [Hin Hfd]]]].
  - pose proof (Hcl _ Hr). lia.
  - exact (Hsep _ _ _ Hin Hfd Hr).
Qed.

Example apply_hypotheses_satisfiable :
  let '(h1, base) := load [] (JObj [(of_ascii "a"%string, JArr [JInt 1]); (of_ascii "m"%string, JObj [(of_ascii "x"%string, JArr [])])]) in
  let '(h2, d) := load_diff h1 [DAdd (KS (of_ascii "y"%string)) (JArr [JObj []])] in
  exists h' m, apply_s {| copy_untouched := true; copy_diffvals := false |} true 6 h2 base [([KS (of_ascii "m"%string)], d)] = Ok (h', m) /\
               read 6 h' m = Ok (JObj [(of_ascii "a"%string, JArr [JInt 1]);
                                       (of_ascii "m"%string, JObj [(of_ascii "y"%string, JArr [JObj []]); (of_ascii "x"%string, JArr [])])]) /\
               read 6 h' base = read 6 h2 base.
Proof. vm_compute. do 2 eexists. repeat split; reflexivity. Qed.

(* ------------------------------------------------------------------ statements parametrised by the source facts *)
Lemma dso_fault_hazard fin :
  fin = false ->
  exists h h' va vb,
    run_dso fin (Some 0) (wit_output (of_ascii "x"%string)) (wit_output (of_ascii "y"%string)) = Some (h, h', Raised 0, va, vb) /\
    cread 6 h' va <> cread 6 h va.
Proof. intros ->. exact dso_fault_loses_data. Qed.

Definition shares_diff_value (cfg : pcfg) : Prop :=
  exists h' r l v,
    patch_s cfg 3 wit_h (VRef 0) wit_d = Ok (h', r) /\
    reach h' r l /\ In v (dvalues wit_d) /\ reach h' v l /\
    (exists h'', store_item h' r (KI 0) (VRef l) = Ok h'' /\ True) /\
    read 5 (upd h' l (CList [VAtom JNull])) v <> read 5 h' v.

Definition disjoint_from_diff (cfg : pcfg) : Prop :=
  forall n h obj d h' r,
    (forall v, In v (dvalues d) -> closed_in h v) ->
    patch_s cfg n h obj d = Ok (h', r) ->
    forall l, reach h' r l -> forall v, In v (dvalues d) -> ~ reach h' v l.

(* whichever way the source goes, the aliasing clause is decided *)
Lemma patch_diff_aliasing_by_source cfg :
  copy_untouched cfg = true ->
  (copy_diffvals cfg = true /\ disjoint_from_diff cfg) \/ (copy_diffvals cfg = false /\ shares_diff_value cfg).
Proof.
  intros Hcu. destruct (copy_diffvals cfg) eqn:E.
  - left. split; auto. intros n h obj d h' r Hcl H. eapply patch_result_disjoint_from_diff_gen; eauto.
  - right. split; auto. apply patch_result_shares_diff_value. exact E.
Qed.

Definition wit_oa : json := wit_output (of_ascii "x"%string).
Definition wit_ob : json := wit_output (of_ascii "y"%string).
