(* patch_dict computes the key-wise meaning of a mapping diff; dict_diff (the sorted-key walk of
   diff_dicts / diff_mime_bundle / diff_attachments) produces a diff whose key-wise meaning is b. *)
From Coq Require Import List NArith ZArith Bool Lia.
From NB Require Import Base.Res Base.Json Diff.DiffFormat Diff.Patch Diff.GenericDiff Diff.Wf.
Import ListNotations.

(* ---------- association lists ---------- *)
Lemma str_eqb_cmp k k' : str_eqb k k' = true <-> str_cmp k k' = Eq.
Proof. rewrite str_eqb_eq, str_cmp_eq. reflexivity. Qed.

Lemma str_eqb_sym k k' : str_eqb k k' = str_eqb k' k.
Proof.
  destruct (str_eqb k k') eqn:E1, (str_eqb k' k) eqn:E2; auto.
  - apply str_eqb_eq in E1. subst. rewrite str_eqb_refl in E2. discriminate.
  - apply str_eqb_eq in E2. subst. rewrite str_eqb_refl in E1. discriminate.
Qed.

Lemma obj_get_set k k' v l :
  obj_get k (obj_set k' v l) = if str_eqb k k' then Some v else obj_get k l.
Proof.
  induction l as [|[k'' v''] l IH]; cbn [obj_set obj_get].
  - destruct (str_eqb k k'); reflexivity.
  - destruct (str_cmp k' k'') eqn:C; cbn [obj_get].
    + apply str_cmp_eq in C. subst k''. destruct (str_eqb k k'); reflexivity.
    + destruct (str_eqb k k'); reflexivity.
    + destruct (str_eqb k k'') eqn:E.
      * apply str_eqb_eq in E. subst k''.
        destruct (str_eqb k k') eqn:E'; [|reflexivity].
        apply str_eqb_eq in E'. subst k'. assert (str_cmp k k = Eq) by (apply str_cmp_eq; auto). congruence.
      * exact IH.
Qed.

Definition first_key_gt (k : pystr) (l : list (pystr * json)) : Prop :=
  match l with [] => True | (k', _) :: _ => str_ltb k k' = true end.

Lemma keys_sorted_cons k v l : keys_sorted ((k, v) :: l) = true <-> first_key_gt k l /\ keys_sorted l = true.
Proof.
  destruct l as [|[k' v'] l]; cbn [keys_sorted first_key_gt].
  - intuition.
  - rewrite andb_true_iff. reflexivity.
Qed.

Lemma obj_set_sorted k v l : keys_sorted l = true -> keys_sorted (obj_set k v l) = true.
Proof.
  induction l as [|[k' v'] l IH]; intros Hs; [reflexivity|].
  cbn [obj_set]. destruct (str_cmp k k') eqn:C.
  - apply str_cmp_eq in C. subst k'. apply keys_sorted_cons in Hs as [H1 H2].
    apply keys_sorted_cons. split; assumption.
  - apply keys_sorted_cons. split; [|exact Hs]. cbn. unfold str_ltb. rewrite C. reflexivity.
  - apply keys_sorted_cons in Hs as [H1 H2]. apply keys_sorted_cons. split; [|apply IH; exact H2].
    destruct l as [|[k'' v''] l']; cbn [obj_set first_key_gt].
    + unfold str_ltb. rewrite str_cmp_antisym, C. reflexivity.
    + cbn [first_key_gt] in H1. destruct (str_cmp k k''); cbn [first_key_gt]; auto;
        unfold str_ltb; rewrite str_cmp_antisym, C; reflexivity.
Qed.

Lemma sorted_get_lt k l : first_key_gt k l -> keys_sorted l = true -> obj_get k l = None.
Proof.
  induction l as [|[k' v'] l IH]; intros Hg Hs; [reflexivity|].
  cbn [first_key_gt] in Hg. cbn [obj_get].
  destruct (str_eqb k k') eqn:E.
  - apply str_eqb_eq in E. subst. rewrite str_ltb_irrefl in Hg. discriminate.
  - apply keys_sorted_cons in Hs as [H1 H2]. apply IH; [|exact H2].
    destruct l as [|[k'' v''] l']; [exact I|]. cbn [first_key_gt] in *.
    eapply str_ltb_trans; eauto.
Qed.

Lemma sorted_ext : forall l1 l2,
  keys_sorted l1 = true -> keys_sorted l2 = true ->
  (forall k, obj_get k l1 = obj_get k l2) -> l1 = l2.
Proof.
  induction l1 as [|[k1 v1] l1 IH]; intros l2 H1 H2 Hx.
  - destruct l2 as [|[k2 v2] l2]; [reflexivity|].
    specialize (Hx k2). cbn [obj_get] in Hx. rewrite str_eqb_refl in Hx. discriminate.
  - destruct l2 as [|[k2 v2] l2].
    + specialize (Hx k1). cbn [obj_get] in Hx. rewrite str_eqb_refl in Hx. discriminate.
    + apply keys_sorted_cons in H1 as [G1 S1]. apply keys_sorted_cons in H2 as [G2 S2].
      destruct (str_trichotomy k1 k2) as [L|[E|G]].
      * pose proof (Hx k1) as Hk. cbn [obj_get] in Hk. rewrite str_eqb_refl in Hk.
        destruct (str_eqb k1 k2) eqn:E12; [apply str_eqb_eq in E12; subst; rewrite str_ltb_irrefl in L; discriminate|].
        rewrite (sorted_get_lt k1 l2) in Hk; [discriminate| |exact S2].
        destruct l2 as [|[k3 v3] l3]; [exact I|]. cbn [first_key_gt] in *. eapply str_ltb_trans; eauto.
      * subst k2. pose proof (Hx k1) as Hk. cbn [obj_get] in Hk. rewrite str_eqb_refl in Hk.
        inversion Hk; subst. f_equal. apply IH; auto.
        intros k. specialize (Hx k). cbn [obj_get] in Hx.
        destruct (str_eqb k k1) eqn:E; [|exact Hx].
        apply str_eqb_eq in E. subst. rewrite (sorted_get_lt k1 l1), (sorted_get_lt k1 l2); auto.
      * pose proof (Hx k2) as Hk. cbn [obj_get] in Hk. rewrite str_eqb_refl in Hk.
        destruct (str_eqb k2 k1) eqn:E21; [apply str_eqb_eq in E21; subst; rewrite str_ltb_irrefl in G; discriminate|].
        rewrite (sorted_get_lt k2 l1) in Hk; [discriminate| |exact S1].
        destruct l1 as [|[k3 v3] l3]; [exact I|]. cbn [first_key_gt] in *. eapply str_ltb_trans; eauto.
Qed.

(* ---------- meaning of a mapping diff, key by key ---------- *)
Section PatchDictSpec.
  Variable rec : json -> diff -> res json.
  Variable a : list (pystr * json).

  Definition set_of (e : dentry) : option json :=
    match e with
    | DAdd _ v | DReplace _ v => Some v
    | DPatch (KS k) dd =>
        match obj_get k a with
        | Some x => match rec x dd with Ok p => Some p | Err _ => None end
        | None => None
        end
    | _ => None
    end.

  Definition is_remove (e : dentry) : bool := match e with DRemove _ => true | _ => false end.

  (* entries that patch_dict accepts without tripping an assert *)
  Definition entry_ok (e : dentry) : Prop :=
    match e with
    | DAdd (KS k) _ => obj_has k a = false
    | DRemove (KS _) => True
    | DReplace (KS _) _ => True
    | DPatch (KS k) dd => exists x p, obj_get k a = Some x /\ rec x dd = Ok p
    | _ => False
    end.

  Definition dkeys (d : diff) : list pystr := map key_str d.

  Lemma find_entry_cons k e d :
    entry_ok e -> find_entry k (e :: d) = if str_eqb k (key_str e) then Some e else find_entry k d.
  Proof.
    intros He. cbn [find_entry]. unfold key_str.
    destruct e as [[?|?] ?|[?|?]|[?|?] ?|[?|?] ?|[?|?] ?|[?|?] ?]; cbn [dkey entry_ok] in *; try contradiction; reflexivity.
  Qed.

  Lemma find_entry_in_keys k : forall d e, find_entry k d = Some e -> In k (dkeys d).
  Proof.
    induction d as [|x d IHd]; intros e H; [discriminate|]. cbn [find_entry] in H. cbn [dkeys map].
    destruct (dkey x) eqn:Ex; [right; eapply IHd; exact H|].
    destruct (str_eqb k s) eqn:E; [left; unfold key_str; rewrite Ex; symmetry; apply str_eqb_eq; exact E | right; eapply IHd; exact H].
  Qed.

  Lemma existsb_str k l : existsb (str_eqb k) l = true <-> In k l.
  Proof.
    rewrite existsb_exists. split.
    - intros (x & Hin & E). apply str_eqb_eq in E. subst. exact Hin.
    - intros H. exists k. split; [exact H | apply str_eqb_refl].
  Qed.

  Lemma patch_dict_go_spec : forall d newobj deleted,
    keys_sorted newobj = true -> Forall entry_ok d -> NoDup (dkeys d) ->
    (forall k, In k (dkeys d) -> obj_has k newobj = false /\ ~ In k deleted) ->
    exists newobj' deleted',
      patch_dict_go rec a d newobj deleted = Ok (newobj', deleted')
      /\ keys_sorted newobj' = true
      /\ (forall k, obj_get k newobj' = match find_entry k d with
                                         | Some e => set_of e
                                         | None => obj_get k newobj end)
      /\ (forall k, In k deleted' <-> In k deleted \/
                                      exists e, find_entry k d = Some e /\ is_remove e = true).
  Proof.
    induction d as [|e d IH]; intros newobj deleted Hs Hok Hnd Hfresh.
    - exists newobj, deleted. repeat split; auto.
      + intros [H|(e & H & _)]; [exact H | discriminate].
    - inversion Hok as [|? ? He Hok']; subst. cbn [dkeys map] in Hnd. inversion Hnd as [|? ? Hnotin Hnd']; subst.
      destruct (Hfresh (key_str e) ltac:(left; reflexivity)) as [Hf1 Hf2].
      assert (Hfresh' : forall no dl, (forall k, obj_has k no = true -> obj_has k newobj = true \/ k = key_str e) ->
                                      (forall k, In k dl -> In k deleted \/ k = key_str e) ->
                                      forall k, In k (dkeys d) -> obj_has k no = false /\ ~ In k dl).
      { intros no dl H1 H2 k Hk. destruct (Hfresh k ltac:(right; exact Hk)) as [G1 G2]. split.
        - destruct (obj_has k no) eqn:E; [|reflexivity]. destruct (H1 k E) as [H|H]; [congruence|].
          subst. contradiction.
        - intros Hin. destruct (H2 k Hin) as [H|H]; [contradiction | subst; contradiction]. }
      assert (Hhas_set : forall k v, obj_has k (obj_set (key_str e) v newobj) = true ->
                                     obj_has k newobj = true \/ k = key_str e).
      { intros k v. unfold obj_has. rewrite obj_get_set. destruct (str_eqb k (key_str e)) eqn:E.
        - intros _. right. apply str_eqb_eq. exact E.
        - intros H. left. exact H. }
      destruct e as [[?|k] v|[?|k]|[?|k] v|[?|k] vs|[?|k] len|[?|k] dd]; cbn [entry_ok] in He; try contradiction;
        cbn [patch_dict_go dkey key_str] in *; rewrite Hf1.
      + (* add *)
        rewrite He.
        destruct (IH (obj_set k v newobj) deleted) as (no' & dl' & Hgo & Hs' & Hget & Hdel); auto.
        * apply obj_set_sorted. exact Hs.
        * apply Hfresh'; [intros k0; apply Hhas_set | intros k0 H; left; exact H].
        * exists no', dl'. split; [exact Hgo|]. split; [exact Hs'|]. split.
          -- intros k0. rewrite Hget. rewrite find_entry_cons by (cbn; exact He). cbn [key_str dkey].
             destruct (find_entry k0 d) eqn:Ef.
             ++ destruct (str_eqb k0 k) eqn:E; [|reflexivity].
                apply str_eqb_eq in E. subst k0. exfalso. apply Hnotin. eapply find_entry_in_keys; exact Ef.
             ++ rewrite obj_get_set. destruct (str_eqb k0 k); reflexivity.
          -- intros k0. rewrite Hdel. rewrite find_entry_cons by (cbn; exact He). cbn [key_str dkey].
             split; (intros [H|(e' & H1 & H2)]; [left; exact H|right]).
             ++ destruct (str_eqb k0 k) eqn:E.
                ** apply str_eqb_eq in E. subst. exfalso. apply Hnotin. eapply find_entry_in_keys; exact H1.
                ** exists e'. auto.
             ++ destruct (str_eqb k0 k) eqn:E; [inversion H1; subst; discriminate|]. exists e'. auto.
      + (* remove *)
        destruct (IH newobj (k :: deleted)) as (no' & dl' & Hgo & Hs' & Hget & Hdel); auto.
        * apply Hfresh'; [intros k0 H; left; exact H | intros k0 [H|H]; [right; symmetry; exact H | left; exact H]].
        * exists no', dl'. split; [exact Hgo|]. split; [exact Hs'|]. split.
          -- intros k0. rewrite Hget. rewrite find_entry_cons by exact I. cbn [key_str dkey].
             destruct (str_eqb k0 k) eqn:E; [|reflexivity].
             apply str_eqb_eq in E. subst k0.
             destruct (find_entry k d) eqn:Ef.
             ++ exfalso. apply Hnotin. eapply find_entry_in_keys; exact Ef.
             ++ cbn [set_of]. unfold obj_has in Hf1. destruct (obj_get k newobj); [discriminate | reflexivity].
          -- intros k0. rewrite Hdel. rewrite find_entry_cons by exact I. cbn [key_str dkey].
             split.
             ++ intros [[H|H]|(e' & H1 & H2)].
                ** subst k0. right. rewrite str_eqb_refl. eexists. split; [reflexivity | reflexivity].
                ** left. exact H.
                ** right. destruct (str_eqb k0 k) eqn:E; [eexists; split; reflexivity | exists e'; auto].
             ++ intros [H|(e' & H1 & H2)]; [left; right; exact H|].
                destruct (str_eqb k0 k) eqn:E.
                ** apply str_eqb_eq in E. subst. left. left. reflexivity.
                ** right. exists e'. auto.
      + (* replace *)
        replace (existsb (str_eqb k) deleted) with false
          by (symmetry; destruct (existsb (str_eqb k) deleted) eqn:E; [apply existsb_str in E; contradiction | reflexivity]).
        destruct (IH (obj_set k v newobj) deleted) as (no' & dl' & Hgo & Hs' & Hget & Hdel); auto.
        * apply obj_set_sorted. exact Hs.
        * apply Hfresh'; [intros k0; apply Hhas_set | intros k0 H; left; exact H].
        * exists no', dl'. split; [exact Hgo|]. split; [exact Hs'|]. split.
          -- intros k0. rewrite Hget. rewrite find_entry_cons by exact I. cbn [key_str dkey].
             destruct (find_entry k0 d) eqn:Ef.
             ++ destruct (str_eqb k0 k) eqn:E; [|reflexivity].
                apply str_eqb_eq in E. subst k0. exfalso. apply Hnotin. eapply find_entry_in_keys; exact Ef.
             ++ rewrite obj_get_set. destruct (str_eqb k0 k); reflexivity.
          -- intros k0. rewrite Hdel. rewrite find_entry_cons by exact I. cbn [key_str dkey].
             split; (intros [H|(e' & H1 & H2)]; [left; exact H|right]).
             ++ destruct (str_eqb k0 k) eqn:E.
                ** apply str_eqb_eq in E. subst. exfalso. apply Hnotin. eapply find_entry_in_keys; exact H1.
                ** exists e'. auto.
             ++ destruct (str_eqb k0 k) eqn:E; [inversion H1; subst; discriminate|]. exists e'. auto.
      + (* patch *)
        replace (existsb (str_eqb k) deleted) with false
          by (symmetry; destruct (existsb (str_eqb k) deleted) eqn:E; [apply existsb_str in E; contradiction | reflexivity]).
        destruct He as (x & p & Hx & Hp). rewrite Hx, Hp. cbn [bind].
        destruct (IH (obj_set k p newobj) deleted) as (no' & dl' & Hgo & Hs' & Hget & Hdel); auto.
        * apply obj_set_sorted. exact Hs.
        * apply Hfresh'; [intros k0; apply Hhas_set | intros k0 H; left; exact H].
        * exists no', dl'. split; [exact Hgo|]. split; [exact Hs'|]. split.
          -- intros k0. rewrite Hget. rewrite find_entry_cons by (cbn; eauto). cbn [key_str dkey].
             destruct (find_entry k0 d) eqn:Ef.
             ++ destruct (str_eqb k0 k) eqn:E; [|reflexivity].
                apply str_eqb_eq in E. subst k0. exfalso. apply Hnotin. eapply find_entry_in_keys; exact Ef.
             ++ rewrite obj_get_set. destruct (str_eqb k0 k); [|reflexivity].
                cbn [set_of]. rewrite Hx, Hp. reflexivity.
          -- intros k0. rewrite Hdel. rewrite find_entry_cons by (cbn; eauto). cbn [key_str dkey].
             split; (intros [H|(e' & H1 & H2)]; [left; exact H|right]).
             ++ destruct (str_eqb k0 k) eqn:E.
                ** apply str_eqb_eq in E. subst. exfalso. apply Hnotin. eapply find_entry_in_keys; exact H1.
                ** exists e'. auto.
             ++ destruct (str_eqb k0 k) eqn:E; [inversion H1; subst; discriminate|]. exists e'. auto.
  Qed.
End PatchDictSpec.

Lemma find_entry_cons_ks k e d s :
  dkey e = KS s -> find_entry k (e :: d) = if str_eqb k s then Some e else find_entry k d.
Proof. intros H. cbn [find_entry]. rewrite H. reflexivity. Qed.

(* ---------- patch_dict = key-wise meaning ---------- *)
Section PatchDictMeaning.
  Variable rec : json -> diff -> res json.
  Variable a : list (pystr * json).

  Definition dmeaning (d : diff) (k : pystr) : option json :=
    match find_entry k d with
    | Some e => if is_remove e then None else set_of rec a e
    | None => obj_get k a
    end.

  Lemma fold_untouched deleted : forall obj acc,
    keys_sorted acc = true ->
    let r := fold_left (fun acc p =>
                          if existsb (str_eqb (fst p)) deleted || obj_has (fst p) acc then acc
                          else obj_set (fst p) (snd p) acc) obj acc in
    keys_sorted r = true
    /\ forall k, obj_get k r = match obj_get k acc with
                               | Some v => Some v
                               | None => if existsb (str_eqb k) deleted then None else obj_get k obj
                               end.
  Proof.
    induction obj as [|[k' v'] obj IH]; intros acc Hs; cbn [fold_left fst snd].
    - split; [exact Hs|]. intros k. destruct (obj_get k acc); [reflexivity|].
      destruct (existsb (str_eqb k) deleted); reflexivity.
    - set (acc' := if existsb (str_eqb k') deleted || obj_has k' acc then acc else obj_set k' v' acc).
      assert (Hs' : keys_sorted acc' = true)
        by (unfold acc'; destruct (existsb (str_eqb k') deleted || obj_has k' acc); [exact Hs | apply obj_set_sorted; exact Hs]).
      destruct (IH acc' Hs') as [R1 R2]. split; [exact R1|].
      intros k. rewrite R2. cbn [obj_get]. unfold acc'.
      destruct (existsb (str_eqb k') deleted || obj_has k' acc) eqn:C.
      + destruct (obj_get k acc) eqn:G; [reflexivity|].
        destruct (existsb (str_eqb k) deleted) eqn:D; [reflexivity|].
        destruct (str_eqb k k') eqn:E; [|reflexivity].
        apply str_eqb_eq in E. subst k'. rewrite D in C. cbn [orb] in C.
        unfold obj_has in C. rewrite G in C. discriminate.
      + apply orb_false_iff in C as [C1 C2]. rewrite obj_get_set.
        destruct (str_eqb k k') eqn:E.
        * apply str_eqb_eq in E. subst k'. unfold obj_has in C2.
          destruct (obj_get k acc); [discriminate|]. rewrite C1. reflexivity.
        * reflexivity.
  Qed.

  Theorem patch_dict_spec d :
    Forall (entry_ok rec a) d -> NoDup (dkeys d) ->
    exists r, patch_dict rec a d = Ok r /\ keys_sorted r = true
              /\ forall k, obj_get k r = dmeaning d k.
  Proof.
    intros Hok Hnd.
    destruct (patch_dict_go_spec rec a d [] [] eq_refl Hok Hnd) as (no & dl & Hgo & Hs & Hget & Hdel).
    { intros k _. split; [reflexivity | intros []]. }
    unfold patch_dict. rewrite Hgo. cbn [bind].
    destruct (fold_untouched dl a no Hs) as [R1 R2]. cbv zeta in R1, R2.
    eexists. split; [reflexivity|]. split; [exact R1|].
    intros k. rewrite R2, Hget. unfold dmeaning.
    destruct (find_entry k d) as [e|] eqn:Ef.
    - assert (He : entry_ok rec a e).
      { rewrite Forall_forall in Hok. apply Hok. clear - Ef.
        induction d as [|x d IHd]; [discriminate|]. cbn [find_entry] in Ef.
        destruct (dkey x); [right; apply IHd; exact Ef|].
        destruct (str_eqb k s); [inversion Ef; left; reflexivity | right; apply IHd; exact Ef]. }
      destruct e as [[?|k1] v|[?|k1]|[?|k1] v|[?|k1] vs|[?|k1] len|[?|k1] dd]; cbn [entry_ok] in He; try contradiction;
        cbn [set_of is_remove]; try reflexivity.
      + (* remove *)
        replace (existsb (str_eqb k) dl) with true; [reflexivity|].
        symmetry. apply existsb_str. apply Hdel. right. eexists. split; [exact Ef | reflexivity].
      + destruct He as (x & p & Hx & Hp). rewrite Hx, Hp. reflexivity.
    - cbn [obj_get].
      replace (existsb (str_eqb k) dl) with false; [reflexivity|].
      symmetry. destruct (existsb (str_eqb k) dl) eqn:E; [|reflexivity].
      apply existsb_str in E. apply Hdel in E. destruct E as [[]|(e & H1 & _)]. congruence.
  Qed.
End PatchDictMeaning.

(* ---------- the sorted walk ---------- *)
Section Walk.
  Variable rec : json -> diff -> res json.
  Variable on_common : pystr -> json -> json -> res (list dentry).

  Definition common_ok (k : pystr) (va vb : json) : Prop :=
    exists es, on_common k va vb = Ok es
               /\ ((es = [] /\ va = vb)
                   \/ (exists dd, es = [DPatch (KS k) dd] /\ rec va dd = Ok vb)
                   \/ es = [DReplace (KS k) vb]).

  Definition okeys (l : list (pystr * json)) : list pystr := map fst l.

  Lemma sorted_keys_gt k v l : keys_sorted ((k, v) :: l) = true -> forall k', In k' (okeys l) -> str_ltb k k' = true.
  Proof.
    revert k v. induction l as [|[k1 v1] l IH]; intros k v Hs k' Hin; [destruct Hin|].
    apply keys_sorted_cons in Hs as [H1 H2]. cbn [first_key_gt] in H1.
    destruct Hin as [E|Hin]; [cbn in E; subst; exact H1|].
    eapply str_ltb_trans; [exact H1|]. eapply IH; eauto.
  Qed.

  Lemma obj_get_in k l v : obj_get k l = Some v -> In k (okeys l).
  Proof.
    induction l as [|[k1 v1] l IH]; cbn [obj_get okeys map]; [discriminate|].
    destruct (str_eqb k k1) eqn:E; [apply str_eqb_eq in E; subst; left; reflexivity | intros H; right; apply IH; exact H].
  Qed.

  Lemma obj_get_notin k l : ~ In k (okeys l) -> obj_get k l = None.
  Proof. intros H. destruct (obj_get k l) eqn:E; [|reflexivity]. exfalso. apply H. eapply obj_get_in; eauto. Qed.

  (* what the walk guarantees about its output, relative to the parts (a, b) still to be walked *)
  Definition walk_post (a b : list (pystr * json)) (d : list dentry) : Prop :=
    Forall (entry_ok rec a) d /\ NoDup (dkeys d)
    /\ (forall k, In k (dkeys d) -> In k (okeys a) \/ In k (okeys b))
    /\ (forall k, dmeaning rec a d k = obj_get k b).

  Lemma entry_ok_cons ka va a e :
    entry_ok rec a e -> key_str e <> ka -> entry_ok rec ((ka, va) :: a) e.
  Proof.
    intros He Hne.
    destruct e as [[?|k] v|[?|k]|[?|k] v|[?|k] vs|[?|k] len|[?|k] dd]; cbn [entry_ok key_str dkey] in *; auto.
    - unfold obj_has in *. cbn [obj_get]. destruct (str_eqb k ka) eqn:E; [apply str_eqb_eq in E; congruence | exact He].
    - destruct He as (x & p & Hx & Hp). exists x, p. split; [|exact Hp].
      cbn [obj_get]. destruct (str_eqb k ka) eqn:E; [apply str_eqb_eq in E; congruence | exact Hx].
  Qed.

  Lemma set_of_cons ka va a e : key_str e <> ka -> set_of rec ((ka, va) :: a) e = set_of rec a e.
  Proof.
    intros Hne. destruct e as [[?|k] v|[?|k]|[?|k] v|[?|k] vs|[?|k] len|[?|k] dd]; cbn [set_of key_str dkey] in *; auto.
    cbn [obj_get]. destruct (str_eqb k ka) eqn:E; [apply str_eqb_eq in E; congruence | reflexivity].
  Qed.

  Lemma find_entry_key k d e : find_entry k d = Some e -> key_str e = k.
  Proof.
    induction d as [|x d IH]; [discriminate|]. cbn [find_entry].
    destruct (dkey x) eqn:Ex; [exact IH|].
    destruct (str_eqb k s) eqn:E; [|exact IH].
    intros H. inversion H; subst. unfold key_str. rewrite Ex. symmetry. apply str_eqb_eq. exact E.
  Qed.

  Lemma find_entry_notin k d : ~ In k (dkeys d) -> find_entry k d = None.
  Proof.
    intros H. destruct (find_entry k d) eqn:E; [|reflexivity]. exfalso. apply H.
    eapply find_entry_in_keys; eauto.
  Qed.

  Lemma ltb_neq k k' : str_ltb k k' = true -> k' <> k.
  Proof. intros H E. subst. rewrite str_ltb_irrefl in H. discriminate. Qed.

  Lemma dict_walk_ok : forall fuel a b,
    length a + length b < fuel -> keys_sorted a = true -> keys_sorted b = true ->
    (forall k va vb, obj_get k a = Some va -> obj_get k b = Some vb -> common_ok k va vb) ->
    exists d, dict_walk on_common fuel a b = Ok d /\ walk_post a b d.
  Proof.
    induction fuel as [|fuel IH]; intros a b Hf Sa Sb Hc; [lia|].
    destruct a as [|[ka va] a'], b as [|[kb vb] b']; cbn [dict_walk].
    - exists []. split; [reflexivity|]. unfold walk_post. split; [constructor|]. split; [constructor|].
      split; [intros k []|]. intros k. reflexivity.
    - (* only b left: add *)
      apply keys_sorted_cons in Sb as [Gb Sb'].
      destruct (IH [] b') as (d & Hd & Hok & Hnd & Hin & Hm); auto; [simpl in *; lia | intros k ? ? H; discriminate|].
      rewrite Hd. cbn [bind]. eexists. split; [reflexivity|].
      assert (Hnotin : ~ In kb (dkeys d)).
      { intros H. destruct (Hin kb H) as [[]|H2].
        pose proof (sorted_keys_gt kb vb b' ltac:(apply keys_sorted_cons; auto) kb H2) as L.
        rewrite str_ltb_irrefl in L. discriminate. }
      repeat split.
      + constructor; [reflexivity | exact Hok].
      + cbn [dkeys map key_str dkey]. constructor; assumption.
      + intros k [E|H]; [right; left; exact E | destruct (Hin k H) as [[]|H2]; right; right; exact H2].
      + intros k. unfold dmeaning. rewrite (find_entry_cons_ks k (DAdd (KS kb) vb) d kb eq_refl). cbn [key_str dkey obj_get].
        destruct (str_eqb k kb) eqn:E; [reflexivity|]. apply Hm.
    - (* only a left: remove *)
      pose proof Sa as Sa0. apply keys_sorted_cons in Sa as [Ga Sa'].
      destruct (IH a' []) as (d & Hd & Hok & Hnd & Hin & Hm); auto; [simpl in *; lia | intros k ? ? _ H; discriminate|].
      rewrite Hd. cbn [bind]. eexists. split; [reflexivity|].
      assert (Hgt : forall k, In k (dkeys d) -> k <> ka).
      { intros k H. destruct (Hin k H) as [H2|[]]. apply ltb_neq. eapply sorted_keys_gt; eauto. }
      repeat split.
      + constructor; [exact I|]. rewrite Forall_forall in *. intros e He. apply entry_ok_cons; [apply Hok; exact He|].
        apply Hgt. apply in_map. exact He.
      + cbn [dkeys map key_str dkey]. constructor; [|exact Hnd]. intros H. apply (Hgt ka H). reflexivity.
      + intros k [E|H]; [left; left; exact E | destruct (Hin k H) as [H2|[]]; left; right; exact H2].
      + intros k. unfold dmeaning. rewrite (find_entry_cons_ks k (DRemove (KS ka)) d ka eq_refl). cbn [key_str dkey].
        destruct (str_eqb k ka) eqn:E; [reflexivity|].
        specialize (Hm k). unfold dmeaning in Hm. cbn [obj_get] in *.
        destruct (find_entry k d) as [e|] eqn:Ef.
        * rewrite set_of_cons; [exact Hm|]. rewrite (find_entry_key _ _ _ Ef). intros E2. subst. rewrite str_eqb_refl in E. discriminate.
        * rewrite E. exact Hm.
    - pose proof Sa as Sa0. pose proof Sb as Sb0.
      apply keys_sorted_cons in Sa as [Ga Sa']. apply keys_sorted_cons in Sb as [Gb Sb'].
      destruct (str_cmp ka kb) eqn:C.
      + (* common key *)
        apply str_cmp_eq in C. subst kb.
        destruct (Hc ka va vb) as (es & Hes & Hcase); [cbn [obj_get]; rewrite str_eqb_refl; reflexivity..|].
        rewrite Hes. cbn [bind].
        destruct (IH a' b') as (d & Hd & Hok & Hnd & Hin & Hm); auto; [simpl in *; lia| |].
        { intros k xa xb Hxa Hxb. apply Hc; cbn [obj_get].
          - destruct (str_eqb k ka) eqn:E; [|exact Hxa]. apply str_eqb_eq in E. subst.
            rewrite (sorted_get_lt ka a') in Hxa; [discriminate|exact Ga|exact Sa'].
          - destruct (str_eqb k ka) eqn:E; [|exact Hxb]. apply str_eqb_eq in E. subst.
            rewrite (sorted_get_lt ka b') in Hxb; [discriminate|exact Gb|exact Sb']. }
        rewrite Hd. cbn [bind]. eexists. split; [reflexivity|].
        assert (Hgt : forall k, In k (dkeys d) -> k <> ka).
        { intros k H. destruct (Hin k H) as [H2|H2]; apply ltb_neq;
            [apply (sorted_keys_gt ka va a' Sa0 k H2) | apply (sorted_keys_gt ka vb b' Sb0 k H2)]. }
        assert (Hok' : Forall (entry_ok rec ((ka, va) :: a')) d).
        { rewrite Forall_forall in *. intros e He. apply entry_ok_cons; [apply Hok; exact He|]. apply Hgt. apply in_map. exact He. }
        assert (Hrest : forall k, str_eqb k ka = false ->
                  match find_entry k d with
                  | Some e => if is_remove e then None else set_of rec ((ka, va) :: a') e
                  | None => obj_get k ((ka, va) :: a') end = obj_get k ((ka, vb) :: b')).
        { intros k E. specialize (Hm k). unfold dmeaning in Hm. cbn [obj_get]. rewrite E.
          destruct (find_entry k d) as [e|] eqn:Ef; [|exact Hm].
          rewrite set_of_cons; [exact Hm|]. rewrite (find_entry_key _ _ _ Ef). intros E2. subst. rewrite str_eqb_refl in E. discriminate. }
        destruct Hcase as [[-> ->]|[(dd & -> & Hp)| ->]]; cbn [app].
        * repeat split; auto.
          -- intros k H. destruct (Hin k H); [left|right]; right; assumption.
          -- intros k. unfold dmeaning. destruct (str_eqb k ka) eqn:E; [|apply Hrest; exact E].
             apply str_eqb_eq in E. subst k. rewrite find_entry_notin by (intros H; apply (Hgt ka H); reflexivity).
             cbn [obj_get]. rewrite str_eqb_refl. reflexivity.
        * repeat split.
          -- constructor; [|exact Hok']. cbn [entry_ok]. exists va, vb. split; [|exact Hp].
             cbn [obj_get]. rewrite str_eqb_refl. reflexivity.
          -- cbn [dkeys map key_str dkey]. constructor; [|exact Hnd]. intros H. apply (Hgt ka H). reflexivity.
          -- intros k [E|H]; [left; left; exact E | destruct (Hin k H); [left|right]; right; assumption].
          -- intros k. unfold dmeaning.
             rewrite (find_entry_cons_ks k (DPatch (KS ka) dd) d ka eq_refl).
             cbn [key_str dkey]. destruct (str_eqb k ka) eqn:E; [|apply Hrest; exact E].
             cbn [is_remove set_of obj_get]. rewrite E, str_eqb_refl, Hp. reflexivity.
        * repeat split.
          -- constructor; [exact I | exact Hok'].
          -- cbn [dkeys map key_str dkey]. constructor; [|exact Hnd]. intros H. apply (Hgt ka H). reflexivity.
          -- intros k [E|H]; [left; left; exact E | destruct (Hin k H); [left|right]; right; assumption].
          -- intros k. unfold dmeaning. rewrite (find_entry_cons_ks k (DReplace (KS ka) vb) d ka eq_refl).
             cbn [key_str dkey]. destruct (str_eqb k ka) eqn:E; [|apply Hrest; exact E].
             cbn [is_remove set_of obj_get]. rewrite E. reflexivity.
      + (* ka < kb: remove ka *)
        assert (Lab : str_ltb ka kb = true) by (unfold str_ltb; rewrite C; reflexivity).
        destruct (IH a' ((kb, vb) :: b')) as (d & Hd & Hok & Hnd & Hin & Hm); auto; [simpl in *; lia| |].
        { intros k xa xb Hxa Hxb. apply Hc; [|exact Hxb]. cbn [obj_get].
          destruct (str_eqb k ka) eqn:E; [|exact Hxa]. apply str_eqb_eq in E. subst.
          rewrite (sorted_get_lt ka a') in Hxa; [discriminate|exact Ga|exact Sa']. }
        rewrite Hd. cbn [bind]. eexists. split; [reflexivity|].
        assert (Hgt : forall k, In k (dkeys d) -> k <> ka).
        { intros k H. destruct (Hin k H) as [H2|[E|H2]].
          - apply ltb_neq. eapply sorted_keys_gt; eauto.
          - cbn in E. subst. apply ltb_neq. exact Lab.
          - apply ltb_neq. eapply str_ltb_trans; [exact Lab|]. eapply sorted_keys_gt; eauto. }
        repeat split.
        * constructor; [exact I|]. rewrite Forall_forall in *. intros e He. apply entry_ok_cons; [apply Hok; exact He|].
          apply Hgt. apply in_map. exact He.
        * cbn [dkeys map key_str dkey]. constructor; [|exact Hnd]. intros H. apply (Hgt ka H). reflexivity.
        * intros k [E|H]; [left; left; exact E | destruct (Hin k H) as [H2|H2]; [left; right; exact H2 | right; exact H2]].
        * intros k. unfold dmeaning. rewrite (find_entry_cons_ks k (DRemove (KS ka)) d ka eq_refl). cbn [key_str dkey].
          destruct (str_eqb k ka) eqn:E.
          -- apply str_eqb_eq in E. subst k. cbn [is_remove]. symmetry. apply sorted_get_lt; [|exact Sb0]. exact Lab.
          -- specialize (Hm k). unfold dmeaning in Hm. cbn [obj_get] in Hm |- *. rewrite E.
             destruct (find_entry k d) as [e|] eqn:Ef; [|exact Hm].
             rewrite set_of_cons; [exact Hm|]. rewrite (find_entry_key _ _ _ Ef). intros E2. subst. rewrite str_eqb_refl in E. discriminate.
      + (* kb < ka: add kb *)
        assert (Lba : str_ltb kb ka = true) by (unfold str_ltb; rewrite str_cmp_antisym, C; reflexivity).
        destruct (IH ((ka, va) :: a') b') as (d & Hd & Hok & Hnd & Hin & Hm); auto; [simpl in *; lia| |].
        { intros k xa xb Hxa Hxb. apply Hc; [exact Hxa|]. cbn [obj_get].
          destruct (str_eqb k kb) eqn:E; [|exact Hxb]. apply str_eqb_eq in E. subst.
          rewrite (sorted_get_lt kb b') in Hxb; [discriminate|exact Gb|exact Sb']. }
        rewrite Hd. cbn [bind]. eexists. split; [reflexivity|].
        assert (Hgt : forall k, In k (dkeys d) -> k <> kb).
        { intros k H. destruct (Hin k H) as [[E|H2]|H2].
          - cbn in E. subst. apply ltb_neq. exact Lba.
          - apply ltb_neq. eapply str_ltb_trans; [exact Lba|]. eapply sorted_keys_gt; eauto.
          - apply ltb_neq. eapply sorted_keys_gt; eauto. }
        assert (Hnota : obj_has kb ((ka, va) :: a') = false).
        { unfold obj_has. rewrite sorted_get_lt; [reflexivity| exact Lba | exact Sa0]. }
        repeat split.
        * constructor; [exact Hnota | exact Hok].
        * cbn [dkeys map key_str dkey]. constructor; [|exact Hnd]. intros H. apply (Hgt kb H). reflexivity.
        * intros k [E|H]; [right; left; exact E | destruct (Hin k H) as [H2|H2]; [left; exact H2 | right; right; exact H2]].
        * intros k. unfold dmeaning. rewrite (find_entry_cons_ks k (DAdd (KS kb) vb) d kb eq_refl). cbn [key_str dkey].
          destruct (str_eqb k kb) eqn:E.
          -- cbn [is_remove set_of obj_get]. rewrite E. reflexivity.
          -- specialize (Hm k). unfold dmeaning in Hm. cbn [obj_get] in Hm |- *. rewrite E. exact Hm.
  Qed.

  (* diffing two sorted objects and patching gives the second *)
  Theorem dict_diff_roundtrip a b :
    keys_sorted a = true -> keys_sorted b = true ->
    (forall k va vb, obj_get k a = Some va -> obj_get k b = Some vb -> common_ok k va vb) ->
    exists d, dict_diff on_common a b = Ok d /\ patch_dict rec a d = Ok b.
  Proof.
    intros Sa Sb Hc. unfold dict_diff.
    destruct (dict_walk_ok (S (length a + length b)) a b ltac:(lia) Sa Sb Hc) as (d & Hd & Hok & Hnd & _ & Hm).
    exists d. split; [exact Hd|].
    destruct (patch_dict_spec rec a d Hok Hnd) as (r & Hr & Sr & Hget).
    rewrite Hr. f_equal. apply sorted_ext; auto. intros k. rewrite Hget. apply Hm.
  Qed.
End Walk.
