(* generic.diff_lists: the shallow diff computed from LCS indices is an "aligned" edit script, and the
   consumed-item loop turns any aligned script into a diff that patches A into B. *)
From Coq Require Import List NArith ZArith Bool Lia.
From NB Require Import Base.Res Base.Json Diff.DiffFormat Diff.Patch Diff.Lcs Diff.GenericDiff
     Diff.PatchProofs Diff.SeqProofs.
Import ListNotations.

Section Loop.
  Variable rec : json -> diff -> res json.
  Variable subdiff : json -> json -> res (list dentry).
  Variables A B : list json.

  (* shallow scripts as the loop reads them: cursor (i, j); [amin] = least key an addrange may have *)
  Inductive aligned : nat -> nat -> nat -> list dentry -> Prop :=
  | al_nil i j amin :
      i <= length A -> j <= length B -> length A - i = length B - j ->
      pairs_ok rec subdiff A B i j (length A - i) ->
      aligned i j amin []
  | al_add i j amin x m r :
      i <= x -> amin <= x -> x <= length A -> 0 < m -> j + (x - i) + m <= length B ->
      pairs_ok rec subdiff A B i j (x - i) ->
      aligned x (j + (x - i) + m) (x + 1) r ->
      aligned i j amin (DAddRange (KI x) (VList (slice B (j + (x - i)) (j + (x - i) + m))) :: r)
  | al_rem i j amin x len r :
      i <= x -> 0 < len -> x + len <= length A -> j + (x - i) <= length B ->
      pairs_ok rec subdiff A B i j (x - i) ->
      aligned (x + len) (j + (x - i)) (x + len) r ->
      aligned i j amin (DRemoveRange (KI x) len :: r).

  Lemma diff_lists_loop_ok : forall shallow i j amin di,
    aligned i j amin shallow ->
    Built rec A B di i j -> keys_le i di -> keys_lt amin di -> amin <= length A + 1 ->
    exists d, diff_lists_loop subdiff A B shallow i j di = Ok d /\ patch_list rec A d = Ok B.
  Proof.
    induction shallow as [|e rest IH]; intros i j amin di Hal Hb Hle Hlt Ham.
    - inversion Hal; subst. cbn [diff_lists_loop].
      replace (Nat.ltb (length A) i) with false by (symmetry; apply Nat.ltb_ge; lia).
      replace (Z.eqb (Z.of_nat (length B) - Z.of_nat j) (Z.of_nat (length A - i))) with true
        by (symmetry; apply Z.eqb_eq; lia).
      cbn [negb].
      destruct (patch_items_ok rec subdiff A B i j (length A - i) 0 di) as (di' & Hpi & Hb' & _ & _).
      + rewrite !Nat.add_0_r. assumption.
      + rewrite !Nat.add_0_r. exact Hb.
      + rewrite Nat.add_0_r. exact Hle.
      + exists di'. split; [exact Hpi|]. rewrite !Nat.add_0_r in Hb'.
        replace (i + (length A - i)) with (length A) in Hb' by lia.
        replace (j + (length A - i)) with (length B) in Hb' by lia.
        destruct Hb' as (t & acc & Hpst & Hrec).
        unfold patch_list. rewrite go_pst, Hpst. cbn [bind fst snd]. f_equal.
        eapply Rec_final. exact Hrec.
    - inversion Hal; subst.
      + (* addrange at x *)
        cbn [diff_lists_loop knat dkey count_consumed bind vlen].
        destruct (patch_items_ok rec subdiff A B i j (x - i) 0 di) as (di' & Hpi & Hb' & Hle' & Hlt').
        * rewrite !Nat.add_0_r. assumption.
        * rewrite !Nat.add_0_r. exact Hb.
        * rewrite Nat.add_0_r. exact Hle.
        * rewrite Hpi. cbn [bind]. rewrite !Nat.add_0_r in *.
          replace (i + (x - i)) with x in * by lia.
          assert (Hk : keys_lt x di').
          { destruct (Nat.eq_dec (x - i) 0) as [E|E].
            - rewrite E in Hpi. cbn [patch_items] in Hpi. inversion Hpi; subst.
              eapply keys_lt_mono; [|exact Hlt]. lia.
            - apply Hlt'. lia. }
          rewrite seq_append_end_lt by exact Hk.
          rewrite slice_length by lia.
          replace (j + (x - i) + m - (j + (x - i))) with m by lia.
          replace (x + 0) with x by lia.
          eapply (IH x (j + (x - i) + m) (x + 1)); eauto.
          -- eapply Built_addrange; eauto; try lia.
          -- apply Forall_app. split; [exact Hle'|]. repeat constructor.
          -- apply Forall_app. split; [eapply keys_lt_mono; [|exact Hk]; lia|].
             repeat constructor. cbn [knat dkey]. lia.
          -- lia.
      + (* removerange at x *)
        cbn [diff_lists_loop knat dkey count_consumed bind].
        destruct (patch_items_ok rec subdiff A B i j (x - i) 0 di) as (di' & Hpi & Hb' & Hle' & Hlt').
        * rewrite !Nat.add_0_r. assumption.
        * rewrite !Nat.add_0_r. exact Hb.
        * rewrite Nat.add_0_r. exact Hle.
        * rewrite Hpi. cbn [bind]. rewrite !Nat.add_0_r in *.
          replace (i + (x - i)) with x in * by lia.
          rewrite seq_append_end_le; [|reflexivity | exact Hle'].
          eapply (IH (x + len) (j + (x - i)) (x + len)); eauto.
          -- replace len with (x + len - x) at 1 by lia. eapply Built_removerange; eauto; lia.
          -- apply Forall_app. split; [eapply Forall_impl; [|exact Hle']; cbn; intros; lia|].
             repeat constructor. cbn [knat dkey]. lia.
          -- apply Forall_app. split; [eapply Forall_impl; [|exact Hle']; cbn; intros; lia|].
             repeat constructor. cbn [knat dkey]. lia.
          -- lia.
  Qed.

  (* ---------- lcs.diff_from_lcs ---------- *)
  Inductive valid_idx : nat -> nat -> list nat -> list nat -> Prop :=
  | vi_nil x y : x <= length A -> y <= length B -> valid_idx x y [] []
  | vi_cons x y i j ai bi :
      x <= i -> y <= j -> i < length A -> j < length B ->
      pairs_ok rec subdiff A B i j 1 ->
      valid_idx (i + 1) (j + 1) ai bi -> valid_idx x y (i :: ai) (j :: bi).

  Definition gap_entries (x y i j : nat) : list dentry :=
    (if Nat.ltb y j then [DAddRange (KI x) (VList (slice B y j))] else [])
    ++ (if Nat.ltb x i then [DRemoveRange (KI x) (i - x)] else []).

  Lemma gap_shape di x y i j :
    keys_lt x di -> j <= length B ->
    (let di1 := if Nat.ltb x i then b_removerange di x (i - x) else di in
     if Nat.ltb y j then b_addrange di1 x (VList (slice B y j)) else di1)
    = di ++ gap_entries x y i j.
  Proof.
    intros Hk Hj. cbv zeta. unfold gap_entries.
    destruct (Nat.ltb_spec x i) as [Ei|Ei], (Nat.ltb_spec y j) as [Ej|Ej].
    - unfold b_removerange. replace (Nat.eqb (i - x) 0) with false by (symmetry; apply Nat.eqb_neq; lia).
      rewrite seq_append_end_le; [|reflexivity | apply keys_lt_le; exact Hk].
      unfold b_addrange. cbn [vlen]. rewrite slice_length by lia.
      replace (Nat.eqb (j - y) 0) with false by (symmetry; apply Nat.eqb_neq; lia).
      rewrite seq_append_add_before_remove by exact Hk. reflexivity.
    - unfold b_removerange. replace (Nat.eqb (i - x) 0) with false by (symmetry; apply Nat.eqb_neq; lia).
      rewrite seq_append_end_le; [|reflexivity | apply keys_lt_le; exact Hk]. reflexivity.
    - unfold b_addrange. cbn [vlen]. rewrite slice_length by lia.
      replace (Nat.eqb (j - y) 0) with false by (symmetry; apply Nat.eqb_neq; lia).
      rewrite seq_append_end_lt by exact Hk. rewrite app_nil_r. reflexivity.
    - rewrite app_nil_r. reflexivity.
  Qed.

  Lemma pairs_ok_snoc i j p :
    pairs_ok rec subdiff A B i j p -> pairs_ok rec subdiff A B (i + p) (j + p) 1 ->
    pairs_ok rec subdiff A B i j (p + 1).
  Proof.
    intros H1 H2 k Hk. destruct (Nat.lt_ge_cases k p) as [L|G]; [apply H1; exact L|].
    assert (k = p) by lia. subst k. specialize (H2 0 ltac:(lia)). rewrite !Nat.add_0_r in H2. exact H2.
  Qed.

  (* the two entries emitted for one gap, read by the loop from cursor (x - p, y - p) with p pending pairs *)
  Lemma al_add' i j amin x r y0 y1 :
    i <= x -> amin <= x -> x <= length A -> y0 = j + (x - i) -> y0 < y1 -> y1 <= length B ->
    pairs_ok rec subdiff A B i j (x - i) ->
    aligned x y1 (x + 1) r ->
    aligned i j amin (DAddRange (KI x) (VList (slice B y0 y1)) :: r).
  Proof.
    intros H1 H2 H3 E H4 H5 Hp Hr. subst y0.
    replace y1 with (j + (x - i) + (y1 - (j + (x - i)))) in * by lia.
    apply al_add; auto; lia.
  Qed.

  Lemma al_rem' i j amin x len r i' j' :
    i <= x -> 0 < len -> x + len <= length A -> j + (x - i) <= length B ->
    i' = x + len -> j' = j + (x - i) ->
    pairs_ok rec subdiff A B i j (x - i) ->
    aligned i' j' i' r ->
    aligned i j amin (DRemoveRange (KI x) len :: r).
  Proof. intros; subst; apply al_rem; auto. Qed.

  Lemma aligned_gap x y i j p amin r :
    p <= x -> p <= y -> x <= i -> y <= j -> i <= length A -> j <= length B -> amin <= x ->
    pairs_ok rec subdiff A B (x - p) (y - p) p ->
    (x < i \/ y < j) ->
    aligned i j (if Nat.ltb x i then i else x + 1) r ->
    aligned (x - p) (y - p) amin (gap_entries x y i j ++ r).
  Proof.
    intros Hpx Hpy Hxi Hyj HiA HjB Ham Hp Hne Hr. unfold gap_entries.
    assert (Ex : x - (x - p) = p) by lia.
    destruct (Nat.ltb_spec y j) as [Ej|Ej].
    - cbn [app]. apply al_add'; try lia.
      + rewrite Ex. exact Hp.
      + destruct (Nat.ltb_spec x i) as [Ei|Ei].
        * cbn [app]. apply (al_rem' x j (x + 1) x (i - x) r i j); try lia.
          -- intros k Hk. lia.
          -- exact Hr.
        * cbn [app]. assert (i = x) by lia. subst i. exact Hr.
    - assert (j = y) by lia. subst j. cbn [app].
      destruct (Nat.ltb_spec x i) as [Ei|Ei]; [|lia].
      cbn [app]. apply (al_rem' (x - p) (y - p) amin x (i - x) r i y); try lia.
      + rewrite Ex. exact Hp.
      + exact Hr.
  Qed.

  Lemma aligned_amin_weaken i j amin amin' d : aligned i j amin d -> amin' <= amin -> aligned i j amin' d.
  Proof.
    intros H. revert amin'. induction H; intros amin' Hle.
    - apply al_nil; auto.
    - apply al_add; auto. lia.
    - apply al_rem; auto.
  Qed.

  Lemma diff_from_lcs_aligned : forall ai bi x y p amin di,
    valid_idx x y ai bi -> p <= x -> p <= y -> amin <= x ->
    pairs_ok rec subdiff A B (x - p) (y - p) p -> keys_lt x di ->
    exists tail, diff_from_lcs_go B (length A) (length B) ai bi x y di = di ++ tail
                 /\ aligned (x - p) (y - p) amin tail.
  Proof.
    induction ai as [|i ai IH]; intros bi x y p amin di Hv Hpx Hpy Ham Hp Hk; inversion Hv; subst.
    - (* trailing gap up to (N, M) *)
      cbn [diff_from_lcs_go].
      pose proof (gap_shape di x y (length A) (length B) Hk (le_n _)) as Hs. cbv zeta in Hs. rewrite Hs.
      exists (gap_entries x y (length A) (length B)). split; [reflexivity|].
      destruct (Nat.eq_dec x (length A)) as [Ex|Ex], (Nat.eq_dec y (length B)) as [Ey|Ey].
      + subst. unfold gap_entries. rewrite !Nat.ltb_irrefl. cbn [app].
        apply al_nil; try lia. replace (length A - (length A - p)) with p by lia. exact Hp.
      + rewrite <- (app_nil_r (gap_entries _ _ _ _)). apply aligned_gap; auto; try lia.
        apply al_nil; try lia. intros k Hk0. lia.
      + rewrite <- (app_nil_r (gap_entries _ _ _ _)). apply aligned_gap; auto; try lia.
        apply al_nil; try lia. intros k Hk0. lia.
      + rewrite <- (app_nil_r (gap_entries _ _ _ _)). apply aligned_gap; auto; try lia.
        apply al_nil; try lia. intros k Hk0. lia.
    - cbn [diff_from_lcs_go].
      pose proof (gap_shape di x y i j Hk ltac:(lia)) as Hs. cbv zeta in Hs. rewrite Hs.
      destruct (Nat.eq_dec x i) as [Ex|Ex], (Nat.eq_dec y j) as [Ey|Ey].
      + (* no gap: one more pending pair *)
        subst i j. unfold gap_entries. rewrite !Nat.ltb_irrefl. cbn [app]. rewrite app_nil_r.
        destruct (IH bi0 (x + 1) (y + 1) (p + 1) amin di) as (tail & Ht & Ha); auto; try lia.
        * replace (x + 1 - (p + 1)) with (x - p) by lia. replace (y + 1 - (p + 1)) with (y - p) by lia.
          apply pairs_ok_snoc; auto. replace (x - p + p) with x by lia. replace (y - p + p) with y by lia. assumption.
        * eapply keys_lt_mono; [|exact Hk]. lia.
        * exists tail. split; [exact Ht|].
          replace (x + 1 - (p + 1)) with (x - p) in Ha by lia. replace (y + 1 - (p + 1)) with (y - p) in Ha by lia.
          exact Ha.
      + destruct (IH bi0 (i + 1) (j + 1) 1 (if Nat.ltb x i then i else x + 1) (di ++ gap_entries x y i j))
          as (tail & Ht & Ha); auto; try lia.
        * destruct (Nat.ltb x i); lia.
        * replace (i + 1 - 1) with i by lia. replace (j + 1 - 1) with j by lia. assumption.
        * apply keys_lt_app; [eapply keys_lt_mono; [|exact Hk]; lia|].
          unfold gap_entries. apply keys_lt_app;
            [destruct (Nat.ltb y j) | destruct (Nat.ltb x i)]; repeat constructor; cbn [knat dkey]; lia.
        * exists (gap_entries x y i j ++ tail). split; [rewrite Ht, app_assoc; reflexivity|].
          replace (i + 1 - 1) with i in Ha by lia. replace (j + 1 - 1) with j in Ha by lia.
          apply aligned_gap; auto; try lia.
      + destruct (IH bi0 (i + 1) (j + 1) 1 (if Nat.ltb x i then i else x + 1) (di ++ gap_entries x y i j))
          as (tail & Ht & Ha); auto; try lia.
        * destruct (Nat.ltb x i); lia.
        * replace (i + 1 - 1) with i by lia. replace (j + 1 - 1) with j by lia. assumption.
        * apply keys_lt_app; [eapply keys_lt_mono; [|exact Hk]; lia|].
          unfold gap_entries. apply keys_lt_app;
            [destruct (Nat.ltb y j) | destruct (Nat.ltb x i)]; repeat constructor; cbn [knat dkey]; lia.
        * exists (gap_entries x y i j ++ tail). split; [rewrite Ht, app_assoc; reflexivity|].
          replace (i + 1 - 1) with i in Ha by lia. replace (j + 1 - 1) with j in Ha by lia.
          apply aligned_gap; auto; try lia.
      + destruct (IH bi0 (i + 1) (j + 1) 1 (if Nat.ltb x i then i else x + 1) (di ++ gap_entries x y i j))
          as (tail & Ht & Ha); auto; try lia.
        * destruct (Nat.ltb x i); lia.
        * replace (i + 1 - 1) with i by lia. replace (j + 1 - 1) with j by lia. assumption.
        * apply keys_lt_app; [eapply keys_lt_mono; [|exact Hk]; lia|].
          unfold gap_entries. apply keys_lt_app;
            [destruct (Nat.ltb y j) | destruct (Nat.ltb x i)]; repeat constructor; cbn [knat dkey]; lia.
        * exists (gap_entries x y i j ++ tail). split; [rewrite Ht, app_assoc; reflexivity|].
          replace (i + 1 - 1) with i in Ha by lia. replace (j + 1 - 1) with j in Ha by lia.
          apply aligned_gap; auto; try lia.
  Qed.

  (* diff_lists with a single predicate: shallow diff from valid LCS indices, then the loop *)
  Theorem diff_lists_from_indices_ok ai bi :
    valid_idx 0 0 ai bi ->
    exists d, diff_lists_loop subdiff A B (diff_from_lcs_go B (length A) (length B) ai bi 0 0 []) 0 0 [] = Ok d
              /\ patch_list rec A d = Ok B.
  Proof.
    intros Hv.
    destruct (diff_from_lcs_aligned ai bi 0 0 0 0 [] Hv) as (tail & Ht & Ha); auto.
    - intros k Hk. lia.
    - constructor.
    - rewrite Ht. cbn [app]. cbn in Ha.
      eapply (diff_lists_loop_ok tail 0 0 0 []); eauto.
      + exists 0, []. split; [reflexivity | apply Rec_init].
      + constructor.
      + constructor.
      + lia.
  Qed.
End Loop.
