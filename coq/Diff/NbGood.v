(* Goodness of a diff and the assembly lemmas for sequences and mappings, used by NbProofs.
   The notebook differ (generic.diff with the notebook tables: multilevel cell / output alignment,
   source lines, mime bundles, attachments, single outputs): WHENEVER it returns a diff, patching the
   base with it gives exactly the target, and the diff is well-formed (C01 / C11), for every
   similarity heuristic. *)
From Coq Require Import List NArith ZArith Bool Lia.
From NB Require Import Base.Res Base.Json Base.PyStr Diff.DiffFormat Diff.Patch Diff.Lcs Diff.GenericDiff
     Diff.Wf Diff.PatchProofs Diff.SeqProofs Diff.LoopProofs Diff.LcsProofs Diff.SnakesProofs Diff.DictProofs
     Diff.WfProofs Diff.DictWf Diff.StringProofs Diff.StringMaster Diff.MasterProofs Diff.NbPartial.
Import ListNotations.

(* d is a correct, well-formed diff from a to b *)
Definition Good (a b : json) (d : list dentry) : Prop :=
  is_container a = true /\ kind_of a = kind_of b
  /\ (forall m, depth a < m -> patch m a d = Ok b)
  /\ (forall f, depth a < f -> wf_diff f a d = true).

Lemma Good_nil a b : wfj a = true -> Good a b [] -> a = b.
Proof.
  intros Hw (Hc & _ & Hp & _). specialize (Hp (S (depth a)) ltac:(lia)).
  rewrite patch_nil in Hp; [congruence | lia | exact Hw | exact Hc].
Qed.

Lemma Good_refl a : wfj a = true -> is_container a = true -> Good a a [].
Proof.
  intros Hw Hc. split; [exact Hc|]. split; [reflexivity|]. split.
  - intros m Hm. apply patch_nil; [lia | exact Hw | exact Hc].
  - intros f Hf. destruct f as [|f]; [lia|]. destruct a; try discriminate; reflexivity.
Qed.

Definition pok (A : list json) (f' : nat) : nat -> list dentry -> bool :=
  fun k dd => match nth_error A k with
              | Some x => is_container x && negb (Nat.eqb (length dd) 0) && wf_diff f' x dd
              | None => false end.

Section Lists.
  Variable sd : sdiff.
  Variables l m0 : list json.
  (* non-empty results of the sub-differ are good *)
  Hypothesis Hsd : forall x y cd, In x l -> In y m0 -> sd x y = Ok cd -> cd <> [] -> Good x y cd.

  Lemma pairs_wf_sd f' : depth (JArr l) <= f' -> forall i j n, pairs_wf l m0 (pok l f') sd i j n.
  Proof.
    intros Hf i j n k x y cd Hk Hx Hy Hcd Hne. unfold pok. rewrite Hx.
    assert (Hinx : In x l) by (eapply nth_error_In; eauto).
    destruct (Hsd x y cd Hinx ltac:(eapply nth_error_In; eauto) Hcd Hne) as (Hc & _ & _ & Hw).
    rewrite Hc, Hw by (pose proof (depth_in_arr l x Hinx); lia).
    destruct cd; [congruence | reflexivity].
  Qed.

  Lemma rec_good m' : depth (JArr l) <= m' ->
    forall x y cd, In x l -> In y m0 -> (cd = [] -> x = y) -> sd x y = Ok cd ->
    match cd with [] => x = y | _ => patch m' x cd = Ok y end.
  Proof.
    intros Hm x y cd Hx Hy Hnil Hcd. destruct cd as [|e cd']; [apply Hnil; reflexivity|].
    destruct (Hsd x y _ Hx Hy Hcd ltac:(discriminate)) as (_ & _ & Hp & _). apply Hp.
    pose proof (depth_in_arr l x Hx). lia.
  Qed.

  Lemma vl_list_ok : forall y j, vl_is_list (VList (slice m0 y j)) = true.
  Proof. reflexivity. Qed.

  (* compute_diff_from_snakes *)
  Theorem seq_snakes_good snakes d :
    (forall x y, In x l -> In y m0 -> sd x y = Ok [] -> x = y) ->
    vsn l m0 0 0 snakes -> diff_from_snakes sd l m0 snakes 0 0 [] = Ok d -> Good (JArr l) (JArr m0) d.
  Proof.
    intros Hnil Hv Hd. split; [reflexivity|]. split; [reflexivity|]. split.
    - intros m Hm. destruct m as [|m']; [lia|]. cbn [patch].
      rewrite (snakes_partial (patch m') sd l m0 (fun _ _ => True)) with (snakes := snakes) (d := d); auto.
      intros x y cd Hx Hy _ Hcd. apply (rec_good m'); auto; [lia|]. intros ->. apply Hnil; assumption.
    - intros f Hf. destruct f as [|f']; [lia|]. cbn [wf_diff].
      apply (diff_from_snakes_wf l m0 vl_is_list (pok l f') vl_list_ok sd snakes 0 0 [] d Hv); auto.
      + intros i j n _. apply pairs_wf_sd. lia.
      + apply Wfb_init.
  Qed.

  (* generic.diff_lists with a single strict predicate *)
  Theorem seq_loop_good d :
    (do shallow <- diff_sequence_bruteforce json_eqb l m0; diff_lists_loop sd l m0 shallow 0 0 []) = Ok d ->
    Good (JArr l) (JArr m0) d.
  Proof.
    intros Hd. unfold diff_sequence_bruteforce in Hd.
    destruct (lcs_indices_ok json_eqb l m0) as (ai & bi & Hl & Hinc). rewrite Hl in Hd. cbn [bind fst snd] in Hd.
    unfold diff_from_lcs in Hd. rewrite (inc_idx_lengths _ _ _ _ _ Hinc), Nat.eqb_refl in Hd. cbn [bind] in Hd.
    assert (Hrec : forall m', depth (JArr l) <= m' ->
              forall x y cd, In x l -> In y m0 -> x = y -> sd x y = Ok cd ->
              match cd with [] => x = y | _ => patch m' x cd = Ok y end).
    { intros m' Hm x y cd Hx Hy E Hcd. apply (rec_good m'); auto. }
    split; [reflexivity|]. split; [reflexivity|]. split.
    - intros m Hm. destruct m as [|m']; [lia|]. cbn [patch].
      destruct (loop_partial (patch m') sd l m0 (@eq json) (Hrec m' ltac:(lia)) ai bi d) as [Hp _]; auto.
      + intros x y (cd & Hcd & Hres). inversion Hcd; subst cd. exact Hres.
      + apply valid_idx_strict. exact Hinc.
      + rewrite Hp. reflexivity.
    - intros f Hf. destruct f as [|f']; [lia|]. cbn [wf_diff].
      destruct (loop_partial (patch (depth (JArr l))) sd l m0 (@eq json) (Hrec _ (le_n _)) ai bi d) as [_ Ha]; auto.
      + intros x y (cd & Hcd & Hres). inversion Hcd; subst cd. exact Hres.
      + apply valid_idx_strict. exact Hinc.
      + apply (diff_lists_loop_wf l m0 vl_is_list (pok l f') vl_list_ok (patch (depth (JArr l))) sd _ 0 0 0 [] d Ha).
        * intros i j n. apply pairs_wf_sd. lia.
        * exists 0, true. split; [reflexivity | lia].
        * intros _. apply Wfb_init.
        * exact Hd.
  Qed.
End Lists.

(* mapping diffs built by the sorted walk *)
Theorem dict_good (oc : ocdiff) ka kb d :
  wfj (JObj ka) = true -> wfj (JObj kb) = true ->
  (forall k va vb es, obj_get k ka = Some va -> obj_get k kb = Some vb -> oc k va vb = Ok es ->
     (es = [] /\ va = vb) \/ (exists dd, es = [DPatch (KS k) dd] /\ dd <> [] /\ Good va vb dd)
     \/ es = [DReplace (KS k) vb]) ->
  dict_diff oc ka kb = Ok d -> Good (JObj ka) (JObj kb) d.
Proof.
  intros Hwa Hwb Hoc Hd.
  pose proof (wfj_obj_sorted _ Hwa) as Sa. pose proof (wfj_obj_sorted _ Hwb) as Sb.
  split; [reflexivity|]. split; [reflexivity|]. split.
  - intros m Hm. destruct m as [|m']; [lia|]. cbn [patch].
    rewrite (dict_partial (patch m') oc ka kb d Sa Sb); [reflexivity | | exact Hd].
    intros k va vb es Hva Hvb Hes. destruct (Hoc k va vb es Hva Hvb Hes) as [H|[(dd & E & Hne & Hg)|H]]; auto.
    right. left. exists dd. split; [exact E|]. destruct Hg as (_ & _ & Hp & _). apply Hp.
    pose proof (depth_in_obj _ _ _ Hva). lia.
  - intros f Hf. destruct f as [|f']; [lia|]. rewrite wf_diff_obj. unfold dict_diff in Hd.
    apply (dict_walk_wf (wf_diff f') oc ka _ ka kb d None Hd Sa Sb).
    + intros k va Hva. exact Hva.
    + intros k Hkk. left. unfold obj_has in Hkk. destruct (obj_get k ka) eqn:E; [|discriminate]. eapply obj_get_in; eauto.
    + exact I.
    + exact I.
    + intros k va vb Hva Hvb es Hes. destruct (Hoc k va vb es Hva Hvb Hes) as [[H _]|[(dd & E & Hne & Hg)|H]].
      * left. exact H.
      * right. left. exists dd. split; [exact E|]. destruct Hg as (Hc & _ & _ & Hw).
        split; [exact Hc|]. split; [exact Hne|]. apply Hw. pose proof (depth_in_obj _ _ _ Hva). lia.
      * right. right. exact H.
Qed.

