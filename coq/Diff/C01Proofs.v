(* C01 for the notebook differ with the tables read from /repo (Gen/NbConfig.v). *)
From Coq Require Import List NArith ZArith Bool Lia String.
From NB Require Import Base.Res Base.Json Base.PyStr Diff.DiffFormat Diff.Patch Diff.GenericDiff Diff.Wf
     Diff.Codec Diff.StringProofs Diff.MasterProofs Diff.SpecProofs Diff.NbGood Diff.NbProofs Diff.NbTotal Gen.NbConfig.
From NB Require Extract.Api.
Import ListNotations.

(* the tables /repo installs meet what the proof needs (strict comparisons, a lone predicate is
   strict equality, no ignoring differ) -- recomputed from the regenerated tables on every run *)
Lemma nb_config_ok : cfg_ok nb_config = true.
Proof. vm_compute. reflexivity. Qed.

(* every list handed to diff_string_lines (cell sources given as lists of lines) holds strings *)
Definition sources_are_strings (nb : json) : bool := kids (lines_ok nb_config) [] nb.

Lemma nb_roundtrip O n a b d :
  opcodes_valid O -> wfj a = true -> wfj b = true -> sources_are_strings a = true ->
  diff_ O nb_config n [] a b = Ok d ->
  (forall m, depth a < m -> patch m a d = Ok b)
  /\ (forall f, depth a < f -> wf_diff f a d = true)
  /\ (forall f, depth a < f -> check_diff f a b d = true)
  /\ (d = [] -> a = b).
Proof.
  intros Hops Hwa Hwb Hs Hd.
  pose proof (nb_diff_partial_correct O nb_config Hops nb_config_ok n a b d Hwa Hwb Hs Hd) as Hg.
  pose proof Hg as (Hc & _ & Hp & Hw).
  split; [exact Hp|]. split; [exact Hw|]. split.
  - intros f Hf. unfold check_diff. rewrite (Hw f Hf). cbn [andb].
    rewrite (check_diff_of_patch f a b d Hwa (Hw f Hf) (Hp f Hf)). apply json_eqb_refl.
  - intros ->. apply Good_nil; assumption.
Qed.

(* non-vacuity: a notebook pair with a changed source, an output with a data bundle and metadata *)
Definition ex_O : oracles :=
  {| o_sim := fun _ _ => false; o_opcodes := fun _ _ => []; o_cell := fun _ _ _ => true; o_output := fun _ _ _ => true |}.
Definition s (x : string) := of_ascii x.
Definition ex_cell (src : json) (outs : list json) : json :=
  JObj [(s "cell_type", JStr (s "code")); (s "metadata", JObj []); (s "outputs", JArr outs); (s "source", src)].
Definition ex_out (txt : string) : json :=
  JObj [(s "data", JObj [(s "text/plain", JStr (s txt))]); (s "metadata", JObj []); (s "output_type", JStr (s "display_data"))].
Definition ex_a : json := JObj [(s "cells", JArr [ex_cell (JStr (s "x")) [ex_out "1"]]); (s "nbformat", JInt 4)].
Definition ex_b : json := JObj [(s "cells", JArr [ex_cell (JStr (s "x")) [ex_out "2"]]); (s "nbformat", JInt 4)].
Example nb_example :
  wfj ex_a = true /\ wfj ex_b = true /\ sources_are_strings ex_a = true
  /\ exists d, diff_ ex_O nb_config 40 [] ex_a ex_b = Ok d /\ d <> [] /\ patch 12 ex_a d = Ok ex_b.
Proof.
  split; [vm_compute; reflexivity|]. split; [vm_compute; reflexivity|]. split; [vm_compute; reflexivity|].
  eexists. split; [vm_compute; reflexivity|]. split; [discriminate | vm_compute; reflexivity].
Qed.

(* ---------- totality on notebook-shaped documents ---------- *)
Lemma nb_config_tot : cfg_tot nb_config = true.
Proof. vm_compute. reflexivity. Qed.

(* the shape nbformat gives a notebook, as far as the differ reads it: "cells" is a list of objects; a
   cell's "source" is a string, its "outputs" a list of objects with a string "output_type" (and an object
   "data" when that is display_data / execute_result), its "attachments" an object of objects;
   everything else (metadata, unknown keys) is arbitrary JSON *)
Definition notebook_shaped (nb : json) : bool := is_obj nb && shape_diff nb_config [] nb.

Lemma nb_total O n a b :
  opcodes_valid O -> wfj a = true -> wfj b = true -> sources_are_strings a = true ->
  notebook_shaped a = true -> notebook_shaped b = true -> 4 * depth a + 4 <= n ->
  exists d, diff_ O nb_config n [] a b = Ok d
            /\ (forall m, depth a < m -> patch m a d = Ok b)
            /\ (forall f, depth a < f -> wf_diff f a d = true)
            /\ (forall f, depth a < f -> check_diff f a b d = true)
            /\ (d = [] -> a = b).
Proof.
  intros Hops Hwa Hwb Hs Sa Sb Hn.
  apply andb_true_iff in Sa as [Oa Sa]. apply andb_true_iff in Sb as [Ob Sb].
  destruct a; try discriminate. destruct b; try discriminate.
  destruct (nb_diff_total O nb_config Hops nb_config_ok nb_config_tot n _ _ Hwa Hwb Hs Sa Sb eq_refl eq_refl Hn) as (d & Hd & _).
  exists d. split; [exact Hd|]. eapply nb_roundtrip; eassumption.
Qed.

Example nb_shaped_example : notebook_shaped ex_a = true /\ notebook_shaped ex_b = true
  /\ notebook_shaped (JObj [(s "cells", JArr [ex_cell (JStr (s "x")) [JObj [(s "output_type", JStr (s "display_data"))]]])]) = false.
Proof. vm_compute. repeat split. Qed.

(* the entry point of the extracted runner (the function the correspondence check executes against nbdime)
   answers {"ok": diff} on notebook-shaped documents: the fuel it passes is enough *)
Lemma nb_api_total O a b :
  opcodes_valid O -> wfj a = true -> wfj b = true -> sources_are_strings a = true ->
  notebook_shaped a = true -> notebook_shaped b = true ->
  exists d, Api.api_nbdiff O Api.nb_config a b = JObj [(Api.k_ok, enc_diff d)]
            /\ (forall m, depth a < m -> patch m a d = Ok b).
Proof.
  intros Hops Hwa Hwb Hs Sa Sb.
  destruct (nb_total O (Api.fuel_of a b) a b Hops Hwa Hwb Hs Sa Sb ltac:(unfold Api.fuel_of; lia)) as (d & Hd & Hp & _).
  exists d. split; [|exact Hp]. unfold Api.api_nbdiff, Api.nb_config. rewrite Hd. reflexivity.
Qed.
