(* nbdime/diffing/{generic,sequences,seq_difflib,snakes,notebooks}.py: the differ, parameterised by
   the path tables (predicates, differs, atomic paths) and by oracles for the heuristics. *)
From Coq Require Import List NArith ZArith Bool Lia.
From NB Require Import Base.Res Base.Json Base.PyStr Diff.DiffFormat Diff.Patch Diff.Lcs.
Import ListNotations.

(* ---------- oracles ---------- *)
Inductive optag := OpEqual | OpReplace | OpInsert | OpDelete.
Definition opcode := (optag * (nat * nat) * (nat * nat))%type.   (* tag, (abegin, aend), (bbegin, bend) *)

Record oracles := {
  o_sim : pystr -> pystr -> bool;                 (* compare_strings_approximate on two lines *)
  o_opcodes : pystr -> pystr -> list opcode;      (* SequenceMatcher(None,a,b,autojunk=False).get_opcodes() *)
  o_cell : nat -> json -> json -> bool;           (* text part of notebook_predicates["/cells"][i] *)
  o_output : nat -> json -> json -> bool;         (* text part of notebook_predicates["/cells/*/outputs"][i] *)
}.

(* ---------- configuration tables ---------- *)
Inductive pred := PEq | PStrictEq | PSim | PCell (i : nat) | POutput (i : nat).

Inductive differ :=
| DfDiff                 (* generic.diff *)
| DfStringLines          (* generic.diff_string_lines *)
| DfSeqMultilevel        (* generic.diff_sequence_multilevel *)
| DfStringsByChar        (* sequences.diff_strings_by_char *)
| DfSingleOutputs        (* notebooks.diff_single_outputs *)
| DfAttachments          (* notebooks.diff_attachments *)
| DfIgnore               (* notebooks.diff_ignore *)
| DfIgnoreKeys (inner : differ) (keys : list pystr).   (* notebooks.diff_ignore_keys(inner, keys) *)

Record config := {
  c_predicates : list (pystr * list pred);  c_pred_default : list pred;
  c_pred_keys : list pystr;                 (* keys explicitly present in the predicates mapping *)
  c_differs : list (pystr * differ);        c_differ_default : differ;
  c_atomic : list (pystr * bool);
  c_split_mimes : list pystr;
  c_generic_pred : list pred;               (* generic.default_predicates() *)
  c_dict_strict : bool;                     (* diff_dicts compares values with strict_equals, not != *)
  c_mime_strict : bool;                     (* add_mime_diff likewise *)
  c_conj_cfg : bool;                        (* diff_single_outputs diffs the output-without-data with path and config *)
  c_mime_guard : bool;                      (* add_mime_diff recurses only into equal-kind containers *)
}.

Definition value_eqb (strict : bool) (x y : json) : bool :=
  if strict then json_eqb x y else py_eqb x y.

Fixpoint assoc {A} (k : pystr) (l : list (pystr * A)) : option A :=
  match l with
  | [] => None
  | (k', v) :: rest => if str_eqb k k' then Some v else assoc k rest
  end.

Definition get_predicates (c : config) (path : pystr) : list pred :=
  match assoc path (c_predicates c) with Some p => p | None => c_pred_default c end.
Definition get_differ (c : config) (path : pystr) : differ :=
  match assoc path (c_differs c) with Some d => d | None => c_differ_default c end.
Definition is_atomic (c : config) (x : json) (path : pystr) : bool :=
  match assoc path (c_atomic c) with Some b => b | None => negb (is_container x) end.

Definition slash : N := 47%N.
Definition star : pystr := [42%N].
Definition subpath (path key : pystr) : pystr := path ++ slash :: key.
Definition path_or_root (path : pystr) : pystr := match path with [] => [slash] | _ => path end.

(* string constants *)
Definition s_output_type : pystr := [111;117;116;112;117;116;95;116;121;112;101]%N.
Definition s_data : pystr := [100;97;116;97]%N.
Definition s_execute_result : pystr := [101;120;101;99;117;116;101;95;114;101;115;117;108;116]%N.
Definition s_display_data : pystr := [100;105;115;112;108;97;121;95;100;97;116;97]%N.
Definition p_outputs_item : pystr :=   (* "/cells/*/outputs/*" *)
  [47;99;101;108;108;115;47;42;47;111;117;116;112;117;116;115;47;42]%N.
Definition p_attachments : pystr :=    (* "/cells/*/attachments" *)
  [47;99;101;108;108;115;47;42;47;97;116;116;97;99;104;109;101;110;116;115]%N.

(* structural part of the output predicates: equal output_type (both read x["output_type"]) *)
Definition same_output_type (x y : json) : bool :=
  match x, y with
  | JObj kx, JObj ky =>
      match obj_get s_output_type kx, obj_get s_output_type ky with
      | Some a, Some b => py_eqb a b
      | _, _ => false
      end
  | _, _ => false
  end.

Definition eval_pred (O : oracles) (p : pred) (x y : json) : bool :=
  match p with
  | PEq => py_eqb x y
  | PStrictEq => json_eqb x y
  | PSim => match x, y with JStr s, JStr t => o_sim O s t | _, _ => false end
  | PCell i => o_cell O i x y
  | POutput i => same_output_type x y && o_output O i x y
  end.

(* ---------- seq_difflib.opcodes_to_diff ---------- *)
Fixpoint opcodes_to_diff (b : pystr) (ops : list opcode) (di : list dentry) : list dentry :=
  match ops with
  | [] => di
  | (tag, (ab, ae), (bb, be)) :: rest =>
      let asize := ae - ab in
      let di :=
        match tag with
        | OpEqual => di
        | OpReplace => b_addrange (b_removerange di ab asize) ab (VStr (slice b bb be))
        | OpInsert => b_addrange di ab (VStr (slice b bb be))
        | OpDelete => b_removerange di ab asize
        end in
      opcodes_to_diff b rest di
  end.

Definition diff_strings_by_char (O : oracles) (a b : pystr) : list dentry :=
  if str_eqb a b then [] else opcodes_to_diff b (o_opcodes O a b) [].

(* ---------- snakes.py ---------- *)
Definition snake := (nat * nat * nat)%type.
Definition rect := (nat * nat * nat * nat)%type.

Definition compute_snakes (cmp : json -> json -> bool) (A B : list json) (r : rect)
  : res (list snake) :=
  let '(i0, j0, i1, j1) := r in
  do s <- bruteforce_compute_snakes cmp (slice A i0 i1) (slice B j0 j1);
  Ok (map (fun '(i, j, n) => (i + i0, j + j0, n)) s).

(* one iteration of the loop over coarse snakes in compute_snakes_multilevel;
   state = (reversed newsnakes, i0, j0), [recur] = the same algorithm one level down *)
Definition ml_step (recur : rect -> res (list snake)) (st : list snake * nat * nat) (sn : snake)
  : res (list snake * nat * nat) :=
  let '(rnew, i0, j0) := st in
  let '(i, j, n) := sn in
  do rnew <- (if Nat.ltb i0 i && Nat.ltb j0 j
              then (do sub <- recur (i0, j0, i, j); Ok (rev sub ++ rnew))
              else Ok rnew);
  let rnew :=
    if Nat.ltb 0 n then
      match rnew with
      | (li, lj, ln) :: rest =>
          if Nat.eqb (li + ln) i && Nat.eqb (lj + ln) j
          then (li, lj, ln + n) :: rest
          else sn :: rnew
      | [] => [sn]
      end
    else rnew in
  Ok (rnew, i + n, j + n).

Fixpoint ml_loop (recur : rect -> res (list snake)) (st : list snake * nat * nat) (l : list snake)
  : res (list snake * nat * nat) :=
  match l with
  | [] => Ok st
  | sn :: rest => do st' <- ml_step recur st sn; ml_loop recur st' rest
  end.

Section Multilevel.
  Variable compares : list (json -> json -> bool).
  Variables A B : list json.

  Fixpoint snakes_multilevel (level : nat) (r : rect) : res (list snake) :=
    let compare := nth level compares (fun _ _ => false) in
    do snakes <- compute_snakes compare A B r;
    match level with
    | 0 => Ok snakes
    | S lvl =>
        let '(i0, j0, i1, j1) := r in
        do st <- ml_loop (snakes_multilevel lvl) ([(0, 0, 0)], i0, j0) (snakes ++ [(i1, j1, 0)]);
        Ok (pop_empty_first (rev (fst (fst st))))
    end.
End Multilevel.

  (* the "for k in range(n)" loops of diff_lists and compute_diff_from_snakes: sub-diff item pairs
   a[i+k], b[j+k] and add a patch entry for each non-empty result *)
Fixpoint patch_items (subdiff : json -> json -> res (list dentry)) (a b : list json)
         (i j k n : nat) (di : list dentry) {struct n} : res (list dentry) :=
  match n with
  | 0 => Ok di
  | S n' =>
      do aval <- nth_res a (i + k);
      do bval <- nth_res b (j + k);
      do cd <- subdiff aval bval;
      patch_items subdiff a b i j (S k) n' (b_patch di (i + k) cd)
  end.

(* the consumed-item loop of generic.diff_lists; [subdiff] already includes the atomic test *)
Fixpoint diff_lists_loop (subdiff : json -> json -> res (list dentry)) (a b : list json)
                       (shallow : list dentry) (i j : nat) (di : list dentry) {struct shallow}
    : res (list dentry) :=
    match shallow with
    | [] =>
        (* n = len(a) - i; assert n >= 0; assert len(b) - j == n *)
        if Nat.ltb (length a) i then Err AssertionError else
        let n := length a - i in
        if negb (Z.eqb (Z.of_nat (length b) - Z.of_nat j) (Z.of_nat n)) then Err AssertionError else
        patch_items subdiff a b i j 0 n di
        (* the final asserts i == len(a), j == len(b) hold by the two above *)
    | e :: rest =>
        let index := knat e in
        let n := index - i in
        do sk <- count_consumed e;
        let '(askip, bskip) := sk in
        do di <- patch_items subdiff a b i j 0 n di;
        diff_lists_loop subdiff a b rest (i + n + askip) (j + n + bskip) (seq_append di e)
    end.

(* snakes.compute_diff_from_snakes; [snakes] already carries the (i1, j1, 0) sentinel *)
Fixpoint diff_from_snakes (diffit : json -> json -> res (list dentry)) (a b : list json)
                        (snakes : list snake) (i0 j0 : nat) (di : list dentry) {struct snakes}
    : res (list dentry) :=
    match snakes with
    | [] => Ok di
    | (i, j, n) :: rest =>
        let di := if Nat.ltb i0 i then b_removerange di i0 (i - i0) else di in
        let di := if Nat.ltb j0 j then b_addrange di i0 (VList (slice b j0 j)) else di in
        do di <- patch_items diffit a b i j 0 n di;
        diff_from_snakes diffit a b rest (i + n) (j + n) di
    end.

(* ---------- the differ ---------- *)
Definition key_str (e : dentry) : pystr := match dkey e with KS s => s | KI _ => [] end.

(* MappingDiffBuilder: entries keyed by e.key, duplicate -> AssertionError, validated() sorts by key *)
Fixpoint map_insert (e : dentry) (l : list dentry) : res (list dentry) :=
  match l with
  | [] => Ok [e]
  | x :: xs =>
      match str_cmp (key_str e) (key_str x) with
      | Lt => Ok (e :: l)
      | Eq => Err AssertionError
      | Gt => do r <- map_insert e xs; Ok (x :: r)
      end
  end.

Definition starts_with (p s : pystr) : bool := str_eqb (firstn (length p) s) p.

Definition lower_char (c : N) : N := if (N.leb 65 c && N.leb c 90)%bool then (c + 32)%N else c.
Definition lower (s : pystr) : pystr := map lower_char s.

Section Differ.
  Variable O : oracles.
  Variable cfg : config.

  (* walk two key-sorted objects in step *)
  Section DictWalk.
    Variable on_common : pystr -> json -> json -> res (list dentry).   (* entries for a common key *)
    Fixpoint dict_walk (fuel : nat) (a b : list (pystr * json)) : res (list dentry) :=
      match fuel with
      | 0 => Err OutOfFuel
      | S fuel' =>
        match a, b with
        | [], [] => Ok []
        | (ka, _) :: a', [] => do r <- dict_walk fuel' a' []; Ok (DRemove (KS ka) :: r)
        | [], (kb, vb) :: b' => do r <- dict_walk fuel' [] b'; Ok (DAdd (KS kb) vb :: r)
        | (ka, va) :: a', (kb, vb) :: b' =>
            match str_cmp ka kb with
            | Lt => do r <- dict_walk fuel' a' b; Ok (DRemove (KS ka) :: r)
            | Gt => do r <- dict_walk fuel' a b'; Ok (DAdd (KS kb) vb :: r)
            | Eq => do e <- on_common ka va vb; do r <- dict_walk fuel' a' b'; Ok (e ++ r)
            end
        end
      end.
  End DictWalk.

  Definition dict_diff (on_common : pystr -> json -> json -> res (list dentry))
             (a b : list (pystr * json)) : res (list dentry) :=
    dict_walk on_common (S (length a + length b)) a b.

  Fixpoint run (n : nat) (df : differ) (path : pystr) (a b : json) {struct n} : res (list dentry) :=
    match n with
    | 0 => Err OutOfFuel
    | S n' =>
      let diff := diff_ n' in
      match df with
      | DfDiff => diff path a b
      | DfIgnore => Ok []
      | DfIgnoreKeys inner keys =>
          do d <- run n' inner path a b;
          Ok (filter (fun e => match dkey e with
                               | KS k => negb (existsb (str_eqb k) keys)
                               | KI _ => true end) d)
      | DfStringLines =>
          match a, b with
          | JStr s, JStr t => if str_eqb s t then Ok [] else diff_strings_linewise n' s t
          | JArr l, JArr m =>
              (* lists of lines: equal -> [], otherwise the assert on str fails *)
              if Nat.eqb (length l) (length m) && py_eqb a b then Ok [] else Err AssertionError
          | _, _ => Err AssertionError
          end
      | DfStringsByChar =>
          match a, b with
          | JStr s, JStr t => Ok (diff_strings_by_char O s t)
          | _, _ => Err AssertionError
          end
      | DfSeqMultilevel =>
          match a, b with
          | JArr l, JArr m => diff_sequence_multilevel n' path l m
          | _, _ => Err TypeError
          end
      | DfSingleOutputs =>
          if negb (str_eqb path p_outputs_item) then Err AssertionError else
          match a, b with
          | JObj ka, JObj kb =>
              match obj_get s_output_type ka, obj_get s_output_type kb with
              | Some ta, Some tb =>
                  if negb (py_eqb ta tb) then Err AssertionError else
                  if py_eqb ta (JStr s_execute_result) || py_eqb ta (JStr s_display_data) then
                    match obj_get s_data ka, obj_get s_data kb with
                    | Some da, Some db =>
                        let a_conj := filter (fun p => negb (str_eqb (fst p) s_data)) ka in
                        let b_conj := filter (fun p => negb (str_eqb (fst p) s_data)) kb in
                        (* diff(a_conj, b_conj): default configuration, path "" *)
                        do dd_conj <- (if c_conj_cfg cfg then diff path (JObj a_conj) (JObj b_conj)
                                       else diff_default n' (JObj a_conj) (JObj b_conj));
                        do dd <- diff_mime_bundle n' da db;
                        match dd with
                        | [] => Ok dd_conj
                        | _ => map_insert (DPatch (KS s_data) dd) dd_conj
                        end
                    | _, _ => Err KeyError
                    end
                  else diff [] a b               (* diff(a, b, config=config): path defaults to "" *)
              | _, _ => Err KeyError              (* AttributeError in Python *)
              end
          | _, _ => Err KeyError
          end
      | DfAttachments =>
          if negb (str_eqb path p_attachments) then Err AssertionError else
          match a, b with
          | JObj ka, JObj kb =>
              dict_diff (fun k va vb =>
                           do dd <- diff_mime_bundle n' va vb;
                           match dd with [] => Ok [] | _ => Ok [DPatch (KS k) dd] end) ka kb
          | _, _ => Err TypeError
          end
      end
    end

  (* generic.diff with an explicit config *)
  with diff_ (n : nat) (path : pystr) (a b : json) {struct n} : res (list dentry) :=
    match n with
    | 0 => Err OutOfFuel
    | S n' =>
      match a, b with
      | JArr l, JArr m => diff_lists n' path l m
      | JObj ka, JObj kb => diff_dicts n' path ka kb
      | JStr s, JStr t => diff_strings_linewise n' s t
      | _, _ => Err RuntimeError
      end
    end

  (* generic.diff(a, b) with config=None: the default tables *)
  with diff_default (n : nat) (a b : json) {struct n} : res (list dentry) :=
    match n with
    | 0 => Err OutOfFuel
    | S n' =>
      match a, b with
      | JArr l, JArr m => diff_lists_default n' l m
      | JObj ka, JObj kb =>
          dict_diff (fun k va vb =>
                       if kind_eqb (kind_of va) (kind_of vb) && is_container va then
                         do dd <- diff_default n' va vb;
                         match dd with [] => Ok [] | _ => Ok [DPatch (KS k) dd] end
                       else if value_eqb (c_dict_strict cfg) va vb then Ok [] else Ok [DReplace (KS k) vb]) ka kb
      | JStr s, JStr t => diff_strings_linewise n' s t
      | _, _ => Err RuntimeError
      end
    end

  (* generic.diff_lists with the default config (single predicate operator.__eq__, differ diff) *)
  with diff_lists_default (n : nat) (a b : list json) {struct n} : res (list dentry) :=
    match n with
    | 0 => Err OutOfFuel
    | S n' =>
      do shallow <- diff_sequence_bruteforce (eval_pred O (hd PEq (c_generic_pred cfg))) a b;
      diff_lists_loop (fun x y => if is_container x then diff_default n' x y else Ok [])
                      a b shallow 0 0 []
    end

  with diff_lists (n : nat) (path : pystr) (a b : list json) {struct n} : res (list dentry) :=
    match n with
    | 0 => Err OutOfFuel
    | S n' =>
      let compares := get_predicates cfg (path_or_root path) in
      match compares with
      | [] => Err IndexError
      | [c0] =>
          do shallow <- diff_sequence_bruteforce (eval_pred O c0) a b;
          let sp := subpath path star in
          let df := get_differ cfg sp in
          diff_lists_loop (fun x y => if is_atomic cfg x sp then Ok [] else run n' df sp x y)
                          a b shallow 0 0 []
      | _ => diff_sequence_multilevel n' path a b
      end
    end

  with diff_sequence_multilevel (n : nat) (path : pystr) (a b : list json) {struct n}
    : res (list dentry) :=
    match n with
    | 0 => Err OutOfFuel
    | S n' =>
      let compares := get_predicates cfg (path_or_root path) in
      match compares with
      | [] => Err IndexError
      | _ =>
        do snakes <- snakes_multilevel (map (eval_pred O) compares) a b
                        (length compares - 1) (0, 0, length a, length b);
        let sp := subpath path star in
        let df := get_differ cfg sp in
        diff_from_snakes (fun x y => run n' df sp x y) a b
                         (snakes ++ [(length a, length b, 0)]) 0 0 []
      end
    end

  (* sequences.diff_strings_linewise: its own config: predicates [approximate, ==], differs by char *)
  with diff_strings_linewise (n : nat) (s t : pystr) {struct n} : res (list dentry) :=
    match n with
    | 0 => Err OutOfFuel
    | S n' =>
      if str_eqb s t then Ok [] else
      let la := map JStr (splitlines s) in
      let lb := map JStr (splitlines t) in
      do snakes <- snakes_multilevel [eval_pred O PSim; eval_pred O PEq] la lb 1
                      (0, 0, length la, length lb);
      diff_from_snakes (fun x y => match x, y with
                                   | JStr u, JStr v => Ok (diff_strings_by_char O u v)
                                   | _, _ => Err AssertionError end)
                       la lb (snakes ++ [(length la, length lb, 0)]) 0 0 []
    end

  with diff_dicts (n : nat) (path : pystr) (a b : list (pystr * json)) {struct n}
    : res (list dentry) :=
    match n with
    | 0 => Err OutOfFuel
    | S n' =>
      dict_diff (fun k va vb =>
                   let sp := subpath path k in
                   if kind_eqb (kind_of va) (kind_of vb) && negb (is_atomic cfg va sp) then
                     do dd <- run n' (get_differ cfg sp) sp va vb;
                     match dd with [] => Ok [] | _ => Ok [DPatch (KS k) dd] end
                   else if existsb (str_eqb (path_or_root path)) (c_pred_keys cfg)
                        then Err RuntimeError
                   else if value_eqb (c_dict_strict cfg) va vb then Ok [] else Ok [DReplace (KS k) vb]) a b
    end

  (* notebooks.diff_mime_bundle / add_mime_diff (always called without a config) *)
  with diff_mime_bundle (n : nat) (a b : json) {struct n} : res (list dentry) :=
    match n with
    | 0 => Err OutOfFuel
    | S n' =>
      match a, b with
      | JObj ka, JObj kb =>
          dict_diff (fun k va vb =>
                       let mimetype := lower k in
                       match va, vb with
                       | JStr s, JStr t => if str_eqb s t then Ok [] else
                           if existsb (fun tm => starts_with tm mimetype) (c_split_mimes cfg) then
                             do dd <- diff_default n' va vb;
                             match dd with [] => Ok [] | _ => Ok [DPatch (KS k) dd] end
                           else Ok [DReplace (KS k) vb]
                       | _, _ =>
                           if existsb (fun tm => starts_with tm mimetype) (c_split_mimes cfg)
                              && (negb (c_mime_guard cfg) || (kind_eqb (kind_of va) (kind_of vb) && is_container va)) then
                             do dd <- diff_default n' va vb;
                             match dd with [] => Ok [] | _ => Ok [DPatch (KS k) dd] end
                           else if value_eqb (c_mime_strict cfg) va vb then Ok [] else Ok [DReplace (KS k) vb]
                       end) ka kb
      | _, _ => Err TypeError
      end
    end.
End Differ.
