(* Well-formedness of a diff relative to its base document (property C11), and the documented
   meaning of the format written position-wise, with no cursor (the independent reading, C02). *)
From Coq Require Import List NArith ZArith Bool Lia.
From NB Require Import Base.Res Base.Json Base.PyStr Diff.DiffFormat Diff.Patch.
Import ListNotations.

(* ---------- sequences: one skeleton for lists, lines of a string, characters of a line ---------- *)
Section SeqWf.
  Variable n : nat.                                    (* length of the base sequence *)
  Variable vl_ok : vlist -> bool.                      (* admissible valuelist shape *)
  Variable patch_ok : nat -> list dentry -> bool.      (* admissible nested patch at an index *)

  (* [c] = least admissible key; [add_ok] = an addrange at key c is still allowed *)
  Fixpoint swf (c : nat) (add_ok : bool) (d : list dentry) : bool :=
    match d with
    | [] => true
    | DAddRange (KI k) vs :: r =>
        vl_ok vs && negb (Nat.eqb (vlen vs) 0) && Nat.leb k n
        && (Nat.ltb c k || (Nat.eqb c k && add_ok)) && swf k false r
    | DRemoveRange (KI k) len :: r =>
        negb (Nat.eqb len 0) && Nat.leb c k && Nat.leb (k + len) n && swf (k + len) true r
    | DPatch (KI k) dd :: r =>
        Nat.leb c k && Nat.ltb k n && patch_ok k dd && swf (k + 1) true r
    | _ => false
    end.
End SeqWf.

Definition all_strs (l : list json) : bool :=
  forallb (fun x => match x with JStr _ => true | _ => false end) l.

Definition vl_is_list (v : vlist) : bool := match v with VList _ => true | VStr _ => false end.
Definition vl_is_str (v : vlist) : bool := match v with VStr _ => true | VList _ => false end.
Definition vl_is_lines (v : vlist) : bool := match v with VList l => all_strs l | VStr _ => false end.

(* character-level diffs inside a line: addrange(str) / removerange only *)
Definition wf_chars (n : nat) (d : list dentry) : bool :=
  swf n vl_is_str (fun _ _ => false) 0 true d.

(* line-level diff of a string with the given lines *)
Definition wf_lines (lines : list pystr) (d : list dentry) : bool :=
  swf (length lines) vl_is_lines
      (fun k dd => match nth_error lines k with
                   | Some line => negb (Nat.eqb (length dd) 0) && wf_chars (length line) dd
                   | None => false end) 0 true d.

Fixpoint wf_diff (fuel : nat) (a : json) (d : list dentry) {struct fuel} : bool :=
  match fuel with
  | 0 => false
  | S fuel' =>
    match a with
    | JArr items =>
        swf (length items) vl_is_list
            (fun k dd => match nth_error items k with
                         | Some x => is_container x && negb (Nat.eqb (length dd) 0) && wf_diff fuel' x dd
                         | None => false end) 0 true d
    | JObj kv =>
        (fix wf_map (prev : option pystr) (d : list dentry) {struct d} : bool :=
           match d with
           | [] => true
           | e :: r =>
               match dkey e with
               | KI _ => false
               | KS k =>
                   match prev with None => true | Some p => str_ltb p k end &&
                   match e with
                   | DAdd _ _ => negb (obj_has k kv)
                   | DRemove _ => obj_has k kv
                   | DReplace _ _ => obj_has k kv
                   | DPatch _ dd =>
                       match obj_get k kv with
                       | Some x => is_container x && negb (Nat.eqb (length dd) 0) && wf_diff fuel' x dd
                       | None => false
                       end
                   | _ => false
                   end && wf_map (Some k) r
               end
           end) None d
    | JStr s => wf_lines (splitlines s) d
    | _ => false
    end
  end.

(* ---------- position-wise meaning ---------- *)
Definition inserts_at (p : nat) (d : list dentry) : list json :=
  flat_map (fun e => match e with
                     | DAddRange (KI k) vs => if Nat.eqb k p then vitems vs else []
                     | _ => [] end) d.

Definition removed_at (p : nat) (d : list dentry) : bool :=
  existsb (fun e => match e with
                    | DRemoveRange (KI k) len => Nat.leb k p && Nat.ltb p (k + len)
                    | _ => false end) d.

Fixpoint patch_at (p : nat) (d : list dentry) : option (list dentry) :=
  match d with
  | [] => None
  | DPatch (KI k) dd :: r => if Nat.eqb k p then Some dd else patch_at p r
  | _ :: r => patch_at p r
  end.

(* generic position-wise application; [sub] patches one item *)
Fixpoint spec_seq (sub : json -> list dentry -> json) (d : list dentry) (items : list json) (p : nat)
  : list json :=
  match items with
  | [] => inserts_at p d
  | x :: rest =>
      inserts_at p d
      ++ (if removed_at p d then []
          else match patch_at p d with Some dd => [sub x dd] | None => [x] end)
      ++ spec_seq sub d rest (S p)
  end.

Definition concat_strs (l : list json) : pystr :=
  flat_map (fun x => match x with JStr s => s | _ => [] end) l.

Definition spec_line (x : json) (dd : list dentry) : json :=
  match x with
  | JStr line => JStr (concat_strs (spec_seq (fun c _ => c) dd (chars line) 0))
  | _ => x
  end.

Definition spec_str (s : pystr) (d : list dentry) : pystr :=
  concat_strs (spec_seq spec_line d (map JStr (splitlines s)) 0).

Fixpoint find_entry (k : pystr) (d : list dentry) : option dentry :=
  match d with
  | [] => None
  | e :: r => match dkey e with
              | KS k' => if str_eqb k k' then Some e else find_entry k r
              | KI _ => find_entry k r end
  end.

Fixpoint spec_patch (fuel : nat) (a : json) (d : list dentry) {struct fuel} : json :=
  match fuel with
  | 0 => a
  | S fuel' =>
    match a with
    | JArr items => JArr (spec_seq (spec_patch fuel') d items 0)
    | JStr s => JStr (spec_str s d)
    | JObj kv =>
        (* kept/changed entries of the base, then the added ones, each put at its sorted place *)
        let kept := flat_map (fun p =>
                      match find_entry (fst p) d with
                      | None => [p]
                      | Some (DRemove _) => []
                      | Some (DReplace _ v) => [(fst p, v)]
                      | Some (DPatch _ dd) => [(fst p, spec_patch fuel' (snd p) dd)]
                      | Some _ => [p]
                      end) kv in
        JObj (fold_left (fun acc e => match e with
                                      | DAdd (KS k) v => obj_set k v acc
                                      | _ => acc end) d kept)
    | _ => a
    end
  end.

Definition check_diff (fuel : nat) (a b : json) (d : list dentry) : bool :=
  wf_diff fuel a d && json_eqb (spec_patch fuel a d) b.
