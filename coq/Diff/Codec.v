(* JSON form of diffs: what json.dump writes for a list of DiffEntry dicts, and
   diff_utils.to_diffentry_dicts / validate_diff reading it back. *)
From Coq Require Import List NArith ZArith Bool Lia String Ascii.
From NB Require Import Base.Res Base.Json Diff.DiffFormat.
Import ListNotations.

Fixpoint of_ascii (s : string) : pystr :=
  match s with
  | EmptyString => []
  | String c rest => N_of_ascii c :: of_ascii rest
  end.

Definition k_op := of_ascii "op".
Definition k_key := of_ascii "key".
Definition k_value := of_ascii "value".
Definition k_valuelist := of_ascii "valuelist".
Definition k_length := of_ascii "length".
Definition k_diff := of_ascii "diff".
Definition n_add := of_ascii "add".
Definition n_remove := of_ascii "remove".
Definition n_replace := of_ascii "replace".
Definition n_addrange := of_ascii "addrange".
Definition n_removerange := of_ascii "removerange".
Definition n_patch := of_ascii "patch".

Definition enc_key (k : key) : json :=
  match k with KI i => JInt (Z.of_nat i) | KS s => JStr s end.
Definition enc_vlist (v : vlist) : json :=
  match v with VList l => JArr l | VStr s => JStr s end.

(* object literal with keys given in sorted order: "diff" < "key" < "length" < "op" < "value" < "valuelist" *)
Fixpoint enc_entry (e : dentry) : json :=
  match e with
  | DAdd k v => JObj [(k_key, enc_key k); (k_op, JStr n_add); (k_value, v)]
  | DRemove k => JObj [(k_key, enc_key k); (k_op, JStr n_remove)]
  | DReplace k v => JObj [(k_key, enc_key k); (k_op, JStr n_replace); (k_value, v)]
  | DAddRange k vs => JObj [(k_key, enc_key k); (k_op, JStr n_addrange); (k_valuelist, enc_vlist vs)]
  | DRemoveRange k len => JObj [(k_key, enc_key k); (k_length, JInt (Z.of_nat len)); (k_op, JStr n_removerange)]
  | DPatch k d => JObj [(k_diff, JArr ((fix go (d : list dentry) : list json :=
                                           match d with [] => [] | x :: xs => enc_entry x :: go xs end) d));
                        (k_key, enc_key k); (k_op, JStr n_patch)]
  end.
Definition enc_diff (d : list dentry) : json := JArr (map enc_entry d).

Definition dec_key (j : json) : option key :=
  match j with
  | JInt z => if Z.leb 0 z then Some (KI (Z.to_nat z)) else None
  | JStr s => Some (KS s)
  | _ => None
  end.
Definition dec_vlist (j : json) : option vlist :=
  match j with JArr l => Some (VList l) | JStr s => Some (VStr s) | _ => None end.

(* to_diffentry_dicts + deep validate_diff; fuel bounds the nesting *)
Fixpoint dec_entry (n : nat) (j : json) : option dentry :=
  match n with
  | 0 => None
  | S n' =>
    match j with
    | JObj kv =>
        match obj_get k_op kv, obj_get k_key kv with
        | Some (JStr op), Some kj =>
            match dec_key kj with
            | None => None
            | Some k =>
                if str_eqb op n_add then
                  match obj_get k_value kv with Some v => Some (DAdd k v) | None => None end
                else if str_eqb op n_remove then Some (DRemove k)
                else if str_eqb op n_replace then
                  match obj_get k_value kv with Some v => Some (DReplace k v) | None => None end
                else if str_eqb op n_addrange then
                  match obj_get k_valuelist kv with
                  | Some vj => match dec_vlist vj with Some vs => Some (DAddRange k vs) | None => None end
                  | None => None end
                else if str_eqb op n_removerange then
                  match obj_get k_length kv with
                  | Some (JInt z) => if Z.leb 0 z then Some (DRemoveRange k (Z.to_nat z)) else None
                  | _ => None end
                else if str_eqb op n_patch then
                  match obj_get k_diff kv with
                  | Some (JArr l) =>
                      match (fix go (l : list json) : option (list dentry) :=
                               match l with
                               | [] => Some []
                               | x :: xs => match dec_entry n' x, go xs with
                                            | Some e, Some es => Some (e :: es)
                                            | _, _ => None end
                               end) l with
                      | Some d => Some (DPatch k d)
                      | None => None
                      end
                  | _ => None end
                else None
            end
        | _, _ => None
        end
    | _ => None
    end
  end.

Definition dec_diff (n : nat) (j : json) : option (list dentry) :=
  match j with
  | JArr l =>
      (fix go (l : list json) : option (list dentry) :=
         match l with
         | [] => Some []
         | x :: xs => match dec_entry n x, go xs with
                      | Some e, Some es => Some (e :: es)
                      | _, _ => None end
         end) l
  | _ => None
  end.
