(* nbdime/patching.py and diff_utils.flatten_list_of_string_diff, function by function. *)
From Coq Require Import List NArith ZArith Bool Lia.
From NB Require Import Base.Res Base.Json Base.PyStr Diff.DiffFormat.
Import ListNotations.

Definition slice {A} (l : list A) (a b : nat) : list A := firstn (b - a) (skipn a l).

Definition nth_res {A} (l : list A) (i : nat) : res A :=
  match nth_error l i with Some x => Ok x | None => Err IndexError end.

(* ---------- patch_list ---------- *)
Section PatchList.
  Variable rec : json -> diff -> res json.     (* patch, one level down *)

  Fixpoint patch_list_go (obj : list json) (take : nat) (d : diff) (acc : list json)
    : res (list json) :=
    match d with
    | [] => Ok (acc ++ skipn take obj)
    | e :: d' =>
        match dkey e with
        | KS _ => Err AssertionError               (* assert isinstance(index, int) *)
        | KI index =>
            let acc := acc ++ slice obj take index in
            match e with
            | DAddRange _ vs =>
                patch_list_go obj (Nat.max take index) d' (acc ++ vitems vs)
            | DRemoveRange _ len =>
                patch_list_go obj (Nat.max take (index + len)) d' acc
            | DPatch _ dd =>
                do x <- nth_res obj index;
                do p <- rec x dd;
                patch_list_go obj (Nat.max take (index + 1)) d' (acc ++ [p])
            | DAdd _ v =>
                patch_list_go obj (Nat.max take index) d' (acc ++ [v])
            | DRemove _ =>
                patch_list_go obj (Nat.max take (index + 1)) d' acc
            | DReplace _ v =>
                patch_list_go obj (Nat.max take (index + 1)) d' (acc ++ [v])
            end
        end
    end.

  Definition patch_list (obj : list json) (d : diff) : res (list json) :=
    patch_list_go obj 0 d [].
End PatchList.

(* ---------- flatten_list_of_string_diff ---------- *)
Fixpoint accum (acc : nat) (l : list nat) : list nat :=
  match l with [] => [] | x :: xs => (acc + x) :: accum (acc + x) xs end.

Definition line_to_char (lines : list pystr) : list nat := 0 :: accum 0 (map (@length N) lines).

Definition set_key (e : dentry) (k : key) : dentry :=
  match e with
  | DAdd _ v => DAdd k v
  | DRemove _ => DRemove k
  | DReplace _ v => DReplace k v
  | DAddRange _ vs => DAddRange k vs
  | DRemoveRange _ len => DRemoveRange k len
  | DPatch _ d => DPatch k d
  end.

Definition offset_entry (off : nat) (p : dentry) : res dentry :=
  match dkey p with
  | KI i => Ok (set_key p (KI (i + off)))
  | KS _ => Err TypeError                         (* str += int *)
  end.

(* "".join(valuelist) *)
Fixpoint join_strs (l : list json) : res pystr :=
  match l with
  | [] => Ok []
  | JStr s :: rest => do r <- join_strs rest; Ok (s ++ r)
  | _ :: _ => Err TypeError
  end.

Definition join_vlist (v : vlist) : res pystr :=
  match v with VStr s => Ok s | VList l => join_strs l end.

Definition flatten_entry (ltc : list nat) (e : dentry) : res (list dentry) :=
  match dkey e with
  | KS _ => Err TypeError                         (* list indices must be integers *)
  | KI k =>
      do off <- nth_res ltc k;
      match e with
      | DPatch _ dd => mapM (offset_entry off) dd
      | DAddRange _ vs => do s <- join_vlist vs; Ok [DAddRange (KI off) (VStr s)]
      | DRemoveRange _ len =>
          do off2 <- nth_res ltc (k + len);
          Ok [DRemoveRange (KI off) (off2 - off)]
      | other => Ok [set_key other (KI off)]
      end
  end.

Fixpoint flatten_entries (ltc : list nat) (d : diff) : res (list dentry) :=
  match d with
  | [] => Ok []
  | e :: d' => do x <- flatten_entry ltc e; do xs <- flatten_entries ltc d'; Ok (x ++ xs)
  end.

Inductive opk := OAdd | ORemove | OReplace | OAddRange | ORemoveRange | OPatch.
Definition op_of (e : dentry) : opk :=
  match e with
  | DAdd _ _ => OAdd | DRemove _ => ORemove | DReplace _ _ => OReplace
  | DAddRange _ _ => OAddRange | DRemoveRange _ _ => ORemoveRange | DPatch _ _ => OPatch
  end.
Definition opk_eqb (a b : opk) : bool :=
  match a, b with
  | OAdd, OAdd | ORemove, ORemove | OReplace, OReplace | OAddRange, OAddRange
  | ORemoveRange, ORemoveRange | OPatch, OPatch => true
  | _, _ => false
  end.
Definition is_addop (e : dentry) : bool :=
  match e with DAdd _ _ | DAddRange _ _ => true | _ => false end.

(* _overlaps(existing[-1], new) *)
Definition overlaps (existing new : dentry) : res bool :=
  if opk_eqb (op_of existing) (op_of new) then
    if Nat.eqb (knat existing) (knat new) then Ok true
    else match existing with
         | DRemoveRange _ len =>
             if Nat.leb (knat new) (knat existing + len)
             then (if Nat.eqb (knat existing + len) (knat new) then Ok true else Err RuntimeError)
             else Ok false
         | _ => Ok false
         end
  else if is_addop existing && is_addop new && Nat.eqb (knat existing) (knat new) then Ok true
  else Ok false.

Definition vappend (a b : vlist) : res vlist :=
  match a, b with
  | VStr s, VStr t => Ok (VStr (s ++ t))
  | VList l, VList m => Ok (VList (l ++ m))
  | VList l, VStr t => Ok (VList (l ++ map char_json t))
  | VStr _, VList _ => Err TypeError
  end.

(* _combine_ops(existing, new) *)
Definition combine_ops (existing new : dentry) : res dentry :=
  if is_addop new then
    do d <- match existing with
            | DAdd k v => Ok (k, VList [v])
            | DAddRange k vs => Ok (k, vs)
            | _ => Err TypeError
            end;
    let '(k, vs) := d in
    match new with
    | DAddRange _ nvs => do r <- vappend vs nvs; Ok (DAddRange k r)
    | DAdd _ v =>
        match vs with
        | VStr s => match v with JStr t => Ok (DAddRange k (VStr (s ++ t))) | _ => Err TypeError end
        | VList l => Ok (DAddRange k (VList (l ++ [v])))
        end
    | _ => Err TypeError
    end
  else match new, existing with
       | DRemoveRange _ nlen, DRemoveRange k len => Ok (DRemoveRange k (len + nlen))
       | DRemoveRange _ _, _ => Err AssertionError
       | _, _ => Err TypeError        (* Python returns None; the next access fails *)
       end.

(* the "combined" loop; [acc] is kept reversed *)
Fixpoint combine_go (racc : list dentry) (d : list dentry) : res (list dentry) :=
  match d with
  | [] => Ok (rev racc)
  | e :: d' =>
      match racc with
      | [] => combine_go [e] d'
      | last :: rest =>
          do o <- overlaps last e;
          if o then (do c <- combine_ops last e; combine_go (c :: rest) d')
          else combine_go (e :: racc) d'
      end
  end.

(* list.sort(key=lambda x: x.key): stable *)
Fixpoint insert_by_key (e : dentry) (l : list dentry) : list dentry :=
  match l with
  | [] => [e]
  | x :: xs => if Nat.ltb (knat e) (knat x) then e :: l else x :: insert_by_key e xs
  end.
Definition sort_by_key (l : list dentry) : list dentry :=
  fold_left (fun acc e => insert_by_key e acc) l [].

Definition flatten (lines : list pystr) (d : diff) : res diff :=
  do ch <- flatten_entries (line_to_char lines) d;
  do comb <- combine_go [] ch;
  Ok (sort_by_key comb).

(* ---------- patch_dict ---------- *)
Section PatchDict.
  Variable rec : json -> diff -> res json.

  Fixpoint patch_dict_go (obj : list (pystr * json)) (d : diff)
           (newobj : list (pystr * json)) (deleted : list pystr)
    : res (list (pystr * json) * list pystr) :=
    match d with
    | [] => Ok (newobj, deleted)
    | e :: d' =>
        match dkey e with
        | KI _ => Err AssertionError                 (* assert isinstance(key, str) *)
        | KS k =>
            if obj_has k newobj then Err AssertionError else
            match e with
            | DAdd _ v =>
                if obj_has k obj then Err AssertionError
                else patch_dict_go obj d' (obj_set k v newobj) deleted
            | DRemove _ => patch_dict_go obj d' newobj (k :: deleted)
            | DReplace _ v =>
                if existsb (str_eqb k) deleted then Err AssertionError
                else patch_dict_go obj d' (obj_set k v newobj) deleted
            | DPatch _ dd =>
                if existsb (str_eqb k) deleted then Err AssertionError else
                match obj_get k obj with
                | None => Err KeyError
                | Some x => do p <- rec x dd; patch_dict_go obj d' (obj_set k p newobj) deleted
                end
            | _ => Err NBDiffFormatError
            end
        end
    end.

  Definition patch_dict (obj : list (pystr * json)) (d : diff) : res (list (pystr * json)) :=
    do r <- patch_dict_go obj d [] [];
    let '(newobj, deleted) := r in
    Ok (fold_left (fun acc p =>
                     if existsb (str_eqb (fst p)) deleted || obj_has (fst p) acc then acc
                     else obj_set (fst p) (snd p) acc) obj newobj).
End PatchDict.

(* ---------- patch ---------- *)
Definition chars (s : pystr) : list json := map char_json s.

Fixpoint patch (n : nat) (obj : json) (d : diff) : res json :=
  match n with
  | 0 => Err OutOfFuel
  | S n' =>
      match obj with
      | JObj kv => do r <- patch_dict (patch n') kv d; Ok (JObj r)
      | JArr l => do r <- patch_list (patch n') l d; Ok (JArr r)
      | JStr s =>
          do fd <- flatten (splitlines s) d;
          do r <- patch_list (patch n') (chars s) fd;
          do j <- join_strs r;
          Ok (JStr j)
      | _ => Err ValueError
      end
  end.
