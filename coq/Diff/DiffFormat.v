(* nbdime/diff_format.py: diff entries and the two builders. *)
From Coq Require Import List NArith ZArith Bool Lia.
From NB Require Import Base.Res Base.Json.
Import ListNotations.

(* A valuelist is a Python list, or a Python str when the diff is a character diff. *)
Inductive vlist := VList (l : list json) | VStr (s : pystr).

Inductive key := KI (i : nat) | KS (s : pystr).

Inductive dentry :=
| DAdd (k : key) (v : json)
| DRemove (k : key)
| DReplace (k : key) (v : json)
| DAddRange (k : key) (vs : vlist)
| DRemoveRange (k : key) (len : nat)
| DPatch (k : key) (d : list dentry).

Definition diff := list dentry.

Definition dkey (e : dentry) : key :=
  match e with
  | DAdd k _ | DRemove k | DReplace k _ | DAddRange k _ | DRemoveRange k _ | DPatch k _ => k
  end.

Definition char_json (c : N) : json := JStr [c].

Definition vitems (v : vlist) : list json :=
  match v with VList l => l | VStr s => map char_json s end.

Definition vlen (v : vlist) : nat :=
  match v with VList l => length l | VStr s => length s end.

Lemma vitems_length v : length (vitems v) = vlen v.
Proof. destruct v; simpl; [reflexivity | apply map_length]. Qed.

Definition key_nat (e : dentry) : option nat :=
  match dkey e with KI i => Some i | KS _ => None end.

Definition is_addrange (e : dentry) : bool :=
  match e with DAddRange _ _ => true | _ => false end.

(* Python compares e.key values; in a sequence diff they are ints. *)
Definition knat (e : dentry) : nat := match dkey e with KI i => i | KS _ => 0 end.

(* SequenceDiffBuilder.append: insert at sorted position; an addrange goes before entries with
   key >= its key, anything else before entries with key > its key.  The Python loop scans from the
   end of the list; [seq_append_rev] works on the reversed list. *)
Fixpoint seq_append_rev (rev_diff : list dentry) (e : dentry) : list dentry :=
  match rev_diff with
  | [] => [e]
  | x :: rest =>
      if (if is_addrange e then Nat.leb (knat e) (knat x) else Nat.ltb (knat e) (knat x))
      then x :: seq_append_rev rest e
      else e :: rev_diff
  end.

Definition seq_append (d : list dentry) (e : dentry) : list dentry :=
  rev (seq_append_rev (rev d) e).

(* builder convenience methods: ignore empty arguments *)
Definition b_patch (d : list dentry) (k : nat) (sub : list dentry) : list dentry :=
  match sub with [] => d | _ => seq_append d (DPatch (KI k) sub) end.
Definition b_addrange (d : list dentry) (k : nat) (vs : vlist) : list dentry :=
  if Nat.eqb (vlen vs) 0 then d else seq_append d (DAddRange (KI k) vs).
Definition b_removerange (d : list dentry) (k : nat) (len : nat) : list dentry :=
  if Nat.eqb len 0 then d else seq_append d (DRemoveRange (KI k) len).

(* count_consumed_symbols *)
Definition count_consumed (e : dentry) : res (nat * nat) :=
  match e with
  | DAddRange _ vs => Ok (0, vlen vs)
  | DRemoveRange _ len => Ok (len, 0)
  | DPatch _ _ => Ok (1, 1)
  | _ => Err NBDiffFormatError
  end.

(* depth of a diff, used as fuel bound *)
Fixpoint ddepth_e (e : dentry) : nat :=
  match e with
  | DPatch _ d => S ((fix go (d : list dentry) : nat :=
                        match d with [] => 0 | x :: xs => Nat.max (ddepth_e x) (go xs) end) d)
  | _ => 0
  end.
Definition ddepth (d : list dentry) : nat :=
  fold_right (fun e acc => Nat.max (ddepth_e e) acc) 0 d.
