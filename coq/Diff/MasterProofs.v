(* generic.diff with the default tables: diff then patch is the identity on the target (C02), for
   every similarity heuristic.  Strings enter through the hypothesis [Hstr], discharged in
   StringProofs.v. *)
From Coq Require Import List NArith ZArith Bool Lia Wf_nat.
From NB Require Import Base.Res Base.Json Base.PyStr Diff.DiffFormat Diff.Patch Diff.Lcs Diff.GenericDiff
     Diff.Wf Diff.PatchProofs Diff.SeqProofs Diff.LoopProofs Diff.LcsProofs Diff.SnakesProofs Diff.DictProofs
     Diff.WfProofs Diff.DictWf.
Import ListNotations.

(* ---------- small facts ---------- *)
Lemma fold_max_ge (l : list json) x : In x l -> depth x <= fold_right (fun y acc => Nat.max (depth y) acc) 0 l.
Proof. induction l as [|y l IH]; intros H; [destruct H|]. destruct H as [->|H]; simpl; [lia | specialize (IH H); lia]. Qed.

Lemma depth_in_arr l x : In x l -> depth x < depth (JArr l).
Proof. intros H. cbn [depth]. pose proof (fold_max_ge l x H). lia. Qed.

Lemma depth_in_obj kv k v : obj_get k kv = Some v -> depth v < depth (JObj kv).
Proof.
  cbn [depth]. induction kv as [|[k' v'] kv IH]; cbn [obj_get fold_right snd]; [discriminate|].
  destruct (str_eqb k k'); [intros H; inversion H; subst; lia | intros H; specialize (IH H); lia].
Qed.

Lemma wfj_in_arr l x : wfj (JArr l) = true -> In x l -> wfj x = true.
Proof. cbn [wfj]. rewrite forallb_forall. auto. Qed.

Lemma wfj_in_obj kv k v : wfj (JObj kv) = true -> obj_get k kv = Some v -> wfj v = true.
Proof.
  cbn [wfj]. rewrite andb_true_iff, forallb_forall. intros [_ H] Hg.
  induction kv as [|[k' v'] kv IH]; cbn [obj_get] in Hg; [discriminate|].
  destruct (str_eqb k k'); [inversion Hg; subst; apply (H (k', v)); left; reflexivity|].
  apply IH; [|exact Hg]. intros p Hp. apply H. right. exact Hp.
Qed.

Lemma wfj_obj_sorted kv : wfj (JObj kv) = true -> keys_sorted kv = true.
Proof. cbn [wfj]. rewrite andb_true_iff. tauto. Qed.

Lemma nth_error_In' {T} (l : list T) i x : nth_error l i = Some x -> In x l.
Proof. apply nth_error_In. Qed.

Lemma join_chars s : join_strs (chars s) = Ok s.
Proof.
  unfold chars. induction s as [|c s IH]; [reflexivity|]. cbn [map char_json join_strs]. rewrite IH. reflexivity.
Qed.

Lemma patch_list_nil rec l : patch_list rec l [] = Ok l.
Proof. reflexivity. Qed.

Lemma patch_dict_nil rec kv : keys_sorted kv = true -> patch_dict rec kv [] = Ok kv.
Proof.
  intros Hs. destruct (patch_dict_spec rec kv [] (Forall_nil _) (NoDup_nil _)) as (r & Hr & Sr & Hg).
  rewrite Hr. f_equal. apply sorted_ext; auto.
Qed.

Lemma patch_nil m a : 0 < m -> wfj a = true -> is_container a = true -> patch m a [] = Ok a.
Proof.
  intros Hm Hw Hc. destruct m as [|m]; [lia|]. destruct a; try discriminate; cbn [patch].
  - cbn [flatten flatten_entries bind combine_go rev sort_by_key fold_left]. rewrite patch_list_nil. cbn [bind].
    rewrite join_chars. reflexivity.
  - rewrite patch_list_nil. reflexivity.
  - rewrite patch_dict_nil by (apply wfj_obj_sorted; exact Hw). reflexivity.
Qed.

Lemma valid_idx_of_inc rec subdiff (A B : list json) (P : nat -> nat -> Prop) :
  (forall i j, P i j -> i < length A /\ j < length B /\ pairs_ok rec subdiff A B i j 1) ->
  forall ai bi x y, inc_idx P x y ai bi -> x <= length A -> y <= length B ->
  valid_idx rec subdiff A B x y ai bi.
Proof.
  intros HP. induction ai as [|i ai IH]; intros bi x y Hinc Hx Hy; inversion Hinc; subst.
  - constructor; assumption.
  - match goal with H : P i j |- _ => destruct (HP i j H) as (Hi & Hj & Hp) end.
    constructor; auto. apply IH; auto; lia.
Qed.

Section Master.
  Variable O : oracles.
  Variable cfg : config.
  Hypothesis Hstrict : c_dict_strict cfg = true.
  Hypothesis Hpred : hd PEq (c_generic_pred cfg) = PStrictEq.
  (* strings: line diff then (flattened) patch gives the target *)
  Hypothesis Hstr : forall n m s t, 0 < n -> 1 < m ->
    exists d, diff_strings_linewise O cfg n s t = Ok d /\ patch m (JStr s) d = Ok (JStr t)
              /\ wf_lines (splitlines s) d = true.

  Lemma diff_default_arr n l m0 :
    diff_default O cfg (S (S n)) (JArr l) (JArr m0) =
    do shallow <- diff_sequence_bruteforce (eval_pred O (hd PEq (c_generic_pred cfg))) l m0;
    diff_lists_loop (fun x y => if is_container x then diff_default O cfg n x y else Ok []) l m0 shallow 0 0 [].
  Proof. reflexivity. Qed.

  Lemma diff_default_obj n ka kb :
    diff_default O cfg (S n) (JObj ka) (JObj kb) =
    dict_diff (fun k va vb =>
                 if kind_eqb (kind_of va) (kind_of vb) && is_container va
                 then (do dd <- diff_default O cfg n va vb;
                       match dd with [] => Ok [] | _ => Ok [DPatch (KS k) dd] end)
                 else if value_eqb (c_dict_strict cfg) va vb then Ok [] else Ok [DReplace (KS k) vb]) ka kb.
  Proof. reflexivity. Qed.

  Lemma diff_default_str n s t :
    diff_default O cfg (S n) (JStr s) (JStr t) = diff_strings_linewise O cfg n s t.
  Proof. reflexivity. Qed.

  Definition same_container (a b : json) : Prop :=
    kind_of a = kind_of b /\ is_container a = true.

  Theorem diff_default_roundtrip : forall n a b,
    2 * depth a < n -> wfj a = true -> wfj b = true -> same_container a b ->
    exists d, diff_default O cfg n a b = Ok d /\ (forall m, depth a < m -> patch m a d = Ok b)
              /\ (forall f, depth a < f -> wf_diff f a d = true).
  Proof.
    induction n as [n IH] using lt_wf_ind. intros a b Hn Hwa Hwb [Hk Hc].
    destruct n as [|n']; [lia|].
    destruct a as [| | | |s|l|ka]; try discriminate; destruct b as [| | | |t|m0|kb]; try discriminate.
    - (* strings *)
      rewrite diff_default_str. cbn [depth] in Hn.
      destruct (Hstr n' 3 s t ltac:(lia) ltac:(lia)) as (d & Hd & _ & Hw).
      exists d. split; [exact Hd|]. split.
      + intros m Hm. cbn [depth] in Hm.
        destruct (Hstr n' m s t ltac:(lia) ltac:(lia)) as (d' & Hd' & Hp' & _). congruence.
      + intros f Hf. destruct f as [|f']; [lia|]. cbn [wf_diff]. exact Hw.
    - (* lists *)
      destruct n' as [|n'']; [cbn [depth] in Hn; lia|]. rewrite diff_default_arr. rewrite Hpred. change (eval_pred O PStrictEq) with json_eqb.
      unfold diff_sequence_bruteforce.
      destruct (lcs_indices_ok json_eqb l m0) as (ai & bi & Hl & Hinc). rewrite Hl. cbn [bind fst snd].
      unfold diff_from_lcs. rewrite (inc_idx_lengths _ _ _ _ _ Hinc), Nat.eqb_refl. cbn [bind].
      set (subdiff := fun x y : json => if is_container x then diff_default O cfg n'' x y else Ok []).
      assert (Hloop : forall m', depth (JArr l) <= m' ->
                exists d, diff_lists_loop subdiff l m0 (diff_from_lcs_go m0 (length l) (length m0) ai bi 0 0 []) 0 0 [] = Ok d
                          /\ patch_list (patch m') l d = Ok m0).
      { intros m' Hm'. apply diff_lists_from_indices_ok.
        eapply valid_idx_of_inc; [|exact Hinc|lia|lia].
        intros i j Hcmp. pose proof (cmp_at_bounds json_eqb l m0 i j Hcmp) as [Hi Hj].
        split; [exact Hi|]. split; [exact Hj|].
        intros k Hk0. replace k with 0 by lia. rewrite !Nat.add_0_r.
        unfold cmp_at in Hcmp. destruct (nth_error l i) as [x|] eqn:Ex; [|discriminate].
        destruct (nth_error m0 j) as [y|] eqn:Ey; [|discriminate].
        apply json_eqb_eq in Hcmp. subst y. exists x, x. split; [reflexivity|]. split; [reflexivity|].
        unfold pair_ok, subdiff. destruct (is_container x) eqn:Cx.
        - assert (Hin : In x l) by (eapply nth_error_In; eauto).
          pose proof (depth_in_arr l x Hin) as Hd.
          destruct (IH n'' ltac:(lia) x x) as (d & Hd1 & Hd2 & _).
          + cbn [depth] in Hn, Hd |- *. lia.
          + exact (wfj_in_arr l x Hwa Hin).
          + exact (wfj_in_arr l x Hwa Hin).
          + split; [reflexivity | exact Cx].
          + exists d. split; [exact Hd1|]. destruct d; [reflexivity|]. apply Hd2. lia.
        - exists []. split; reflexivity. }
      destruct (Hloop (depth (JArr l)) (le_n _)) as (d0 & Hd0 & _).
      exists d0. split; [exact Hd0|]. split.
      + intros m Hm. destruct m as [|m']; [lia|]. cbn [patch].
        destruct (Hloop m' ltac:(lia)) as (d' & Hd' & Hp'). rewrite Hd0 in Hd'. inversion Hd'; subst d'.
        rewrite Hp'. reflexivity.
      + intros f Hf. destruct f as [|f']; [lia|]. cbn [wf_diff].
        set (pok := fun (k : nat) (dd : list dentry) =>
                      match nth_error l k with
                      | Some x => is_container x && negb (Nat.eqb (length dd) 0) && wf_diff f' x dd
                      | None => false end).
        (* the shallow diff is an aligned script (with respect to any patch fuel) *)
        destruct (diff_from_lcs_aligned (patch (depth (JArr l))) subdiff l m0 ai bi 0 0 0 0 []) as (tail & Ht & Hal); auto.
        { eapply valid_idx_of_inc; [|exact Hinc|lia|lia].
          intros i j Hcmp. pose proof (cmp_at_bounds json_eqb l m0 i j Hcmp) as [Hi Hj].
          split; [exact Hi|]. split; [exact Hj|].
          intros k Hk0. replace k with 0 by lia. rewrite !Nat.add_0_r.
          unfold cmp_at in Hcmp. destruct (nth_error l i) as [x|] eqn:Ex; [|discriminate].
          destruct (nth_error m0 j) as [y|] eqn:Ey; [|discriminate].
          apply json_eqb_eq in Hcmp. subst y. exists x, x. split; [reflexivity|]. split; [reflexivity|].
          unfold pair_ok, subdiff. destruct (is_container x) eqn:Cx.
          - assert (Hin : In x l) by (eapply nth_error_In; eauto).
            pose proof (depth_in_arr l x Hin) as Hd.
            destruct (IH n'' ltac:(lia) x x) as (d & Hd1 & Hd2 & _).
            + cbn [depth] in Hn, Hd |- *. lia.
            + exact (wfj_in_arr l x Hwa Hin).
            + exact (wfj_in_arr l x Hwa Hin).
            + split; [reflexivity | exact Cx].
            + exists d. split; [exact Hd1|]. destruct d; [reflexivity|]. apply Hd2. lia.
          - exists []. split; reflexivity. }
        { intros k Hk0. lia. }
        { constructor. }
        rewrite Ht in Hd0. cbn [app] in Hd0. cbn in Hal.
        apply (diff_lists_loop_wf l m0 vl_is_list pok (fun _ _ => eq_refl) (patch (depth (JArr l))) subdiff tail 0 0 0 [] d0 Hal).
        * (* every non-empty sub-diff is an admissible nested patch *)
          intros i j nn k x y cd Hkk Hx Hy Hsd Hne. unfold pok. rewrite Hx.
          unfold subdiff in Hsd. destruct (is_container x) eqn:Cx; [|inversion Hsd; congruence].
          assert (Hinx : In x l) by (eapply nth_error_In; eauto).
          assert (Hiny : In y m0) by (eapply nth_error_In; eauto).
          pose proof (depth_in_arr l x Hinx) as Hdx.
          assert (Hkind : kind_of x = kind_of y).
          { destruct n'' as [|n3]; [discriminate|]. destruct x; try discriminate; destruct y; try discriminate; reflexivity. }
          destruct (IH n'' ltac:(lia) x y) as (d & Hd1 & _ & Hd3).
          -- cbn [depth] in Hn, Hdx |- *. lia.
          -- exact (wfj_in_arr l x Hwa Hinx).
          -- exact (wfj_in_arr m0 y Hwb Hiny).
          -- split; assumption.
          -- rewrite Hsd in Hd1. inversion Hd1; subst d.
             rewrite (Hd3 f' ltac:(cbn [depth] in Hf, Hdx; lia)).
             destruct cd; [congruence | reflexivity].
        * exists 0, true. split; [reflexivity | lia].
        * intros _. apply Wfb_init.
        * exact Hd0.
    - (* objects *)
      rewrite diff_default_obj.
      pose proof (wfj_obj_sorted _ Hwa) as Sa. pose proof (wfj_obj_sorted _ Hwb) as Sb.
      set (on_common := fun (k : pystr) (va vb : json) =>
             if kind_eqb (kind_of va) (kind_of vb) && is_container va
             then (do dd <- diff_default O cfg n' va vb;
                   match dd with [] => Ok [] | _ => Ok [DPatch (KS k) dd] end)
             else if value_eqb (c_dict_strict cfg) va vb then Ok [] else Ok [DReplace (KS k) vb]).
      assert (Hcommon : forall m', depth (JObj ka) <= m' -> forall k va vb,
                obj_get k ka = Some va -> obj_get k kb = Some vb -> common_ok (patch m') on_common k va vb).
      { intros m' Hm' k va vb Hva Hvb. unfold common_ok, on_common.
        pose proof (depth_in_obj _ _ _ Hva) as Hdv.
        destruct (kind_eqb (kind_of va) (kind_of vb) && is_container va) eqn:Ck.
        - apply andb_true_iff in Ck as [Ck1 Ck2]. apply kind_eqb_eq in Ck1.
          destruct (IH n' ltac:(lia) va vb) as (d & Hd1 & Hd2 & _).
          + cbn [depth] in Hn, Hdv |- *. lia.
          + exact (wfj_in_obj ka k va Hwa Hva).
          + exact (wfj_in_obj kb k vb Hwb Hvb).
          + split; assumption.
          + rewrite Hd1. cbn [bind]. destruct d as [|e d'].
            * eexists. split; [reflexivity|]. left. split; [reflexivity|].
              specialize (Hd2 (S (depth va)) ltac:(lia)).
              rewrite patch_nil in Hd2; [congruence | lia | exact (wfj_in_obj ka k va Hwa Hva) | exact Ck2].
            * eexists. split; [reflexivity|]. right. left. eexists. split; [reflexivity|]. apply Hd2. lia.
        - rewrite Hstrict. cbn [value_eqb]. destruct (json_eqb va vb) eqn:E.
          + apply json_eqb_eq in E. eexists. split; [reflexivity|]. left. auto.
          + eexists. split; [reflexivity|]. right. right. reflexivity. }
      destruct (dict_diff_roundtrip (patch (depth (JObj ka))) on_common ka kb Sa Sb (Hcommon _ (le_n _))) as (d0 & Hd0 & _).
      exists d0. split; [exact Hd0|]. split.
      + intros m Hm. destruct m as [|m']; [lia|]. cbn [patch].
        destruct (dict_diff_roundtrip (patch m') on_common ka kb Sa Sb (Hcommon m' ltac:(lia))) as (d' & Hd' & Hp').
        rewrite Hd0 in Hd'. inversion Hd'; subst d'. rewrite Hp'. reflexivity.
      + intros f Hf. destruct f as [|f']; [lia|]. rewrite wf_diff_obj.
        unfold dict_diff in Hd0.
        apply (dict_walk_wf (wf_diff f') on_common ka _ ka kb d0 None Hd0 Sa Sb).
        * intros k va Hva. exact Hva.
        * intros k Hkk. left. unfold obj_has in Hkk. destruct (obj_get k ka) eqn:E; [|discriminate]. eapply obj_get_in; eauto.
        * exact I.
        * exact I.
        * intros k va vb Hva Hvb es Hes. unfold on_common in Hes.
          pose proof (depth_in_obj _ _ _ Hva) as Hdv.
          destruct (kind_eqb (kind_of va) (kind_of vb) && is_container va) eqn:Ck.
          -- apply andb_true_iff in Ck as [Ck1 Ck2]. apply kind_eqb_eq in Ck1.
             destruct (IH n' ltac:(lia) va vb) as (d & Hd1 & _ & Hd3).
             ++ cbn [depth] in Hn, Hdv |- *. lia.
             ++ exact (wfj_in_obj ka k va Hwa Hva).
             ++ exact (wfj_in_obj kb k vb Hwb Hvb).
             ++ split; assumption.
             ++ rewrite Hd1 in Hes. cbn [bind] in Hes. destruct d as [|e dd']; [inversion Hes; left; reflexivity|].
                inversion Hes; subst es. right. left. exists (e :: dd'). split; [reflexivity|]. split; [exact Ck2|]. split; [discriminate|].
                apply Hd3. cbn [depth] in Hf, Hdv. lia.
          -- rewrite Hstrict in Hes. cbn [value_eqb] in Hes.
             destruct (json_eqb va vb); inversion Hes; [left; reflexivity | right; right; reflexivity].
  Qed.

  Corollary diff_default_empty_only_if_equal n a b :
    2 * depth a < n -> wfj a = true -> wfj b = true -> same_container a b ->
    diff_default O cfg n a b = Ok [] -> a = b.
  Proof.
    intros Hn Hwa Hwb Hs Hd. destruct (diff_default_roundtrip n a b Hn Hwa Hwb Hs) as (d & Hd' & Hp & _).
    rewrite Hd in Hd'. inversion Hd'; subst d. specialize (Hp (S (depth a)) ltac:(lia)).
    rewrite patch_nil in Hp; [congruence | lia | exact Hwa | apply Hs].
  Qed.
End Master.
