(* seq_bruteforce.py: the LLCS grid satisfies its recurrence, back-tracking never trips its asserts
   and returns strictly increasing, in-bounds index lists whose pairs satisfy the comparison. *)
From Coq Require Import List NArith ZArith Bool Lia.
From NB Require Import Base.Res Base.Json Diff.DiffFormat Diff.Patch Diff.Lcs.
Import ListNotations.

Section Grid.
  Variable compare : json -> json -> bool.

  Lemma next_row_length a : forall B prev left,
    length prev = S (length B) -> length (next_row compare a B prev left) = length B.
  Proof.
    induction B as [|b B IH]; intros prev left H; [destruct prev; reflexivity|].
    destruct prev as [|pd [|pu prest]]; simpl in H; try lia.
    cbn [next_row length]. f_equal. apply IH. simpl. lia.
  Qed.

  Lemma grid_row_length a B prev :
    length prev = S (length B) -> length (grid_row compare a B prev) = S (length B).
  Proof. intros H. unfold grid_row. cbn [length]. f_equal. apply next_row_length. exact H. Qed.

  Lemma next_row_spec a : forall B prev left y b,
    length prev = S (length B) -> nth_error B y = Some b ->
    nth y (next_row compare a B prev left) 0 =
    if compare a b then nth y prev 0 + 1
    else Nat.max (nth (S y) prev 0) (nth y (left :: next_row compare a B prev left) 0).
  Proof.
    induction B as [|b0 B IH]; intros prev left y b Hl Hy; [destruct y; discriminate|].
    destruct prev as [|pd [|pu prest]]; simpl in Hl; try lia.
    destruct y as [|y].
    - simpl in Hy. inversion Hy; subst. cbn [next_row nth]. reflexivity.
    - simpl in Hy. cbn [next_row].
      set (v := if compare a b0 then pd + 1 else Nat.max pu left).
      change (nth (S y) (v :: next_row compare a B (pu :: prest) v) 0)
        with (nth y (next_row compare a B (pu :: prest) v) 0).
      rewrite (IH (pu :: prest) v y b); [|simpl; lia | exact Hy].
      reflexivity.
  Qed.

  Lemma grid_row_spec a B prev y b :
    length prev = S (length B) -> nth_error B y = Some b ->
    nth (S y) (grid_row compare a B prev) 0 =
    if compare a b then nth y prev 0 + 1
    else Nat.max (nth (S y) prev 0) (nth y (grid_row compare a B prev) 0).
  Proof.
    intros Hl Hy. unfold grid_row. cbn [nth]. apply next_row_spec; assumption.
  Qed.

  Lemma grid_rows_nth B : forall A prev x a,
    nth_error A x = Some a ->
    nth x (grid_rows compare A B prev) [] =
    grid_row compare a B (nth x (prev :: grid_rows compare A B prev) []).
  Proof.
    induction A as [|a0 A IH]; intros prev x a Hx; [destruct x; discriminate|].
    destruct x as [|x].
    - simpl in Hx. inversion Hx; subst. reflexivity.
    - simpl in Hx. cbn [grid_rows]. cbn [nth].
      rewrite (IH (grid_row compare a0 B prev) x a Hx). reflexivity.
  Qed.

  Lemma grid_rows_length B : forall A prev x,
    length prev = S (length B) -> x <= length A ->
    length (nth x (prev :: grid_rows compare A B prev) []) = S (length B).
  Proof.
    induction A as [|a0 A IH]; intros prev x Hl Hx.
    - simpl in Hx. replace x with 0 by lia. exact Hl.
    - destruct x as [|x]; [exact Hl|]. cbn [grid_rows nth].
      apply (IH (grid_row compare a0 B prev) x); [apply grid_row_length; exact Hl | simpl in Hx; lia].
  Qed.

  (* the recurrence *)
  Lemma llcs_grid_spec A B x y a b :
    nth_error A x = Some a -> nth_error B y = Some b ->
    rget (llcs_grid compare A B) (S x) (S y) =
    if compare a b then rget (llcs_grid compare A B) x y + 1
    else Nat.max (rget (llcs_grid compare A B) x (S y)) (rget (llcs_grid compare A B) (S x) y).
  Proof.
    intros Hx Hy. unfold rget, llcs_grid.
    set (row0 := repeat 0 (S (length B))).
    change (nth (S x) (row0 :: grid_rows compare A B row0) [])
      with (nth x (grid_rows compare A B row0) []).
    rewrite (grid_rows_nth B A row0 x a Hx).
    apply grid_row_spec; [|exact Hy].
    apply grid_rows_length; [unfold row0; apply repeat_length|].
    apply Nat.lt_le_incl. apply nth_error_Some. congruence.
  Qed.

  (* strictly increasing index pairs starting at or after (x, y), each pair satisfying P *)
  Inductive inc_idx (P : nat -> nat -> Prop) : nat -> nat -> list nat -> list nat -> Prop :=
  | ii_nil x y : inc_idx P x y [] []
  | ii_cons x y i j ai bi : x <= i -> y <= j -> P i j -> inc_idx P (i + 1) (j + 1) ai bi ->
      inc_idx P x y (i :: ai) (j :: bi).

  Lemma inc_idx_weaken P x y x' y' ai bi :
    inc_idx P x y ai bi -> x' <= x -> y' <= y -> inc_idx P x' y' ai bi.
  Proof. intros H Hx Hy. inversion H; subst; constructor; auto; lia. Qed.

  Lemma lcs_back_ok A B : forall fuel x y ai bi,
    x <= length A -> y <= length B -> x + y <= fuel ->
    inc_idx (fun i j => cmp_at compare A B i j = true) x y ai bi ->
    exists ai' bi', lcs_back compare fuel A B (llcs_grid compare A B) x y ai bi = Ok (ai', bi')
                    /\ inc_idx (fun i j => cmp_at compare A B i j = true) 0 0 ai' bi'.
  Proof.
    induction fuel as [|fuel IH]; intros x y ai bi Hx Hy Hf Hi.
    - assert (x = 0) by lia. assert (y = 0) by lia. subst. exists ai, bi. split; [reflexivity | exact Hi].
    - cbn [lcs_back]. destruct x as [|x']; [exists ai, bi; split; [reflexivity | eapply inc_idx_weaken; eauto; lia]|].
      destruct y as [|y']; [exists ai, bi; split; [reflexivity | eapply inc_idx_weaken; eauto; lia]|].
      assert (Hxa : x' < length A) by lia. assert (Hyb : y' < length B) by lia.
      destruct (nth_error A x') as [a|] eqn:Ea; [|apply nth_error_None in Ea; lia].
      destruct (nth_error B y') as [b|] eqn:Eb; [|apply nth_error_None in Eb; lia].
      pose proof (llcs_grid_spec A B x' y' a b Ea Eb) as Hrec.
      assert (Hc : cmp_at compare A B x' y' = compare a b) by (unfold cmp_at; rewrite Ea, Eb; reflexivity).
      rewrite Hc. destruct (compare a b) eqn:Ecmp.
      + rewrite Hrec, Nat.eqb_refl. apply IH; try lia.
        constructor; try lia; [rewrite Hc; reflexivity|].
        replace (x' + 1) with (S x') by lia. replace (y' + 1) with (S y') by lia. exact Hi.
      + destruct (Nat.eqb_spec (rget (llcs_grid compare A B) (S x') (S y')) (rget (llcs_grid compare A B) x' (S y'))) as [E1|E1].
        * apply IH; try lia. eapply inc_idx_weaken; eauto; lia.
        * destruct (Nat.eqb_spec (rget (llcs_grid compare A B) (S x') (S y')) (rget (llcs_grid compare A B) (S x') y')) as [E2|E2].
          -- apply IH; try lia. eapply inc_idx_weaken; eauto; lia.
          -- exfalso. rewrite Hrec in E1, E2. lia.
  Qed.

  Theorem lcs_indices_ok A B :
    exists ai bi, lcs_indices compare A B = Ok (ai, bi)
                  /\ inc_idx (fun i j => cmp_at compare A B i j = true) 0 0 ai bi.
  Proof. unfold lcs_indices. apply lcs_back_ok; try lia. constructor. Qed.

  Lemma inc_idx_lengths P x y ai bi : inc_idx P x y ai bi -> length ai = length bi.
  Proof. induction 1; simpl; congruence. Qed.
End Grid.
