(* Well-formedness (C11) of the sequence diffs nbdime produces: a state-returning reading of the
   skeleton [swf], composition over appended diffs, and the producers. *)
From Coq Require Import List NArith ZArith Bool Lia.
From NB Require Import Base.Res Base.Json Base.PyStr Diff.DiffFormat Diff.Patch Diff.Lcs Diff.GenericDiff
     Diff.Wf Diff.PatchProofs Diff.SeqProofs Diff.LoopProofs.
Import ListNotations.

Section SwfSt.
  Variable n : nat.
  Variable vl_ok : vlist -> bool.
  Variable patch_ok : nat -> list dentry -> bool.

  (* final (cursor, add_ok) when the diff is well-formed from (c, add_ok) *)
  Fixpoint swf_st (c : nat) (add_ok : bool) (d : list dentry) : option (nat * bool) :=
    match d with
    | [] => Some (c, add_ok)
    | DAddRange (KI k) vs :: r =>
        if vl_ok vs && negb (Nat.eqb (vlen vs) 0) && Nat.leb k n
           && (Nat.ltb c k || (Nat.eqb c k && add_ok))
        then swf_st k false r else None
    | DRemoveRange (KI k) len :: r =>
        if negb (Nat.eqb len 0) && Nat.leb c k && Nat.leb (k + len) n
        then swf_st (k + len) true r else None
    | DPatch (KI k) dd :: r =>
        if Nat.leb c k && Nat.ltb k n && patch_ok k dd then swf_st (k + 1) true r else None
    | _ => None
    end.

  Lemma swf_of_st d : forall c a st, swf_st c a d = Some st -> swf n vl_ok patch_ok c a d = true.
  Proof.
    induction d as [|e d IH]; intros c a st H; [reflexivity|].
    destruct e as [k v|k|k v|[k|k] vs|[k|k] len|[k|k] dd]; cbn [swf_st swf] in *; try discriminate.
    - destruct (vl_ok vs && negb (Nat.eqb (vlen vs) 0) && Nat.leb k n && (Nat.ltb c k || Nat.eqb c k && a)); [|discriminate].
      cbn [andb]. eapply IH; eauto.
    - destruct (negb (Nat.eqb len 0) && Nat.leb c k && Nat.leb (k + len) n); [|discriminate].
      cbn [andb]. eapply IH; eauto.
    - destruct (Nat.leb c k && Nat.ltb k n && patch_ok k dd); [|discriminate].
      cbn [andb]. eapply IH; eauto.
  Qed.

  Lemma swf_st_app d1 : forall d2 c a,
    swf_st c a (d1 ++ d2) = match swf_st c a d1 with
                            | Some (c', a') => swf_st c' a' d2
                            | None => None end.
  Proof.
    induction d1 as [|e d1 IH]; intros d2 c a; [reflexivity|].
    destruct e as [k v|k|k v|[k|k] vs|[k|k] len|[k|k] dd]; cbn [app swf_st]; try reflexivity.
    - destruct (vl_ok vs && negb (Nat.eqb (vlen vs) 0) && Nat.leb k n && (Nat.ltb c k || Nat.eqb c k && a)); [apply IH | reflexivity].
    - destruct (negb (Nat.eqb len 0) && Nat.leb c k && Nat.leb (k + len) n); [apply IH | reflexivity].
    - destruct (Nat.leb c k && Nat.ltb k n && patch_ok k dd); [apply IH | reflexivity].
  Qed.

  (* builder invariant: the diff so far is well-formed and an entry at key x can follow *)
  Definition Wfb (di : list dentry) (x : nat) : Prop :=
    exists c a, swf_st 0 true di = Some (c, a) /\ c <= x /\ (c < x \/ a = true).

  (* weaker: enough for a removerange or patch entry at key x *)
  Definition Wfl (di : list dentry) (x : nat) : Prop :=
    exists c a, swf_st 0 true di = Some (c, a) /\ c <= x.

  Lemma Wfb_Wfl di x : Wfb di x -> Wfl di x.
  Proof. intros (c & a & H1 & H2 & _). exists c, a. auto. Qed.

  Lemma Wfl_mono di x x' : Wfl di x -> x <= x' -> Wfl di x'.
  Proof. intros (c & a & H1 & H2) Hx. exists c, a. split; [exact H1 | lia]. Qed.

  Lemma Wfb_init : Wfb [] 0.
  Proof. exists 0, true. repeat split; auto. Qed.

  Lemma Wfb_mono di x x' : Wfb di x -> x <= x' -> Wfb di x'.
  Proof.
    intros (c & a & H1 & H2 & H3) Hx. exists c, a. split; [exact H1|]. split; [lia|].
    destruct H3 as [H3|H3]; [left; lia | right; exact H3].
  Qed.

  Lemma Wfb_removerange di x len x' :
    Wfl di x -> 0 < len -> x + len <= n -> x + len <= x' ->
    Wfb (di ++ [DRemoveRange (KI x) len]) x'.
  Proof.
    intros (c & a & H1 & H2) Hl Hn Hx'. exists (x + len), true.
    rewrite swf_st_app, H1. cbn [swf_st].
    replace (negb (Nat.eqb len 0)) with true by (symmetry; apply negb_true_iff, Nat.eqb_neq; lia).
    replace (Nat.leb c x) with true by (symmetry; apply Nat.leb_le; lia).
    replace (Nat.leb (x + len) n) with true by (symmetry; apply Nat.leb_le; lia).
    cbn [andb]. repeat split; auto.
  Qed.

  Lemma Wfb_addrange di x vs x' :
    Wfb di x -> vl_ok vs = true -> 0 < vlen vs -> x <= n -> x <= x' ->
    exists c, swf_st 0 true (di ++ [DAddRange (KI x) vs]) = Some (x, false) /\ c = x.
  Proof.
    intros (c & a & H1 & H2 & H3) Hv Hl Hn Hx'. exists x.
    rewrite swf_st_app, H1. cbn [swf_st]. rewrite Hv.
    replace (negb (Nat.eqb (vlen vs) 0)) with true by (symmetry; apply negb_true_iff, Nat.eqb_neq; lia).
    replace (Nat.leb x n) with true by (symmetry; apply Nat.leb_le; lia).
    replace (Nat.ltb c x || Nat.eqb c x && a) with true; [cbn [andb]; auto|].
    symmetry. destruct H3 as [H3|H3].
    - replace (Nat.ltb c x) with true by (symmetry; apply Nat.ltb_lt; lia). reflexivity.
    - subst a. destruct (Nat.ltb_spec c x); [reflexivity|].
      replace (Nat.eqb c x) with true by (symmetry; apply Nat.eqb_eq; lia). reflexivity.
  Qed.

  Lemma Wfb_patch di x dd x' :
    Wfl di x -> x < n -> patch_ok x dd = true -> x + 1 <= x' ->
    Wfb (di ++ [DPatch (KI x) dd]) x'.
  Proof.
    intros (c & a & H1 & H2) Hn Hp Hx'. exists (x + 1), true.
    rewrite swf_st_app, H1. cbn [swf_st].
    replace (Nat.leb c x) with true by (symmetry; apply Nat.leb_le; lia).
    replace (Nat.ltb x n) with true by (symmetry; apply Nat.ltb_lt; lia).
    rewrite Hp. cbn [andb]. repeat split; auto.
  Qed.

  (* a gap [addrange?; removerange?] at key x followed by cursor x' >= x (+ removed length) *)
  Lemma Wfb_gap di x vs len x' :
    Wfb di x -> x <= n -> x + len <= n -> x + len <= x' ->
    (0 < vlen vs -> vl_ok vs = true) ->
    (0 < vlen vs \/ 0 < len -> x < x' \/ 0 < len) ->
    Wfb (di ++ (if Nat.ltb 0 (vlen vs) then [DAddRange (KI x) vs] else [])
            ++ (if Nat.ltb 0 len then [DRemoveRange (KI x) len] else [])) x'
    \/ (vlen vs = 0 /\ len = 0).
  Proof.
    intros Hw Hxn Hln Hx' Hv Hprog.
    destruct (Nat.ltb_spec 0 (vlen vs)) as [Ha|Ha], (Nat.ltb_spec 0 len) as [Hr|Hr].
    - left. rewrite app_assoc.
      destruct (Wfb_addrange di x vs x Hw (Hv Ha) Ha Hxn (le_n _)) as (c & Hs & _).
      apply (Wfb_removerange (di ++ [DAddRange (KI x) vs]) x len x'); auto.
      exists x, false. split; [exact Hs | lia].
    - left. assert (len = 0) by lia. subst len. rewrite app_nil_r.
      destruct (Wfb_addrange di x vs x Hw (Hv Ha) Ha Hxn (le_n _)) as (c & Hs & _).
      exists x, false. split; [exact Hs|]. split; [lia|].
      destruct (Hprog (or_introl Ha)) as [H|H]; [left; exact H | lia].
    - left. cbn [app]. apply Wfb_removerange; auto. apply Wfb_Wfl. exact Hw.
    - right. lia.
  Qed.
End SwfSt.

(* ---------- keys are bounded by the wf cursor ---------- *)
Section Keys.
  Variable n : nat.
  Variable vl_ok : vlist -> bool.
  Variable patch_ok : nat -> list dentry -> bool.

  Lemma swf_st_progress d : forall c0 a0 c a,
    swf_st n vl_ok patch_ok c0 a0 d = Some (c, a) ->
    c0 <= c /\ (a0 = false -> a = true -> c0 < c).
  Proof.
    induction d as [|e d IH]; intros c0 a0 c a H.
    - cbn in H. inversion H; subst. split; [lia | congruence].
    - destruct e as [k v|k|k v|[k|k] vs|[k|k] len|[k|k] dd]; cbn [swf_st] in H; try discriminate.
      + destruct (vl_ok vs && negb (Nat.eqb (vlen vs) 0) && Nat.leb k n && (Nat.ltb c0 k || Nat.eqb c0 k && a0)) eqn:E; [|discriminate].
        apply andb_true_iff in E as [E1 E2]. destruct (IH _ _ _ _ H) as [H1 H2].
        destruct a0.
        * split; [|congruence]. apply orb_true_iff in E2 as [E2|E2].
          -- apply Nat.ltb_lt in E2. lia.
          -- apply andb_true_iff in E2 as [E2 _]. apply Nat.eqb_eq in E2. lia.
        * rewrite andb_false_r, orb_false_r in E2. apply Nat.ltb_lt in E2. split; [lia|]. intros _ _. lia.
      + destruct (negb (Nat.eqb len 0) && Nat.leb c0 k && Nat.leb (k + len) n) eqn:E; [|discriminate].
        apply andb_true_iff in E as [E1 E3]. apply andb_true_iff in E1 as [E1 E2].
        apply negb_true_iff, Nat.eqb_neq in E1. apply Nat.leb_le in E2.
        destruct (IH _ _ _ _ H) as [H1 _]. split; [lia|]. intros _ _. lia.
      + destruct (Nat.leb c0 k && Nat.ltb k n && patch_ok k dd) eqn:E; [|discriminate].
        apply andb_true_iff in E as [E1 _]. apply andb_true_iff in E1 as [E1 _]. apply Nat.leb_le in E1.
        destruct (IH _ _ _ _ H) as [H1 _]. split; [lia|]. intros _ _. lia.
  Qed.

  Lemma swf_st_keys d : forall c0 a0 c a,
    swf_st n vl_ok patch_ok c0 a0 d = Some (c, a) ->
    keys_le c d /\ (a = true -> keys_lt c d).
  Proof.
    induction d as [|e d IH]; intros c0 a0 c a H; [split; [constructor | intros; constructor]|].
    destruct e as [k v|k|k v|[k|k] vs|[k|k] len|[k|k] dd]; cbn [swf_st] in H; try discriminate.
    - destruct (vl_ok vs && negb (Nat.eqb (vlen vs) 0) && Nat.leb k n && (Nat.ltb c0 k || Nat.eqb c0 k && a0)); [|discriminate].
      destruct (IH _ _ _ _ H) as [H1 H2]. destruct (swf_st_progress _ _ _ _ _ H) as [P1 P2].
      split; [constructor; [cbn [knat dkey]; lia | exact H1]|].
      intros Ha. constructor; [cbn [knat dkey]; specialize (P2 eq_refl Ha); lia | apply H2; exact Ha].
    - destruct (negb (Nat.eqb len 0) && Nat.leb c0 k && Nat.leb (k + len) n) eqn:E; [|discriminate].
      apply andb_true_iff in E as [E1 _]. apply andb_true_iff in E1 as [E1 _].
      apply negb_true_iff, Nat.eqb_neq in E1.
      destruct (IH _ _ _ _ H) as [H1 H2]. destruct (swf_st_progress _ _ _ _ _ H) as [P1 _].
      split; [constructor; [cbn [knat dkey]; lia | exact H1]|].
      intros Ha. constructor; [cbn [knat dkey]; lia | apply H2; exact Ha].
    - destruct (Nat.leb c0 k && Nat.ltb k n && patch_ok k dd); [|discriminate].
      destruct (IH _ _ _ _ H) as [H1 H2]. destruct (swf_st_progress _ _ _ _ _ H) as [P1 _].
      split; [constructor; [cbn [knat dkey]; lia | exact H1]|].
      intros Ha. constructor; [cbn [knat dkey]; lia | apply H2; exact Ha].
  Qed.

  Lemma Wfb_keys_lt di x : Wfb n vl_ok patch_ok di x -> keys_lt x di.
  Proof.
    intros (c & a & H1 & H2 & H3). destruct (swf_st_keys _ _ _ _ _ H1) as [K1 K2].
    destruct H3 as [H3|H3].
    - eapply keys_le_lt; [|exact K1]. exact H3.
    - eapply keys_lt_mono; [|apply K2; exact H3]. exact H2.
  Qed.

  Lemma Wfl_keys_le di x : Wfl n vl_ok patch_ok di x -> keys_le x di.
  Proof.
    intros (c & a & H1 & H2). destruct (swf_st_keys _ _ _ _ _ H1) as [K1 _].
    eapply Forall_impl; [|exact K1]. cbn. intros. lia.
  Qed.

  Lemma Wfl_lt_Wfb di x x' : Wfl n vl_ok patch_ok di x -> x < x' -> Wfb n vl_ok patch_ok di x'.
  Proof. intros (c & a & H1 & H2) Hx. exists c, a. split; [exact H1|]. split; [lia | left; lia]. Qed.
End Keys.

(* ---------- producers ---------- *)
Section ProducersWf.
  Variables A B : list json.
  Variable vl_ok : vlist -> bool.
  Variable patch_ok : nat -> list dentry -> bool.
  Hypothesis Hvl : forall y j, vl_ok (VList (slice B y j)) = true.

  Notation WFB := (Wfb (length A) vl_ok patch_ok).
  Notation WFL := (Wfl (length A) vl_ok patch_ok).

  (* each sub-diff that comes out non-empty is an admissible nested patch *)
  Definition pairs_wf (subdiff : json -> json -> res (list dentry)) (i j n : nat) : Prop :=
    forall k a b cd, k < n -> nth_error A (i + k) = Some a -> nth_error B (j + k) = Some b ->
                     subdiff a b = Ok cd -> cd <> [] -> patch_ok (i + k) cd = true.

  Lemma patch_items_wf subdiff i j : forall n k di di',
    pairs_wf subdiff (i + k) (j + k) n ->
    patch_items subdiff A B i j k n di = Ok di' -> WFL di (i + k) ->
    WFL di' (i + k + n) /\ (0 < n -> WFB di' (i + k + n)).
  Proof.
    induction n as [|n IH]; intros k di di' Hp Hpi Hw.
    - cbn in Hpi. inversion Hpi; subst. rewrite Nat.add_0_r. split; [exact Hw | lia].
    - cbn [patch_items] in Hpi.
      destruct (nth_res A (i + k)) as [a|] eqn:Ea; [|discriminate]. cbn [bind] in Hpi.
      destruct (nth_res B (j + k)) as [b|] eqn:Eb; [|discriminate]. cbn [bind] in Hpi.
      destruct (subdiff a b) as [cd|] eqn:Ecd; [|discriminate]. cbn [bind] in Hpi.
      unfold nth_res in Ea, Eb.
      destruct (nth_error A (i + k)) as [a'|] eqn:Ea'; [|discriminate]. inversion Ea; subst a'.
      destruct (nth_error B (j + k)) as [b'|] eqn:Eb'; [|discriminate]. inversion Eb; subst b'.
      assert (HiA : i + k < length A) by (apply nth_error_Some; congruence).
      assert (H1 : WFB (b_patch di (i + k) cd) (i + S k)).
      { unfold b_patch. destruct cd as [|c cd'].
        - eapply Wfl_lt_Wfb; [exact Hw | lia].
        - rewrite seq_append_end_le; [|reflexivity | eapply Wfl_keys_le; exact Hw].
          replace (i + S k) with (i + k + 1) by lia.
          apply Wfb_patch with (x' := i + k + 1); auto.
          specialize (Hp 0 a b (c :: cd') ltac:(lia)). rewrite !Nat.add_0_r in Hp. apply Hp; auto. discriminate. }
      destruct (IH (S k) (b_patch di (i + k) cd) di') as [R1 R2].
      + intros k0 a0 b0 cd0 Hk0 Ha0 Hb0 Hs0 Hne.
        replace (i + S k + k0) with (i + k + S k0) in * by lia.
        replace (j + S k + k0) with (j + k + S k0) in * by lia.
        eapply Hp; eauto. lia.
      + exact Hpi.
      + apply Wfb_Wfl. exact H1.
      + replace (i + k + S n) with (i + S k + n) by lia. split; [exact R1|].
        intros _. destruct n as [|n'].
        * cbn [patch_items] in Hpi. inversion Hpi; subst. rewrite Nat.add_0_r. exact H1.
        * apply R2. lia.
  Qed.

  Lemma gap_wf di x y i j :
    WFB di x -> x <= i -> i <= length A -> j <= length B ->
    WFL (di ++ gap_entries B x y i j) i.
  Proof.
    intros Hw Hxi HiA HjB. unfold gap_entries.
    destruct (Nat.ltb_spec y j) as [Ej|Ej], (Nat.ltb_spec x i) as [Ei|Ei].
    - rewrite app_assoc.
      destruct (Wfb_addrange (length A) vl_ok patch_ok di x (VList (slice B y j)) x Hw) as (c & Hs & _); auto; try lia.
      { cbn [vlen]. rewrite slice_length by lia. lia. }
      apply Wfb_Wfl. replace i with (x + (i - x)) at 2 by lia.
      apply Wfb_removerange; try lia. exists x, false. split; [exact Hs | lia].
    - rewrite app_nil_r. assert (i = x) by lia. subst i.
      destruct (Wfb_addrange (length A) vl_ok patch_ok di x (VList (slice B y j)) x Hw) as (c & Hs & _); auto; try lia.
      { cbn [vlen]. rewrite slice_length by lia. lia. }
      exists x, false. split; [exact Hs | lia].
    - cbn [app]. apply Wfb_Wfl. replace i with (x + (i - x)) at 2 by lia.
      apply Wfb_removerange; try lia. apply Wfb_Wfl. exact Hw.
    - cbn [app]. rewrite app_nil_r. eapply Wfl_mono; [apply Wfb_Wfl; exact Hw | exact Hxi].
  Qed.

  Lemma diff_from_snakes_wf diffit : forall snakes i0 j0 di d,
    vsn A B i0 j0 snakes ->
    (forall i j n, In (i, j, n) snakes -> pairs_wf diffit i j n) ->
    WFB di i0 ->
    diff_from_snakes diffit A B snakes i0 j0 di = Ok d ->
    swf (length A) vl_ok patch_ok 0 true d = true.
  Proof.
    induction snakes as [|[[i j] n] rest IH]; intros i0 j0 di d Hv Hp Hw Hd; [inversion Hv|].
    cbn [diff_from_snakes] in Hd.
    pose proof (Wfb_keys_lt _ _ _ _ _ Hw) as Hk.
    inversion Hv; subst.
    - pose proof (gap_shape B di i0 j0 (length A) (length B) Hk (le_n _)) as Hs. cbv zeta in Hs. rewrite Hs in Hd.
      cbn [patch_items bind diff_from_snakes] in Hd. inversion Hd; subst d.
      destruct (gap_wf di i0 j0 (length A) (length B) Hw) as (c & a & Hst & _); try lia.
      eapply swf_of_st; eauto.
    - pose proof (gap_shape B di i0 j0 i j Hk ltac:(lia)) as Hs. cbv zeta in Hs. rewrite Hs in Hd.
      destruct (patch_items diffit A B i j 0 n (di ++ gap_entries B i0 j0 i j)) as [di'|] eqn:Epi; [|discriminate].
      cbn [bind] in Hd.
      destruct (patch_items_wf diffit i j n 0 (di ++ gap_entries B i0 j0 i j) di') as [_ R2].
      + rewrite !Nat.add_0_r. apply Hp. left. reflexivity.
      + exact Epi.
      + rewrite Nat.add_0_r. apply gap_wf; auto; lia.
      + rewrite !Nat.add_0_r in R2. eapply IH; eauto.
        intros. apply Hp. right. assumption.
  Qed.

  (* generic.diff_lists: aligned shallow script + loop *)
  Lemma diff_lists_loop_wf (rec : json -> diff -> res json) subdiff : forall shallow i j amin di d,
    aligned rec subdiff A B i j amin shallow ->
    (forall i j n, pairs_wf subdiff i j n) ->
    WFL di i -> (amin <= i -> WFB di i) ->
    diff_lists_loop subdiff A B shallow i j di = Ok d ->
    swf (length A) vl_ok patch_ok 0 true d = true.
  Proof.
    induction shallow as [|e rest IH]; intros i j amin di d Hal Hp Hw Hpre Hd.
    - cbn [diff_lists_loop] in Hd.
      destruct (Nat.ltb (length A) i); [discriminate|].
      destruct (negb (Z.eqb (Z.of_nat (length B) - Z.of_nat j) (Z.of_nat (length A - i)))); [discriminate|].
      destruct (patch_items_wf subdiff i j (length A - i) 0 di d) as [(c & a & Hs & _) _]; auto.
      + rewrite Nat.add_0_r. exact Hw.
      + eapply swf_of_st; eauto.
    - inversion Hal; subst.
      + (* addrange *)
        cbn [diff_lists_loop knat dkey count_consumed bind vlen] in Hd.
        destruct (patch_items subdiff A B i j 0 (x - i) di) as [di'|] eqn:Epi; [|discriminate]. cbn [bind] in Hd.
        destruct (patch_items_wf subdiff i j (x - i) 0 di di') as [R1 R2]; auto.
        { rewrite Nat.add_0_r. exact Hw. }
        rewrite !Nat.add_0_r in *. replace (i + (x - i)) with x in * by lia.
        assert (Hwx : WFB di' x).
        { destruct (Nat.eq_dec (x - i) 0) as [E|E].
          - rewrite E in Epi. cbn [patch_items] in Epi. inversion Epi; subst di'.
            assert (x = i) by lia. subst x. apply Hpre. lia.
          - apply R2. lia. }
        rewrite seq_append_end_lt in Hd by (eapply Wfb_keys_lt; exact Hwx).
        destruct (Wfb_addrange (length A) vl_ok patch_ok di' x
                    (VList (slice B (j + (x - i)) (j + (x - i) + m))) x Hwx) as (c & Hs & _); auto; try lia.
        { cbn [vlen]. rewrite slice_length by lia. lia. }
        rewrite slice_length in Hd by lia. replace (j + (x - i) + m - (j + (x - i))) with m in Hd by lia.
        replace (x + 0) with x in Hd by lia.
        assert (Hwl : WFL (di' ++ [DAddRange (KI x) (VList (slice B (j + (x - i)) (j + (x - i) + m)))]) x)
          by (exists x, false; split; [exact Hs | lia]).
        match goal with Hr : aligned _ _ _ _ x _ (x + 1) rest |- _ =>
          exact (IH x _ (x + 1) _ d Hr Hp Hwl ltac:(intros; lia) Hd) end.
      + (* removerange *)
        cbn [diff_lists_loop knat dkey count_consumed bind] in Hd.
        destruct (patch_items subdiff A B i j 0 (x - i) di) as [di'|] eqn:Epi; [|discriminate]. cbn [bind] in Hd.
        destruct (patch_items_wf subdiff i j (x - i) 0 di di') as [R1 _]; auto.
        { rewrite Nat.add_0_r. exact Hw. }
        rewrite !Nat.add_0_r in *. replace (i + (x - i)) with x in * by lia.
        rewrite seq_append_end_le in Hd; [|reflexivity | eapply Wfl_keys_le; exact R1].
        assert (Hn : WFB (di' ++ [DRemoveRange (KI x) len]) (x + len)) by (apply Wfb_removerange; auto; lia).
        match goal with Hr : aligned _ _ _ _ (x + len) _ (x + len) rest |- _ =>
          exact (IH (x + len) _ (x + len) _ d Hr Hp (Wfb_Wfl _ _ _ _ _ Hn) (fun _ => Hn) Hd) end.
  Qed.
End ProducersWf.
