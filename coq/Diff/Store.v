(* C13 -- store-passing model of the in-place operations nbdime performs on caller-visible objects.

   A pure functional model cannot exhibit mutation or aliasing, so Python's mutable objects (list, dict) are
   cells of a heap, addressed by locations; immutable leaves (None, bool, int, float, str) are atoms.
   A dict cell is an INSERTION-ORDERED association list (Python 3.7+ dict semantics).

   Modelled, statement by statement:
     nbdime/patching.py            patch / patch_list / patch_dict            -> patch_s
     nbdime/diffing/notebooks.py   diff_single_outputs (pop, deepcopy, restore) -> dso
     nbdime/merging/decisions.py   MergeDecisionBuilder.validated              -> validated_s
     nbdime/merging/decisions.py   apply_decisions (deepcopy(base), parent[last_key] = patch(..)) -> apply_s
   copy.deepcopy is modelled by [deepcopy] (fresh cells for every reachable object).
   The configuration [pcfg] is GENERATED from the source (Gen/C13Facts.v): whether patch deep-copies untouched
   items and whether it deep-copies the values carried by the diff. *)
From Coq Require Import String.
From Coq Require Import List NArith ZArith Bool Lia.
From NB Require Import Base.Res.
From NB Require Import Base.Json.
From NB Require Import Base.PyStr.
From NB Require Import Diff.DiffFormat.
From NB Require Import Diff.Patch.
From NB Require Import Diff.Codec.
Import ListNotations.

Definition loc := nat.
Inductive sval := VAtom (j : json) | VRef (l : loc).
Inductive cell := CList (vs : list sval) | CDict (kv : list (pystr * sval)).
Definition heap := list cell.

Definition vrefs (vs : list sval) : list loc :=
  flat_map (fun v => match v with VRef l => [l] | VAtom _ => [] end) vs.
Definition crefs (c : cell) : list loc :=
  match c with CList vs => vrefs vs | CDict kv => vrefs (map snd kv) end.

Definition alloc (h : heap) (c : cell) : heap * sval := (h ++ [c], VRef (length h)).

Fixpoint upd (h : heap) (l : loc) (c : cell) : heap :=
  match h, l with
  | [], _ => []
  | _ :: t, 0 => c :: t
  | x :: t, S l' => x :: upd t l' c
  end.

(* reachability (mutable objects only: every location is a list or a dict) *)
Inductive reach (h : heap) : sval -> loc -> Prop :=
| reach_root l : reach h (VRef l) l
| reach_step v l c l' : reach h v l -> nth_error h l = Some c -> In l' (crefs c) -> reach h v l'.

(* ---------- loading JSON into the heap (a tree: what json.load / nbformat.from_dict build) ---------- *)
Fixpoint load (h : heap) (j : json) : heap * sval :=
  match j with
  | JArr l =>
      let '(h1, vs) :=
        (fix go (h : heap) (l : list json) : heap * list sval :=
           match l with
           | [] => (h, [])
           | x :: xs => let '(h1, v) := load h x in let '(h2, vs) := go h1 xs in (h2, v :: vs)
           end) h l in
      alloc h1 (CList vs)
  | JObj kv =>
      let '(h1, kvs) :=
        (fix go (h : heap) (l : list (pystr * json)) : heap * list (pystr * sval) :=
           match l with
           | [] => (h, [])
           | (k, x) :: xs => let '(h1, v) := load h x in let '(h2, vs) := go h1 xs in (h2, (k, v) :: vs)
           end) h kv in
      alloc h1 (CDict kvs)
  | _ => (h, VAtom j)
  end.

(* ---------- reading back ---------- *)
Section MapM.
  Context {A B : Type} (f : A -> res B).
  Fixpoint rmap (l : list A) : res (list B) :=
    match l with
    | [] => Ok []
    | x :: xs => do y <- f x; do ys <- rmap xs; Ok (y :: ys)
    end.
End MapM.

(* insertion-ordered value (what json.dumps without sort_keys prints) *)
Fixpoint read (n : nat) (h : heap) (v : sval) : res json :=
  match v with
  | VAtom j => Ok j
  | VRef l =>
      match n with
      | 0 => Err OutOfFuel
      | S n' =>
          match nth_error h l with
          | None => Err RuntimeError
          | Some (CList vs) => do js <- rmap (read n' h) vs; Ok (JArr js)
          | Some (CDict kv) =>
              do js <- rmap (fun p => do j <- read n' h (snd p); Ok (fst p, j)) kv; Ok (JObj js)
          end
      end
  end.

(* canonical value (what json.dumps(sort_keys=True) / nbformat.write prints): keys sorted *)
Definition canon_kv (l : list (pystr * json)) : list (pystr * json) :=
  fold_left (fun acc p => obj_set (fst p) (snd p) acc) l [].

Fixpoint cread (n : nat) (h : heap) (v : sval) : res json :=
  match v with
  | VAtom j => Ok j
  | VRef l =>
      match n with
      | 0 => Err OutOfFuel
      | S n' =>
          match nth_error h l with
          | None => Err RuntimeError
          | Some (CList vs) => do js <- rmap (cread n' h) vs; Ok (JArr js)
          | Some (CDict kv) =>
              do js <- rmap (fun p => do j <- cread n' h (snd p); Ok (fst p, j)) kv; Ok (JObj (canon_kv js))
          end
      end
  end.

(* ---------- copy.deepcopy ---------- *)
Section Thread.
  Variable f : heap -> sval -> res (heap * sval).
  Fixpoint copy_list (h : heap) (vs : list sval) : res (heap * list sval) :=
    match vs with
    | [] => Ok (h, [])
    | v :: rest =>
        do r <- f h v; let '(h1, v') := r in
        do r2 <- copy_list h1 rest; let '(h2, rest') := r2 in
        Ok (h2, v' :: rest')
    end.
  Fixpoint copy_kv (h : heap) (kv : list (pystr * sval)) : res (heap * list (pystr * sval)) :=
    match kv with
    | [] => Ok (h, [])
    | (k, v) :: rest =>
        do r <- f h v; let '(h1, v') := r in
        do r2 <- copy_kv h1 rest; let '(h2, rest') := r2 in
        Ok (h2, (k, v') :: rest')
    end.
End Thread.

Fixpoint deepcopy (n : nat) (h : heap) (v : sval) : res (heap * sval) :=
  match v with
  | VAtom _ => Ok (h, v)
  | VRef l =>
      match n with
      | 0 => Err OutOfFuel
      | S n' =>
          match nth_error h l with
          | None => Err RuntimeError
          | Some (CList vs) =>
              do r <- copy_list (deepcopy n') h vs; let '(h1, vs') := r in Ok (alloc h1 (CList vs'))
          | Some (CDict kv) =>
              do r <- copy_kv (deepcopy n') h kv; let '(h1, kv') := r in Ok (alloc h1 (CDict kv'))
          end
      end
  end.

(* ---------- diffs whose carried values live in the heap ---------- *)
Inductive sentry :=
| SAdd (k : key) (v : sval)
| SRemove (k : key)
| SReplace (k : key) (v : sval)
| SAddRange (k : key) (vs : list sval)       (* valuelist is a list: its ITEMS are the carried objects *)
| SAddRangeStr (k : key) (s : pystr)         (* valuelist is a str (character diff) *)
| SRemoveRange (k : key) (len : nat)
| SPatch (k : key) (d : list sentry).

Definition skey (e : sentry) : key :=
  match e with
  | SAdd k _ | SRemove k | SReplace k _ | SAddRange k _ | SAddRangeStr k _ | SRemoveRange k _ | SPatch k _ => k
  end.

(* the values carried by a diff, at any depth *)
Fixpoint evalues (e : sentry) : list sval :=
  match e with
  | SAdd _ v | SReplace _ v => [v]
  | SAddRange _ vs => vs
  | SPatch _ d => (fix go (l : list sentry) : list sval :=
                     match l with [] => [] | x :: xs => evalues x ++ go xs end) d
  | _ => []
  end.
Definition dvalues (d : list sentry) : list sval := flat_map evalues d.

Fixpoint load_entry (h : heap) (e : dentry) : heap * sentry :=
  match e with
  | DAdd k v => let '(h1, x) := load h v in (h1, SAdd k x)
  | DRemove k => (h, SRemove k)
  | DReplace k v => let '(h1, x) := load h v in (h1, SReplace k x)
  | DAddRange k (VStr s) => (h, SAddRangeStr k s)
  | DAddRange k (VList l) =>
      let '(h1, vs) :=
        (fix go (h : heap) (l : list json) : heap * list sval :=
           match l with
           | [] => (h, [])
           | x :: xs => let '(h1, v) := load h x in let '(h2, vs) := go h1 xs in (h2, v :: vs)
           end) h l in
      (h1, SAddRange k vs)
  | DRemoveRange k n => (h, SRemoveRange k n)
  | DPatch k d =>
      let '(h1, d') :=
        (fix go (h : heap) (l : list dentry) : heap * list sentry :=
           match l with
           | [] => (h, [])
           | x :: xs => let '(h1, y) := load_entry h x in let '(h2, ys) := go h1 xs in (h2, y :: ys)
           end) h d in
      (h1, SPatch k d')
  end.

Fixpoint load_diff (h : heap) (d : list dentry) : heap * list sentry :=
  match d with
  | [] => (h, [])
  | x :: xs => let '(h1, y) := load_entry h x in let '(h2, ys) := load_diff h1 xs in (h2, y :: ys)
  end.

(* the pure diff a store diff denotes (used when the patched object is a string: strings are immutable,
   patch_string works on fresh lists of characters) *)
Fixpoint reify_e (n : nat) (h : heap) (e : sentry) {struct e} : res dentry :=
  match e with
  | SAdd k v => do j <- read n h v; Ok (DAdd k j)
  | SRemove k => Ok (DRemove k)
  | SReplace k v => do j <- read n h v; Ok (DReplace k j)
  | SAddRange k vs => do js <- rmap (read n h) vs; Ok (DAddRange k (VList js))
  | SAddRangeStr k s => Ok (DAddRange k (VStr s))
  | SRemoveRange k len => Ok (DRemoveRange k len)
  | SPatch k d =>
      do d' <- (fix go (l : list sentry) : res (list dentry) :=
                  match l with
                  | [] => Ok []
                  | x :: xs => do y <- reify_e n h x; do ys <- go xs; Ok (y :: ys)
                  end) d;
      Ok (DPatch k d')
  end.
Definition reify (n : nat) (h : heap) (d : list sentry) : res diff := rmap (reify_e n h) d.

(* ---------- nbdime/patching.py ---------- *)
Record pcfg := { copy_untouched : bool;     (* copy.deepcopy(value) for value in obj[take:index] / obj[key] *)
                 copy_diffvals : bool }.    (* are e.value / e.valuelist deep-copied before insertion?      *)

Fixpoint assoc {A} (k : pystr) (kv : list (pystr * A)) : option A :=
  match kv with
  | [] => None
  | (k', v) :: rest => if str_eqb k k' then Some v else assoc k rest
  end.
Definition has_key {A} (k : pystr) (kv : list (pystr * A)) : bool :=
  match assoc k kv with Some _ => true | None => false end.
Fixpoint remove_key {A} (k : pystr) (kv : list (pystr * A)) : list (pystr * A) :=
  match kv with
  | [] => []
  | (k', v) :: rest => if str_eqb k k' then remove_key k rest else (k', v) :: remove_key k rest
  end.
(* d[k] = v on a Python dict: replace in position when present, else append *)
Fixpoint set_key {A} (k : pystr) (v : A) (kv : list (pystr * A)) : list (pystr * A) :=
  match kv with
  | [] => [(k, v)]
  | (k', v') :: rest => if str_eqb k k' then (k', v) :: rest else (k', v') :: set_key k v rest
  end.

Section PatchS.
  Variable cfg : pcfg.

  Definition cp (b : bool) (n : nat) (h : heap) (v : sval) : res (heap * sval) :=
    if b then deepcopy n h v else Ok (h, v).
  Definition cp_list (b : bool) (n : nat) (h : heap) (vs : list sval) : res (heap * list sval) :=
    if b then copy_list (deepcopy n) h vs else Ok (h, vs).

  Section Level.
    Variable rec : heap -> sval -> list sentry -> res (heap * sval).    (* patch, one level down *)
    Variable n : nat.                                                   (* fuel for deepcopy *)

    (* patch_list: obj is the list of items read from the cell at entry; newobj = acc *)
    Fixpoint patch_list_go_s (h : heap) (obj : list sval) (take : nat) (d : list sentry) (acc : list sval)
      : res (heap * list sval) :=
      match d with
      | [] =>
          do r <- cp_list (copy_untouched cfg) n h (skipn take obj); let '(h1, rest) := r in
          Ok (h1, acc ++ rest)
      | e :: d' =>
          match skey e with
          | KS _ => Err AssertionError
          | KI index =>
              do r <- cp_list (copy_untouched cfg) n h (slice obj take index); let '(h1, mid) := r in
              let acc := acc ++ mid in
              match e with
              | SAddRange _ vs =>
                  do r2 <- cp_list (copy_diffvals cfg) n h1 vs; let '(h2, vs') := r2 in
                  patch_list_go_s h2 obj (Nat.max take index) d' (acc ++ vs')
              | SAddRangeStr _ s =>
                  patch_list_go_s h1 obj (Nat.max take index) d' (acc ++ map (fun c => VAtom (char_json c)) s)
              | SRemoveRange _ len =>
                  patch_list_go_s h1 obj (Nat.max take (index + len)) d' acc
              | SPatch _ dd =>
                  do x <- nth_res obj index;
                  do r2 <- rec h1 x dd; let '(h2, p) := r2 in
                  patch_list_go_s h2 obj (Nat.max take (index + 1)) d' (acc ++ [p])
              | SAdd _ v =>
                  do r2 <- cp (copy_diffvals cfg) n h1 v; let '(h2, v') := r2 in
                  patch_list_go_s h2 obj (Nat.max take index) d' (acc ++ [v'])
              | SRemove _ =>
                  patch_list_go_s h1 obj (Nat.max take (index + 1)) d' acc
              | SReplace _ v =>
                  do r2 <- cp (copy_diffvals cfg) n h1 v; let '(h2, v') := r2 in
                  patch_list_go_s h2 obj (Nat.max take (index + 1)) d' (acc ++ [v'])
              end
          end
      end.

    (* patch_dict, first loop: newobj grows in diff order (Python dict insertion order) *)
    Fixpoint patch_dict_go_s (h : heap) (obj : list (pystr * sval)) (d : list sentry)
             (newobj : list (pystr * sval)) (deleted : list pystr)
      : res (heap * list (pystr * sval) * list pystr) :=
      match d with
      | [] => Ok (h, newobj, deleted)
      | e :: d' =>
          match skey e with
          | KI _ => Err AssertionError
          | KS k =>
              if has_key k newobj then Err AssertionError else
              match e with
              | SAdd _ v =>
                  if has_key k obj then Err AssertionError else
                  do r <- cp (copy_diffvals cfg) n h v; let '(h1, v') := r in
                  patch_dict_go_s h1 obj d' (newobj ++ [(k, v')]) deleted
              | SRemove _ => patch_dict_go_s h obj d' newobj (k :: deleted)
              | SReplace _ v =>
                  if existsb (str_eqb k) deleted then Err AssertionError else
                  do r <- cp (copy_diffvals cfg) n h v; let '(h1, v') := r in
                  patch_dict_go_s h1 obj d' (newobj ++ [(k, v')]) deleted
              | SPatch _ dd =>
                  if existsb (str_eqb k) deleted then Err AssertionError else
                  match assoc k obj with
                  | None => Err KeyError
                  | Some x =>
                      do r <- rec h x dd; let '(h1, p) := r in
                      patch_dict_go_s h1 obj d' (newobj ++ [(k, p)]) deleted
                  end
              | _ => Err NBDiffFormatError
              end
          end
      end.

    (* second loop: items not mentioned in the diff, in obj's order *)
    Fixpoint patch_dict_rest_s (h : heap) (obj : list (pystr * sval)) (newobj : list (pystr * sval))
             (deleted : list pystr) : res (heap * list (pystr * sval)) :=
      match obj with
      | [] => Ok (h, newobj)
      | (k, v) :: rest =>
          if existsb (str_eqb k) deleted || has_key k newobj then patch_dict_rest_s h rest newobj deleted
          else
            do r <- cp (copy_untouched cfg) n h v; let '(h1, v') := r in
            patch_dict_rest_s h1 rest (newobj ++ [(k, v')]) deleted
      end.
  End Level.

  Fixpoint patch_s (n : nat) (h : heap) (obj : sval) (d : list sentry) : res (heap * sval) :=
    match n with
    | 0 => Err OutOfFuel
    | S n' =>
        match obj with
        | VAtom (JStr s) =>
            do d' <- reify n' h d;
            do r <- Patch.patch n (JStr s) d';
            Ok (h, VAtom r)
        | VAtom _ => Err ValueError
        | VRef l =>
            match nth_error h l with
            | None => Err RuntimeError
            | Some (CList vs) =>
                do r <- patch_list_go_s (patch_s n') n' h vs 0 d []; let '(h1, vs') := r in
                Ok (alloc h1 (CList vs'))
            | Some (CDict kv) =>
                do r <- patch_dict_go_s (patch_s n') n' h kv d [] []; let '(hn, deleted) := r in
                let '(h1, newobj) := hn in
                do r2 <- patch_dict_rest_s n' h1 kv newobj deleted; let '(h2, kv') := r2 in
                Ok (alloc h2 (CDict kv'))
            end
        end
    end.
End PatchS.

(* ---------- nbdime/diffing/notebooks.py: diff_single_outputs, display_data / execute_result branch ----------
     tmp_data = a.pop('data'); a_conj = copy.deepcopy(a); a.data = tmp_data
     tmp_data = b.pop('data'); b_conj = copy.deepcopy(b); b.data = tmp_data
     dd_conj = diff(a_conj, b_conj) ; dd = diff_mime_bundle(a.data, b.data, ...)
   The two nested diffs only read (their arguments are the fresh copies, resp. a.data/b.data), so the store effect of
   the function is the effect of the first six statements.  [fault] names the statement that raises:
   0 = first deepcopy, 1 = second deepcopy, 2 = a nested diff (after both restores). *)
Definition k_data := of_ascii "data"%string.

Definition dict_pop (h : heap) (l : loc) (k : pystr) : res (heap * sval) :=
  match nth_error h l with
  | Some (CDict kv) =>
      match assoc k kv with
      | Some v => Ok (upd h l (CDict (remove_key k kv)), v)
      | None => Err KeyError
      end
  | _ => Err TypeError
  end.

Definition dict_set (h : heap) (l : loc) (k : pystr) (v : sval) : res heap :=
  match nth_error h l with
  | Some (CDict kv) => Ok (upd h l (CDict (set_key k v kv)))
  | _ => Err TypeError
  end.

Inductive outcome := Returned | Raised (at_step : nat) | Failed (e : err).

Inductive pres := POk (cj : sval) | PFault | PErr (e : err).

Definition pop_copy_restore (restore_in_finally : bool) (fault : bool) (n : nat) (h : heap) (l : loc)
  : heap * pres :=
  match dict_pop h l k_data with
  | Err e => (h, PErr e)
  | Ok (h1, tmp) =>
      match (if fault then None else Some (deepcopy n h1 (VRef l))) with
      | Some (Ok (h2, cj)) =>
          match dict_set h2 l k_data tmp with
          | Ok h3 => (h3, POk cj)
          | Err e => (h2, PErr e)
          end
      | other =>
          (* deepcopy raised: the restore statement is skipped unless the source puts it in a finally clause *)
          let out := match other with Some (Err e) => PErr e | _ => PFault end in
          if restore_in_finally
          then match dict_set h1 l k_data tmp with Ok h2 => (h2, out) | Err _ => (h1, out) end
          else (h1, out)
      end
  end.

Definition dso (restore_in_finally : bool) (fault : option nat) (n : nat) (h : heap) (a b : loc)
  : heap * outcome :=
  let fa := match fault with Some 0 => true | _ => false end in
  let fb := match fault with Some 1 => true | _ => false end in
  match pop_copy_restore restore_in_finally fa n h a with
  | (h1, PErr e) => (h1, Failed e)
  | (h1, PFault) => (h1, Raised 0)
  | (h1, POk _) =>
      match pop_copy_restore restore_in_finally fb n h1 b with
      | (h2, PErr e) => (h2, Failed e)
      | (h2, PFault) => (h2, Raised 1)
      | (h2, POk _) =>
          match fault with
          | Some 2 => (h2, Raised 2)
          | _ => (h2, Returned)
          end
      end
  end.

(* ---------- MergeDecisionBuilder.validated: for d in self.decisions: if "strategy" in d: del d["strategy"] ---------- *)
Definition k_strategy := of_ascii "strategy"%string.

Definition del_strategy (h : heap) (v : sval) : heap :=
  match v with
  | VRef l =>
      match nth_error h l with
      | Some (CDict kv) => if has_key k_strategy kv then upd h l (CDict (remove_key k_strategy kv)) else h
      | _ => h
      end
  | VAtom _ => h
  end.

(* returns the new heap and the returned list object (sorted() builds a NEW list holding the same decision
   objects; the order is irrelevant here and kept) *)
Definition validated_s (h : heap) (builder_list : loc) : res (heap * sval) :=
  match nth_error h builder_list with
  | Some (CList ds) => let h1 := fold_left del_strategy ds h in Ok (alloc h1 (CList ds))
  | _ => Err TypeError
  end.

(* ---------- apply_decisions: merged = deepcopy(base); per group: parent[last_key] = patch(resolved, diffs) ---------- *)
Definition child (h : heap) (v : sval) (k : key) : res sval :=
  match v with
  | VAtom _ => Err TypeError
  | VRef l =>
      match nth_error h l, k with
      | Some (CList vs), KI i => nth_res vs i
      | Some (CDict kv), KS s => match assoc s kv with Some x => Ok x | None => Err KeyError end
      | Some _, _ => Err TypeError
      | None, _ => Err RuntimeError
      end
  end.

Fixpoint set_nth {A} (l : list A) (i : nat) (x : A) : list A :=
  match l, i with
  | [], _ => []
  | _ :: t, 0 => x :: t
  | y :: t, S i' => y :: set_nth t i' x
  end.

(* parent[last_key] = value *)
Definition store_item (h : heap) (parent : sval) (k : key) (x : sval) : res heap :=
  match parent with
  | VAtom _ => Err TypeError
  | VRef l =>
      match nth_error h l, k with
      | Some (CList vs), KI i => if Nat.ltb i (length vs) then Ok (upd h l (CList (set_nth vs i x))) else Err IndexError
      | Some (CDict kv), KS s => Ok (upd h l (CDict (set_key s x kv)))
      | Some _, _ => Err TypeError
      | None, _ => Err RuntimeError
      end
  end.

(* walk path from merged: returns (parent, last_key) option and resolved *)
Fixpoint resolve (h : heap) (resolved : sval) (parent : option (sval * key)) (path : list key)
  : res (option (sval * key) * sval) :=
  match path with
  | [] => Ok (parent, resolved)
  | k :: rest => do x <- child h resolved k; resolve h x (Some (resolved, k)) rest
  end.

Section Apply.
  Variable cfg : pcfg.
  (* one group of decisions sharing a path, already resolved to a diff on the object at that path *)
  Fixpoint apply_groups (n : nat) (h : heap) (merged : sval) (groups : list (list key * list sentry))
    : res (heap * sval) :=
    match groups with
    | [] => Ok (h, merged)
    | (path, d) :: rest =>
        do r <- resolve h merged None path; let '(parent, resolved) := r in
        do r2 <- patch_s cfg n h resolved d; let '(h1, p) := r2 in
        match parent with
        | None => apply_groups n h1 p rest                       (* merged = patch(resolved, diffs) *)
        | Some (par, k) =>
            do h2 <- store_item h1 par k p;                      (* parent[last_key] = patch(resolved, diffs) *)
            apply_groups n h2 merged rest
        end
    end.

  Definition apply_s (copy_base : bool) (n : nat) (h : heap) (base : sval) (groups : list (list key * list sentry))
    : res (heap * sval) :=
    do r <- cp copy_base n h base; let '(h1, merged) := r in
    apply_groups n h1 merged groups.
End Apply.

(* ---------- executable observations used by the correspondence check ---------- *)
Fixpoint mem_nat (x : nat) (l : list nat) : bool :=
  match l with [] => false | y :: ys => Nat.eqb x y || mem_nat x ys end.

(* all locations reachable from v (fuel-bounded preorder) *)
Fixpoint reach_list (n : nat) (h : heap) (v : sval) : list loc :=
  match v with
  | VAtom _ => []
  | VRef l =>
      match n with
      | 0 => [l]
      | S n' =>
          l :: match nth_error h l with
               | None => []
               | Some (CList vs) => flat_map (reach_list n' h) vs
               | Some (CDict kv) => flat_map (fun p => reach_list n' h (snd p)) kv
               end
      end
  end.

(* preorder walk of the mutable objects of v with their access paths; an object found in [stop] is reported
   with its tag and not entered (these are the maximal shared sub-objects) *)
Definition enc_path (p : list key) : json := JArr (map enc_key (rev p)).

Fixpoint shared_walk (n : nat) (h : heap) (tags : list (list loc * Z)) (path : list key) (v : sval) : list json :=
  match v with
  | VAtom _ => []
  | VRef l =>
      match find (fun t => mem_nat l (fst t)) tags with
      | Some t => [JArr [enc_path path; JInt (snd t)]]
      | None =>
          match n with
          | 0 => []
          | S n' =>
              match nth_error h l with
              | None => []
              | Some (CList vs) =>
                  (fix go (i : nat) (vs : list sval) : list json :=
                     match vs with
                     | [] => []
                     | x :: xs => shared_walk n' h tags (KI i :: path) x ++ go (S i) xs
                     end) 0 vs
              | Some (CDict kv) =>
                  flat_map (fun p => shared_walk n' h tags (KS (fst p) :: path) (snd p)) kv
              end
          end
      end
  end.

Definition err_code (e : err) : json :=
  JStr (match e with
        | AssertionError => of_ascii "AssertionError"%string | KeyError => of_ascii "KeyError"%string
        | IndexError => of_ascii "IndexError"%string | RuntimeError => of_ascii "RuntimeError"%string
        | NBDiffFormatError => of_ascii "NBDiffFormatError"%string | ValueError => of_ascii "ValueError"%string
        | TypeError => of_ascii "TypeError"%string | OutOfFuel => of_ascii "OutOfFuel"%string
        end).

(* patch observation: [value (insertion ordered); objects of the result shared with obj (tag 0) / with the
   diff's values (tag 1)]; or the error name *)
Definition observe_patch (cfg : pcfg) (n : nat) (a : json) (d : diff) : json :=
  let '(h1, obj) := load [] a in
  let '(h2, sd) := load_diff h1 d in
  match patch_s cfg n h2 obj sd with
  | Err e => err_code e
  | Ok (h3, r) =>
      match read n h3 r with
      | Err e => err_code e
      | Ok j =>
          let tags := [(reach_list n h3 obj, 0%Z); (flat_map (reach_list n h3) (dvalues sd), 1%Z)] in
          JArr [j; JArr (shared_walk n h3 tags [] r)]
      end
  end.

(* diff_single_outputs observation: key order and value of a and b afterwards + outcome code *)
Definition keys_of (h : heap) (l : loc) : json :=
  match nth_error h l with
  | Some (CDict kv) => JArr (map (fun p => JStr (fst p)) kv)
  | _ => JNull
  end.

Definition observe_dso (fin : bool) (fault : option nat) (n : nat) (a b : json) : json :=
  let '(h1, va) := load [] a in
  let '(h2, vb) := load h1 b in
  match va, vb with
  | VRef la, VRef lb =>
      let '(h3, out) := dso fin fault n h2 la lb in
      let rd v := match read n h3 v with Ok j => j | Err e => err_code e end in
      JArr [match out with Returned => JInt 0 | Raised k => JInt (1 + Z.of_nat k) | Failed e => err_code e end;
            keys_of h3 la; keys_of h3 lb; rd va; rd vb]
  | _, _ => JNull
  end.
