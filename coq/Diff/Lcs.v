(* nbdime/diffing/seq_bruteforce.py and lcs.py. *)
From Coq Require Import List NArith ZArith Bool Lia.
From NB Require Import Base.Res Base.Json Diff.DiffFormat Diff.Patch.
Import ListNotations.

(* `if snakes[0][2] == 0: snakes.pop(0)` *)
Definition pop_empty_first (l : list (nat * nat * nat)) : list (nat * nat * nat) :=
  match l with
  | (_, _, 0) :: rest => rest
  | _ => l
  end.

Section Lcs.
  Variable compare : json -> json -> bool.

  (* bruteforce_llcs_grid: R[x][y] = llcs(A[:x], B[:y]).  [next_row] computes R[x][1..M] from
     R[x-1][0..M] (prev) and the running R[x][y-1] (left). *)
  Fixpoint next_row (a : json) (B : list json) (prev : list nat) (left : nat) : list nat :=
    match B, prev with
    | b :: B', pd :: ((pu :: _) as prev') =>
        let v := if compare a b then pd + 1 else Nat.max pu left in
        v :: next_row a B' prev' v
    | _, _ => []
    end.

  Definition grid_row (a : json) (B : list json) (prev : list nat) : list nat :=
    0 :: next_row a B prev 0.

  Fixpoint grid_rows (A B : list json) (prev : list nat) : list (list nat) :=
    match A with
    | [] => []
    | a :: A' => let r := grid_row a B prev in r :: grid_rows A' B r
    end.

  Definition llcs_grid (A B : list json) : list (list nat) :=
    let row0 := repeat 0 (S (length B)) in row0 :: grid_rows A B row0.

  Definition rget (R : list (list nat)) (x y : nat) : nat := nth y (nth x R []) 0.

  Definition cmp_at (A B : list json) (i j : nat) : bool :=
    match nth_error A i, nth_error B j with
    | Some a, Some b => compare a b
    | _, _ => false
    end.

  (* bruteforce_lcs_indices: back-tracking from (N, M); the Python code appends and reverses,
     consing gives the same order. *)
  Fixpoint lcs_back (fuel : nat) (A B : list json) (R : list (list nat)) (x y : nat)
           (ai bi : list nat) : res (list nat * list nat) :=
    match fuel with
    | 0 => Ok (ai, bi)
    | S fuel' =>
        match x, y with
        | S x', S y' =>
            if cmp_at A B x' y' then
              if Nat.eqb (rget R x y) (rget R x' y' + 1)
              then lcs_back fuel' A B R x' y' (x' :: ai) (y' :: bi)
              else Err AssertionError
            else if Nat.eqb (rget R x y) (rget R x' y) then lcs_back fuel' A B R x' y ai bi
            else if Nat.eqb (rget R x y) (rget R x y') then lcs_back fuel' A B R x y' ai bi
            else Err AssertionError
        | _, _ => Ok (ai, bi)
        end
    end.

  Definition lcs_indices (A B : list json) : res (list nat * list nat) :=
    lcs_back (length A + length B) A B (llcs_grid A B) (length A) (length B) [] [].

  (* bruteforce_compute_snakes: note that the Python code compares the *start* of the last snake
     with (i, j), so only the leading (0,0,0) sentinel is ever extended. *)
  Fixpoint snakes_of_indices (rsnakes : list (nat * nat * nat)) (ai bi : list nat)
    : list (nat * nat * nat) :=
    match ai, bi with
    | i :: ai', j :: bi' =>
        match rsnakes with
        | (si, sj, sn) :: rest =>
            if Nat.eqb si i && Nat.eqb sj j
            then snakes_of_indices ((si, sj, sn + 1) :: rest) ai' bi'
            else snakes_of_indices ((i, j, 1) :: rsnakes) ai' bi'
        | [] => snakes_of_indices [(i, j, 1)] ai' bi'
        end
    | _, _ => rsnakes
    end.

  Definition bruteforce_compute_snakes (A B : list json) : res (list (nat * nat * nat)) :=
    do ab <- lcs_indices A B;
    let '(ai, bi) := ab in
    Ok (pop_empty_first (rev (snakes_of_indices [(0, 0, 0)] ai bi))).
End Lcs.

(* lcs.diff_from_lcs *)
Fixpoint diff_from_lcs_go (B : list json) (N M : nat) (ai bi : list nat) (x y : nat)
         (di : list dentry) : list dentry :=
  match ai, bi with
  | i :: ai', j :: bi' =>
      let di := if Nat.ltb x i then b_removerange di x (i - x) else di in
      let di := if Nat.ltb y j then b_addrange di x (VList (slice B y j)) else di in
      diff_from_lcs_go B N M ai' bi' (i + 1) (j + 1) di
  | _, _ =>
      let di := if Nat.ltb x N then b_removerange di x (N - x) else di in
      let di := if Nat.ltb y M then b_addrange di x (VList (slice B y M)) else di in
      di
  end.

Definition diff_from_lcs (A B : list json) (ai bi : list nat) : res (list dentry) :=
  if Nat.eqb (length ai) (length bi)
  then Ok (diff_from_lcs_go B (length A) (length B) ai bi 0 0 [])
  else Err AssertionError.

Definition diff_sequence_bruteforce (compare : json -> json -> bool) (A B : list json)
  : res (list dentry) :=
  do ab <- lcs_indices compare A B;
  diff_from_lcs A B (fst ab) (snd ab).
