(* Generic facts about the schema validator used by the renderer theorems (C04) and the decision theorems (C09). *)
From Coq Require Import List NArith ZArith Bool Lia.
From NB Require Import Base.Json Schema.Schema.
Import ListNotations.

(* ---------- unfolding equations ---------- *)
Lemma validate_ref d n name s j :
  lookup_def name d = Some s -> validate d (S n) (SRef name) j = validate d n s j.
Proof. intros H. simpl. rewrite H. reflexivity. Qed.

Lemma validate_allof d n l j :
  validate d (S n) (SAllOf l) j = all_o (map (fun s' => validate d n s' j) l).
Proof. reflexivity. Qed.

Lemma validate_props_obj d n props pprops addl kv :
  validate d (S n) (SProps props pprops addl) (JObj kv) = all_o (map (entry_check (validate d n) props pprops addl) kv).
Proof. reflexivity. Qed.

Lemma validate_items_arr d n s l :
  validate d (S n) (SItems s) (JArr l) = all_o (map (validate d n s) l).
Proof. reflexivity. Qed.

(* ---------- all_o ---------- *)
Lemma all_o_true l : all_o l = Some true <-> Forall (fun x => x = Some true) l.
Proof.
  induction l as [|x r IH]; simpl.
  - split; auto.
  - split.
    + destruct x as [[|]|]; destruct (all_o r) as [[|]|]; simpl; try discriminate.
      intros _. constructor; auto. apply IH. reflexivity.
    + intros H. inversion H; subst. apply IH in H3. rewrite H3. reflexivity.
Qed.

Lemma all_o_map_true {A} (f : A -> option bool) l :
  all_o (map f l) = Some true <-> (forall x, In x l -> f x = Some true).
Proof.
  rewrite all_o_true, Forall_forall. split.
  - intros H x Hx. apply H. apply in_map. exact Hx.
  - intros H y Hy. apply in_map_iff in Hy as (x & <- & Hx). auto.
Qed.

(* ---------- obj_set ---------- *)
Lemma obj_set_In k v kv p : In p (obj_set k v kv) -> p = (k, v) \/ In p kv.
Proof.
  induction kv as [|[k' v'] r IH]; simpl.
  - intros [<-|[]]. auto.
  - destruct (str_cmp k k'); simpl.
    + intros [<-|H]; auto.
    + intros [<-|H]; auto.
    + intros [<-|H]; auto. apply IH in H as [->|H]; auto.
Qed.

Lemma obj_has_set_mono k v kv k' : obj_has k' kv = true -> obj_has k' (obj_set k v kv) = true.
Proof.
  unfold obj_has. induction kv as [|[k0 v0] r IH]; simpl.
  - discriminate.
  - destruct (str_cmp k k0) eqn:C; simpl.
    + apply str_cmp_eq in C. subst k0.
      destruct (str_eqb k' k); auto.
    + destruct (str_eqb k' k); auto.
    + destruct (str_eqb k' k0); auto.
Qed.

(* ---------- adding / replacing one entry of an object ---------- *)
(* keywords of an object schema whose verdict survives setting entry (k, v) *)
Definition kw_ok_for_set (d : defs) (n : nat) (k : pystr) (v : json) (s : schema) : Prop :=
  match s with
  | SType _ | SRequired _ => True
  | SProps props pprops addl => entry_check (validate d n) props pprops addl (k, v) = Some true
  | _ => False
  end.

Lemma has_type_obj kv kv' t : has_type (JObj kv) t = has_type (JObj kv') t.
Proof. destruct t; reflexivity. Qed.

Lemma kw_set d n k v kv s :
  kw_ok_for_set d n k v s ->
  validate d (S n) s (JObj kv) = Some true -> validate d (S n) s (JObj (obj_set k v kv)) = Some true.
Proof.
  destruct s; simpl; try contradiction; intros Hok Hv.
  - rewrite <- Hv. reflexivity.
  - rewrite all_o_map_true in *. intros p Hp. apply obj_set_In in Hp as [->|Hp]; auto.
  - injection Hv as Hv. f_equal. rewrite forallb_forall in *. intros x Hx. apply obj_has_set_mono. auto.
Qed.

Lemma allof_set d n l k v kv :
  Forall (kw_ok_for_set d n k v) l ->
  validate d (S (S n)) (SAllOf l) (JObj kv) = Some true ->
  validate d (S (S n)) (SAllOf l) (JObj (obj_set k v kv)) = Some true.
Proof.
  rewrite !validate_allof, !all_o_map_true. intros Hok Hv s Hs.
  rewrite Forall_forall in Hok. apply kw_set; auto.
Qed.

(* syntactic sufficient condition: the key is an unconstrained additional property *)
Definition open_kw (k : pystr) (s : schema) : bool :=
  match s with
  | SType _ | SRequired _ => true
  | SProps props pprops None =>
      match assoc_s k props with
      | None => negb (existsb (fun ps : pat * schema => pat_match (fst ps) k) pprops)
      | Some _ => false
      end
  | _ => false
  end.

Lemma open_kw_ok d n k v l : forallb (open_kw k) l = true -> Forall (kw_ok_for_set d n k v) l.
Proof.
  rewrite forallb_forall, Forall_forall. intros H s Hs. specialize (H s Hs).
  destruct s; simpl in *; try discriminate; auto.
  destruct addl; try discriminate.
  unfold entry_check. destruct (assoc_s k props); try discriminate.
  apply negb_true_iff in H. rewrite H. simpl.
  assert (E : all_o (map (fun ps : pat * schema => if pat_match (fst ps) k then validate d n (snd ps) v else Some true) pprops) = Some true).
  { apply all_o_map_true. intros ps Hps.
    destruct (pat_match (fst ps) k) eqn:E; auto.
    exfalso. assert (existsb (fun ps0 : pat * schema => pat_match (fst ps0) k) pprops = true).
    { apply existsb_exists. exists ps. auto. }
    congruence. }
  rewrite E. reflexivity.
Qed.
