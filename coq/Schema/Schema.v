(* A validator for the JSON-schema draft-04 subset that occurs in nbformat's v4.0 .. v4.5 schemas and in nbdime's
   diff_format / merge_format schemas, with the semantics of jsonschema.Draft4Validator (Python):
     - "integer" is a non-bool int (1.0 is NOT an integer in draft 4), "number" a non-bool int or float;
     - `$ref` ignores its siblings; references are resolved in a flat table keyed by "<document>#<pointer>";
     - `pattern` / `patternProperties` use re.search; the handful of regexes that occur are hand-coded matchers
       (constructor [pat]); the translator fails closed on any other regex;
     - keywords that constrain one JSON kind are vacuous on the others.
   A JSON-schema object is the conjunction [SAllOf] of its keywords; [SAllOf []] is the empty schema {}.
   Recursion is on explicit fuel; [None] means "fuel exhausted or dangling $ref", and is propagated strictly, so that
   [Some b] is stable under more fuel (SchemaProofs.validate_mono). *)
From Coq Require Import List NArith ZArith Bool Lia.
From NB Require Import Base.Json.
Import ListNotations.

Inductive jtype := TNull | TBool | TInt | TNum | TStr | TArr | TObj.

(* the regexes of the translated schemas *)
Inductive pat :=
| PAny            (*  .*                       *)
| PLine           (*  ^.*$                     *)
| PNonEmptyLine   (*  ^.+$                     *)
| PNoComma        (*  ^[^,]+$                  *)
| PCellId         (*  ^[a-zA-Z0-9-_]+$         *)
| PJsonMime.      (*  ^application/(.*\+)?json$ *)

Inductive schema :=
| SRef (name : pystr)
| SFalse
| SType (ts : list jtype)
| SEnum (vs : list json)
| SProps (props : list (pystr * schema)) (pprops : list (pat * schema)) (addl : option schema)
    (* properties / patternProperties / additionalProperties (None = unconstrained; Some SFalse = forbidden) *)
| SRequired (ks : list pystr)
| SItems (s : schema)
| SAllOf (l : list schema)
| SAnyOf (l : list schema)
| SOneOf (l : list schema)
| SNot (s : schema)
| SMinimum (z : Z)
| SMaximum (z : Z)
| SMinLength (n : nat)
| SMaxLength (n : nat)
| SMinItems (n : nat)
| SPattern (p : pat)
| SUnique.

Definition defs := list (pystr * schema).

Fixpoint lookup_def (n : pystr) (d : defs) : option schema :=
  match d with
  | [] => None
  | (k, s) :: r => if str_eqb n k then Some s else lookup_def n r
  end.

(* ---------- three-valued combinators ---------- *)
Fixpoint all_o (l : list (option bool)) : option bool :=
  match l with
  | [] => Some true
  | x :: r => match x, all_o r with Some a, Some b => Some (a && b) | _, _ => None end
  end.

Fixpoint count_o (l : list (option bool)) : option nat :=
  match l with
  | [] => Some 0
  | x :: r => match x, count_o r with Some a, Some n => Some ((if a then 1 else 0) + n) | _, _ => None end
  end.

Definition any_o (l : list (option bool)) : option bool :=
  match count_o l with Some n => Some (negb (Nat.eqb n 0)) | None => None end.
Definition one_o (l : list (option bool)) : option bool :=
  match count_o l with Some n => Some (Nat.eqb n 1) | None => None end.

(* ---------- regex matchers (Python re.search semantics: `.` excludes LF only, `$` also matches before a final LF) ---------- *)
Definition LF : N := 10%N.
Fixpoint strip_nl (s : pystr) : pystr :=     (* drop one final LF, if any *)
  match s with
  | [] => []
  | [c] => if N.eqb c LF then [] else [c]
  | c :: r => c :: strip_nl r
  end.
Definition no_nl (s : pystr) : bool := forallb (fun c => negb (N.eqb c LF)) s.
Definition nonempty (s : pystr) : bool := match s with [] => false | _ => true end.
Definition id_char (c : N) : bool :=
  ((97 <=? c) && (c <=? 122) || (65 <=? c) && (c <=? 90) || (48 <=? c) && (c <=? 57) || (c =? 45) || (c =? 95))%N.
Fixpoint strip_prefix (p s : pystr) : option pystr :=
  match p, s with
  | [], _ => Some s
  | x :: p', y :: s' => if N.eqb x y then strip_prefix p' s' else None
  | _ :: _, [] => None
  end.
Definition strip_suffix (p s : pystr) : option pystr :=
  match strip_prefix (rev p) (rev s) with Some r => Some (rev r) | None => None end.
Definition s_application : pystr := [97;112;112;108;105;99;97;116;105;111;110;47]%N.   (* "application/" *)
Definition s_json : pystr := [106;115;111;110]%N.                                      (* "json" *)
Definition PLUS : N := 43%N.

Definition pat_match (p : pat) (s : pystr) : bool :=
  match p with
  | PAny => true
  | PLine => no_nl (strip_nl s)
  | PNonEmptyLine => let t := strip_nl s in nonempty t && no_nl t
  | PNoComma => nonempty s && forallb (fun c => negb (N.eqb c 44%N)) s
  | PCellId => let t := strip_nl s in nonempty t && forallb id_char t
  | PJsonMime =>
      match strip_prefix s_application (strip_nl s) with
      | None => false
      | Some r =>
          match strip_suffix s_json r with
          | None => false
          | Some mid =>
              match rev mid with
              | [] => true
              | c :: _ => N.eqb c PLUS && no_nl mid
              end
          end
      end
  end.

(* ---------- keyword semantics on atoms ---------- *)
Definition has_type (j : json) (t : jtype) : bool :=
  match t, j with
  | TNull, JNull => true
  | TBool, JBool _ => true
  | TInt, JInt _ => true
  | TNum, JInt _ => true
  | TNum, JFlt _ _ => true
  | TStr, JStr _ => true
  | TArr, JArr _ => true
  | TObj, JObj _ => true
  | _, _ => false
  end.

(* value of a JSON number compared with an integer bound: m * 2^e ? z *)
Definition num_cmp_z (m e z : Z) : comparison :=
  if Z.leb 0 e then Z.compare (m * 2 ^ e) z else Z.compare m (z * 2 ^ (- e)).
Definition ge_bound (j : json) (z : Z) : bool :=
  match j with
  | JInt x => Z.leb z x
  | JFlt m e => match num_cmp_z m e z with Lt => false | _ => true end
  | _ => true
  end.
Definition le_bound (j : json) (z : Z) : bool :=
  match j with
  | JInt x => Z.leb x z
  | JFlt m e => match num_cmp_z m e z with Gt => false | _ => true end
  | _ => true
  end.

(* jsonschema._utils.equal: Python == except that booleans are never equal to numbers *)
Fixpoint js_eqb (a b : json) {struct a} : bool :=
  match a, b with
  | JBool x, JBool y => Bool.eqb x y
  | JBool _, _ | _, JBool _ => false
  | JArr l, JArr l' =>
      (fix go (l l' : list json) : bool :=
         match l, l' with
         | [], [] => true
         | x :: xs, y :: ys => js_eqb x y && go xs ys
         | _, _ => false
         end) l l'
  | JObj kv, JObj kv' =>
      (fix go (l l' : list (pystr * json)) : bool :=
         match l, l' with
         | [], [] => true
         | (k, x) :: xs, (k', y) :: ys => str_eqb k k' && js_eqb x y && go xs ys
         | _, _ => false
         end) kv kv'
  | _, _ => py_eqb a b
  end.

Fixpoint uniqb (l : list json) : bool :=
  match l with
  | [] => true
  | x :: r => negb (existsb (js_eqb x) r) && uniqb r
  end.

Fixpoint assoc_s (k : pystr) (l : list (pystr * schema)) : option schema :=
  match l with
  | [] => None
  | (k', s) :: r => if str_eqb k k' then Some s else assoc_s k r
  end.

(* ---------- the validator ---------- *)
(* one object entry against properties / patternProperties / additionalProperties; [vf] is the validator one level down *)
Definition entry_check (vf : schema -> json -> option bool) (props : list (pystr * schema)) (pprops : list (pat * schema))
           (addl : option schema) (kvp : pystr * json) : option bool :=
  let (k, v) := kvp in
  let named := assoc_s k props in
  let a := match named with Some s' => vf s' v | None => Some true end in
  let b := all_o (map (fun ps : pat * schema => if pat_match (fst ps) k then vf (snd ps) v else Some true) pprops) in
  let extra := match named with Some _ => false | None => negb (existsb (fun ps : pat * schema => pat_match (fst ps) k) pprops) end in
  let c := if extra then match addl with None => Some true | Some s' => vf s' v end else Some true in
  all_o [a; b; c].

Fixpoint validate (d : defs) (fuel : nat) (s : schema) (j : json) {struct fuel} : option bool :=
  match fuel with
  | O => None
  | S n =>
    match s with
    | SRef name => match lookup_def name d with Some s' => validate d n s' j | None => None end
    | SFalse => Some false
    | SType ts => Some (existsb (has_type j) ts)
    | SEnum vs => Some (existsb (json_eqb j) vs)
    | SProps props pprops addl =>
        match j with
        | JObj kv => all_o (map (entry_check (validate d n) props pprops addl) kv)
        | _ => Some true
        end
    | SRequired ks =>
        match j with
        | JObj kv => Some (forallb (fun k => obj_has k kv) ks)
        | _ => Some true
        end
    | SItems s' =>
        match j with
        | JArr l => all_o (map (validate d n s') l)
        | _ => Some true
        end
    | SAllOf l => all_o (map (fun s' => validate d n s' j) l)
    | SAnyOf l => any_o (map (fun s' => validate d n s' j) l)
    | SOneOf l => one_o (map (fun s' => validate d n s' j) l)
    | SNot s' => match validate d n s' j with Some b => Some (negb b) | None => None end
    | SMinimum z => Some (ge_bound j z)
    | SMaximum z => Some (le_bound j z)
    | SMinLength k => match j with JStr t => Some (Nat.leb k (length t)) | _ => Some true end
    | SMaxLength k => match j with JStr t => Some (Nat.leb (length t) k) | _ => Some true end
    | SMinItems k => match j with JArr l => Some (Nat.leb k (length l)) | _ => Some true end
    | SPattern p => match j with JStr t => Some (pat_match p t) | _ => Some true end
    | SUnique => match j with JArr l => Some (uniqb l) | _ => Some true end
    end
  end.

(* [valid d s j]: j conforms to s (for some, hence by monotonicity every larger, amount of fuel) *)
Definition valid (d : defs) (s : schema) (j : json) : Prop := exists fuel, validate d fuel s j = Some true.
Definition invalid (d : defs) (s : schema) (j : json) : Prop := exists fuel, validate d fuel s j = Some false.

(* default fuel used when the validator is run (harness cases): ample for every document the harness builds *)
Definition run_fuel : nat := 200.
Definition validate_run (d : defs) (s : schema) (j : json) : option bool := validate d run_fuel s j.
