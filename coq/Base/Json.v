(* JSON values as nbdime sees them after json.load: Python str/int/float/bool/None/list/dict.
   Strings are lists of Unicode code points.  Objects are association lists; the well-formedness
   predicate [wfj] asks for strictly increasing keys (code-point order, which is Python's str order),
   which quotients out dict insertion order exactly as sort_keys=True serialisation does. *)
From Coq Require Import List NArith ZArith Bool Lia.
Import ListNotations.

Definition pystr := list N.

Inductive json :=
| JNull
| JBool (b : bool)
| JInt (z : Z)
| JFlt (m e : Z)          (* finite double m * 2^e, m odd; zero is m = 0 with e = 0 (+0.0) or e = 1 (-0.0) *)
| JStr (s : pystr)
| JArr (l : list json)
| JObj (kv : list (pystr * json)).

(* ---------- induction principle for the nested type ---------- *)
Section JsonInd.
  Variable P : json -> Prop.
  Hypothesis Hnull : P JNull.
  Hypothesis Hbool : forall b, P (JBool b).
  Hypothesis Hint : forall z, P (JInt z).
  Hypothesis Hflt : forall m e, P (JFlt m e).
  Hypothesis Hstr : forall s, P (JStr s).
  Hypothesis Harr : forall l, Forall P l -> P (JArr l).
  Hypothesis Hobj : forall kv, Forall (fun p => P (snd p)) kv -> P (JObj kv).

  Fixpoint json_ind' (j : json) : P j :=
    match j with
    | JNull => Hnull
    | JBool b => Hbool b
    | JInt z => Hint z
    | JFlt m e => Hflt m e
    | JStr s => Hstr s
    | JArr l => Harr l ((fix go (l : list json) : Forall P l :=
                           match l with
                           | [] => Forall_nil _
                           | x :: xs => Forall_cons _ (json_ind' x) (go xs)
                           end) l)
    | JObj kv => Hobj kv ((fix go (kv : list (pystr * json)) : Forall (fun p => P (snd p)) kv :=
                           match kv with
                           | [] => Forall_nil _
                           | (k, v) :: xs => Forall_cons (k, v) (json_ind' v) (go xs)
                           end) kv)
    end.
End JsonInd.

(* ---------- strings ---------- *)
Fixpoint str_eqb (a b : pystr) : bool :=
  match a, b with
  | [], [] => true
  | x :: xs, y :: ys => N.eqb x y && str_eqb xs ys
  | _, _ => false
  end.

Lemma str_eqb_eq a b : str_eqb a b = true <-> a = b.
Proof.
  revert b; induction a as [|x xs IH]; intros [|y ys]; simpl; split; intros H;
    try discriminate; try reflexivity.
  - apply andb_true_iff in H as [H1 H2]. apply N.eqb_eq in H1. apply IH in H2. congruence.
  - inversion H; subst. rewrite N.eqb_refl. simpl. apply IH. reflexivity.
Qed.

Lemma str_eqb_refl a : str_eqb a a = true.
Proof. apply str_eqb_eq. reflexivity. Qed.

(* Python's str ordering: lexicographic by code point *)
Fixpoint str_cmp (a b : pystr) : comparison :=
  match a, b with
  | [], [] => Eq
  | [], _ :: _ => Lt
  | _ :: _, [] => Gt
  | x :: xs, y :: ys => match N.compare x y with Eq => str_cmp xs ys | c => c end
  end.

Definition str_ltb (a b : pystr) : bool := match str_cmp a b with Lt => true | _ => false end.

Lemma str_cmp_eq a b : str_cmp a b = Eq <-> a = b.
Proof.
  revert b; induction a as [|x xs IH]; intros [|y ys]; simpl; split; intros H;
    try discriminate; try reflexivity.
  - destruct (N.compare_spec x y); try discriminate. subst. f_equal. apply IH. exact H.
  - inversion H; subst. rewrite N.compare_refl. apply IH. reflexivity.
Qed.

Lemma str_cmp_antisym a b : str_cmp b a = CompOpp (str_cmp a b).
Proof.
  revert b; induction a as [|x xs IH]; intros [|y ys]; simpl; try reflexivity.
  rewrite (N.compare_antisym x y). destruct (N.compare x y); simpl; auto.
Qed.

Lemma str_cmp_trans a b c : str_cmp a b = Lt -> str_cmp b c = Lt -> str_cmp a c = Lt.
Proof.
  revert b c; induction a as [|x xs IH]; intros [|y ys] [|z zs]; simpl; try discriminate; auto.
  destruct (N.compare_spec x y), (N.compare_spec y z); try discriminate; subst; intros H1 H2.
  - rewrite N.compare_refl. eauto.
  - destruct (N.compare_spec y z); try lia; auto.
  - destruct (N.compare_spec x z); try lia; auto.
  - destruct (N.compare_spec x z); try lia; auto.
Qed.

Lemma str_ltb_irrefl a : str_ltb a a = false.
Proof. unfold str_ltb. assert (str_cmp a a = Eq) by (apply str_cmp_eq; auto). rewrite H. reflexivity. Qed.

Lemma str_ltb_trans a b c : str_ltb a b = true -> str_ltb b c = true -> str_ltb a c = true.
Proof.
  unfold str_ltb. destruct (str_cmp a b) eqn:E1; try discriminate.
  destruct (str_cmp b c) eqn:E2; try discriminate. intros _ _.
  rewrite (str_cmp_trans _ _ _ E1 E2). reflexivity.
Qed.

Lemma str_ltb_asym a b : str_ltb a b = true -> str_ltb b a = false.
Proof.
  unfold str_ltb. rewrite (str_cmp_antisym a b). destruct (str_cmp a b); simpl; congruence.
Qed.

Lemma str_trichotomy a b : str_ltb a b = true \/ a = b \/ str_ltb b a = true.
Proof.
  unfold str_ltb. rewrite (str_cmp_antisym a b). destruct (str_cmp a b) eqn:E; simpl; auto.
  right; left. apply str_cmp_eq. exact E.
Qed.

(* ---------- strict (syntactic) equality ---------- *)
Fixpoint json_eqb (a b : json) {struct a} : bool :=
  match a, b with
  | JNull, JNull => true
  | JBool x, JBool y => Bool.eqb x y
  | JInt x, JInt y => Z.eqb x y
  | JFlt m e, JFlt m' e' => Z.eqb m m' && Z.eqb e e'
  | JStr s, JStr t => str_eqb s t
  | JArr l, JArr l' =>
      (fix go (l l' : list json) : bool :=
         match l, l' with
         | [], [] => true
         | x :: xs, y :: ys => json_eqb x y && go xs ys
         | _, _ => false
         end) l l'
  | JObj kv, JObj kv' =>
      (fix go (l l' : list (pystr * json)) : bool :=
         match l, l' with
         | [], [] => true
         | (k, x) :: xs, (k', y) :: ys => str_eqb k k' && json_eqb x y && go xs ys
         | _, _ => false
         end) kv kv'
  | _, _ => false
  end.

Lemma json_eqb_eq a : forall b, json_eqb a b = true <-> a = b.
Proof.
  induction a using json_ind'; intros j; destruct j; simpl; split; intros H0;
    try discriminate; try reflexivity.
  - apply Bool.eqb_prop in H0. congruence.
  - inversion H0. apply Bool.eqb_reflx.
  - apply Z.eqb_eq in H0. congruence.
  - inversion H0. apply Z.eqb_refl.
  - apply andb_true_iff in H0 as [H1 H2]. apply Z.eqb_eq in H1, H2. congruence.
  - inversion H0. rewrite !Z.eqb_refl. reflexivity.
  - apply str_eqb_eq in H0. congruence.
  - inversion H0. apply str_eqb_refl.
  - f_equal. revert l0 H0. induction H as [|x xs Hx Hxs IH]; intros [|y ys] H0; try discriminate; auto.
    apply andb_true_iff in H0 as [H1 H2]. apply Hx in H1. apply IH in H2. congruence.
  - inversion H0; subst. clear H0. induction H as [|x xs Hx Hxs IH]; auto.
    rewrite IH. rewrite (proj2 (Hx x) eq_refl). reflexivity.
  - f_equal. revert kv0 H0. induction H as [|[k x] xs Hx Hxs IH]; intros [|[k' y] ys] H0; try discriminate; auto.
    apply andb_true_iff in H0 as [H1 H2]. apply andb_true_iff in H1 as [H1 H3].
    apply str_eqb_eq in H1. simpl in Hx. apply Hx in H3. apply IH in H2. congruence.
  - inversion H0; subst. clear H0. induction H as [|[k x] xs Hx Hxs IH]; auto.
    rewrite IH. simpl in Hx. rewrite (proj2 (Hx x) eq_refl). rewrite str_eqb_refl. reflexivity.
Qed.

Lemma json_eqb_refl a : json_eqb a a = true.
Proof. apply json_eqb_eq. reflexivity. Qed.

Lemma json_eqb_neq a b : json_eqb a b = false <-> a <> b.
Proof.
  split; intros H.
  - intros ->. rewrite json_eqb_refl in H. discriminate.
  - destruct (json_eqb a b) eqn:E; auto. apply json_eqb_eq in E. contradiction.
Qed.

Definition json_eq_dec (a b : json) : {a = b} + {a <> b}.
Proof.
  destruct (json_eqb a b) eqn:E.
  - left. apply json_eqb_eq. exact E.
  - right. apply json_eqb_neq. exact E.
Defined.

(* ---------- Python == on JSON values (numeric tower: bool < int < float) ---------- *)
Definition num_of (j : json) : option (Z * Z) :=   (* value = fst * 2^snd, snd >= 0 or fst odd *)
  match j with
  | JBool b => Some ((if b then 1 else 0)%Z, 0%Z)
  | JInt z => Some (z, 0%Z)
  | JFlt m e => if Z.eqb m 0 then Some (0%Z, 0%Z) else Some (m, e)
  | _ => None
  end.

Definition num_eqb (x y : Z * Z) : bool :=
  let '(m, e) := x in let '(m', e') := y in
  if Z.leb e e'
  then (if Z.leb 0 e then Z.eqb (m * 2 ^ e) (m' * 2 ^ e') else Z.eqb m (m' * 2 ^ (e' - e)))
  else (if Z.leb 0 e' then Z.eqb (m * 2 ^ e) (m' * 2 ^ e') else Z.eqb (m * 2 ^ (e - e')) m').

Fixpoint py_eqb (a b : json) {struct a} : bool :=
  match num_of a, num_of b with
  | Some x, Some y => num_eqb x y
  | Some _, None | None, Some _ => false
  | None, None =>
    match a, b with
    | JNull, JNull => true
    | JStr s, JStr t => str_eqb s t
    | JArr l, JArr l' =>
        (fix go (l l' : list json) : bool :=
           match l, l' with
           | [], [] => true
           | x :: xs, y :: ys => py_eqb x y && go xs ys
           | _, _ => false
           end) l l'
    | JObj kv, JObj kv' =>
        (fix go (l l' : list (pystr * json)) : bool :=
           match l, l' with
           | [], [] => true
           | (k, x) :: xs, (k', y) :: ys => str_eqb k k' && py_eqb x y && go xs ys
           | _, _ => false
           end) kv kv'
    | _, _ => false
    end
  end.

(* ---------- kinds, depth, well-formedness ---------- *)
Inductive kind := KNull | KBool | KInt | KFlt | KStr | KArr | KObj.
Definition kind_of (j : json) : kind :=
  match j with
  | JNull => KNull | JBool _ => KBool | JInt _ => KInt | JFlt _ _ => KFlt
  | JStr _ => KStr | JArr _ => KArr | JObj _ => KObj
  end.
Definition kind_eqb (a b : kind) : bool :=
  match a, b with
  | KNull, KNull | KBool, KBool | KInt, KInt | KFlt, KFlt | KStr, KStr | KArr, KArr | KObj, KObj => true
  | _, _ => false
  end.
Lemma kind_eqb_eq a b : kind_eqb a b = true <-> a = b.
Proof. destruct a, b; simpl; split; intros; congruence. Qed.

Definition is_container (j : json) : bool :=
  match j with JStr _ | JArr _ | JObj _ => true | _ => false end.

Fixpoint depth (j : json) : nat :=
  match j with
  | JArr l => S (fold_right (fun x acc => Nat.max (depth x) acc) 0 l)
  | JObj kv => S (fold_right (fun p acc => Nat.max (depth (snd p)) acc) 0 kv)
  | JStr _ => 2   (* a string is diffed as a list of lines, each a list of chars *)
  | _ => 0
  end.

Fixpoint keys_sorted (kv : list (pystr * json)) : bool :=
  match kv with
  | [] => true
  | (k, _) :: rest =>
      match rest with
      | [] => true
      | (k', _) :: _ => str_ltb k k' && keys_sorted rest
      end
  end.

Fixpoint wfj (j : json) : bool :=
  match j with
  | JArr l => forallb wfj l
  | JObj kv => keys_sorted kv && forallb (fun p => wfj (snd p)) kv
  | _ => true
  end.

(* association-list helpers on sorted objects *)
Fixpoint obj_get (k : pystr) (kv : list (pystr * json)) : option json :=
  match kv with
  | [] => None
  | (k', v) :: rest => if str_eqb k k' then Some v else obj_get k rest
  end.

Fixpoint obj_set (k : pystr) (v : json) (kv : list (pystr * json)) : list (pystr * json) :=
  match kv with
  | [] => [(k, v)]
  | (k', v') :: rest =>
      match str_cmp k k' with
      | Lt => (k, v) :: kv
      | Eq => (k, v) :: rest
      | Gt => (k', v') :: obj_set k v rest
      end
  end.

Definition obj_has (k : pystr) (kv : list (pystr * json)) : bool :=
  match obj_get k kv with Some _ => true | None => false end.
