(* Result type: Python exceptions rendered as explicit error values. *)
From Coq Require Import List.
Import ListNotations.

Inductive err :=
| AssertionError | KeyError | IndexError | RuntimeError | NBDiffFormatError
| ValueError | TypeError | OutOfFuel.

Inductive res (A : Type) := Ok (a : A) | Err (e : err).
Arguments Ok {A} a.
Arguments Err {A} e.

Definition bind {A B} (r : res A) (f : A -> res B) : res B :=
  match r with Ok a => f a | Err e => Err e end.

Notation "'do' x <- r ; k" := (bind r (fun x => k))
  (at level 200, x pattern, r at level 100, k at level 200, right associativity).

Definition assert_ (c : bool) : res unit := if c then Ok tt else Err AssertionError.

Definition is_ok {A} (r : res A) : bool := match r with Ok _ => true | Err _ => false end.

Lemma bind_ok {A B} (r : res A) (f : A -> res B) b :
  bind r f = Ok b -> exists a, r = Ok a /\ f a = Ok b.
Proof. destruct r; simpl; intros H; [eauto | discriminate]. Qed.

Fixpoint mapM {A B} (f : A -> res B) (l : list A) : res (list B) :=
  match l with
  | [] => Ok []
  | x :: xs => do y <- f x; do ys <- mapM f xs; Ok (y :: ys)
  end.
