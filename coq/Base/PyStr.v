(* Python str.splitlines(keepends=True). *)
From Coq Require Import List NArith Bool Lia Wf_nat.
From NB Require Import Base.Json.
Import ListNotations.
Local Open Scope N_scope.

(* line boundaries recognised by str.splitlines, CR handled separately (CRLF) *)
Definition is_sep (c : N) : bool :=
  (c =? 10) || (c =? 11) || (c =? 12) || (c =? 28) || (c =? 29) || (c =? 30)
  || (c =? 133) || (c =? 8232) || (c =? 8233).

Fixpoint splitlines (s : pystr) : list pystr :=
  match s with
  | [] => []
  | c :: rest =>
      if c =? 13 then
        match rest with
        | c' :: rest' => if c' =? 10 then [13; 10] :: splitlines rest' else [13] :: splitlines rest
        | [] => [[13]]
        end
      else if is_sep c then [c] :: splitlines rest
      else match splitlines rest with
           | [] => [[c]]
           | l :: ls => (c :: l) :: ls
           end
  end.

Definition splitlines_step (c : N) (rest : pystr) (rec : pystr -> list pystr) : list pystr :=
  if c =? 13 then
    match rest with
    | c' :: rest' => if c' =? 10 then [13; 10] :: rec rest' else [13] :: rec rest
    | [] => [[13]]
    end
  else if is_sep c then [c] :: rec rest
  else match rec rest with
       | [] => [[c]]
       | l :: ls => (c :: l) :: ls
       end.

Lemma splitlines_cons c rest : splitlines (c :: rest) = splitlines_step c rest splitlines.
Proof. reflexivity. Qed.

Lemma splitlines_concat s : concat (splitlines s) = s.
Proof.
  remember (length s) as n eqn:Hn. revert s Hn.
  induction n as [n IH] using lt_wf_ind. intros s Hn.
  destruct s as [|c rest]; [reflexivity|]. rewrite splitlines_cons. unfold splitlines_step.
  destruct (c =? 13) eqn:E13.
  - apply N.eqb_eq in E13. subst c. destruct rest as [|c' rest']; [reflexivity|].
    destruct (c' =? 10) eqn:E10.
    + apply N.eqb_eq in E10. subst c'. cbn [concat app]. f_equal. f_equal.
      apply (IH (length rest')); cbn [length] in *; [lia | reflexivity].
    + cbn [concat app]. f_equal. apply (IH (length (c' :: rest'))); cbn [length] in *; [lia | reflexivity].
  - destruct (is_sep c).
    + cbn [concat app]. f_equal. apply (IH (length rest)); cbn [length] in *; [lia | reflexivity].
    + assert (Hr : concat (splitlines rest) = rest) by (apply (IH (length rest)); cbn [length] in *; [lia | reflexivity]).
      destruct (splitlines rest) as [|l ls]; cbn [concat app] in *; [subst; reflexivity | congruence].
Qed.

Lemma splitlines_nonempty s : Forall (fun l => l <> []) (splitlines s).
Proof.
  remember (length s) as n eqn:Hn. revert s Hn.
  induction n as [n IH] using lt_wf_ind. intros s Hn.
  destruct s as [|c rest]; [constructor|]. rewrite splitlines_cons. unfold splitlines_step.
  destruct (c =? 13).
  - destruct rest as [|c' rest']; [repeat constructor; discriminate|].
    destruct (c' =? 10).
    + constructor; [discriminate|]. apply (IH (length rest')); cbn [length] in *; [lia | reflexivity].
    + constructor; [discriminate|]. apply (IH (length (c' :: rest'))); cbn [length] in *; [lia | reflexivity].
  - destruct (is_sep c).
    + constructor; [discriminate|]. apply (IH (length rest)); cbn [length] in *; [lia | reflexivity].
    + assert (Hr : Forall (fun l => l <> []) (splitlines rest))
        by (apply (IH (length rest)); cbn [length] in *; [lia | reflexivity]).
      destruct (splitlines rest) as [|l ls]; [repeat constructor; discriminate|].
      inversion Hr; subst. constructor; [discriminate | assumption].
Qed.
