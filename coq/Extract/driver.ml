(* nbmodel: line-oriented runner for the extracted model.  Trusted glue: wire decoding/encoding
   and the oracle tables (Hashtbl lookups of answers recorded from the implementation). *)
open BinNums
open Datatypes
open Json
module String = Stdlib.String
module List = Stdlib.List

(* ---- numbers ---- *)
let rec pos_of_int (n : int) : positive =
  if n = 1 then Coq_xH
  else if n land 1 = 0 then Coq_xO (pos_of_int (n lsr 1)) else Coq_xI (pos_of_int (n lsr 1))
let n_of_int n = if n = 0 then N0 else Npos (pos_of_int n)
let rec int_of_pos = function
  | Coq_xH -> 1 | Coq_xO p -> 2 * int_of_pos p | Coq_xI p -> 2 * int_of_pos p + 1
let int_of_n = function N0 -> 0 | Npos p -> int_of_pos p
let rec nat_of_int n = if n <= 0 then O else S (nat_of_int (n - 1))
let rec int_of_nat = function O -> 0 | S n -> 1 + int_of_nat n

(* hex strings, most significant digit first, arbitrary size *)
let hexval c = match c with
  | '0'..'9' -> Char.code c - 48 | 'a'..'f' -> Char.code c - 87 | _ -> failwith "hex"
let pos_of_hex (s : string) : positive option =
  (* build from the most significant bit downwards *)
  let acc = ref None in
  Stdlib.String.iter (fun c ->
    let v = hexval c in
    for b = 3 downto 0 do
      let bit = (v lsr b) land 1 in
      acc := (match !acc with
              | None -> if bit = 1 then Some Coq_xH else None
              | Some p -> Some (if bit = 1 then Coq_xI p else Coq_xO p))
    done) s;
  !acc
let z_of_hex (s : string) : coq_Z =
  let neg = Stdlib.String.length s > 0 && s.[0] = '-' in
  let body = if neg then Stdlib.String.sub s 1 (Stdlib.String.length s - 1) else s in
  match pos_of_hex body with
  | None -> Z0
  | Some p -> if neg then Zneg p else Zpos p
let hex_of_pos (p : positive) : string =
  (* collect bits least significant first *)
  let bits = ref [] in
  let rec go = function
    | Coq_xH -> bits := 1 :: !bits
    | Coq_xO q -> bits := 0 :: !bits; go q
    | Coq_xI q -> bits := 1 :: !bits; go q in
  go p;
  (* !bits is most significant first *)
  let l = Stdlib.List.length !bits in
  let pad = (4 - l mod 4) mod 4 in
  let all = Stdlib.List.init pad (fun _ -> 0) @ !bits in
  let buf = Buffer.create 16 in
  let rec emit = function
    | a :: b :: c :: d :: rest ->
        Buffer.add_char buf "0123456789abcdef".[a*8 + b*4 + c*2 + d]; emit rest
    | [] -> ()
    | _ -> failwith "bits" in
  emit all; Buffer.contents buf
let hex_of_z = function
  | Z0 -> "0" | Zpos p -> hex_of_pos p | Zneg p -> "-" ^ hex_of_pos p

(* ---- wire decoding ---- *)
let str_of_tok (t : string) : pystr =
  (* t = "s" followed by dot-separated hex code points *)
  if Stdlib.String.length t = 1 then []
  else Stdlib.List.map (fun h -> n_of_int (int_of_string ("0x" ^ h)))
         (Stdlib.String.split_on_char '.' (Stdlib.String.sub t 1 (Stdlib.String.length t - 1)))

let parse (toks : string array) : json =
  let pos = ref 0 in
  let next () = let t = toks.(!pos) in incr pos; t in
  let rec value () =
    let t = next () in
    match t.[0] with
    | 'n' -> JNull
    | 't' -> JBool true
    | 'f' -> JBool false
    | 'i' -> JInt (z_of_hex (Stdlib.String.sub t 1 (Stdlib.String.length t - 1)))
    | 'd' ->
        let body = Stdlib.String.sub t 1 (Stdlib.String.length t - 1) in
        (match Stdlib.String.split_on_char '_' body with
         | [m; e] -> JFlt (z_of_hex m, z_of_hex e)
         | _ -> failwith "float")
    | 's' -> JStr (str_of_tok t)
    | '[' ->
        let items = ref [] in
        while toks.(!pos) <> "]" do items := value () :: !items done;
        incr pos; JArr (Stdlib.List.rev !items)
    | '{' ->
        let items = ref [] in
        while toks.(!pos) <> "}" do
          let k = str_of_tok (next ()) in
          let v = value () in
          items := (k, v) :: !items
        done;
        incr pos; JObj (Stdlib.List.rev !items)
    | _ -> failwith ("token " ^ t) in
  value ()

let parse_arg (s : string) : json =
  parse (Array.of_list (Stdlib.List.filter (fun x -> x <> "") (Stdlib.String.split_on_char ' ' s)))

(* ---- wire encoding ---- *)
let rec emit (b : Buffer.t) (j : json) : unit =
  match j with
  | JNull -> Buffer.add_string b "n"
  | JBool true -> Buffer.add_string b "t"
  | JBool false -> Buffer.add_string b "f"
  | JInt z -> Buffer.add_char b 'i'; Buffer.add_string b (hex_of_z z)
  | JFlt (m, e) -> Buffer.add_char b 'd'; Buffer.add_string b (hex_of_z m);
      Buffer.add_char b '_'; Buffer.add_string b (hex_of_z e)
  | JStr s -> emit_str b s
  | JArr l ->
      Buffer.add_string b "[";
      Stdlib.List.iter (fun x -> Buffer.add_char b ' '; emit b x) l;
      Buffer.add_string b " ]"
  | JObj kv ->
      Buffer.add_string b "{";
      Stdlib.List.iter (fun (k, v) -> Buffer.add_char b ' '; emit_str b k; Buffer.add_char b ' '; emit b v) kv;
      Buffer.add_string b " }"
and emit_str b s =
  Buffer.add_char b 's';
  Stdlib.List.iteri (fun i c ->
    if i > 0 then Buffer.add_char b '.';
    Buffer.add_string b (Printf.sprintf "%x" (int_of_n c))) s

(* ---- oracle tables ---- *)
let misses = ref 0
let as_list = function JArr l -> l | _ -> failwith "expected array"
let as_bool = function JBool b -> b | _ -> failwith "expected bool"
let as_str = function JStr s -> s | _ -> failwith "expected str"
let as_int = function JInt z -> (match z with Z0 -> 0 | Zpos p -> int_of_pos p | Zneg _ -> failwith "neg") | _ -> failwith "expected int"
let field (k : string) (j : json) : json =
  match j with
  | JObj kv ->
      let ks = Stdlib.List.map (fun c -> n_of_int (Char.code c)) (Stdlib.List.init (Stdlib.String.length k) (Stdlib.String.get k)) in
      (try Stdlib.List.assoc ks kv with Not_found -> JArr [])
  | _ -> JArr []

let make_oracles (j : json) : GenericDiff.oracles =
  let sim : (pystr * pystr, bool) Hashtbl.t = Hashtbl.create 64 in
  Stdlib.List.iter (fun r -> match as_list r with
    | [x; y; b] -> Hashtbl.replace sim (as_str x, as_str y) (as_bool b)
    | _ -> failwith "sim row") (as_list (field "sim" j));
  let opc : (pystr * pystr, GenericDiff.opcode list) Hashtbl.t = Hashtbl.create 64 in
  Stdlib.List.iter (fun r -> match as_list r with
    | [x; y; ops] ->
        let conv o = match as_list o with
          | [tag; ab; ae; bb; be] ->
              let t = (match as_int tag with
                       | 0 -> GenericDiff.OpEqual | 1 -> GenericDiff.OpReplace
                       | 2 -> GenericDiff.OpInsert | _ -> GenericDiff.OpDelete) in
              ((t, (nat_of_int (as_int ab), nat_of_int (as_int ae))),
               (nat_of_int (as_int bb), nat_of_int (as_int be)))
          | _ -> failwith "opcode" in
        Hashtbl.replace opc (as_str x, as_str y) (Stdlib.List.map conv (as_list ops))
    | _ -> failwith "opcodes row") (as_list (field "opcodes" j));
  let mk name =
    let t : (int * json * json, bool) Hashtbl.t = Hashtbl.create 64 in
    Stdlib.List.iter (fun r -> match as_list r with
      | [i; x; y; b] -> Hashtbl.replace t (as_int i, x, y) (as_bool b)
      | _ -> failwith "pred row") (as_list (field name j));
    t in
  let cell = mk "cell" and output = mk "output" in
  { GenericDiff.o_sim = (fun x y -> try Hashtbl.find sim (x, y) with Not_found -> incr misses; false);
    o_opcodes = (fun x y -> try Hashtbl.find opc (x, y) with Not_found -> incr misses; []);
    o_cell = (fun i x y -> try Hashtbl.find cell (int_of_nat i, x, y) with Not_found -> incr misses; false);
    o_output = (fun i x y -> try Hashtbl.find output (int_of_nat i, x, y) with Not_found -> incr misses; false) }

(* ---- main loop ---- *)
let () =
  let out = Buffer.create 65536 in
  (try
    while true do
      let line = input_line stdin in
      let parts = Array.of_list (Stdlib.String.split_on_char '\t' line) in
      misses := 0;
      let arg i = parse_arg parts.(i) in
      let r =
        try
          (match parts.(0) with
           | "patch" -> Api.api_patch (arg 1) (arg 2)
           | "diff" -> Api.api_diff (make_oracles (arg 3)) Api.generic_config (arg 1) (arg 2)
           | "nbdiff" -> Api.api_nbdiff (make_oracles (arg 3)) Api.nb_config (arg 1) (arg 2)
           | "nbdiff_ign" -> Api.api_nbdiff_ign (make_oracles (arg 4)) (nat_of_int (as_int (arg 1))) (arg 2) (arg 3)
           | "check" -> Api.api_check (arg 1) (arg 2) (arg 3)
           | "splitlines" -> Api.api_splitlines (arg 1)
           | "pyeq" -> Api.api_pyeq (arg 1) (arg 2)
           | "merge_decide" -> ApiMerge.api_merge_decide (make_oracles (arg 5)) (arg 1) (arg 2) (arg 3) (arg 4)
           | "merge_apply" -> ApiMerge.api_merge_apply (arg 1) (arg 2)
           | "merge" -> ApiMerge.api_merge (make_oracles (arg 5)) (arg 1) (arg 2) (arg 3) (arg 4)
           | "merge_chunks" -> ApiMerge.api_merge_chunks (arg 1) (arg 2) (arg 3)
           | "merge_facts" -> ApiMerge.api_merge_facts
           | c -> failwith ("unknown command " ^ c))
        with Failure m -> JObj [([n_of_int 102], JStr (Stdlib.List.map (fun c -> n_of_int (Char.code c)) (Stdlib.List.init (Stdlib.String.length m) (Stdlib.String.get m))))]
           | Stack_overflow -> JObj [([n_of_int 102], JStr [n_of_int 83])] in
      Buffer.clear out;
      emit out r;
      print_string (Buffer.contents out);
      print_string (Printf.sprintf "\t%d\n" !misses)
    done
  with End_of_file -> ())
