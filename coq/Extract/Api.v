(* Entry points of the extracted runner: JSON in, JSON out. *)
From Coq Require Import List NArith ZArith Bool String Ascii.
From NB Require Import Base.Res Base.Json Base.PyStr Diff.DiffFormat Diff.Patch Diff.Lcs
     Diff.GenericDiff Diff.Codec Diff.Wf Gen.NbConfig Sys.Ignore.
Import ListNotations.

Definition err_name (e : err) : pystr :=
  of_ascii (match e with
            | AssertionError => "AssertionError" | KeyError => "KeyError" | IndexError => "IndexError"
            | RuntimeError => "RuntimeError" | NBDiffFormatError => "NBDiffFormatError"
            | ValueError => "ValueError" | TypeError => "TypeError" | OutOfFuel => "OutOfFuel"
            end)%string.

Definition k_ok := of_ascii "ok".
Definition k_err := of_ascii "err".

Definition res_json {A} (f : A -> json) (r : res A) : json :=
  match r with
  | Ok a => JObj [(k_ok, f a)]
  | Err e => JObj [(k_err, JStr (err_name e))]
  end.

Definition fuel_of (a b : json) : nat := 4 * (depth a + depth b) + 8.

Definition bad_input : json := JObj [(k_err, JStr (of_ascii "BadInput"))].

Definition api_patch (a d : json) : json :=
  match dec_diff 64 d with
  | Some dd => res_json (fun x => x) (patch (ddepth dd + depth a + 4) a dd)
  | None => bad_input
  end.

Definition api_diff (O : oracles) (cfg : config) (a b : json) : json :=
  res_json enc_diff (diff_default O cfg (fuel_of a b) a b).

Definition api_nbdiff (O : oracles) (cfg : config) (a b : json) : json :=
  res_json enc_diff (diff_ O cfg (fuel_of a b) [] a b).

Definition api_check (a b d : json) : json :=
  match dec_diff 64 d with
  | Some dd =>
      let f := ddepth dd + depth a + 4 in
      JArr [JBool (wf_diff f a dd); JBool (json_eqb (spec_patch f a dd) b); spec_patch f a dd]
  | None => bad_input
  end.

Definition api_splitlines (s : json) : json :=
  match s with JStr x => JArr (map JStr (splitlines x)) | _ => bad_input end.

Definition api_pyeq (a b : json) : json := JBool (py_eqb a b).

Definition nb_config := Gen.NbConfig.nb_config.
Definition generic_config := Gen.NbConfig.generic_config.

(* notebook diff under the differ table installed for the i-th subset of ignored categories *)
Definition api_nbdiff_ign (O : oracles) (i : nat) (a b : json) : json :=
  res_json enc_diff (diff_ O (ignore_config i) (fuel_of a b) [] a b).
