(* Entry points of the extracted runner for the merge core: JSON in, JSON out.
   Decisions are encoded as the dicts nbdime itself holds (MergeDecision): common_path, action,
   conflict, local_diff, remote_diff, and custom_diff / similar_insert / strategy when present. *)
From Coq Require Import String.
From Coq Require Import List NArith ZArith Bool.
From NB Require Import Base.Res.
From NB Require Import Base.Json.
From NB Require Import Base.PyStr.
From NB Require Import Diff.DiffFormat.
From NB Require Import Diff.Patch.
From NB Require Import Diff.GenericDiff.
From NB Require Import Diff.Codec.
From NB Require Import Merge.SortKey.
From NB Require Import Merge.Chunks.
From NB Require Import Merge.Decisions.
From NB Require Import Merge.Apply.
From NB Require Import Merge.MergeGeneric.
From NB Require Import Gen.MergeFacts.
From NB Require Import Gen.NbConfig.
From NB Require Import Extract.Api.
Import ListNotations.

Definition k_action := of_ascii "action".
Definition k_common_path := of_ascii "common_path".
Definition k_conflict := of_ascii "conflict".
Definition k_custom_diff := of_ascii "custom_diff".
Definition k_local_diff := of_ascii "local_diff".
Definition k_remote_diff := of_ascii "remote_diff".
Definition k_similar_insert := of_ascii "similar_insert".
Definition k_strategy := of_ascii "strategy".
Definition k_table := of_ascii "table".
Definition k_transients := of_ascii "transients".
Definition k_decisions := of_ascii "decisions".
Definition k_merged := of_ascii "merged".

Definition enc_path (p : path) : json := JArr (map enc_key p).
Definition enc_odiff (d : option diff) : json := match d with None => JNull | Some x => enc_diff x end.

Definition enc_decision (d : decision) : json :=
  JObj ([(k_action, JStr (action_name (d_action d)));
         (k_common_path, enc_path (d_path d));
         (k_conflict, JBool (d_conflict d))]
        ++ match d_custom d with Some c => [(k_custom_diff, enc_diff c)] | None => [] end
        ++ [(k_local_diff, enc_odiff (d_local d)); (k_remote_diff, enc_odiff (d_remote d))]
        ++ match d_similar d with Some c => [(k_similar_insert, enc_diff c)] | None => [] end
        ++ match d_strategy d with Some s => [(k_strategy, JStr s)] | None => [] end).

Definition enc_decisions (ds : list decision) : json := JArr (map enc_decision ds).

Fixpoint dec_path (l : list json) : option path :=
  match l with
  | [] => Some []
  | x :: r => match dec_key x, dec_path r with Some k, Some p => Some (k :: p) | _, _ => None end
  end.

(* absent key or null -> None *)
Definition dec_odiff (j : option json) : option (option diff) :=
  match j with
  | None | Some JNull => Some None
  | Some x => match dec_diff 64 x with Some d => Some (Some d) | None => None end
  end.

Definition dec_decision (j : json) : option decision :=
  match j with
  | JObj kv =>
      match obj_get k_action kv, obj_get k_common_path kv, obj_get k_conflict kv with
      | Some (JStr a), Some (JArr pl), Some (JBool c) =>
          match dec_path pl, dec_odiff (obj_get k_local_diff kv), dec_odiff (obj_get k_remote_diff kv),
                dec_odiff (obj_get k_custom_diff kv), dec_odiff (obj_get k_similar_insert kv) with
          | Some p, Some l, Some r, Some cu, Some si =>
              Some (mkDec p (action_of_name a) c l r cu
                          (match obj_get k_strategy kv with Some (JStr s) => Some s | _ => None end) si)
          | _, _, _, _, _ => None
          end
      | _, _, _ => None
      end
  | _ => None
  end.

Fixpoint dec_decisions (l : list json) : option (list decision) :=
  match l with
  | [] => Some []
  | x :: r => match dec_decision x, dec_decisions r with Some d, Some ds => Some (d :: ds) | _, _ => None end
  end.

(* {"table": {path: strategy}, "transients": [path]} *)
Definition dec_strat (j : json) : option strat :=
  match j with
  | JObj kv =>
      match obj_get k_table kv, obj_get k_transients kv with
      | Some (JObj t), Some (JArr tr) =>
          Some {| st_table := flat_map (fun p => match snd p with JStr s => [(fst p, s)] | _ => [] end) t;
                  st_transients := flat_map (fun x => match x with JStr s => [s] | _ => [] end) tr |}
      | _, _ => None
      end
  | _ => None
  end.

Definition decide (O : oracles) (St : strat) (base : json) (ld rd : diff) : res (list decision) :=
  decide_merge_with_diff O nb_config St no_hooks chunks_guard entry_eq_strict conflict_assert_strict base ld rd.

(* decide_merge_with_diff(base, _, _, local_diff, remote_diff, strategies) *)
Definition api_merge_decide (O : oracles) (st base ld rd : json) : json :=
  match dec_strat st, dec_diff 64 ld, dec_diff 64 rd with
  | Some St, Some dl, Some dr => res_json enc_decisions (decide O St base dl dr)
  | _, _, _ => bad_input
  end.

(* apply_decisions(base, decisions) *)
Definition api_merge_apply (base ds : json) : json :=
  match ds with
  | JArr l => match dec_decisions l with
              | Some d => res_json (fun x => x) (apply_decisions base d)
              | None => bad_input
              end
  | _ => bad_input
  end.

(* both steps: {"decisions": [...], "merged": ...} *)
Definition api_merge (O : oracles) (st base ld rd : json) : json :=
  match dec_strat st, dec_diff 64 ld, dec_diff 64 rd with
  | Some St, Some dl, Some dr =>
      res_json (fun x => x)
        (do ds <- decide O St base dl dr;
         do m <- apply_decisions base ds;
         Ok (JObj [(k_decisions, enc_decisions ds); (k_merged, m)]))
  | _, _, _ => bad_input
  end.

(* make_merge_chunks(base, d0, d1) for a list base of the given length: [[j, k, d0, d1], ...] *)
Definition api_merge_chunks (n ld rd : json) : json :=
  match n, dec_diff 64 ld, dec_diff 64 rd with
  | JInt z, Some dl, Some dr =>
      res_json (fun cs => JArr (map (fun c : chunk => let '(j, k, d0, d1) := c in
                                  JArr [JInt (Z.of_nat j); JInt (Z.of_nat k); enc_diff d0; enc_diff d1]) cs))
               (make_merge_chunks (Z.to_nat z) dl dr)
  | _, _, _ => bad_input
  end.

(* the generated source facts the runner was built with: [guard_is_any_diff, entry_eq_strict, conflict_assert_strict] *)
Definition api_merge_facts : json :=
  JArr [JBool (match chunks_guard with GuardAnyDiff => true | GuardListTruthy => false end);
        JBool entry_eq_strict; JBool conflict_assert_strict].
