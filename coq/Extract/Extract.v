Require Extraction.
Require Import ExtrOcamlBasic.
From NB Require Import Extract.Api.
Extraction Language OCaml.
Separate Extraction Api.
From NB Require Import Extract.ApiMerge.
Separate Extraction Api ApiMerge.
