(* nbdime/args.py: process_exclusive_ignorables + process_diff_flags -- the command-line route to the differ table.
   Each of the six parts (sources, outputs, attachments, metadata, id, details) is given positively (Some true: -s),
   negatively (Some false: -S) or not at all (None).  The flags given must agree in sign (otherwise ArgumentError: no state
   change); the parts not mentioned get the opposite value; with no flag at all nothing is configured; otherwise
   set_notebook_diff_targets is called with the six resulting values.  The result is an operation of Sys/History.v. *)
From Coq Require Import List Bool.
From NB Require Import Base.Json Diff.GenericDiff Sys.History.
Import ListNotations.

Definition toggle_of (l : list (option bool)) : option bool :=
  fold_right (fun x acc => match x with Some b => Some b | None => acc end) None l.

Definition consistent (tg : bool) (l : list (option bool)) : bool :=
  forallb (fun x => match x with Some b => Bool.eqb b tg | None => true end) l.

Definition flag_value (tg : bool) (x : option bool) : bool := match x with Some b => b | None => negb tg end.

Definition flags_op (s o a m i d : option bool) : op :=
  let l := [s; o; a; m; i; d] in
  match toggle_of l with
  | None => OpDiff []                                   (* no flag: process_diff_flags configures nothing *)
  | Some tg =>
      if consistent tg l
      then OpTargets (flag_value tg s) (flag_value tg o) (flag_value tg a) (flag_value tg m) (flag_value tg i) (flag_value tg d)
      else OpDiff []                                    (* mixed signs: ArgumentError before anything is set *)
  end.

Definition flags_configure (s o a m i d : option bool) : bool :=
  match toggle_of [s; o; a; m; i; d] with Some tg => consistent tg [s; o; a; m; i; d] | None => false end.

(* selecting all six parts is the full reset of everything the flags govern *)
Lemma flags_all_six : flags_op (Some true) (Some true) (Some true) (Some true) (Some true) (Some true)
                      = OpTargets true true true true true true.
Proof. reflexivity. Qed.

(* positive flags show exactly the parts given; negative flags hide exactly the parts given *)
Lemma flags_positive_subset s o a m i d :
  let f (b : bool) := if b then Some true else None in
  orb s (orb o (orb a (orb m (orb i d)))) = true ->
  flags_op (f s) (f o) (f a) (f m) (f i) (f d) = OpTargets s o a m i d.
Proof. destruct s, o, a, m, i, d; cbn; intros H; try reflexivity; discriminate H. Qed.

Lemma flags_negative_subset s o a m i d :
  let f (b : bool) := if b then Some false else None in
  orb s (orb o (orb a (orb m (orb i d)))) = true ->
  flags_op (f s) (f o) (f a) (f m) (f i) (f d) = OpTargets (negb s) (negb o) (negb a) (negb m) (negb i) (negb d).
Proof. destruct s, o, a, m, i, d; cbn; intros H; try reflexivity; discriminate H. Qed.

(* no flag at all leaves the table as it is *)
Lemma flags_none t : step t (flags_op None None None None None None) = t.
Proof. reflexivity. Qed.

(* whenever the flags configure anything, the outcome at every path they govern does not depend on the table before *)
Lemma flags_is_targets s o a m i d :
  flags_configure s o a m i d = true ->
  exists s' o' a' m' i' d', flags_op s o a m i d = OpTargets s' o' a' m' i' d'.
Proof.
  unfold flags_configure, flags_op. destruct (toggle_of [s; o; a; m; i; d]) as [tg|]; [|discriminate].
  intros ->. eauto 7.
Qed.
