(* C19 -- proofs about the option-resolution model Sys/Config.v. *)
From Coq Require Import List NArith ZArith Bool String Lia.
From NB Require Import Base.Json Base.Res Diff.Codec Gen.ConfigClasses Sys.Config.
Import ListNotations.
Local Open Scope list_scope.

(* ---------- witnesses of the two known deviations (F11) ---------- *)
Definition w_global_files : list json :=
  [JObj [(of_ascii "Global", JObj [(of_ascii "log_level", JStr (of_ascii "DEBUG"))])]].
Definition w_server_files : list json :=
  [JObj [(of_ascii "Web", JObj [(of_ascii "port", JInt 9000)])]].

Lemma global_section_refuted_lemma :
  exists ep files o, In ep ep_names /\ In o (options ep) /\ wf_filesb files = true /\
    effective ep files [] o <> Ok (spec_effective ep files [] o).
Proof.
  exists (of_ascii "nbdiff"), w_global_files, (of_ascii "log_level").
  repeat split; try (vm_compute; tauto). vm_compute. discriminate.
Qed.

Lemma server_port_refuted_lemma :
  exists files, wf_filesb files = true /\
    effective (of_ascii "server") files [] (of_ascii "port") <> Ok (spec_effective (of_ascii "server") files [] (of_ascii "port")).
Proof.
  exists w_server_files. split; [vm_compute; reflexivity | vm_compute; discriminate].
Qed.

(* ================= association lists ================= *)
Lemma str_eqb_false k k' : str_eqb k k' = false <-> k <> k'.
Proof.
  split; intros H.
  - intros ->. rewrite str_eqb_refl in H. discriminate.
  - destruct (str_eqb k k') eqn:E; auto. apply str_eqb_eq in E. contradiction.
Qed.

Lemma dget_dset_same k v d : dget k (dset k v d) = Some v.
Proof.
  induction d as [|[k0 v0] r IH]; simpl.
  - rewrite str_eqb_refl. reflexivity.
  - destruct (str_eqb k k0) eqn:E; simpl.
    + rewrite str_eqb_refl. reflexivity.
    + rewrite E. exact IH.
Qed.

Lemma dget_dset_other k k' v d : k' <> k -> dget k' (dset k v d) = dget k' d.
Proof.
  intros N. induction d as [|[k0 v0] r IH]; simpl.
  - apply str_eqb_false in N. rewrite N. reflexivity.
  - destruct (str_eqb k k0) eqn:E; simpl.
    + apply str_eqb_eq in E. subst k0. apply str_eqb_false in N. rewrite N. reflexivity.
    + rewrite IH. reflexivity.
Qed.

Lemma dget_ddel_same k d : dget k (ddel k d) = None.
Proof.
  induction d as [|[k0 v0] r IH]; simpl; auto.
  destruct (str_eqb k k0) eqn:E; simpl; auto. rewrite E. exact IH.
Qed.

Lemma dget_ddel_other k k' d : k' <> k -> dget k' (ddel k d) = dget k' d.
Proof.
  intros N. induction d as [|[k0 v0] r IH]; simpl; auto.
  destruct (str_eqb k k0) eqn:E; simpl.
  - apply str_eqb_eq in E. subst k0. apply str_eqb_false in N. rewrite N. exact IH.
  - rewrite IH. reflexivity.
Qed.

Lemma dget_In k v d : dget k d = Some v -> In (k, v) d.
Proof.
  induction d as [|[k0 v0] r IH]; simpl; intros H; try discriminate.
  destruct (str_eqb k k0) eqn:E.
  - apply str_eqb_eq in E. inversion H; subst. left; reflexivity.
  - right. auto.
Qed.

Lemma dget_notin k d : ~ In k (map fst d) -> dget k d = None.
Proof.
  induction d as [|[k0 v0] r IH]; simpl; intros H; auto.
  destruct (str_eqb k k0) eqn:E.
  - apply str_eqb_eq in E. subst. exfalso. apply H. left; reflexivity.
  - apply IH. intros X. apply H. right; exact X.
Qed.

Lemma In_dget k v d : NoDup (map fst d) -> In (k, v) d -> dget k d = Some v.
Proof.
  induction d as [|[k0 v0] r IH]; simpl; intros ND H; [contradiction|].
  inversion ND; subst. destruct H as [H|H].
  - inversion H; subst. rewrite str_eqb_refl. reflexivity.
  - destruct (str_eqb k k0) eqn:E.
    + apply str_eqb_eq in E. subst. exfalso. apply H2. apply (in_map fst) in H. exact H.
    + auto.
Qed.

Lemma In_dset k v d k' v' : In (k', v') (dset k v d) -> (k', v') = (k, v) \/ In (k', v') d.
Proof.
  induction d as [|[k0 v0] r IH]; simpl; intros H.
  - destruct H as [H|[]]. left; auto.
  - destruct (str_eqb k k0) eqn:E; simpl in H.
    + destruct H as [H|H]; [left; auto | right; right; exact H].
    + destruct H as [H|H]; [right; left; exact H|]. destruct (IH H); auto.
Qed.

Lemma In_ddel k d k' v' : In (k', v') (ddel k d) -> In (k', v') d.
Proof.
  induction d as [|[k0 v0] r IH]; simpl; intros H; auto.
  destruct (str_eqb k k0) eqn:E; simpl in H.
  - right; auto.
  - destruct H as [H|H]; [left; exact H | right; auto].
Qed.

Lemma keys_dset k v d k' : In k' (map fst (dset k v d)) -> k' = k \/ In k' (map fst d).
Proof.
  intros H. apply in_map_iff in H as [[a b] [E H]]. simpl in E. subst a.
  apply In_dset in H as [H|H]; [inversion H; auto|]. right. apply (in_map fst) in H. exact H.
Qed.

Lemma nodup_dset k v d : NoDup (map fst d) -> NoDup (map fst (dset k v d)).
Proof.
  induction d as [|[k0 v0] r IH]; simpl; intros ND.
  - constructor; [intros []| constructor].
  - inversion ND; subst. destruct (str_eqb k k0) eqn:E; simpl.
    + apply str_eqb_eq in E. subst. constructor; assumption.
    + constructor; auto. intros X. apply keys_dset in X as [X|X]; auto.
      subst. rewrite str_eqb_refl in E. discriminate.
Qed.

Lemma nodup_ddel k d : NoDup (map fst d) -> NoDup (map fst (ddel k d)).
Proof.
  induction d as [|[k0 v0] r IH]; simpl; intros ND; auto.
  inversion ND; subst. destruct (str_eqb k k0) eqn:E; simpl; auto.
  constructor; auto. intros X. apply in_map_iff in X as [[a b] [Ea X]]. simpl in Ea; subst a.
  apply In_ddel in X. apply H1. apply (in_map fst) in X. exact X.
Qed.

(* ================= recursive_update, one level at a time ================= *)
Definition step (inc : bool) (k : pystr) (v : json) (t : dict) : res dict :=
  match v with
  | JObj _ =>
      let sub := match dget k t with Some s => s | None => JObj [] end in
      do s' <- rupd inc v sub;
      Ok (if negb inc && negb (truthy s') then ddel k t else dset k s' t)
  | JNull => Ok (if inc then dset k v t else ddel k t)
  | _ => Ok (dset k v t)
  end.

Lemma rupd_nil inc t : rupd inc (JObj []) t = Ok t.
Proof. reflexivity. Qed.

Lemma rupd_cons inc k v rest t :
  rupd inc (JObj ((k, v) :: rest)) (JObj t) = (do t' <- step inc k v t; rupd inc (JObj rest) (JObj t')).
Proof. destruct v; reflexivity. Qed.

Definition sub_or_empty (old : option json) : json := match old with Some s => s | None => JObj [] end.

Section Level.
  Variable SubOk : json -> Prop.
  Variable isdictkey : pystr -> bool.
  Hypothesis sub_closed : forall v s, SubOk v -> SubOk s -> exists r, rupd false v s = Ok r /\ SubOk r.
  Hypothesis sub_empty : SubOk (JObj []).
  Hypothesis sub_dict : forall v, SubOk v -> exists d, v = JObj d.

  Definition shape (d : dict) : Prop :=
    forall k v, In (k, v) d -> if isdictkey k then SubOk v else nondict v = true.
  Definition InvL (d : dict) : Prop := NoDup (map fst d) /\ shape d.

  Definition FL (k : pystr) (v : json) (old : option json) : option json :=
    if isdictkey k then
      match rupd false v (sub_or_empty old) with
      | Ok s' => if truthy s' then Some s' else None
      | Err _ => None
      end
    else match v with JNull => None | _ => Some v end.

  Lemma shape_dset k v d : shape d -> (if isdictkey k then SubOk v else nondict v = true) -> shape (dset k v d).
  Proof. intros S H k' v' I. apply In_dset in I as [I|I]; [inversion I; subst; exact H | apply S; exact I]. Qed.

  Lemma shape_ddel k d : shape d -> shape (ddel k d).
  Proof. intros S k' v' I. apply In_ddel in I. apply S; exact I. Qed.

  Lemma step_level k v t :
    (if isdictkey k then SubOk v else nondict v = true) -> InvL t ->
    exists t', step false k v t = Ok t' /\ InvL t' /\ dget k t' = FL k v (dget k t) /\
               forall k', k' <> k -> dget k' t' = dget k' t.
  Proof.
    intros G [ND S]. unfold FL. destruct (isdictkey k) eqn:DK.
    - destruct (sub_dict _ G) as [dv ->].
      assert (SO : SubOk (sub_or_empty (dget k t))).
      { destruct (dget k t) eqn:E; simpl; auto. apply dget_In in E. apply S in E. rewrite DK in E. exact E. }
      destruct (sub_closed _ _ G SO) as [r [R RO]].
      unfold step. fold (sub_or_empty (dget k t)). rewrite R. simpl.
      destruct (truthy r) eqn:TR; simpl.
      + exists (dset k r t). repeat split.
        * apply nodup_dset; exact ND.
        * apply shape_dset; auto. rewrite DK. exact RO.
        * apply dget_dset_same.
        * intros k' N. apply dget_dset_other; exact N.
      + exists (ddel k t). repeat split.
        * apply nodup_ddel; exact ND.
        * apply shape_ddel; exact S.
        * apply dget_ddel_same.
        * intros k' N. apply dget_ddel_other; exact N.
    - destruct v; simpl in G; try discriminate; simpl;
        try (eexists; repeat split;
             [ apply nodup_dset; exact ND
             | apply shape_dset; auto; rewrite DK; reflexivity
             | apply dget_dset_same
             | intros k' N; apply dget_dset_other; exact N ]).
      exists (ddel k t). repeat split.
      + apply nodup_ddel; exact ND.
      + apply shape_ddel; exact S.
      + apply dget_ddel_same.
      + intros k' N. apply dget_ddel_other; exact N.
  Qed.

  Lemma level : forall n t, InvL n -> InvL t ->
    exists r, rupd false (JObj n) (JObj t) = Ok (JObj r) /\ InvL r /\
              forall k, dget k r = match dget k n with Some v => FL k v (dget k t) | None => dget k t end.
  Proof.
    induction n as [|[k v] rest IH]; intros t [NDn Sn] It.
    - exists t. rewrite rupd_nil. repeat split; try apply It. 
    - inversion NDn; subst.
      assert (G : if isdictkey k then SubOk v else nondict v = true) by (apply Sn; left; reflexivity).
      destruct (step_level k v t G It) as [t' [St [It' [Hk Ho]]]].
      assert (Ir : InvL rest) by (split; [assumption | intros a b I; apply Sn; right; exact I]).
      destruct (IH t' Ir It') as [r [R [Irr Hr]]].
      exists r. rewrite rupd_cons, St. simpl. split; [exact R|]. split; [exact Irr|].
      intros q. rewrite Hr. simpl. destruct (str_eqb q k) eqn:E.
      + apply str_eqb_eq in E. subst q. rewrite (dget_notin k rest H1). exact Hk.
      + apply str_eqb_false in E. rewrite (Ho q E). reflexivity.
  Qed.
End Level.

(* ---------- lifting a getter through one dict-valued key ---------- *)
Definition getk (k : pystr) (G : dict -> option json) (d : dict) : option json :=
  match dget k d with Some (JObj s) => G s | _ => None end.

Definition FLdict (v : json) (old : option json) : option json :=
  match rupd false v (sub_or_empty old) with
  | Ok s' => if truthy s' then Some s' else None
  | Err _ => None
  end.

Lemma ov_none x : ov None x = x.
Proof. reflexivity. Qed.

Lemma lift_get (SubOk : json -> Prop) (G : dict -> option json) k n t r :
  G [] = None ->
  SubOk (JObj []) ->
  (forall v, SubOk v -> exists d, v = JObj d) ->
  (forall i j, SubOk (JObj i) -> SubOk (JObj j) ->
     exists s', rupd false (JObj i) (JObj j) = Ok (JObj s') /\ G s' = ov (G i) (G j)) ->
  (forall v, dget k n = Some v -> SubOk v) ->
  (forall v, dget k t = Some v -> SubOk v) ->
  dget k r = match dget k n with Some v => FLdict v (dget k t) | None => dget k t end ->
  getk k G r = ov (getk k G n) (getk k G t).
Proof.
  intros G0 E0 SD Hsub Hn Ht Hr. unfold getk. rewrite Hr.
  destruct (dget k n) as [v|] eqn:En; [|reflexivity].
  destruct (SD v (Hn v eq_refl)) as [i ->].
  assert (Si := Hn _ eq_refl).
  assert (X : exists j, sub_or_empty (dget k t) = JObj j /\ SubOk (JObj j) /\
                        match dget k t with Some (JObj s) => G s | _ => None end = G j).
  { destruct (dget k t) as [w|] eqn:Et; simpl.
    - destruct (SD w (Ht w eq_refl)) as [j ->]. exists j. repeat split; auto.
    - exists []. repeat split; auto. }
  destruct X as [j [Ej [Sj Gj]]]. rewrite Gj.
  destruct (Hsub i j Si Sj) as [s' [R Gs]].
  unfold FLdict. rewrite Ej, R.
  destruct s' as [|x xs]; simpl.
  - rewrite <- Gs. symmetry. exact G0.
  - exact Gs.
Qed.

(* ---------- level 3: a mapping path -> non-dict value (the 'Ignore' mapping) ---------- *)
Definition Inv3 : dict -> Prop := InvL (fun v => v = JObj []) (fun _ => false).
Definition okflat (j : json) : Prop := exists d, j = JObj d /\ Inv3 d.

Lemma ov_some v x : ov (Some v) x = match v with JNull => None | _ => Some v end.
Proof. destruct v; reflexivity. Qed.

Lemma level3 n t : Inv3 n -> Inv3 t ->
  exists r, rupd false (JObj n) (JObj t) = Ok (JObj r) /\ Inv3 r /\ forall p, dget p r = ov (dget p n) (dget p t).
Proof.
  intros In_ It.
  assert (C : forall v s : json, v = JObj [] -> s = JObj [] -> exists r, rupd false v s = Ok r /\ r = JObj []).
  { intros v s -> ->. exists (JObj []). split; reflexivity. }
  assert (D : forall v : json, v = JObj [] -> exists d, v = JObj d).
  { intros v ->. exists []. reflexivity. }
  destruct (level (fun v => v = JObj []) (fun _ => false) C eq_refl D n t In_ It) as [r [R [Ir H]]].
  exists r. split; [exact R|]. split; [exact Ir|]. intros p. rewrite H. unfold FL.
  destruct (dget p n); [rewrite ov_some; reflexivity | reflexivity].
Qed.

Lemma inv3_nil : Inv3 [].
Proof. split; [constructor | intros k v []]. Qed.

Lemma okflat_closed v s : okflat v -> okflat s -> exists r, rupd false v s = Ok r /\ okflat r.
Proof.
  intros [i [-> Ii]] [j [-> Ij]]. destruct (level3 i j Ii Ij) as [r [R [Ir _]]].
  exists (JObj r). split; auto. exists r. split; auto.
Qed.

(* ---------- level 2: a section (option -> non-dict value, 'Ignore' -> level 3) ---------- *)
Definition isIgn (k : pystr) : bool := str_eqb k kIgnore.
Definition Inv2 : dict -> Prop := InvL okflat isIgn.
Definition oksec (j : json) : Prop := exists d, j = JObj d /\ Inv2 d.

Lemma okflat_dict v : okflat v -> exists d, v = JObj d.
Proof. intros [d [-> _]]. eauto. Qed.

Lemma okflat_nil : okflat (JObj []).
Proof. exists []. split; auto. apply inv3_nil. Qed.

Lemma inv2_get_ign d v : Inv2 d -> dget kIgnore d = Some v -> okflat v.
Proof.
  intros [_ S] H. apply dget_In in H. apply S in H. unfold isIgn in H. rewrite str_eqb_refl in H. exact H.
Qed.

Lemma level2 n t : Inv2 n -> Inv2 t ->
  exists r, rupd false (JObj n) (JObj t) = Ok (JObj r) /\ Inv2 r /\
    (forall o, o <> kIgnore -> dget o r = ov (dget o n) (dget o t)) /\
    (forall p, getk kIgnore (dget p) r = ov (getk kIgnore (dget p) n) (getk kIgnore (dget p) t)).
Proof.
  intros In_ It.
  destruct (level okflat isIgn okflat_closed okflat_nil okflat_dict n t In_ It) as [r [R [Ir H]]].
  exists r. repeat split; try apply Ir; auto.
  - intros o N. rewrite H. unfold FL, isIgn. apply str_eqb_false in N. rewrite N.
    destruct (dget o n); [rewrite ov_some; reflexivity | reflexivity].
  - intros p. apply (lift_get okflat (dget p)); auto using okflat_nil, okflat_dict.
    + intros i j [i' [Ei Ii]] [j' [Ej Ij]]. inversion Ei; inversion Ej; subst i' j'.
      destruct (level3 i j Ii Ij) as [s' [R' [_ Hs]]]. exists s'. split; auto.
    + intros v. apply inv2_get_ign; exact In_.
    + intros v. apply inv2_get_ign; exact It.
    + rewrite H. unfold FL, isIgn. rewrite str_eqb_refl. reflexivity.
Qed.

Lemma inv2_nil : Inv2 [].
Proof. split; [constructor | intros k v []]. Qed.

Lemma oksec_nil : oksec (JObj []).
Proof. exists []. split; auto. apply inv2_nil. Qed.

Lemma oksec_dict v : oksec v -> exists d, v = JObj d.
Proof. intros [d [-> _]]. eauto. Qed.

Lemma oksec_closed v s : oksec v -> oksec s -> exists r, rupd false v s = Ok r /\ oksec r.
Proof.
  intros [i [-> Ii]] [j [-> Ij]]. destruct (level2 i j Ii Ij) as [r [R [Ir _]]].
  exists (JObj r). split; auto. exists r. split; auto.
Qed.

(* ---------- level 1: a file / the disk configuration (section -> level 2) ---------- *)
Definition Inv1 : dict -> Prop := InvL oksec (fun _ => true).

Definition get3 (S p : pystr) (d : dict) : option json := getk S (getk kIgnore (dget p)) d.

Lemma inv1_get d S v : Inv1 d -> dget S d = Some v -> oksec v.
Proof. intros [_ Sh] H. apply dget_In in H. apply Sh in H. exact H. Qed.

Lemma level1 f t : Inv1 f -> Inv1 t ->
  exists r, rupd false (JObj f) (JObj t) = Ok (JObj r) /\ Inv1 r /\
    (forall S o, o <> kIgnore -> getk S (dget o) r = ov (getk S (dget o) f) (getk S (dget o) t)) /\
    (forall S p, get3 S p r = ov (get3 S p f) (get3 S p t)).
Proof.
  intros If It.
  destruct (level oksec (fun _ => true) oksec_closed oksec_nil oksec_dict f t If It) as [r [R [Ir H]]].
  exists r. repeat split; try apply Ir; auto.
  - intros S o N. apply (lift_get oksec (dget o)); auto using oksec_nil, oksec_dict.
    + intros i j [i' [Ei Ii]] [j' [Ej Ij]]. inversion Ei; inversion Ej; subst i' j'.
      destruct (level2 i j Ii Ij) as [s' [R' [_ [Hs _]]]]. exists s'. split; auto.
    + intros v. apply inv1_get; exact If.
    + intros v. apply inv1_get; exact It.
    + rewrite H. reflexivity.
  - intros S p. unfold get3. apply (lift_get oksec (getk kIgnore (dget p))); auto using oksec_nil, oksec_dict.
    + intros i j [i' [Ei Ii]] [j' [Ej Ij]]. inversion Ei; inversion Ej; subst i' j'.
      destruct (level2 i j Ii Ij) as [s' [R' [_ [_ Hs]]]]. exists s'. split; auto.
    + intros v. apply inv1_get; exact If.
    + intros v. apply inv1_get; exact It.
    + rewrite H. reflexivity.
Qed.
