(* C19 -- proofs about the option-resolution model Sys/Config.v. *)
From Coq Require Import List NArith ZArith Bool String Lia.
From NB Require Import Base.Json.
From NB Require Import Base.Res.
From NB Require Import Diff.Codec.
From NB Require Import Gen.ConfigClasses.
From NB Require Import Sys.Config.
Import ListNotations.
Local Open Scope list_scope.

(* ================= association lists ================= *)
Lemma str_eqb_false k k' : str_eqb k k' = false <-> k <> k'.
Proof.
  split; intros H.
  - intros ->. rewrite str_eqb_refl in H. discriminate.
  - destruct (str_eqb k k') eqn:E; auto. apply str_eqb_eq in E. contradiction.
Qed.

Lemma dget_dset_same k v d : dget k (dset k v d) = Some v.
Proof.
  induction d as [|[k0 v0] r IH]; simpl.
  - rewrite str_eqb_refl. reflexivity.
  - destruct (str_eqb k k0) eqn:E; simpl.
    + rewrite str_eqb_refl. reflexivity.
    + rewrite E. exact IH.
Qed.

Lemma dget_dset_other k k' v d : k' <> k -> dget k' (dset k v d) = dget k' d.
Proof.
  intros N. induction d as [|[k0 v0] r IH]; simpl.
  - apply str_eqb_false in N. rewrite N. reflexivity.
  - destruct (str_eqb k k0) eqn:E; simpl.
    + apply str_eqb_eq in E. subst k0. apply str_eqb_false in N. rewrite N. reflexivity.
    + rewrite IH. reflexivity.
Qed.

Lemma dget_ddel_same k d : dget k (ddel k d) = None.
Proof.
  induction d as [|[k0 v0] r IH]; simpl; auto.
  destruct (str_eqb k k0) eqn:E; simpl; auto. rewrite E. exact IH.
Qed.

Lemma dget_ddel_other k k' d : k' <> k -> dget k' (ddel k d) = dget k' d.
Proof.
  intros N. induction d as [|[k0 v0] r IH]; simpl; auto.
  destruct (str_eqb k k0) eqn:E; simpl.
  - apply str_eqb_eq in E. subst k0. apply str_eqb_false in N. rewrite N. exact IH.
  - rewrite IH. reflexivity.
Qed.

Lemma dget_In k v d : dget k d = Some v -> In (k, v) d.
Proof.
  induction d as [|[k0 v0] r IH]; simpl; intros H; try discriminate.
  destruct (str_eqb k k0) eqn:E.
  - apply str_eqb_eq in E. inversion H; subst. left; reflexivity.
  - right. auto.
Qed.

Lemma dget_notin k d : ~ In k (map fst d) -> dget k d = None.
Proof.
  induction d as [|[k0 v0] r IH]; simpl; intros H; auto.
  destruct (str_eqb k k0) eqn:E.
  - apply str_eqb_eq in E. subst. exfalso. apply H. left; reflexivity.
  - apply IH. intros X. apply H. right; exact X.
Qed.

Lemma In_dget k v d : NoDup (map fst d) -> In (k, v) d -> dget k d = Some v.
Proof.
  induction d as [|[k0 v0] r IH]; simpl; intros ND H; [contradiction|].
  inversion ND; subst. destruct H as [H|H].
  - inversion H; subst. rewrite str_eqb_refl. reflexivity.
  - destruct (str_eqb k k0) eqn:E.
    + apply str_eqb_eq in E. subst. exfalso. apply H2. apply (in_map fst) in H. exact H.
    + auto.
Qed.

Lemma In_dset k v d k' v' : In (k', v') (dset k v d) -> (k', v') = (k, v) \/ In (k', v') d.
Proof.
  induction d as [|[k0 v0] r IH]; simpl; intros H.
  - destruct H as [H|[]]. left; auto.
  - destruct (str_eqb k k0) eqn:E; simpl in H.
    + destruct H as [H|H]; [left; auto | right; right; exact H].
    + destruct H as [H|H]; [right; left; exact H|]. destruct (IH H); auto.
Qed.

Lemma In_ddel k d k' v' : In (k', v') (ddel k d) -> In (k', v') d.
Proof.
  induction d as [|[k0 v0] r IH]; simpl; intros H; auto.
  destruct (str_eqb k k0) eqn:E; simpl in H.
  - right; auto.
  - destruct H as [H|H]; [left; exact H | right; auto].
Qed.

Lemma keys_dset k v d k' : In k' (map fst (dset k v d)) -> k' = k \/ In k' (map fst d).
Proof.
  intros H. apply in_map_iff in H as [[a b] [E H]]. simpl in E. subst a.
  apply In_dset in H as [H|H]; [inversion H; auto|]. right. apply (in_map fst) in H. exact H.
Qed.

Lemma nodup_dset k v d : NoDup (map fst d) -> NoDup (map fst (dset k v d)).
Proof.
  induction d as [|[k0 v0] r IH]; simpl; intros ND.
  - constructor; [intros []| constructor].
  - inversion ND; subst. destruct (str_eqb k k0) eqn:E; simpl.
    + apply str_eqb_eq in E. subst. constructor; assumption.
    + constructor; auto. intros X. apply keys_dset in X as [X|X]; auto.
      subst. rewrite str_eqb_refl in E. discriminate.
Qed.

Lemma nodup_ddel k d : NoDup (map fst d) -> NoDup (map fst (ddel k d)).
Proof.
  induction d as [|[k0 v0] r IH]; simpl; intros ND; auto.
  inversion ND; subst. destruct (str_eqb k k0) eqn:E; simpl; auto.
  constructor; auto. intros X. apply in_map_iff in X as [[a b] [Ea X]]. simpl in Ea; subst a.
  apply In_ddel in X. apply H1. apply (in_map fst) in X. exact X.
Qed.

(* ================= recursive_update, one level at a time ================= *)
Definition step (inc : bool) (k : pystr) (v : json) (t : dict) : res dict :=
  match v with
  | JObj _ =>
      let sub := match dget k t with Some s => s | None => JObj [] end in
      do s' <- rupd inc v sub;
      Ok (if negb inc && negb (truthy s') then ddel k t else dset k s' t)
  | JNull => Ok (if inc then dset k v t else ddel k t)
  | _ => Ok (dset k v t)
  end.

Lemma rupd_nil inc t : rupd inc (JObj []) t = Ok t.
Proof. reflexivity. Qed.

Lemma rupd_cons inc k v rest t :
  rupd inc (JObj ((k, v) :: rest)) (JObj t) = (do t' <- step inc k v t; rupd inc (JObj rest) (JObj t')).
Proof. destruct v; reflexivity. Qed.

Definition sub_or_empty (old : option json) : json := match old with Some s => s | None => JObj [] end.

Section Level.
  Variable SubOk : json -> Prop.
  Variable isdictkey : pystr -> bool.
  Hypothesis sub_closed : forall v s, SubOk v -> SubOk s -> exists r, rupd false v s = Ok r /\ SubOk r.
  Hypothesis sub_empty : SubOk (JObj []).
  Hypothesis sub_dict : forall v, SubOk v -> exists d, v = JObj d.

  Definition shape (d : dict) : Prop :=
    forall k v, In (k, v) d -> if isdictkey k then SubOk v else nondict v = true.
  Definition InvL (d : dict) : Prop := NoDup (map fst d) /\ shape d.

  Definition FL (k : pystr) (v : json) (old : option json) : option json :=
    if isdictkey k then
      match rupd false v (sub_or_empty old) with
      | Ok s' => if truthy s' then Some s' else None
      | Err _ => None
      end
    else match v with JNull => None | _ => Some v end.

  Lemma shape_dset k v d : shape d -> (if isdictkey k then SubOk v else nondict v = true) -> shape (dset k v d).
  Proof. intros S H k' v' I. apply In_dset in I as [I|I]; [inversion I; subst; exact H | apply S; exact I]. Qed.

  Lemma shape_ddel k d : shape d -> shape (ddel k d).
  Proof. intros S k' v' I. apply In_ddel in I. apply S; exact I. Qed.

  Lemma step_level k v t :
    (if isdictkey k then SubOk v else nondict v = true) -> InvL t ->
    exists t', step false k v t = Ok t' /\ InvL t' /\ dget k t' = FL k v (dget k t) /\
               forall k', k' <> k -> dget k' t' = dget k' t.
  Proof.
    intros G [ND S]. unfold FL. destruct (isdictkey k) eqn:DK.
    - destruct (sub_dict _ G) as [dv ->].
      assert (SO : SubOk (sub_or_empty (dget k t))).
      { destruct (dget k t) eqn:E; simpl; auto. apply dget_In in E. apply S in E. rewrite DK in E. exact E. }
      destruct (sub_closed _ _ G SO) as [r [R RO]].
      unfold step. fold (sub_or_empty (dget k t)). rewrite R. simpl.
      destruct (truthy r) eqn:TR; simpl.
      + exists (dset k r t). repeat split.
        * apply nodup_dset; exact ND.
        * apply shape_dset; auto. rewrite DK. exact RO.
        * apply dget_dset_same.
        * intros k' N. apply dget_dset_other; exact N.
      + exists (ddel k t). repeat split.
        * apply nodup_ddel; exact ND.
        * apply shape_ddel; exact S.
        * apply dget_ddel_same.
        * intros k' N. apply dget_ddel_other; exact N.
    - destruct v; simpl in G; try discriminate; simpl;
        try (eexists; repeat split;
             [ apply nodup_dset; exact ND
             | apply shape_dset; auto; rewrite DK; reflexivity
             | apply dget_dset_same
             | intros k' N; apply dget_dset_other; exact N ]).
      exists (ddel k t). repeat split.
      + apply nodup_ddel; exact ND.
      + apply shape_ddel; exact S.
      + apply dget_ddel_same.
      + intros k' N. apply dget_ddel_other; exact N.
  Qed.

  Lemma level : forall n t, InvL n -> InvL t ->
    exists r, rupd false (JObj n) (JObj t) = Ok (JObj r) /\ InvL r /\
              forall k, dget k r = match dget k n with Some v => FL k v (dget k t) | None => dget k t end.
  Proof.
    induction n as [|[k v] rest IH]; intros t [NDn Sn] It.
    - exists t. rewrite rupd_nil. repeat split; try apply It. 
    - inversion NDn; subst.
      assert (G : if isdictkey k then SubOk v else nondict v = true) by (apply Sn; left; reflexivity).
      destruct (step_level k v t G It) as [t' [St [It' [Hk Ho]]]].
      assert (Ir : InvL rest) by (split; [assumption | intros a b I; apply Sn; right; exact I]).
      destruct (IH t' Ir It') as [r [R [Irr Hr]]].
      exists r. rewrite rupd_cons, St. simpl. split; [exact R|]. split; [exact Irr|].
      intros q. rewrite Hr. simpl. destruct (str_eqb q k) eqn:E.
      + apply str_eqb_eq in E. subst q. rewrite (dget_notin k rest H1). exact Hk.
      + apply str_eqb_false in E. rewrite (Ho q E). reflexivity.
  Qed.
End Level.

(* ---------- lifting a getter through one dict-valued key ---------- *)
Definition getk (k : pystr) (G : dict -> option json) (d : dict) : option json :=
  match dget k d with Some (JObj s) => G s | _ => None end.

Definition FLdict (v : json) (old : option json) : option json :=
  match rupd false v (sub_or_empty old) with
  | Ok s' => if truthy s' then Some s' else None
  | Err _ => None
  end.

Lemma ov_none x : ov None x = x.
Proof. reflexivity. Qed.

Lemma lift_get (SubOk : json -> Prop) (G : dict -> option json) k n t r :
  G [] = None ->
  SubOk (JObj []) ->
  (forall v, SubOk v -> exists d, v = JObj d) ->
  (forall i j, SubOk (JObj i) -> SubOk (JObj j) ->
     exists s', rupd false (JObj i) (JObj j) = Ok (JObj s') /\ G s' = ov (G i) (G j)) ->
  (forall v, dget k n = Some v -> SubOk v) ->
  (forall v, dget k t = Some v -> SubOk v) ->
  dget k r = match dget k n with Some v => FLdict v (dget k t) | None => dget k t end ->
  getk k G r = ov (getk k G n) (getk k G t).
Proof.
  intros G0 E0 SD Hsub Hn Ht Hr. unfold getk. rewrite Hr.
  destruct (dget k n) as [v|] eqn:En; [|reflexivity].
  destruct (SD v (Hn v eq_refl)) as [i ->].
  assert (Si := Hn _ eq_refl).
  assert (X : exists j, sub_or_empty (dget k t) = JObj j /\ SubOk (JObj j) /\
                        match dget k t with Some (JObj s) => G s | _ => None end = G j).
  { destruct (dget k t) as [w|] eqn:Et; simpl.
    - destruct (SD w (Ht w eq_refl)) as [j ->]. exists j. repeat split; auto.
    - exists []. repeat split; auto. }
  destruct X as [j [Ej [Sj Gj]]]. rewrite Gj.
  destruct (Hsub i j Si Sj) as [s' [R Gs]].
  unfold FLdict. rewrite Ej, R.
  destruct s' as [|x xs]; simpl.
  - rewrite <- Gs. symmetry. exact G0.
  - exact Gs.
Qed.

(* ---------- level 3: a mapping path -> non-dict value (the 'Ignore' mapping) ---------- *)
Definition Inv3 : dict -> Prop := InvL (fun v => v = JObj []) (fun _ => false).
Definition okflat (j : json) : Prop := exists d, j = JObj d /\ Inv3 d.

Lemma ov_some v x : ov (Some v) x = match v with JNull => None | _ => Some v end.
Proof. destruct v; reflexivity. Qed.

Lemma level3 n t : Inv3 n -> Inv3 t ->
  exists r, rupd false (JObj n) (JObj t) = Ok (JObj r) /\ Inv3 r /\ forall p, dget p r = ov (dget p n) (dget p t).
Proof.
  intros In_ It.
  assert (C : forall v s : json, v = JObj [] -> s = JObj [] -> exists r, rupd false v s = Ok r /\ r = JObj []).
  { intros v s -> ->. exists (JObj []). split; reflexivity. }
  assert (D : forall v : json, v = JObj [] -> exists d, v = JObj d).
  { intros v ->. exists []. reflexivity. }
  destruct (level (fun v => v = JObj []) (fun _ => false) C eq_refl D n t In_ It) as [r [R [Ir H]]].
  exists r. split; [exact R|]. split; [exact Ir|]. intros p. rewrite H. unfold FL.
  destruct (dget p n); [rewrite ov_some; reflexivity | reflexivity].
Qed.

Lemma inv3_nil : Inv3 [].
Proof. split; [constructor | intros k v []]. Qed.

Lemma okflat_closed v s : okflat v -> okflat s -> exists r, rupd false v s = Ok r /\ okflat r.
Proof.
  intros [i [-> Ii]] [j [-> Ij]]. destruct (level3 i j Ii Ij) as [r [R [Ir _]]].
  exists (JObj r). split; auto. exists r. split; auto.
Qed.

(* ---------- level 2: a section (option -> non-dict value, 'Ignore' -> level 3) ---------- *)
Definition isIgn (k : pystr) : bool := str_eqb k kIgnore.
Definition Inv2 : dict -> Prop := InvL okflat isIgn.
Definition oksec (j : json) : Prop := exists d, j = JObj d /\ Inv2 d.

Lemma okflat_dict v : okflat v -> exists d, v = JObj d.
Proof. intros [d [-> _]]. eauto. Qed.

Lemma okflat_nil : okflat (JObj []).
Proof. exists []. split; auto. apply inv3_nil. Qed.

Lemma inv2_get_ign d v : Inv2 d -> dget kIgnore d = Some v -> okflat v.
Proof.
  intros [_ S] H. apply dget_In in H. apply S in H. unfold isIgn in H. rewrite str_eqb_refl in H. exact H.
Qed.

Lemma level2 n t : Inv2 n -> Inv2 t ->
  exists r, rupd false (JObj n) (JObj t) = Ok (JObj r) /\ Inv2 r /\
    (forall o, o <> kIgnore -> dget o r = ov (dget o n) (dget o t)) /\
    (forall p, getk kIgnore (dget p) r = ov (getk kIgnore (dget p) n) (getk kIgnore (dget p) t)).
Proof.
  intros In_ It.
  destruct (level okflat isIgn okflat_closed okflat_nil okflat_dict n t In_ It) as [r [R [Ir H]]].
  exists r. repeat split; try apply Ir; auto.
  - intros o N. rewrite H. unfold FL, isIgn. apply str_eqb_false in N. rewrite N.
    destruct (dget o n); [rewrite ov_some; reflexivity | reflexivity].
  - intros p. apply (lift_get okflat (dget p)); auto using okflat_nil, okflat_dict.
    + intros i j [i' [Ei Ii]] [j' [Ej Ij]]. inversion Ei; inversion Ej; subst i' j'.
      destruct (level3 i j Ii Ij) as [s' [R' [_ Hs]]]. exists s'. split; auto.
    + intros v. apply inv2_get_ign; exact In_.
    + intros v. apply inv2_get_ign; exact It.
    + rewrite H. unfold FL, isIgn. rewrite str_eqb_refl. reflexivity.
Qed.

Lemma inv2_nil : Inv2 [].
Proof. split; [constructor | intros k v []]. Qed.

Lemma oksec_nil : oksec (JObj []).
Proof. exists []. split; auto. apply inv2_nil. Qed.

Lemma oksec_dict v : oksec v -> exists d, v = JObj d.
Proof. intros [d [-> _]]. eauto. Qed.

Lemma oksec_closed v s : oksec v -> oksec s -> exists r, rupd false v s = Ok r /\ oksec r.
Proof.
  intros [i [-> Ii]] [j [-> Ij]]. destruct (level2 i j Ii Ij) as [r [R [Ir _]]].
  exists (JObj r). split; auto. exists r. split; auto.
Qed.

(* ---------- level 1: a file / the disk configuration (section -> level 2) ---------- *)
Definition Inv1 : dict -> Prop := InvL oksec (fun _ => true).

Definition get3 (S p : pystr) (d : dict) : option json := getk S (getk kIgnore (dget p)) d.

Lemma inv1_get d S v : Inv1 d -> dget S d = Some v -> oksec v.
Proof. intros [_ Sh] H. apply dget_In in H. apply Sh in H. exact H. Qed.

Lemma level1 f t : Inv1 f -> Inv1 t ->
  exists r, rupd false (JObj f) (JObj t) = Ok (JObj r) /\ Inv1 r /\
    (forall S o, o <> kIgnore -> getk S (dget o) r = ov (getk S (dget o) f) (getk S (dget o) t)) /\
    (forall S p, get3 S p r = ov (get3 S p f) (get3 S p t)).
Proof.
  intros If It.
  destruct (level oksec (fun _ => true) oksec_closed oksec_nil oksec_dict f t If It) as [r [R [Ir H]]].
  exists r. repeat split; try apply Ir; auto.
  - intros S o N. apply (lift_get oksec (dget o)); auto using oksec_nil, oksec_dict.
    + intros i j [i' [Ei Ii]] [j' [Ej Ij]]. inversion Ei; inversion Ej; subst i' j'.
      destruct (level2 i j Ii Ij) as [s' [R' [_ [Hs _]]]]. exists s'. split; auto.
    + intros v. apply inv1_get; exact If.
    + intros v. apply inv1_get; exact It.
    + rewrite H. reflexivity.
  - intros S p. unfold get3. apply (lift_get oksec (getk kIgnore (dget p))); auto using oksec_nil, oksec_dict.
    + intros i j [i' [Ei Ii]] [j' [Ej Ij]]. inversion Ei; inversion Ej; subst i' j'.
      destruct (level2 i j Ii Ij) as [s' [R' [_ [_ Hs]]]]. exists s'. split; auto.
    + intros v. apply inv1_get; exact If.
    + intros v. apply inv1_get; exact It.
    + rewrite H. reflexivity.
Qed.

(* ================= reflection of the boolean well-formedness checks ================= *)
Lemma existsb_str_In k l : existsb (str_eqb k) l = true <-> In k l.
Proof.
  rewrite existsb_exists. split.
  - intros [x [I E]]. apply str_eqb_eq in E. subst. exact I.
  - intros I. exists k. split; auto. apply str_eqb_refl.
Qed.

Lemma nodupb_NoDup l : nodupb l = true -> NoDup l.
Proof.
  induction l as [|k r IH]; simpl; intros H; constructor.
  - apply andb_true_iff in H as [H _]. intros I. apply existsb_str_In in I. rewrite I in H. discriminate.
  - apply andb_true_iff in H as [_ H]. auto.
Qed.

Lemma wf_ignb_okflat j : wf_ignb j = true -> okflat j.
Proof.
  destruct j; simpl; try discriminate. intros H. apply andb_true_iff in H as [H1 H2].
  exists kv. split; auto. split; [apply nodupb_NoDup; exact H1|].
  intros k v I. rewrite forallb_forall in H2. apply (H2 (k, v) I).
Qed.

Lemma wf_ownb_inv2 d : wf_ownb d = true -> Inv2 d.
Proof.
  unfold wf_ownb. intros H. apply andb_true_iff in H as [H1 H2]. split; [apply nodupb_NoDup; exact H1|].
  intros k v I. rewrite forallb_forall in H2. specialize (H2 (k, v) I). simpl in H2. unfold isIgn.
  destruct (str_eqb k kIgnore); [apply wf_ignb_okflat; exact H2 | exact H2].
Qed.

Lemma wf_secb_oksec S j : wf_secb S j = true -> oksec j.
Proof.
  destruct j; simpl; try discriminate. intros H. apply andb_true_iff in H as [H1 H2].
  exists kv. split; auto. split; [apply nodupb_NoDup; exact H1|].
  intros k v I. rewrite forallb_forall in H2. specialize (H2 (k, v) I). unfold wf_itemb in H2. simpl in H2.
  apply andb_true_iff in H2 as [_ H2]. unfold isIgn.
  destruct (str_eqb k kIgnore); [apply wf_ignb_okflat; exact H2 | exact H2].
Qed.

Definition okfile (f : json) : Prop := exists d, f = JObj d /\ Inv1 d.

Lemma wf_fileb_okfile f : wf_fileb f = true -> okfile f.
Proof.
  destruct f; simpl; try discriminate. intros H. apply andb_true_iff in H as [H1 H2].
  exists kv. split; auto. split; [apply nodupb_NoDup; exact H1|].
  intros k v I. rewrite forallb_forall in H2. specialize (H2 (k, v) I). simpl in H2.
  apply andb_true_iff in H2 as [_ H2]. apply wf_secb_oksec in H2. exact H2.
Qed.

(* ================= layering the files ================= *)
Lemma fold_res_app {A} (f : json -> A -> res json) acc l1 l2 :
  fold_res f acc (l1 ++ l2) = (do a <- fold_res f acc l1; fold_res f a l2).
Proof.
  revert acc. induction l1 as [|x r IH]; intros acc; simpl; auto.
  destruct (f acc x); simpl; auto.
Qed.

Lemma inv1_nil : Inv1 [].
Proof. split; [constructor | intros k v []]. Qed.

Lemma disk_char files :
  Forall okfile files ->
  exists d, load_disk false files = Ok (JObj d) /\ Inv1 d /\
    (forall S o, o <> kIgnore -> getk S (dget o) d = files_get (fun f => file_get f S o) files) /\
    (forall S p, get3 S p d = files_get (fun f => file_get_ign f S p) files).
Proof.
  unfold load_disk. induction files as [|f r IH]; intros W.
  - exists []. split; [reflexivity|]. split; [apply inv1_nil|]. split; intros; reflexivity.
  - inversion W as [|? ? Wf Wr]; subst. destruct (IH Wr) as [d0 [R0 [I0 [A0 B0]]]].
    simpl rev. rewrite fold_res_app, R0. simpl.
    destruct Wf as [fd [-> If]]. unfold layer_file.
    destruct (level1 fd d0 If I0) as [r1 [R1 [I1 [A1 B1]]]].
    destruct fd as [|x xs].
    + simpl. exists d0. split; [reflexivity|]. split; [exact I0|]. split.
      * intros S o N. rewrite A0; auto.
      * intros S p. rewrite B0. reflexivity.
    + change (truthy (JObj (x :: xs))) with true. cbv iota. rewrite R1. exists r1.
      split; [reflexivity|]. split; [exact I1|]. split.
      * intros S o N. rewrite A1, A0; auto.
      * intros S p. rewrite B1, B0. reflexivity.
Qed.

(* ================= the per-class loop ================= *)
(* getters on a section-level dictionary that obey the one-level law of recursive_update *)
Definition L2law (G : dict -> option json) : Prop :=
  G [] = None /\
  forall n t r, Inv2 n -> Inv2 t -> rupd false (JObj n) (JObj t) = Ok (JObj r) -> G r = ov (G n) (G t).

Lemma L2law_opt o : o <> kIgnore -> L2law (dget o).
Proof.
  intros N. split; auto. intros n t r In_ It R.
  destruct (level2 n t In_ It) as [r' [R' [_ [H _]]]]. rewrite R in R'. inversion R'; subst. apply H; exact N.
Qed.

Lemma L2law_path p : L2law (getk kIgnore (dget p)).
Proof.
  split; auto. intros n t r In_ It R.
  destruct (level2 n t In_ It) as [r' [R' [_ [_ H]]]]. rewrite R in R'. inversion R'; subst. apply H.
Qed.

Lemma class_step_char d cl c :
  Inv1 d -> Inv2 (c_own cl) -> Inv2 c ->
  exists r, class_step false d (JObj c) cl = Ok (JObj r) /\ Inv2 r /\
    forall G, L2law G -> G r = ov (getk (c_name cl) G d) (ov (G (c_own cl)) (G c)).
Proof.
  intros Id Io Ic. unfold class_step, apply_defaults, apply_section.
  destruct (level2 (c_own cl) c Io Ic) as [r1 [R1 [I1 _]]]. rewrite R1. simpl.
  destruct (dget (c_name cl) d) as [sec|] eqn:E.
  - destruct (inv1_get d _ _ Id E) as [sd [-> Is]].
    destruct (level2 sd r1 Is I1) as [r2 [R2 [I2 _]]]. exists r2. split; [exact R2|]. split; [exact I2|].
    intros G [G0 GL]. unfold getk. rewrite E. rewrite (GL sd r1 r2 Is I1 R2), (GL _ _ _ Io Ic R1). reflexivity.
  - exists r1. split; auto. split; auto. intros G [G0 GL]. unfold getk. rewrite E.
    rewrite (GL _ _ _ Io Ic R1). reflexivity.
Qed.

Fixpoint scanI (G : dict -> option json) (d : dict) (L : list cls) (s : option json) : option json :=
  match L with
  | [] => s
  | c :: r => scanI G d r (ov (getk (c_name c) G d) (ov (G (c_own c)) s))
  end.

Lemma fold_interleaved d : Inv1 d -> forall L c,
  Forall (fun cl => Inv2 (c_own cl)) L -> Inv2 c ->
  exists r, fold_res (class_step false d) (JObj c) L = Ok (JObj r) /\ Inv2 r /\
    forall G, L2law G -> G r = scanI G d L (G c).
Proof.
  intros Id. induction L as [|cl rest IH]; intros c W Ic.
  - exists c. simpl. auto.
  - inversion W; subst. destruct (class_step_char d cl c Id H1 Ic) as [r1 [R1 [I1 H]]].
    destruct (IH r1 H2 I1) as [r [R [Ir Hr]]]. exists r. simpl. rewrite R1. simpl. split; auto. split; auto.
    intros G GL. rewrite (Hr G GL), (H G GL). reflexivity.
Qed.

(* most-specific-first reading of the interleaved scan *)
Fixpoint resolveI (G : dict -> option json) (look : pystr -> option json) (M : list cls) (s : option json) : option json :=
  match M with
  | [] => s
  | c :: r =>
      match look (c_name c) with
      | Some v => Some v
      | None => match G (c_own c) with
                | Some JNull => None
                | Some dflt => Some dflt
                | None => resolveI G look r s
                end
      end
  end.

Lemma ov_nonnull v x : v <> JNull -> ov (Some v) x = Some v.
Proof. destruct v; intros N; try reflexivity. contradiction. Qed.

Lemma scanI_app G d L1 L2 s : scanI G d (L1 ++ L2) s = scanI G d L2 (scanI G d L1 s).
Proof. revert s. induction L1 as [|c r IH]; intros s; simpl; auto. Qed.

Lemma scanI_resolve G d L s :
  (forall S, getk S G d <> Some JNull) ->
  scanI G d L s = resolveI G (fun S => getk S G d) (rev L) s.
Proof.
  intros NN. induction L as [|c r IH] using rev_ind; simpl; auto.
  rewrite scanI_app, rev_app_distr. simpl. rewrite IH.
  destruct (getk (c_name c) G d) as [v|] eqn:E.
  - apply ov_nonnull. intros ->. apply (NN (c_name c)). exact E.
  - rewrite ov_none. destruct (G (c_own c)) as [[]|]; reflexivity.
Qed.

Fixpoint truncG (G : dict -> option json) (M : list cls) : list pystr :=
  match M with
  | [] => []
  | c :: r => match G (c_own c) with Some _ => [c_name c] | None => c_name c :: truncG G r end
  end.

Fixpoint mdefG (G : dict -> option json) (M : list cls) : option json :=
  match M with
  | [] => None
  | c :: r => match G (c_own c) with Some JNull => None | Some d => Some d | None => mdefG G r end
  end.

Lemma resolveI_first G look M :
  resolveI G look M None = match first_set look (truncG G M) with Some v => Some v | None => mdefG G M end.
Proof.
  induction M as [|c r IH]; simpl; auto.
  destruct (G (c_own c)) as [dflt|] eqn:E; simpl.
  - destruct (look (c_name c)); auto.
  - destruct (look (c_name c)); auto.
Qed.

Lemma first_set_filter (look : pystr -> option json) (inS : pystr -> bool) l :
  (forall S, inS S = false -> look S = None) -> first_set look l = first_set look (filter inS l).
Proof.
  intros H. induction l as [|x r IH]; simpl; auto.
  destruct (inS x) eqn:E; simpl.
  - rewrite IH. reflexivity.
  - rewrite (H x E). exact IH.
Qed.

Lemma list_str_eqb_eq a b : list_str_eqb a b = true -> a = b.
Proof.
  revert b. induction a as [|x xs IH]; intros [|y ys]; simpl; intros H; try discriminate; auto.
  apply andb_true_iff in H as [H1 H2]. apply str_eqb_eq in H1. f_equal; auto.
Qed.

Lemma trunc_names_truncG o M : trunc_names o M = truncG (dget o) M.
Proof. induction M as [|c r IH]; simpl; auto. destruct (dget o (c_own c)); auto. rewrite IH. reflexivity. Qed.

Lemma mdefault_mdefG o M : mdefault o M = mdefG (dget o) M.
Proof. induction M as [|c r IH]; simpl; auto. destruct (dget o (c_own c)) as [[]|]; auto. Qed.

(* files_get never yields an explicit null *)
Lemma ov_not_null n t : t <> Some JNull -> ov n t <> Some JNull.
Proof. destruct n as [[]|]; simpl; intros H; try discriminate; auto. Qed.

Lemma files_get_not_null get files : files_get get files <> Some JNull.
Proof. induction files as [|f r IH]; simpl; [discriminate | apply ov_not_null; exact IH]. Qed.

(* ---------- the other recognised layering: all class defaults first, then all disk sections ---------- *)
Lemma defaults_step_char cl c :
  Inv2 (c_own cl) -> Inv2 c ->
  exists r, apply_defaults false (JObj c) cl = Ok (JObj r) /\ Inv2 r /\
    forall G, L2law G -> G r = ov (G (c_own cl)) (G c).
Proof.
  intros Io Ic. unfold apply_defaults. destruct (level2 (c_own cl) c Io Ic) as [r1 [R1 [I1 _]]].
  exists r1. split; auto. split; auto. intros G [G0 GL]. apply (GL _ _ _ Io Ic R1).
Qed.

Lemma section_step_char d cl c :
  Inv1 d -> Inv2 c ->
  exists r, apply_section false d (JObj c) cl = Ok (JObj r) /\ Inv2 r /\
    forall G, L2law G -> G r = ov (getk (c_name cl) G d) (G c).
Proof.
  intros Id Ic. unfold apply_section. destruct (dget (c_name cl) d) as [sec|] eqn:E.
  - destruct (inv1_get d _ _ Id E) as [sd [-> Is]].
    destruct (level2 sd c Is Ic) as [r2 [R2 [I2 _]]]. exists r2. split; auto. split; auto.
    intros G [G0 GL]. unfold getk. rewrite E. apply (GL _ _ _ Is Ic R2).
  - exists c. split; auto. split; auto. intros G _. unfold getk. rewrite E. reflexivity.
Qed.

Fixpoint scanDef (G : dict -> option json) (L : list cls) (s : option json) : option json :=
  match L with [] => s | c :: r => scanDef G r (ov (G (c_own c)) s) end.

Fixpoint scanSec (G : dict -> option json) (d : dict) (L : list cls) (s : option json) : option json :=
  match L with [] => s | c :: r => scanSec G d r (ov (getk (c_name c) G d) s) end.

Lemma fold_defaults : forall L c,
  Forall (fun cl => Inv2 (c_own cl)) L -> Inv2 c ->
  exists r, fold_res (apply_defaults false) (JObj c) L = Ok (JObj r) /\ Inv2 r /\
    forall G, L2law G -> G r = scanDef G L (G c).
Proof.
  induction L as [|cl rest IH]; intros c W Ic.
  - exists c. simpl. auto.
  - inversion W; subst. destruct (defaults_step_char cl c H1 Ic) as [r1 [R1 [I1 H]]].
    destruct (IH r1 H2 I1) as [r [R [Ir Hr]]]. exists r. simpl. rewrite R1. simpl. split; auto. split; auto.
    intros G GL. rewrite (Hr G GL), (H G GL). reflexivity.
Qed.

Lemma fold_sections d : Inv1 d -> forall L c, Inv2 c ->
  exists r, fold_res (apply_section false d) (JObj c) L = Ok (JObj r) /\ Inv2 r /\
    forall G, L2law G -> G r = scanSec G d L (G c).
Proof.
  intros Id. induction L as [|cl rest IH]; intros c Ic.
  - exists c. simpl. auto.
  - destruct (section_step_char d cl c Id Ic) as [r1 [R1 [I1 H]]].
    destruct (IH r1 I1) as [r [R [Ir Hr]]]. exists r. simpl. rewrite R1. simpl. split; auto. split; auto.
    intros G GL. rewrite (Hr G GL), (H G GL). reflexivity.
Qed.

Lemma scanDef_app G L1 L2 s : scanDef G (L1 ++ L2) s = scanDef G L2 (scanDef G L1 s).
Proof. revert s. induction L1 as [|c r IH]; intros s; simpl; auto. Qed.

Lemma scanSec_app G d L1 L2 s : scanSec G d (L1 ++ L2) s = scanSec G d L2 (scanSec G d L1 s).
Proof. revert s. induction L1 as [|c r IH]; intros s; simpl; auto. Qed.

Lemma scanDef_mdef G L : scanDef G L None = mdefG G (rev L).
Proof.
  induction L as [|c r IH] using rev_ind; simpl; auto.
  rewrite scanDef_app, rev_app_distr. simpl. rewrite IH.
  destruct (G (c_own c)) as [[]|]; reflexivity.
Qed.

Lemma scanSec_first G d L s :
  (forall S, getk S G d <> Some JNull) ->
  scanSec G d L s = match first_set (fun S => getk S G d) (map c_name (rev L)) with Some v => Some v | None => s end.
Proof.
  intros NN. induction L as [|c r IH] using rev_ind; simpl; auto.
  rewrite scanSec_app, rev_app_distr. simpl. rewrite IH.
  destruct (getk (c_name c) G d) as [v|] eqn:E.
  - apply ov_nonnull. intros ->. apply (NN (c_name c)). exact E.
  - rewrite ov_none. reflexivity.
Qed.

Definition reachG (b : bool) (G : dict -> option json) (M : list cls) : list pystr :=
  if b then truncG G M else map c_name M.

(* ================= assembling: build_config, key by key ================= *)
Lemma tables_wf : tables_wfb = true.
Proof. vm_compute. reflexivity. Qed.

Lemma alookup_in {A} k (l : list (pystr * A)) : In k (map fst l) -> exists v, alookup k l = Some v.
Proof.
  induction l as [|[k0 v0] r IH]; simpl; intros H; [contradiction|].
  destruct (str_eqb k k0) eqn:E; eauto.
  destruct H as [H|H]; [subst; rewrite str_eqb_refl in E; discriminate | auto].
Qed.

Lemma known_ep_in ep : In ep ep_names -> known_ep ep = true.
Proof. intros H. unfold known_ep. destruct (alookup_in ep entrypoints H) as [v ->]. reflexivity. Qed.

Lemma classes_wf ep : In ep ep_names -> Forall (fun cl => Inv2 (c_own cl)) (classes_of ep).
Proof.
  intros H. unfold ep_names in H. apply in_map_iff in H as [e [E I]]. subst ep.
  pose proof tables_wf as T. unfold tables_wfb in T. rewrite forallb_forall in T. specialize (T e I).
  rewrite forallb_forall in T. apply Forall_forall. intros cl Icl. apply wf_ownb_inv2. apply T; exact Icl.
Qed.

Lemma wf_files_ok files : wf_filesb files = true -> Forall okfile files.
Proof.
  unfold wf_filesb. rewrite forallb_forall. intros H. apply Forall_forall. intros f I.
  apply wf_fileb_okfile. apply H; exact I.
Qed.

Lemma resolveI_ext G look look' M s :
  (forall S, look S = look' S) -> resolveI G look M s = resolveI G look' M s.
Proof. intros E. induction M as [|c r IH]; simpl; auto. rewrite E, IH. reflexivity. Qed.

Lemma first_set_ext (look look' : pystr -> option json) l :
  (forall S, look S = look' S) -> first_set look l = first_set look' l.
Proof. intros H. induction l as [|x r IH]; simpl; auto. rewrite (H x), IH. reflexivity. Qed.

Definition look_opt (files : list json) (o S : pystr) : option json := files_get (fun f => file_get f S o) files.
Definition look_ign (files : list json) (p S : pystr) : option json := files_get (fun f => file_get_ign f S p) files.

Lemma config_char ep files :
  In ep ep_names -> wf_filesb files = true ->
  exists c, build_config ep false files = Ok (JObj c) /\ Inv2 c /\
    (forall o, o <> kIgnore ->
       dget o c = match first_set (look_opt files o) (reachG layering_interleaved (dget o) (rev (classes_of ep))) with
                  | Some v => Some v
                  | None => mdefG (dget o) (rev (classes_of ep))
                  end) /\
    (forall p, getk kIgnore (dget p) c =
               match first_set (look_ign files p)
                               (reachG layering_interleaved (getk kIgnore (dget p)) (rev (classes_of ep))) with
               | Some v => Some v
               | None => mdefG (getk kIgnore (dget p)) (rev (classes_of ep))
               end).
Proof.
  intros Hep W. unfold build_config. rewrite (known_ep_in ep Hep). unfold build_config_gen.
  destruct (disk_char files (wf_files_ok files W)) as [d [R [Id [A B]]]].
  assert (NA : forall o, o <> kIgnore -> forall S, getk S (dget o) d <> Some JNull).
  { intros o N S. rewrite (A S o N). apply files_get_not_null. }
  assert (NB_ : forall p S, getk S (getk kIgnore (dget p)) d <> Some JNull).
  { intros p S. fold (get3 S p d). rewrite (B S p). apply files_get_not_null. }
  destruct layering_interleaved; rewrite R; simpl bind; cbv beta iota.
  - destruct (fold_interleaved d Id (classes_of ep) [] (classes_wf ep Hep) inv2_nil) as [c [Rc [Ic H]]].
    exists c. split; [exact Rc|]. split; [exact Ic|]. unfold reachG. split.
    + intros o N. rewrite (H (dget o) (L2law_opt o N)). simpl.
      rewrite scanI_resolve; [|apply NA; exact N]. rewrite resolveI_first.
      rewrite (first_set_ext _ (look_opt files o)); [reflexivity|]. intros S. apply A; exact N.
    + intros p. rewrite (H _ (L2law_path p)). simpl.
      rewrite scanI_resolve; [|apply NB_]. rewrite resolveI_first.
      rewrite (first_set_ext _ (look_ign files p)); [reflexivity|]. intros S. apply (B S p).
  - destruct (fold_defaults (classes_of ep) [] (classes_wf ep Hep) inv2_nil) as [c0 [R0 [I0 H0]]].
    rewrite R0. simpl bind.
    destruct (fold_sections d Id (classes_of ep) c0 I0) as [c [Rc [Ic H]]].
    exists c. split; [exact Rc|]. split; [exact Ic|]. unfold reachG. split.
    + intros o N. rewrite (H (dget o) (L2law_opt o N)), (H0 (dget o) (L2law_opt o N)). simpl.
      rewrite scanSec_first; [|apply NA; exact N]. rewrite scanDef_mdef.
      rewrite (first_set_ext _ (look_opt files o)); [reflexivity|]. intros S. apply A; exact N.
    + intros p. rewrite (H _ (L2law_path p)), (H0 _ (L2law_path p)). simpl.
      rewrite scanSec_first; [|apply NB_]. rewrite scanDef_mdef.
      rewrite (first_set_ext _ (look_ign files p)); [reflexivity|]. intros S. apply (B S p).
Qed.

Lemma reach_names_reachG b o M : reach_names b o M = reachG b (dget o) M.
Proof. unfold reach_names, reachG. destruct b; auto. apply trunc_names_truncG. Qed.

(* sections outside the ones that may set option o never mention it in a well-formed file *)
Lemma file_sec_opt kv S s o v :
  wf_fileb (JObj kv) = true -> dget S kv = Some (JObj s) -> dget o s = Some v -> inA o S = true.
Proof.
  simpl. intros W E1 E2. apply andb_true_iff in W as [_ W]. rewrite forallb_forall in W.
  apply dget_In in E1. specialize (W _ E1). simpl in W. apply andb_true_iff in W as [Wa Ws].
  apply andb_true_iff in Ws as [_ Ws]. rewrite forallb_forall in Ws. apply dget_In in E2.
  specialize (Ws _ E2). unfold wf_itemb in Ws. simpl in Ws. apply andb_true_iff in Ws as [Wo _].
  unfold inA. rewrite Wa, Wo. reflexivity.
Qed.

Lemma look_opt_outside files o S : wf_filesb files = true -> inA o S = false -> look_opt files o S = None.
Proof.
  unfold look_opt, wf_filesb. induction files as [|f r IH]; simpl; intros W N; auto.
  apply andb_true_iff in W as [Wf Wr]. rewrite (IH Wr N).
  assert (E : file_get f S o = None); [|rewrite E; reflexivity].
  destruct f; simpl; auto. unfold get2. destruct (dget S kv) as [[]|] eqn:E1; auto.
  destruct (dget o kv0) eqn:E2; auto. rewrite (file_sec_opt _ _ _ _ _ Wf E1 E2) in N. discriminate.
Qed.

Lemma look_ign_outside files p S : wf_filesb files = true -> inA kIgnore S = false -> look_ign files p S = None.
Proof.
  unfold look_ign, wf_filesb. induction files as [|f r IH]; simpl; intros W N; auto.
  apply andb_true_iff in W as [Wf Wr]. rewrite (IH Wr N).
  assert (E : file_get_ign f S p = None); [|rewrite E; reflexivity].
  destruct f; simpl; auto. destruct (dget S kv) as [[]|] eqn:E1; auto.
  unfold get2. destruct (dget kIgnore kv0) eqn:E2; auto.
  rewrite (file_sec_opt _ _ _ _ _ Wf E1 E2) in N. discriminate.
Qed.

(* ================= the main theorems ================= *)
Lemma effective_value_spec_lemma ep o files flags :
  In ep ep_names -> o <> kIgnore -> conforms ep o = true -> wf_filesb files = true ->
  effective ep files flags o = Ok (spec_effective ep files flags o).
Proof.
  intros Hep N C W. destruct (config_char ep files Hep W) as [c [R [_ [Ho _]]]].
  unfold effective, spec_effective. rewrite R. simpl. f_equal.
  destruct (dget o flags); auto.
  rewrite (dget_ddel_other kIgnore o c N), (Ho o N).
  unfold conforms in C. apply list_str_eqb_eq in C. rewrite reach_names_reachG in C.
  rewrite (first_set_filter (look_opt files o) (inA o) (reachG _ _ _)); [|intros S; apply look_opt_outside; exact W].
  rewrite C.
  rewrite <- (first_set_filter (look_opt files o) (inA o) (spec_sections ep)); [|intros S; apply look_opt_outside; exact W].
  unfold look_opt.
  destruct (first_set (fun S => files_get (fun f => file_get f S o) files) (spec_sections ep)); auto.
  unfold builtin_default. rewrite mdefault_mdefG. reflexivity.
Qed.

Lemma no_ignore_defaults G M :
  Forall (fun c => G (c_own c) = None) M -> truncG G M = map c_name M /\ mdefG G M = None.
Proof.
  induction 1 as [|c r H _ [IH1 IH2]]; simpl; auto. rewrite H, IH1, IH2. auto.
Qed.

Lemma ignore_default_none p c : ignore_default_empty c = true -> getk kIgnore (dget p) (c_own c) = None.
Proof.
  unfold ignore_default_empty, getk. destruct (dget kIgnore (c_own c)) as [[]|]; try discriminate; auto.
  destruct kv; try discriminate. reflexivity.
Qed.

Lemma ignore_merge_pathwise_lemma ep files p :
  In ep ep_names -> conforms_ign ep = true -> wf_filesb files = true ->
  exists ign, installed_ignore ep files = Ok (JObj ign) /\ dget p ign = spec_ignore_path ep files p.
Proof.
  intros Hep C W. destruct (config_char ep files Hep W) as [c [R [Ic [_ Hp]]]].
  unfold installed_ignore. rewrite R. simpl.
  apply andb_true_iff in C as [C1 C2]. apply list_str_eqb_eq in C2.
  assert (D : Forall (fun cl => getk kIgnore (dget p) (c_own cl) = None) (rev (classes_of ep))).
  { apply Forall_forall. intros cl I. apply in_rev in I. rewrite forallb_forall in C1.
    apply ignore_default_none. apply C1; exact I. }
  destruct (no_ignore_defaults _ _ D) as [T M].
  specialize (Hp p). rewrite M in Hp.
  assert (T' : reachG layering_interleaved (getk kIgnore (dget p)) (rev (classes_of ep)) = map c_name (rev (classes_of ep))).
  { unfold reachG. destruct layering_interleaved; auto. }
  rewrite T' in Hp.
  rewrite (first_set_filter (look_ign files p) (inA kIgnore) (map c_name _)) in Hp;
    [|intros S; apply look_ign_outside; exact W].
  rewrite C2 in Hp.
  rewrite <- (first_set_filter (look_ign files p) (inA kIgnore) (spec_sections ep)) in Hp;
    [|intros S; apply look_ign_outside; exact W].
  assert (X : match first_set (look_ign files p) (spec_sections ep) with Some v => Some v | None => None end
              = spec_ignore_path ep files p).
  { unfold spec_ignore_path, look_ign. destruct (first_set _ _); reflexivity. }
  rewrite X in Hp. clear X.
  unfold getk in Hp. destruct (dget kIgnore c) as [i|] eqn:E.
  - destruct (inv2_get_ign c i Ic E) as [id [-> _]]. exists id. split; auto.
  - exists []. split; auto.
Qed.

Lemma first_set_ext_in (look look' : pystr -> option json) l :
  (forall S, In S l -> look S = look' S) -> first_set look l = first_set look' l.
Proof.
  induction l as [|x r IH]; simpl; intros H; auto.
  rewrite (H x (or_introl eq_refl)), IH; auto.
Qed.

Lemma files_get_none get files : (forall f, In f files -> get f = None) -> files_get get files = None.
Proof.
  induction files as [|f r IH]; simpl; intros H; auto.
  rewrite (H f (or_introl eq_refl)), IH; auto.
Qed.

(* the working-directory file masks, key by key, whatever lower-priority files say *)
Lemma cwd_file_wins_lemma ep o cwd rest flags :
  In ep ep_names -> o <> kIgnore -> conforms ep o = true -> wf_filesb (cwd :: rest) = true ->
  (forall S f, In S (spec_sections ep) -> In f rest -> file_get f S o <> None -> file_get cwd S o <> None) ->
  effective ep (cwd :: rest) flags o = effective ep [cwd] flags o.
Proof.
  intros Hep N C W H.
  assert (W1 : wf_filesb [cwd] = true).
  { unfold wf_filesb in *. simpl in *. apply andb_true_iff in W as [W _]. rewrite W. reflexivity. }
  rewrite (effective_value_spec_lemma ep o _ flags Hep N C W), (effective_value_spec_lemma ep o _ flags Hep N C W1).
  f_equal. unfold spec_effective. destruct (dget o flags); auto.
  rewrite (first_set_ext_in _ (fun S => files_get (fun f => file_get f S o) [cwd]) (spec_sections ep)); auto.
  intros S I. simpl. destruct (file_get cwd S o) as [v|] eqn:E.
  - destruct v; reflexivity.
  - rewrite !ov_none. apply files_get_none. intros f If.
    destruct (file_get f S o) eqn:E2; auto. exfalso. apply (H S f I If); [rewrite E2; discriminate | exact E].
Qed.

(* ================= finite facts about the generated tables ================= *)
Definition kLog : pystr := of_ascii "log_level".
Definition kPort : pystr := of_ascii "port".
Definition kServer : pystr := of_ascii "server".
Definition kGlobal : pystr := of_ascii "Global".

Definition is_exception (ep o : pystr) : bool := str_eqb o kLog.   (* Server.port conforms since the layering repair *)

Lemma conforms_table :
  forallb (fun ep => forallb (fun o => conforms ep o || is_exception ep o) (options ep)) ep_names = true.
Proof. vm_compute. reflexivity. Qed.

Lemma conforms_exceptions ep o :
  In ep ep_names -> In o (options ep) -> o <> kLog -> conforms ep o = true.
Proof.
  intros Hep Ho N1. pose proof conforms_table as T. rewrite forallb_forall in T. specialize (T ep Hep).
  rewrite forallb_forall in T. specialize (T o Ho). apply orb_true_iff in T as [T|T]; auto.
  unfold is_exception in T. apply str_eqb_eq in T. contradiction.
Qed.

Lemma conforms_ign_all ep : In ep ep_names -> conforms_ign ep = true.
Proof.
  intros Hep. assert (T : forallb conforms_ign ep_names = true) by (vm_compute; reflexivity).
  rewrite forallb_forall in T. apply T; exact Hep.
Qed.

(* every documented (section, entry point) pair: is the section among the classes build_config layers? *)
Definition doc_pairs : list (pystr * pystr) := flat_map (fun p => map (fun e => (fst p, e)) (snd p)) documented.
Definition participates (S cn : pystr) : bool :=
  existsb (fun e => str_eqb (snd e) cn &&
                    existsb (str_eqb S) (match alookup (fst e) ep_mro with Some l => l | None => [] end)) entrypoints.

Lemma documented_sections_participate_lemma S cn :
  In (S, cn) doc_pairs -> S <> kGlobal -> participates S cn = true.
Proof.
  intros I N.
  assert (T : forallb (fun p => participates (fst p) (snd p) || str_eqb (fst p) kGlobal) doc_pairs = true)
    by (vm_compute; reflexivity).
  rewrite forallb_forall in T. specialize (T _ I). simpl in T. apply orb_true_iff in T as [T|T]; auto.
  apply str_eqb_eq in T. contradiction.
Qed.

Lemma documented_sections_known :
  forallb (fun p => existsb (str_eqb (fst p)) specificity) documented = true.
Proof. vm_compute. reflexivity. Qed.

(* the trait default and the parser's own default never disagree *)
Lemma defaults_agree :
  forallb (fun ep => forallb (fun o =>
     match mdefault o (rev (classes_of ep)), alookup ep parser_defaults with
     | Some d, Some pd => match dget o pd with Some x => json_eqb d x | None => true end
     | _, _ => true
     end) (options ep)) ep_names = true.
Proof. vm_compute. reflexivity. Qed.

(* ================= non-vacuity ================= *)
Definition ex_files : list json :=
  [ JObj [(of_ascii "NbMerge", JObj [(of_ascii "output_strategy", JStr (of_ascii "use-remote"))]);
          (of_ascii "Merge", JObj [(kIgnore, JObj [(of_ascii "/cells/*/outputs", JBool true)])])];
    JObj [(of_ascii "NbMerge", JObj [(of_ascii "merge_strategy", JStr (of_ascii "use-base"));
                                     (of_ascii "output_strategy", JStr (of_ascii "use-base"))])];
    JObj [(of_ascii "Merge", JObj [(of_ascii "ignore_transients", JBool false); (of_ascii "merge_strategy", JNull);
                                   (kIgnore, JObj [(of_ascii "/metadata", JArr [JStr (of_ascii "foo")]);
                                                   (of_ascii "/cells/*/outputs", JBool false)])])] ].

Example effective_value_spec_nonvacuous :
  In (of_ascii "nbmerge") ep_names /\ wf_filesb ex_files = true /\
  conforms (of_ascii "nbmerge") (of_ascii "merge_strategy") = true /\
  conforms (of_ascii "nbmerge") (of_ascii "output_strategy") = true /\
  effective (of_ascii "nbmerge") ex_files [] (of_ascii "merge_strategy") = Ok (JStr (of_ascii "use-base")) /\
  effective (of_ascii "nbmerge") ex_files [] (of_ascii "output_strategy") = Ok (JStr (of_ascii "use-remote")) /\
  effective (of_ascii "nbmerge") ex_files [] (of_ascii "ignore_transients") = Ok (JBool false) /\
  effective (of_ascii "nbmerge") ex_files [(of_ascii "output_strategy", JStr (of_ascii "remove"))] (of_ascii "output_strategy")
    = Ok (JStr (of_ascii "remove")).
Proof. vm_compute. repeat split; auto 20. Qed.

Example ignore_merge_nonvacuous :
  conforms_ign (of_ascii "nbmerge") = true /\
  canon_res (installed_ignore (of_ascii "nbmerge") ex_files)
  = Ok (JObj [(of_ascii "/cells/*/outputs", JBool true); (of_ascii "/metadata", JArr [JStr (of_ascii "foo")])]).
Proof. vm_compute. split; reflexivity. Qed.

(* ================= statements as they appear in Props/C19.v ================= *)
Lemma effective_value_spec_full ep o files flags :
  In ep ep_names -> In o (options ep) -> o <> kIgnore ->
  o <> kLog ->          (* the known deviation (Global section), see the _refuted theorem *)
  wf_filesb files = true ->
  effective ep files flags o = Ok (spec_effective ep files flags o).
Proof.
  intros Hep Ho N N1 W. apply effective_value_spec_lemma; auto. apply conforms_exceptions; auto.
Qed.

Lemma cwd_file_wins_full ep o cwd rest flags :
  In ep ep_names -> In o (options ep) -> o <> kIgnore -> o <> kLog ->
  wf_filesb (cwd :: rest) = true ->
  (forall S f, In S (spec_sections ep) -> In f rest -> file_get f S o <> None -> file_get cwd S o <> None) ->
  effective ep (cwd :: rest) flags o = effective ep [cwd] flags o.
Proof.
  intros Hep Ho N N1 W H. apply cwd_file_wins_lemma; auto. apply conforms_exceptions; auto.
Qed.

Lemma ignore_merge_pathwise_full ep files p :
  In ep ep_names -> wf_filesb files = true ->
  exists ign, installed_ignore ep files = Ok (JObj ign) /\ dget p ign = spec_ignore_path ep files p.
Proof. intros Hep W. apply ignore_merge_pathwise_lemma; auto. apply conforms_ign_all; exact Hep. Qed.
