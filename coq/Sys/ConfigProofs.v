(* C19 -- proofs about the option-resolution model Sys/Config.v. *)
From Coq Require Import List NArith ZArith Bool String Lia.
From NB Require Import Base.Json Base.Res Diff.Codec Gen.ConfigClasses Sys.Config.
Import ListNotations.
Local Open Scope list_scope.

(* ---------- witnesses of the two known deviations (F11) ---------- *)
Definition w_global_files : list json :=
  [JObj [(of_ascii "Global", JObj [(of_ascii "log_level", JStr (of_ascii "DEBUG"))])]].
Definition w_server_files : list json :=
  [JObj [(of_ascii "Web", JObj [(of_ascii "port", JInt 9000)])]].

Lemma global_section_refuted_lemma :
  exists ep files o, In ep ep_names /\ In o (options ep) /\ wf_filesb files = true /\
    effective ep files [] o <> Ok (spec_effective ep files [] o).
Proof.
  exists (of_ascii "nbdiff"), w_global_files, (of_ascii "log_level").
  repeat split; try (vm_compute; tauto). vm_compute. discriminate.
Qed.

Lemma server_port_refuted_lemma :
  exists files, wf_filesb files = true /\
    effective (of_ascii "server") files [] (of_ascii "port") <> Ok (spec_effective (of_ascii "server") files [] (of_ascii "port")).
Proof.
  exists w_server_files. split; [vm_compute; reflexivity | vm_compute; discriminate].
Qed.
