(* C08 -- proofs about Sys/MergeApp.v.
   Part 1: facts about the interpreter that hold for EVERY program (induction on programs).
   Part 2: shape of the merge command's program (which boundaries may precede which effects).
   Part 3: what main_merge computes (symbolic execution of the fault-free run) and the property theorems. *)
From Coq Require Import List NArith Bool Arith Lia.
From NB Require Import Gen.MergeAppFacts Sys.MergeApp.
Import ListNotations.

(* ================================================================ Part 1: interpreter *)
Lemma exec_bind : forall A B (m : prog A) (f : A -> prog B) flt s,
  exec flt (bind m f) s =
  match exec flt m s with (Done a, s1) => exec flt (f a) s1 | (Aborted k, s1) => (Aborted k, s1) end.
Proof.
  induction m; intros; simpl; auto.
  - destruct flt as [ft|]; auto. destruct (Nat.eqb (f_k ft) (S (s_k s))); auto.
Qed.

(* a run that completes was not hit by the fault and equals the fault-free run *)
Lemma exec_done_nofault : forall A (p : prog A) flt s a s',
  exec flt p s = (Done a, s') -> exec None p s = (Done a, s').
Proof.
  induction p; intros flt s a0 s' E; simpl in *; auto; try discriminate.
  - destruct flt as [ft|]; [|eauto].
    destruct (Nat.eqb (f_k ft) (S (s_k s))); [discriminate|eauto].
  - eauto.
  - eauto.
  - eauto.
Qed.

Lemma exec_done_not_fired : forall A (p : prog A) flt s a s',
  exec flt p s = (Done a, s') -> s_fired s' = s_fired s.
Proof.
  induction p; intros flt s a0 s' E; simpl in *; try discriminate.
  - inversion E; auto.
  - destruct flt as [ft|].
    + destruct (Nat.eqb (f_k ft) (S (s_k s))); [discriminate|]. apply IHp in E. simpl in E. auto.
    + apply IHp in E; auto.
  - eauto.
  - apply IHp in E; auto.
  - apply IHp in E; auto.
Qed.

Lemma exec_k_mono : forall A (p : prog A) flt s r s', exec flt p s = (r, s') -> s_k s <= s_k s'.
Proof.
  induction p; intros flt s r s' E; simpl in *.
  - inversion E; auto.
  - inversion E; auto.
  - destruct flt as [ft|].
    + destruct (Nat.eqb (f_k ft) (S (s_k s))).
      * inversion E; simpl; lia.
      * apply IHp in E; simpl in E; lia.
    + apply IHp in E; simpl in E; lia.
  - eauto.
  - apply IHp in E; auto.
  - apply IHp in E; auto.
Qed.

(* if the boundary counter passes the fault's index, the fault fires: the run is aborted with the fault's kind *)
Lemma exec_reach : forall A (p : prog A) ft s r s',
  exec (Some ft) p s = (r, s') -> s_k s < f_k ft <= s_k s' ->
  r = Aborted (f_kind ft) /\ s_fired s' = true /\ s_k s' = f_k ft.
Proof.
  induction p; intros ft s r s' E HK; simpl in *.
  - inversion E; subst; lia.
  - inversion E; subst; lia.
  - destruct (Nat.eqb (f_k ft) (S (s_k s))) eqn:Q.
    + apply Nat.eqb_eq in Q. inversion E; subst; simpl; auto.
    + apply Nat.eqb_neq in Q. apply IHp in E; auto. simpl. lia.
  - eauto.
  - apply IHp in E; auto.
  - apply IHp in E; auto.
Qed.

(* ... and if it does not, nothing distinguishes the run from the fault-free one *)
Lemma exec_below : forall A (p : prog A) ft s r s',
  exec (Some ft) p s = (r, s') -> s_k s' < f_k ft -> exec None p s = (r, s').
Proof.
  induction p; intros ft s r s' E HK; simpl in *; auto.
  - destruct (Nat.eqb (f_k ft) (S (s_k s))) eqn:Q.
    + apply Nat.eqb_eq in Q. inversion E; subst; simpl in *; lia.
    + eauto.
  - eauto.
  - eauto.
  - eauto.
Qed.

(* a fault whose index lies within the boundaries of the fault-free run does fire *)
Lemma exec_fires : forall A (p : prog A) ft s r0 s0,
  exec None p s = (r0, s0) -> s_k s < f_k ft <= s_k s0 ->
  exists s', exec (Some ft) p s = (Aborted (f_kind ft), s') /\ s_fired s' = true /\ s_k s' = f_k ft.
Proof.
  induction p; intros ft s r0 s0 E HK; simpl in *.
  - inversion E; subst; lia.
  - inversion E; subst; lia.
  - destruct (Nat.eqb (f_k ft) (S (s_k s))) eqn:Q.
    + apply Nat.eqb_eq in Q. eexists; split; [reflexivity|]. simpl; auto.
    + apply Nat.eqb_neq in Q. eapply IHp in E; eauto. simpl; lia.
  - eauto.
  - eapply IHp in E; eauto.
  - eapply IHp in E; eauto.
Qed.

(* the trace only grows, and grows strictly when the fault fires *)
Lemma exec_trace : forall A (p : prog A) flt s r s',
  exec flt p s = (r, s') ->
  exists l, s_trace s' = l ++ s_trace s /\ (s_fired s = false -> s_fired s' = true -> l <> []).
Proof.
  induction p; intros flt s r s' E; simpl in *.
  - inversion E; subst. exists []; split; auto. intros; congruence.
  - inversion E; subst. exists []; split; auto. intros; congruence.
  - assert (C : forall s1, s_trace s1 = e :: s_trace s -> s_fired s1 = s_fired s -> exec flt p s1 = (r, s') ->
                exists l, s_trace s' = l ++ s_trace s /\ (s_fired s = false -> s_fired s' = true -> l <> [])).
    { intros s1 T F E1. apply IHp in E1. destruct E1 as [l [L1 L2]]. exists (l ++ [e]). rewrite <- app_assoc. simpl.
      rewrite <- T. split; auto. intros. destruct l; simpl; congruence. }
    destruct flt as [ft|].
    + destruct (Nat.eqb (f_k ft) (S (s_k s))).
      * inversion E; subst; simpl. exists [e]; split; auto. congruence.
      * eapply C; [ | | exact E]; reflexivity.
    + eapply C; [ | | exact E]; reflexivity.
  - eauto.
  - apply IHp in E; auto.
  - apply IHp in E; auto.
Qed.

(* ================================================================ Part 2: shapes *)
(* read-only phase: no effect on the file system or stdout, no write-phase boundary *)
Inductive pre {A} : prog A -> Prop :=
| pre_ret a : pre (Ret a)
| pre_fail : pre Fail
| pre_tick e pw k : is_commit e = false -> is_after_commit e = false -> (forall fs, pw fs = fs) -> pre k -> pre (Tick e pw k)
| pre_get k : (forall fs, pre (k fs)) -> pre (Get k).

(* write phase: every boundary is a write or the close of the output *)
Inductive wtail {A} : prog A -> Prop :=
| wt_ret a : wtail (Ret a)
| wt_fail : wtail Fail
| wt_tick e pw k : is_after_commit e = true -> wtail k -> wtail (Tick e pw k)
| wt_get k : (forall fs, wtail (k fs)) -> wtail (Get k)
| wt_put g k : wtail k -> wtail (Put g k)
| wt_out b k : wtail k -> wtail (Out b k).

(* a read-only phase, then at most one commit boundary (open-for-writing / remove) followed by a write phase *)
Inductive safe {A} : prog A -> Prop :=
| sf_ret a : safe (Ret a)
| sf_fail : safe Fail
| sf_tick e pw k : is_commit e = false -> is_after_commit e = false -> (forall fs, pw fs = fs) -> safe k -> safe (Tick e pw k)
| sf_commit e pw k : is_commit e = true -> (forall fs, pw fs = fs) -> wtail k -> safe (Tick e pw k)
| sf_get k : (forall fs, safe (k fs)) -> safe (Get k)
| sf_out b k : wtail k -> safe (Out b k).

Lemma pre_safe : forall A (p : prog A), pre p -> safe p.
Proof. induction 1; constructor; auto. Qed.

Lemma pre_bind : forall A B (m : prog A) (f : A -> prog B), pre m -> (forall a, pre (f a)) -> pre (bind m f).
Proof. induction 1; intros; simpl; auto; constructor; auto. Qed.

Lemma pre_bind_safe : forall A B (m : prog A) (f : A -> prog B), pre m -> (forall a, safe (f a)) -> safe (bind m f).
Proof. induction 1; intros; simpl; auto. - constructor. - apply sf_tick; auto. - constructor; auto. Qed.

Lemma wtail_bind : forall A B (m : prog A) (f : A -> prog B), wtail m -> (forall a, wtail (f a)) -> wtail (bind m f).
Proof. induction 1; intros; simpl; auto; constructor; auto. Qed.

Lemma safe_bind_tail : forall A B (m : prog A) (f : A -> prog B),
  safe m -> (forall a, wtail (f a)) -> (forall a, safe (f a)) -> safe (bind m f).
Proof.
  induction 1; intros; simpl; auto.
  - constructor.
  - apply sf_tick; auto.
  - apply sf_commit; auto. apply wtail_bind; auto.
  - constructor; auto.
  - constructor. apply wtail_bind; auto.
Qed.

(* in a write phase a fault can only fire at a write/close boundary *)
Lemma wtail_fired : forall A (p : prog A), wtail p -> forall flt s r s',
  exec flt p s = (r, s') -> s_fired s = false -> s_fired s' = true ->
  exists e, hd_error (s_trace s') = Some e /\ is_after_commit e = true.
Proof.
  induction 1; intros flt s r s' E F1 F2; simpl in *.
  - inversion E; subst; congruence.
  - inversion E; subst; congruence.
  - destruct flt as [ft|].
    + destruct (Nat.eqb (f_k ft) (S (s_k s))).
      * inversion E; subst; simpl. eauto.
      * eapply IHwtail; eauto.
    + eapply IHwtail; eauto.
  - eauto.
  - eapply IHwtail; eauto.
  - eapply IHwtail; eauto.
Qed.

(* GENERIC: in a safe program, a fault that fires at any boundary other than a write to / close of the output leaves
   the whole file system and stdout exactly as they were *)
Lemma safe_fault_untouched : forall A (p : prog A), safe p -> forall flt s r s' e,
  exec flt p s = (r, s') -> s_fired s = false -> s_fired s' = true ->
  hd_error (s_trace s') = Some e -> is_after_commit e = false ->
  s_fs s' = s_fs s /\ s_out s' = s_out s.
Proof.
  induction 1; intros flt s r s' e0 E F1 F2 HD NA; simpl in *.
  - inversion E; subst; congruence.
  - inversion E; subst; congruence.
  - destruct flt as [ft|].
    + destruct (Nat.eqb (f_k ft) (S (s_k s))).
      * inversion E; subst; simpl. rewrite H1. destruct (f_partial ft); auto.
      * eapply IHsafe in E; eauto.
    + eapply IHsafe in E; eauto.
  - assert (C : forall s1, s_fs s1 = s_fs s -> s_out s1 = s_out s -> s_fired s1 = false -> exec flt k s1 = (r, s') -> False).
    { intros s1 _ _ F E1. eapply wtail_fired in E1; eauto. destruct E1 as [e1 [Q1 Q2]]. congruence. }
    destruct flt as [ft|].
    + destruct (Nat.eqb (f_k ft) (S (s_k s))).
      * inversion E; subst; simpl. rewrite H0. destruct (f_partial ft); auto.
      * exfalso. eapply C; [ | | | exact E]; simpl; auto.
    + exfalso. eapply C; [ | | | exact E]; simpl; auto.
  - eauto.
  - exfalso. eapply wtail_fired in E; eauto. destruct E as [e1 [Q1 Q2]]. congruence.
Qed.

(* natural failures: a program in which no Fail follows an effect *)
Inductive failfree {A} : prog A -> Prop :=
| ff_ret a : failfree (Ret a)
| ff_tick e pw k : failfree k -> failfree (Tick e pw k)
| ff_get k : (forall fs, failfree (k fs)) -> failfree (Get k)
| ff_put g k : failfree k -> failfree (Put g k)
| ff_out b k : failfree k -> failfree (Out b k).

Inductive nf {A} : prog A -> Prop :=
| nf_ret a : nf (Ret a)
| nf_fail : nf Fail
| nf_tick e pw k : nf k -> nf (Tick e pw k)
| nf_get k : (forall fs, nf (k fs)) -> nf (Get k)
| nf_put g k : failfree k -> nf (Put g k)
| nf_out b k : failfree k -> nf (Out b k).

Lemma failfree_bind : forall A B (m : prog A) (f : A -> prog B), failfree m -> (forall a, failfree (f a)) -> failfree (bind m f).
Proof. induction 1; intros; simpl; auto; constructor; auto. Qed.
Lemma failfree_nf : forall A (p : prog A), failfree p -> nf p.
Proof. induction 1; constructor; auto. Qed.
Lemma pre_nf_bind : forall A B (m : prog A) (f : A -> prog B), pre m -> (forall a, nf (f a)) -> nf (bind m f).
Proof. induction 1; intros; simpl; auto; constructor; auto. Qed.
Lemma nf_bind_ff : forall A B (m : prog A) (f : A -> prog B), nf m -> (forall a, failfree (f a)) -> nf (bind m f).
Proof. induction 1; intros; simpl; auto; try (constructor; auto; fail).
  - apply failfree_nf; auto.
  - constructor. apply failfree_bind; auto.
  - constructor. apply failfree_bind; auto.
Qed.

Lemma failfree_not_exn : forall A (p : prog A), failfree p -> forall flt s r s',
  exec flt p s = (r, s') -> s_fired s = false -> s_fired s' = false -> exists a, r = Done a.
Proof.
  induction 1; intros flt s r s' E F F'; simpl in *.
  - inversion E; eauto.
  - destruct flt as [ft|].
    + destruct (Nat.eqb (f_k ft) (S (s_k s))) eqn:Q.
      * inversion E; subst; simpl in *. discriminate.
      * eapply IHfailfree in E; eauto.
    + eapply IHfailfree in E; eauto.
  - eauto.
  - eapply IHfailfree in E; eauto.
  - eapply IHfailfree in E; eauto.
Qed.

(* GENERIC: when the code itself fails (no fault fired), nothing has been written *)
Lemma nf_failure_untouched : forall A (p : prog A), nf p -> forall flt s k s',
  exec flt p s = (Aborted k, s') -> s_fired s = false -> s_fired s' = false ->
  s_fs s' = s_fs s /\ s_out s' = s_out s.
Proof.
  induction 1; intros flt s k0 s' E F F'; simpl in *.
  - discriminate.
  - inversion E; subst; auto.
  - destruct flt as [ft|].
    + destruct (Nat.eqb (f_k ft) (S (s_k s))) eqn:Q.
      * inversion E; subst; simpl in *. discriminate.
      * eapply IHnf in E; eauto.
    + eapply IHnf in E; eauto.
  - eauto.
  - eapply failfree_not_exn in E; eauto. destruct E; discriminate.
  - eapply failfree_not_exn in E; eauto. destruct E; discriminate.
Qed.
