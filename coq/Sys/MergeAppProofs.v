(* C08 -- proofs about Sys/MergeApp.v.
   Part 1: facts about the interpreter that hold for EVERY program (induction on programs).
   Part 2: shape of the merge command's program (which boundaries may precede which effects).
   Part 3: what main_merge computes (symbolic execution of the fault-free run) and the property theorems. *)
From Coq Require Import List NArith Bool Arith Lia.
From NB Require Import Gen.MergeAppFacts.
From NB Require Import Sys.MergeApp.
Import ListNotations.

(* ================================================================ Part 1: interpreter *)
Lemma exec_bind : forall A B (m : prog A) (f : A -> prog B) flt s,
  exec flt (bind m f) s =
  match exec flt m s with (Done a, s1) => exec flt (f a) s1 | (Aborted k, s1) => (Aborted k, s1) end.
Proof.
  induction m; intros; simpl; auto.
  - destruct flt as [ft|]; auto. destruct (Nat.eqb (f_k ft) (S (s_k s))); auto.
Qed.

(* a run that completes was not hit by the fault and equals the fault-free run *)
Lemma exec_done_nofault : forall A (p : prog A) flt s a s',
  exec flt p s = (Done a, s') -> exec None p s = (Done a, s').
Proof.
  induction p; intros flt s a0 s' E; simpl in *; auto; try discriminate.
  - destruct flt as [ft|]; [|eauto].
    destruct (Nat.eqb (f_k ft) (S (s_k s))); [discriminate|eauto].
  - eauto.
  - eauto.
  - eauto.
Qed.

Lemma exec_done_not_fired : forall A (p : prog A) flt s a s',
  exec flt p s = (Done a, s') -> s_fired s' = s_fired s.
Proof.
  induction p; intros flt s a0 s' E; simpl in *; try discriminate.
  - inversion E; auto.
  - destruct flt as [ft|].
    + destruct (Nat.eqb (f_k ft) (S (s_k s))); [discriminate|]. apply IHp in E. simpl in E. auto.
    + apply IHp in E; auto.
  - eauto.
  - apply IHp in E; auto.
  - apply IHp in E; auto.
Qed.

Lemma exec_k_mono : forall A (p : prog A) flt s r s', exec flt p s = (r, s') -> s_k s <= s_k s'.
Proof.
  induction p; intros flt s r s' E; simpl in *.
  - inversion E; auto.
  - inversion E; auto.
  - destruct flt as [ft|].
    + destruct (Nat.eqb (f_k ft) (S (s_k s))).
      * inversion E; simpl; lia.
      * apply IHp in E; simpl in E; lia.
    + apply IHp in E; simpl in E; lia.
  - eauto.
  - apply IHp in E; auto.
  - apply IHp in E; auto.
Qed.

(* if the boundary counter passes the fault's index, the fault fires: the run is aborted with the fault's kind *)
Lemma exec_reach : forall A (p : prog A) ft s r s',
  exec (Some ft) p s = (r, s') -> s_k s < f_k ft <= s_k s' ->
  r = Aborted (f_kind ft) /\ s_fired s' = true /\ s_k s' = f_k ft.
Proof.
  induction p; intros ft s r s' E HK; simpl in *.
  - inversion E; subst; lia.
  - inversion E; subst; lia.
  - destruct (Nat.eqb (f_k ft) (S (s_k s))) eqn:Q.
    + apply Nat.eqb_eq in Q. inversion E; subst; simpl; auto.
    + apply Nat.eqb_neq in Q. apply IHp in E; auto. simpl. lia.
  - eauto.
  - apply IHp in E; auto.
  - apply IHp in E; auto.
Qed.

(* ... and if it does not, nothing distinguishes the run from the fault-free one *)
Lemma exec_below : forall A (p : prog A) ft s r s',
  exec (Some ft) p s = (r, s') -> s_k s' < f_k ft -> exec None p s = (r, s').
Proof.
  induction p; intros ft s r s' E HK; simpl in *; auto.
  - destruct (Nat.eqb (f_k ft) (S (s_k s))) eqn:Q.
    + apply Nat.eqb_eq in Q. inversion E; subst; simpl in *; lia.
    + eauto.
  - eauto.
  - eauto.
  - eauto.
Qed.

(* a fault whose index lies within the boundaries of the fault-free run does fire *)
Lemma exec_fires : forall A (p : prog A) ft s r0 s0,
  exec None p s = (r0, s0) -> s_k s < f_k ft <= s_k s0 ->
  exists s', exec (Some ft) p s = (Aborted (f_kind ft), s') /\ s_fired s' = true /\ s_k s' = f_k ft.
Proof.
  induction p; intros ft s r0 s0 E HK; simpl in *.
  - inversion E; subst; lia.
  - inversion E; subst; lia.
  - destruct (Nat.eqb (f_k ft) (S (s_k s))) eqn:Q.
    + apply Nat.eqb_eq in Q. eexists; split; [reflexivity|]. simpl; auto.
    + apply Nat.eqb_neq in Q. eapply IHp in E; eauto. simpl; lia.
  - eauto.
  - eapply IHp in E; eauto.
  - eapply IHp in E; eauto.
Qed.

(* the trace only grows, and grows strictly when the fault fires *)
Lemma exec_trace : forall A (p : prog A) flt s r s',
  exec flt p s = (r, s') ->
  exists l, s_trace s' = l ++ s_trace s /\ (s_fired s = false -> s_fired s' = true -> l <> []).
Proof.
  induction p; intros flt s r s' E; simpl in *.
  - inversion E; subst. exists []; split; auto. intros; congruence.
  - inversion E; subst. exists []; split; auto. intros; congruence.
  - assert (C : forall s1, s_trace s1 = e :: s_trace s -> s_fired s1 = s_fired s -> exec flt p s1 = (r, s') ->
                exists l, s_trace s' = l ++ s_trace s /\ (s_fired s = false -> s_fired s' = true -> l <> [])).
    { intros s1 T F E1. apply IHp in E1. destruct E1 as [l [L1 L2]]. exists (l ++ [e]). rewrite <- app_assoc. simpl.
      rewrite <- T. split; auto. intros. destruct l; simpl; congruence. }
    destruct flt as [ft|].
    + destruct (Nat.eqb (f_k ft) (S (s_k s))).
      * inversion E; subst; simpl. exists [e]; split; auto. congruence.
      * eapply C; [ | | exact E]; reflexivity.
    + eapply C; [ | | exact E]; reflexivity.
  - eauto.
  - apply IHp in E; auto.
  - apply IHp in E; auto.
Qed.

(* ================================================================ Part 2: shapes *)
(* read-only phase: no effect on the file system or stdout, no write-phase boundary *)
Inductive pre {A} : prog A -> Prop :=
| pre_ret a : pre (Ret a)
| pre_fail : pre Fail
| pre_tick e pw k : is_commit e = false -> is_after_commit e = false -> (forall fs, pw fs = fs) -> pre k -> pre (Tick e pw k)
| pre_get k : (forall fs, pre (k fs)) -> pre (Get k).

(* write phase: every boundary is a write or the close of the output *)
Inductive wtail {A} : prog A -> Prop :=
| wt_ret a : wtail (Ret a)
| wt_fail : wtail Fail
| wt_tick e pw k : is_after_commit e = true -> wtail k -> wtail (Tick e pw k)
| wt_get k : (forall fs, wtail (k fs)) -> wtail (Get k)
| wt_put g k : wtail k -> wtail (Put g k)
| wt_out b k : wtail k -> wtail (Out b k).

(* a read-only phase, then at most one commit boundary (open-for-writing / remove) followed by a write phase *)
Inductive safe {A} : prog A -> Prop :=
| sf_ret a : safe (Ret a)
| sf_fail : safe Fail
| sf_tick e pw k : is_commit e = false -> is_after_commit e = false -> (forall fs, pw fs = fs) -> safe k -> safe (Tick e pw k)
| sf_commit e pw k : is_commit e = true -> (forall fs, pw fs = fs) -> wtail k -> safe (Tick e pw k)
| sf_get k : (forall fs, safe (k fs)) -> safe (Get k)
| sf_out b k : wtail k -> safe (Out b k).

Lemma pre_safe : forall A (p : prog A), pre p -> safe p.
Proof. induction 1; constructor; auto. Qed.

Lemma pre_bind : forall A B (m : prog A) (f : A -> prog B), pre m -> (forall a, pre (f a)) -> pre (bind m f).
Proof. induction 1; intros; simpl; auto; constructor; auto. Qed.

Lemma pre_bind_safe : forall A B (m : prog A) (f : A -> prog B), pre m -> (forall a, safe (f a)) -> safe (bind m f).
Proof. induction 1; intros; simpl; auto. - constructor. - apply sf_tick; auto. - constructor; auto. Qed.

Lemma wtail_bind : forall A B (m : prog A) (f : A -> prog B), wtail m -> (forall a, wtail (f a)) -> wtail (bind m f).
Proof. induction 1; intros; simpl; auto; constructor; auto. Qed.

Lemma safe_bind_tail : forall A B (m : prog A) (f : A -> prog B),
  safe m -> (forall a, wtail (f a)) -> (forall a, safe (f a)) -> safe (bind m f).
Proof.
  induction 1; intros; simpl; auto.
  - constructor.
  - apply sf_tick; auto.
  - apply sf_commit; auto. apply wtail_bind; auto.
  - constructor; auto.
  - constructor. apply wtail_bind; auto.
Qed.

(* in a write phase a fault can only fire at a write/close boundary *)
Lemma wtail_fired : forall A (p : prog A), wtail p -> forall flt s r s',
  exec flt p s = (r, s') -> s_fired s = false -> s_fired s' = true ->
  exists e, hd_error (s_trace s') = Some e /\ is_after_commit e = true.
Proof.
  induction 1; intros flt s r s' E F1 F2; simpl in *.
  - inversion E; subst; congruence.
  - inversion E; subst; congruence.
  - destruct flt as [ft|].
    + destruct (Nat.eqb (f_k ft) (S (s_k s))).
      * inversion E; subst; simpl. eauto.
      * eapply IHwtail; eauto.
    + eapply IHwtail; eauto.
  - eauto.
  - eapply IHwtail; eauto.
  - eapply IHwtail; eauto.
Qed.

(* GENERIC: in a safe program, a fault that fires at any boundary other than a write to / close of the output leaves
   the whole file system and stdout exactly as they were *)
Lemma safe_fault_untouched : forall A (p : prog A), safe p -> forall flt s r s' e,
  exec flt p s = (r, s') -> s_fired s = false -> s_fired s' = true ->
  hd_error (s_trace s') = Some e -> is_after_commit e = false ->
  s_fs s' = s_fs s /\ s_out s' = s_out s.
Proof.
  induction 1; intros flt s r s' e0 E F1 F2 HD NA; simpl in *.
  - inversion E; subst; congruence.
  - inversion E; subst; congruence.
  - destruct flt as [ft|].
    + destruct (Nat.eqb (f_k ft) (S (s_k s))).
      * inversion E; subst; simpl. rewrite H1. destruct (f_partial ft); auto.
      * eapply IHsafe in E; eauto.
    + eapply IHsafe in E; eauto.
  - assert (C : forall s1, s_fs s1 = s_fs s -> s_out s1 = s_out s -> s_fired s1 = false -> exec flt k s1 = (r, s') -> False).
    { intros s1 _ _ F E1. eapply wtail_fired in E1; eauto. destruct E1 as [e1 [Q1 Q2]]. congruence. }
    destruct flt as [ft|].
    + destruct (Nat.eqb (f_k ft) (S (s_k s))).
      * inversion E; subst; simpl. rewrite H0. destruct (f_partial ft); auto.
      * exfalso. eapply C; [ | | | exact E]; simpl; auto.
    + exfalso. eapply C; [ | | | exact E]; simpl; auto.
  - eauto.
  - exfalso. eapply wtail_fired in E; eauto. destruct E as [e1 [Q1 Q2]]. congruence.
Qed.

(* natural failures: a program in which no Fail follows an effect *)
Inductive failfree {A} : prog A -> Prop :=
| ff_ret a : failfree (Ret a)
| ff_tick e pw k : failfree k -> failfree (Tick e pw k)
| ff_get k : (forall fs, failfree (k fs)) -> failfree (Get k)
| ff_put g k : failfree k -> failfree (Put g k)
| ff_out b k : failfree k -> failfree (Out b k).

Inductive nf {A} : prog A -> Prop :=
| nf_ret a : nf (Ret a)
| nf_fail : nf Fail
| nf_tick e pw k : nf k -> nf (Tick e pw k)
| nf_get k : (forall fs, nf (k fs)) -> nf (Get k)
| nf_put g k : failfree k -> nf (Put g k)
| nf_out b k : failfree k -> nf (Out b k).

Lemma failfree_bind : forall A B (m : prog A) (f : A -> prog B), failfree m -> (forall a, failfree (f a)) -> failfree (bind m f).
Proof. induction 1; intros; simpl; auto; constructor; auto. Qed.
Lemma failfree_nf : forall A (p : prog A), failfree p -> nf p.
Proof. induction 1; constructor; auto. Qed.
Lemma pre_nf_bind : forall A B (m : prog A) (f : A -> prog B), pre m -> (forall a, nf (f a)) -> nf (bind m f).
Proof. induction 1; intros; simpl; auto; constructor; auto. Qed.
Lemma nf_bind_ff : forall A B (m : prog A) (f : A -> prog B), nf m -> (forall a, failfree (f a)) -> nf (bind m f).
Proof. induction 1; intros; simpl; auto; try (constructor; auto; fail).
  - apply failfree_nf; auto.
  - constructor. apply failfree_bind; auto.
  - constructor. apply failfree_bind; auto.
Qed.

Lemma failfree_not_exn : forall A (p : prog A), failfree p -> forall flt s r s',
  exec flt p s = (r, s') -> s_fired s = false -> s_fired s' = false -> exists a, r = Done a.
Proof.
  induction 1; intros flt s r s' E F F'; simpl in *.
  - inversion E; eauto.
  - destruct flt as [ft|].
    + destruct (Nat.eqb (f_k ft) (S (s_k s))) eqn:Q.
      * inversion E; subst; simpl in *. discriminate.
      * eapply IHfailfree in E; eauto.
    + eapply IHfailfree in E; eauto.
  - eauto.
  - eapply IHfailfree in E; eauto.
  - eapply IHfailfree in E; eauto.
Qed.

(* GENERIC: when the code itself fails (no fault fired), nothing has been written *)
Lemma nf_failure_untouched : forall A (p : prog A), nf p -> forall flt s k s',
  exec flt p s = (Aborted k, s') -> s_fired s = false -> s_fired s' = false ->
  s_fs s' = s_fs s /\ s_out s' = s_out s.
Proof.
  induction 1; intros flt s k0 s' E F F'; simpl in *.
  - discriminate.
  - inversion E; subst; auto.
  - destruct flt as [ft|].
    + destruct (Nat.eqb (f_k ft) (S (s_k s))) eqn:Q.
      * inversion E; subst; simpl in *. discriminate.
      * eapply IHnf in E; eauto.
    + eapply IHnf in E; eauto.
  - eauto.
  - eapply failfree_not_exn in E; eauto. destruct E; discriminate.
  - eapply failfree_not_exn in E; eauto. destruct E; discriminate.
Qed.

(* ================================================================ Part 3: the merge command *)
Lemma upd_same : forall fs p x, p <> devnull -> upd fs p x p = x.
Proof. intros. unfold upd. destruct (N.eqb p devnull) eqn:Q. - apply N.eqb_eq in Q; contradiction. - rewrite N.eqb_refl; auto. Qed.
Lemma upd_other : forall fs p x q, q <> p -> upd fs p x q = fs q.
Proof. intros. unfold upd. destruct (N.eqb p devnull); auto. destruct (N.eqb q p) eqn:Q; auto. apply N.eqb_eq in Q; contradiction. Qed.
Lemma upd_devnull : forall fs x q, upd fs devnull x q = fs q.
Proof. reflexivity. Qed.

Section Props.
  Variable nbk dec dif strat : Type.
  Variable parse : bytes -> parsed nbk.
  Variable minimal : nbk.
  Variable diffnb : nbk -> nbk -> option dif.
  Variable decide : strat -> nbk -> nbk -> nbk -> dif -> dif -> option (list dec).
  Variable apply : nbk -> list dec -> option nbk.
  Variable dconflict : dec -> bool.
  Variable serialise : nbk -> bytes.
  Variable dec_chunks : list dec -> list bytes.

  Notation RN := (read_notebook nbk parse minimal).
  Notation MN := (merge_notebooks nbk dec dif strat diffnb decide apply).
  Notation LM := (lib_merge nbk dec dif strat diffnb decide apply).
  Notation MM := (main_merge nbk dec dif strat parse minimal diffnb decide apply dconflict serialise dec_chunks).
  Notation HAD := (handle_agreed_deletion nbk strat parse minimal).
  Notation RUN := (run nbk dec dif strat parse minimal diffnb decide apply dconflict serialise dec_chunks).
  Notation RUND := (run_driver nbk dec dif strat parse minimal diffnb decide apply dconflict serialise dec_chunks).
  Notation DEN := (denotes nbk parse minimal).
  Notation RC := (returncode dec dconflict).
  Notation FULL := (full_output nbk serialise).

  (* ---------------- shapes *)
  Lemma pre_read : forall p r oe, pre (RN p r oe).
  Proof.
    intros. unfold read_notebook. destruct (N.eqb p devnull); [constructor|]. simpl.
    constructor; auto. constructor. intros fs. simpl.
    destruct (fs p); try constructor. destruct (parse b); try constructor.
    destruct oe; try constructor; auto. destruct b; constructor.
  Qed.

  Lemma pre_lift : forall A (o : option A), pre (lift o).
  Proof. destruct o; constructor. Qed.

  Lemma pre_merge : forall s b l r, pre (MN s b l r).
  Proof.
    intros. unfold merge_notebooks. simpl.
    repeat (first [ apply pre_tick; [reflexivity|reflexivity|auto|] | apply pre_bind; [apply pre_lift|intros] | constructor ]).
  Qed.

  Lemma wtail_write_chunks : forall cs p acc, wtail (write_chunks p acc cs).
  Proof.
    induction cs; intros; simpl; constructor; auto. constructor. apply IHcs.
  Qed.

  Lemma wtail_block : forall p cs, wtail (putfs (fun fs => upd fs p (Partial [])) ;;; acc <- write_chunks p [] cs ;; close_w p acc).
  Proof.
    intros. simpl. constructor. apply wtail_bind. apply wtail_write_chunks.
    intros. unfold close_w. simpl. constructor; auto. constructor. constructor.
  Qed.

  Lemma safe_block : forall p cs, safe (open_w p ;;; acc <- write_chunks p [] cs ;; close_w p acc).
  Proof.
    intros. unfold open_w. simpl. apply sf_commit; auto.
    pose proof (wtail_block p cs) as W. simpl in W. exact W.
  Qed.

  Lemma wtail_ret : forall A (a : A), wtail (Ret a). Proof. constructor. Qed.

  (* THIS is where the order "serialise, then open" (fact_write_via = WritePath, nbformat serialises first) is used *)
  Lemma safe_write_merged : forall m o, safe (write_merged nbk serialise m o).
  Proof.
    intros. unfold write_merged. simpl. unfold nbformat_write_path. simpl.
    apply sf_tick; auto. pose proof (safe_block o (nb_chunks (serialise m))) as S. simpl in S. exact S.
  Qed.

  Lemma safe_stdout : forall m, safe (nbformat_write_stdout nbk serialise m).
  Proof.
    intros. unfold nbformat_write_stdout. simpl. apply sf_tick; auto. constructor.
    destruct (ends_nl (serialise m)); repeat constructor.
  Qed.

  Lemma safe_deletion : forall c, safe (HAD c).
  Proof.
    intros. unfold handle_agreed_deletion.
    destruct (fact_del_asserts_base && N.eqb (c_base c) devnull); [constructor|].
    apply pre_bind_safe; [apply pre_read|]. intros _.
    destruct (fact_deletion_passes_args && c_decisions c); [constructor|].
    destruct (c_out c); [|constructor]. simpl. constructor. intros fs.
    simpl. match goal with |- safe (if ?c then _ else _) => destruct c; [|constructor] end.
    apply sf_commit; auto.
    destruct (N.eqb p devnull); [constructor|]. destruct (fs p); repeat constructor.
  Qed.

  Lemma wtail_after : forall n : nat, wtail (Ret n). Proof. constructor. Qed.

  Theorem safe_main : forall c, safe (MM c).
  Proof.
    intros. unfold main_merge. apply pre_bind_safe; [repeat constructor|]. intros fs.
    destruct (negb (forallb (exists_ fs) [c_base c; c_local c; c_remote c])); [constructor|].
    destruct (N.eqb (c_local c) devnull && N.eqb (c_remote c) devnull).
    - apply safe_bind_tail; [apply safe_deletion | intros; constructor | intros; constructor].
    - apply pre_bind_safe; [apply pre_read|]. intros b.
      apply pre_bind_safe; [apply pre_read|]. intros l.
      apply pre_bind_safe; [apply pre_read|]. intros r.
      apply pre_bind_safe; [apply pre_merge|]. intros [m ds].
      apply safe_bind_tail; [| intros; constructor | intros; constructor].
      destruct (c_decisions c); destruct (c_out c).
      + apply safe_block.
      + constructor.
      + apply safe_write_merged.
      + apply safe_stdout.
  Qed.

  (* no Fail after an effect *)
  Lemma failfree_write_chunks : forall cs p acc, failfree (write_chunks p acc cs).
  Proof. induction cs; intros; simpl; repeat constructor. apply IHcs. Qed.

  Lemma failfree_block : forall p cs, failfree (open_w p ;;; acc <- write_chunks p [] cs ;; close_w p acc).
  Proof.
    intros. unfold open_w. simpl. repeat constructor. apply failfree_bind. apply failfree_write_chunks.
    intros. unfold close_w. simpl. repeat constructor.
  Qed.

  Lemma nf_deletion : forall c, nf (HAD c).
  Proof.
    intros. unfold handle_agreed_deletion.
    destruct (fact_del_asserts_base && N.eqb (c_base c) devnull); [constructor|].
    apply pre_nf_bind; [apply pre_read|]. intros _.
    destruct (fact_deletion_passes_args && c_decisions c); [constructor|].
    destruct (c_out c); [|constructor]. simpl. constructor. intros fs.
    match goal with |- nf (if ?c then _ else _) => destruct c; [|constructor] end.
    constructor. destruct (N.eqb p devnull); [constructor|]. destruct (fs p); repeat constructor.
  Qed.

  Theorem nf_main : forall c, nf (MM c).
  Proof.
    intros. unfold main_merge. apply pre_nf_bind; [repeat constructor|]. intros fs.
    destruct (negb (forallb (exists_ fs) [c_base c; c_local c; c_remote c])); [constructor|].
    destruct (N.eqb (c_local c) devnull && N.eqb (c_remote c) devnull).
    - apply nf_bind_ff; [apply nf_deletion | intros; constructor].
    - apply pre_nf_bind; [apply pre_read|]. intros b.
      apply pre_nf_bind; [apply pre_read|]. intros l.
      apply pre_nf_bind; [apply pre_read|]. intros r.
      apply pre_nf_bind; [apply pre_merge|]. intros [m ds].
      apply nf_bind_ff; [| intros; constructor].
      apply failfree_nf.
      destruct (c_decisions c); destruct (c_out c).
      + apply failfree_block.
      + constructor.
      + unfold write_merged, nbformat_write_path. simpl. constructor.
        pose proof (failfree_block p (nb_chunks (serialise m))) as S. simpl in S. exact S.
      + unfold nbformat_write_stdout. simpl. constructor. constructor.
        destruct (ends_nl (serialise m)); repeat constructor.
  Qed.

  (* ---------------- what each phase computes (fault-free) *)
  Lemma read_exec : forall p r oe s res s1, exec None (RN p r oe) s = (res, s1) ->
    s_fs s1 = s_fs s /\ s_out s1 = s_out s /\ (forall nb, res = Done nb <-> DEN (s_fs s) p oe nb).
  Proof.
    intros p r oe s res s1 E. unfold read_notebook in E. unfold denotes.
    destruct (N.eqb p devnull) eqn:Q.
    - apply N.eqb_eq in Q. simpl in E. inversion E; subst. repeat split; auto.
      + intros H; inversion H; auto.
      + intros [[_ H]|[H _]]; [subst; auto | exfalso; auto].
    - apply N.eqb_neq in Q. simpl in E.
      destruct (s_fs s p) eqn:F; simpl in E;
        [ inversion E; subst; simpl; repeat split; auto; try discriminate;
          intros [[H _]|[_ [b' [H1 _]]]]; [contradiction|discriminate] | | 
          inversion E; subst; simpl; repeat split; auto; try discriminate;
          intros [[H _]|[_ [b' [H1 _]]]]; [contradiction|discriminate] ].
      destruct (parse b) eqn:P; simpl in E.
      + inversion E; subst; simpl. repeat split; auto.
        * intros H; inversion H; subst. right. split; auto. exists b. auto.
        * intros [[H _]|[_ [b' [H1 H2]]]]; [contradiction|]. inversion H1; subst.
          destruct H2 as [H2|[H2 _]]; congruence.
      + destruct oe; simpl in E.
        * destruct b; simpl in E; inversion E; subst; simpl; repeat split; auto; try discriminate.
          -- intros H; inversion H; subst. right. split; auto. exists []. split; auto.
          -- intros [[H _]|[_ [b' [H1 H2]]]]; [contradiction|]. inversion H1; subst.
             destruct H2 as [H2|[_ [_ [_ H2]]]]; congruence.
          -- intros [[H _]|[_ [b' [H1 H2]]]]; [contradiction|]. inversion H1; subst.
             destruct H2 as [H2|[_ [_ [H2 _]]]]; congruence.
        * inversion E; subst; simpl; repeat split; auto; try discriminate.
          intros [[H _]|[_ [b' [H1 H2]]]]; [contradiction|]. inversion H1; subst.
          destruct H2 as [H2|[_ [H2 _]]]; congruence.
      + inversion E; subst; simpl; repeat split; auto; try discriminate.
        intros [[H _]|[_ [b' [H1 H2]]]]; [contradiction|]. inversion H1; subst.
        destruct H2 as [H2|[H2 _]]; congruence.
  Qed.

  Lemma merge_exec : forall st0 b l r s res s1, exec None (MN st0 b l r) s = (res, s1) ->
    s_fs s1 = s_fs s /\ s_out s1 = s_out s /\ (forall x, res = Done x <-> LM st0 b l r = Some x).
  Proof.
    intros st0 b l r s res s1 E. unfold merge_notebooks in E. unfold lib_merge. simpl in E.
    destruct (diffnb b l); simpl in E; [|inversion E; subst; simpl; repeat split; auto; discriminate].
    destruct (diffnb b r); simpl in E; [|inversion E; subst; simpl; repeat split; auto; discriminate].
    destruct (decide st0 b l r d d0); simpl in E; [|inversion E; subst; simpl; repeat split; auto; discriminate].
    destruct (apply b l0); simpl in E; [|inversion E; subst; simpl; repeat split; auto; discriminate].
    inversion E; subst; simpl. repeat split; auto; intros H; inversion H; auto.
  Qed.

  Lemma write_chunks_exec : forall cs p acc s, exists s1,
    exec None (write_chunks p acc cs) s = (Done (acc ++ concat cs), s1) /\ s_out s1 = s_out s /\
    (forall q, q <> p \/ p = devnull -> s_fs s1 q = s_fs s q).
  Proof.
    induction cs; intros; simpl.
    - eexists; split; [rewrite app_nil_r; reflexivity|]. auto.
    - match goal with |- exists s1, exec None ?pr ?s0 = _ /\ _ => destruct (IHcs p (acc ++ a) s0) as [s1 [E [O F]]] end.
      exists s1. rewrite app_assoc. split; [exact E|]. split; [rewrite O; reflexivity|].
      intros q Hq. rewrite F; auto. simpl. destruct Hq as [Hq|Hq]; [apply upd_other; auto|subst; apply upd_devnull].
  Qed.

  Lemma block_exec : forall p cs s, exists s1,
    exec None (open_w p ;;; acc <- write_chunks p [] cs ;; close_w p acc) s = (Done tt, s1) /\ s_out s1 = s_out s /\
    (forall q, s_fs s1 q = upd (s_fs s) p (Content (concat cs)) q).
  Proof.
    intros. unfold open_w. simpl. rewrite exec_bind.
    match goal with |- exists s1, match exec None _ ?s0 with _ => _ end = _ /\ _ => destruct (write_chunks_exec cs p [] s0) as [s1 [E [O F]]] end.
    rewrite E. unfold close_w. simpl. eexists; split; [reflexivity|]. simpl. split; [rewrite O; reflexivity|].
    intros q. destruct (N.eq_dec p devnull) as [D|D].
    - subst. rewrite !upd_devnull. rewrite F; auto.
    - destruct (N.eq_dec q p) as [Q|Q].
      + subst. rewrite !upd_same; auto.
      + rewrite !upd_other; auto. rewrite F; auto. simpl. rewrite upd_other; auto.
  Qed.

  Lemma write_merged_exec : forall m o s, exists s1,
    exec None (write_merged nbk serialise m o) s = (Done tt, s1) /\ s_out s1 = s_out s /\
    (forall q, s_fs s1 q = upd (s_fs s) o (Content (FULL m)) q).
  Proof.
    intros.
    destruct (block_exec o (nb_chunks (serialise m))
                {| s_fs := s_fs s; s_k := S (s_k s); s_trace := ESerialise :: s_trace s; s_out := s_out s; s_fired := s_fired s |})
      as [s1 [E [O F]]].
    exists s1. split; [exact E|]. split; auto.
  Qed.

  Lemma stdout_exec : forall m s, exists s1,
    exec None (nbformat_write_stdout nbk serialise m) s = (Done tt, s1) /\
    s_out s1 = rev (nb_chunks (serialise m)) ++ s_out s /\ s_fs s1 = s_fs s.
  Proof.
    intros. unfold nbformat_write_stdout, nb_chunks. simpl.
    destruct (ends_nl (serialise m)); simpl; eexists; split; try reflexivity; simpl; auto.
  Qed.

  (* the exit status (8 bits) is zero exactly when no decision is conflicted; needs fact_rc_mode = RcConst with
     clean -> 0, conflict -> non-zero below 256 *)
  Lemma rc_zero_iff : forall ds, Nat.modulo (RC ds) 256 = 0 <-> filter dconflict ds = [].
  Proof.
    intros. unfold returncode. simpl. destruct (filter dconflict ds); simpl; split; intros; auto; try discriminate.
  Qed.

  Lemma had_exec : forall c s s1, exec None (HAD c) s = (Done tt, s1) ->
    c_decisions c = false -> forall o, c_out c = Some o -> o <> devnull -> s_fs s1 o = Absent.
  Proof.
    intros c s s1 E D o HO ND. unfold handle_agreed_deletion in E.
    destruct (fact_del_asserts_base && N.eqb (c_base c) devnull); [discriminate|].
    rewrite exec_bind in E.
    destruct (exec None (RN (c_base c) RBase fact_del_base_on_empty_minimal) s) as [r1 s2] eqn:E1.
    apply read_exec in E1. destruct E1 as [F1 [O1 _]]. destruct r1; [|discriminate].
    rewrite D, HO in E. rewrite andb_false_r in E. simpl in E.
    destruct (exists_ (s_fs s2) o) eqn:X; simpl in E.
    - assert (Q : N.eqb o devnull = false) by (apply N.eqb_neq; auto). rewrite Q in E.
      destruct (s_fs s2 o) eqn:Y; simpl in E; try discriminate; inversion E; subst; simpl; apply upd_same; auto.
    - inversion E; subst. unfold exists_ in X.
      assert (Q : N.eqb o devnull = false) by (apply N.eqb_neq; auto). rewrite Q in X.
      destruct (s_fs s1 o); auto; discriminate.
  Qed.

  Definition out_complete (c : cfg strat) (fs : fsys) (s' : st) (m : nbk) : Prop :=
    match c_out c with
    | Some o => (o <> devnull -> s_fs s' o = Content (FULL m)) /\ (forall q, q <> o -> s_fs s' q = fs q)
    | None => rev (s_out s') = nb_chunks (serialise m) /\ (forall q, s_fs s' q = fs q)
    end.

  (* FORWARD: readable inputs + the library merge succeeds => the command finishes, returns the conflict-derived
     code and leaves the complete serialised merge at the output; nothing else changes *)
  Theorem finish_complete : forall c fs b l r m ds,
    forallb (exists_ fs) [c_base c; c_local c; c_remote c] = true ->
    N.eqb (c_local c) devnull && N.eqb (c_remote c) devnull = false ->
    c_decisions c = false ->
    DEN fs (c_base c) fact_base_on_empty_minimal b ->
    DEN fs (c_local c) fact_local_on_empty_minimal l ->
    DEN fs (c_remote c) fact_remote_on_empty_minimal r ->
    LM (c_strat c) b l r = Some (m, ds) ->
    exists s', RUN None c fs = (Exit (Nat.modulo (RC ds) 256), s') /\ out_complete c fs s' m.
  Proof.
    intros c fs b l r m ds HX HD HDec Hb Hl Hr HM.
    unfold run, main_merge. rewrite exec_bind. simpl (exec None getfs (init fs)). cbv iota beta.
    simpl (s_fs (init fs)). rewrite HX, HD. simpl negb. cbv iota.
    rewrite exec_bind.
    destruct (exec None (RN (c_base c) RBase fact_base_on_empty_minimal) (init fs)) as [r1 s1] eqn:E1.
    apply read_exec in E1. destruct E1 as [F1 [O1 I1]]. simpl in F1, O1, I1.
    rewrite (proj2 (I1 b) Hb). rewrite exec_bind.
    destruct (exec None (RN (c_local c) RLocal fact_local_on_empty_minimal) s1) as [r2 s2] eqn:E2.
    apply read_exec in E2. destruct E2 as [F2 [O2 I2]]. rewrite F1 in I2.
    rewrite (proj2 (I2 l) Hl). rewrite exec_bind.
    destruct (exec None (RN (c_remote c) RRemote fact_remote_on_empty_minimal) s2) as [r3 s3] eqn:E3.
    apply read_exec in E3. destruct E3 as [F3 [O3 I3]]. rewrite F2, F1 in I3.
    rewrite (proj2 (I3 r) Hr). rewrite exec_bind.
    destruct (exec None (MN (c_strat c) b l r) s3) as [r4 s4] eqn:E4.
    apply merge_exec in E4. destruct E4 as [F4 [O4 I4]].
    rewrite (proj2 (I4 (m, ds)) HM). cbv iota beta. rewrite exec_bind. rewrite HDec.
    assert (FS4 : s_fs s4 = fs) by congruence.
    assert (OS4 : s_out s4 = []) by congruence.
    unfold out_complete. destruct (c_out c) as [o|].
    - destruct (write_merged_exec m o s4) as [s5 [E5 [O5 F5]]]. rewrite E5. simpl.
      eexists; split; [reflexivity|]. split.
      + intros ND. rewrite F5. apply upd_same; auto.
      + intros q Q. rewrite F5. rewrite upd_other; auto. rewrite FS4; auto.
    - destruct (stdout_exec m s4) as [s5 [E5 [O5 F5]]]. rewrite E5. simpl.
      eexists; split; [reflexivity|]. split.
      + rewrite O5, OS4, app_nil_r, rev_involutive. auto.
      + intros q. rewrite F5, FS4. auto.
  Qed.

  (* BACKWARD: exit status 0, under ANY fault, from ANY file system => either the agreed-deletion case (output absent)
     or every input was readable, the library merge of them succeeded without conflicted decision, and the complete
     serialisation of exactly that merge is at the output *)
  Theorem exit0_complete : forall flt c fs s',
    RUN flt c fs = (Exit 0, s') ->
    (c_local c = devnull /\ c_remote c = devnull /\
       (c_decisions c = false -> forall o, c_out c = Some o -> o <> devnull -> s_fs s' o = Absent))
    \/
    (exists b l r m ds,
       DEN fs (c_base c) fact_base_on_empty_minimal b /\
       DEN fs (c_local c) fact_local_on_empty_minimal l /\
       DEN fs (c_remote c) fact_remote_on_empty_minimal r /\
       LM (c_strat c) b l r = Some (m, ds) /\ filter dconflict ds = [] /\
       (c_decisions c = false -> out_complete c fs s' m)).
  Proof.
    intros flt c fs s' R. unfold run in R.
    destruct (exec flt (MM c) (init fs)) as [res s] eqn:E.
    destruct res as [n|k]; [|destruct k; discriminate]. unfold status_of in R.
    injection R as Hn Hs. change (Nat.modulo n 256 = 0) in Hn. subst s'.
    apply exec_done_nofault in E. unfold main_merge in E. rewrite exec_bind in E.
    simpl (exec None getfs (init fs)) in E. cbv iota beta in E. simpl (s_fs (init fs)) in E.
    destruct (negb (forallb (exists_ fs) [c_base c; c_local c; c_remote c]));
      [simpl in E; inversion E; subst n; vm_compute in Hn; discriminate|].
    destruct (N.eqb (c_local c) devnull && N.eqb (c_remote c) devnull) eqn:Y.
    - left. apply andb_true_iff in Y. destruct Y as [Y1 Y2]. apply N.eqb_eq in Y1, Y2. split; auto. split; auto.
      rewrite exec_bind in E. destruct (exec None (HAD c) (init fs)) as [r1 s1] eqn:E1.
      destruct r1 as [[]|]; [|discriminate]. simpl in E. inversion E; subst.
      intros; eapply had_exec; eauto.
    - right. rewrite exec_bind in E.
      destruct (exec None (RN (c_base c) RBase fact_base_on_empty_minimal) (init fs)) as [r1 s1] eqn:E1.
      apply read_exec in E1. destruct E1 as [F1 [O1 I1]]. simpl in F1, O1, I1.
      destruct r1 as [b|]; [|discriminate]. rewrite exec_bind in E.
      destruct (exec None (RN (c_local c) RLocal fact_local_on_empty_minimal) s1) as [r2 s2] eqn:E2.
      apply read_exec in E2. destruct E2 as [F2 [O2 I2]]. rewrite F1 in I2.
      destruct r2 as [l|]; [|discriminate]. rewrite exec_bind in E.
      destruct (exec None (RN (c_remote c) RRemote fact_remote_on_empty_minimal) s2) as [r3 s3] eqn:E3.
      apply read_exec in E3. destruct E3 as [F3 [O3 I3]]. rewrite F2, F1 in I3.
      destruct r3 as [r|]; [|discriminate]. rewrite exec_bind in E.
      destruct (exec None (MN (c_strat c) b l r) s3) as [r4 s4] eqn:E4.
      apply merge_exec in E4. destruct E4 as [F4 [O4 I4]].
      destruct r4 as [[m ds]|]; [|discriminate]. cbv iota beta in E. rewrite exec_bind in E.
      assert (FS4 : s_fs s4 = fs) by congruence.
      assert (OS4 : s_out s4 = []) by congruence.
      exists b, l, r, m, ds.
      split; [apply I1; auto|]. split; [apply I2; auto|]. split; [apply I3; auto|]. split; [apply I4; auto|].
      unfold out_complete.
      destruct (c_decisions c); destruct (c_out c) as [o|].
      + destruct (block_exec o (dec_chunks ds ++ [nl]) s4) as [s5 [E5 _]]. rewrite E5 in E. simpl in E.
        inversion E. subst n. split; [apply rc_zero_iff; auto|discriminate].
      + simpl in E. inversion E. subst n. split; [apply rc_zero_iff; auto|discriminate].
      + destruct (write_merged_exec m o s4) as [s5 [E5 [O5 F5]]]. rewrite E5 in E. simpl in E.
        inversion E; subst. split; [apply rc_zero_iff; auto|]. intros _. split.
        * intros ND. rewrite F5. apply upd_same; auto.
        * intros q Q. rewrite F5. rewrite upd_other; auto. try rewrite FS4; auto.
      + destruct (stdout_exec m s4) as [s5 [E5 [O5 F5]]]. rewrite E5 in E. simpl in E.
        inversion E; subst. split; [apply rc_zero_iff; auto|]. intros _. split.
        * rewrite O5, OS4, app_nil_r, rev_involutive. auto.
        * intros q. rewrite F5. try rewrite FS4; auto.
  Qed.

  (* exit status 0 <=> no conflicted decision (readable inputs, library merge defined) *)
  Theorem exit0_iff_clean : forall c fs b l r m ds,
    forallb (exists_ fs) [c_base c; c_local c; c_remote c] = true ->
    N.eqb (c_local c) devnull && N.eqb (c_remote c) devnull = false ->
    c_decisions c = false ->
    DEN fs (c_base c) fact_base_on_empty_minimal b ->
    DEN fs (c_local c) fact_local_on_empty_minimal l ->
    DEN fs (c_remote c) fact_remote_on_empty_minimal r ->
    LM (c_strat c) b l r = Some (m, ds) ->
    (fst (RUN None c fs) = Exit 0 <-> filter dconflict ds = []).
  Proof.
    intros. destruct (finish_complete c fs b l r m ds) as [s' [R _]]; auto.
    rewrite R. simpl fst. split; intros Q.
    - apply rc_zero_iff. injection Q as Q. exact Q.
    - apply rc_zero_iff in Q. f_equal. exact Q.
  Qed.

  (* ---------------- faults *)
  (* success means the fault did not fire, and the run is the fault-free run *)
  Theorem success_means_no_fault : forall flt c fs s',
    RUN flt c fs = (Exit 0, s') -> s_fired s' = false /\ RUN None c fs = (Exit 0, s').
  Proof.
    intros flt c fs s' R. unfold run in *.
    destruct (exec flt (MM c) (init fs)) as [res s] eqn:E.
    destruct res as [n|k]; [|destruct k; discriminate]. unfold status_of in R.
    assert (Hs : s = s') by (injection R; auto). subst s'.
    split; [apply exec_done_not_fired in E; auto|]. apply exec_done_nofault in E. rewrite E. exact R.
  Qed.

  Definition kind_status (k : fkind) : status := match k with KExn => Exit 1 | KIntr => SigInt | KKill => SigKill end.

  (* every fault whose boundary lies within the fault-free run fires, and the process does not report success *)
  Theorem fault_never_success : forall ft c fs st0 s0,
    RUN None c fs = (st0, s0) -> 1 <= f_k ft <= s_k s0 ->
    exists s', RUN (Some ft) c fs = (kind_status (f_kind ft), s') /\ kind_status (f_kind ft) <> Exit 0 /\
               s_fired s' = true /\ s_k s' = f_k ft.
  Proof.
    intros ft c fs st0 s0 R HK. unfold run in *.
    destruct (exec None (MM c) (init fs)) as [r0 s00] eqn:E. inversion R; subst.
    eapply exec_fires with (ft := ft) in E; [|simpl; lia].
    destruct E as [s' [E' [F K]]]. rewrite E'. exists s'. split; [destruct (f_kind ft); reflexivity|].
    split; [destruct (f_kind ft); discriminate|]. auto.
  Qed.

  (* a fault that fires at any boundary other than a write to / the close of the output leaves every file and
     stdout untouched.  (Depends on fact_write_via = WritePath and nbformat serialising before it opens.) *)
  Theorem fault_before_write_untouched : forall flt c fs st' s' e,
    RUN flt c fs = (st', s') -> s_fired s' = true ->
    hd_error (s_trace s') = Some e -> is_after_commit e = false ->
    s_fs s' = fs /\ s_out s' = [].
  Proof.
    intros flt c fs st' s' e R F HD NA. unfold run in R.
    destruct (exec flt (MM c) (init fs)) as [res s] eqn:E. inversion R; subst.
    eapply safe_fault_untouched in E; eauto. apply safe_main.
  Qed.

  (* when the code itself fails (unreadable input, library exception, ...) nothing has been written *)
  Theorem failure_untouched : forall flt c fs k s',
    exec flt (MM c) (init fs) = (Aborted k, s') -> s_fired s' = false -> s_fs s' = fs /\ s_out s' = [].
  Proof.
    intros. eapply nf_failure_untouched in H; eauto. apply nf_main.
  Qed.

  (* ---------------- the git merge driver: output = the local file, never decisions mode *)
  Theorem driver_exit0_complete : forall flt s b l r fs s',
    RUND flt s b l r fs = (Exit 0, s') -> l <> devnull ->
    exists nb nl_ nr m ds,
      DEN fs b fact_base_on_empty_minimal nb /\ DEN fs l fact_local_on_empty_minimal nl_ /\
      DEN fs r fact_remote_on_empty_minimal nr /\
      LM s nb nl_ nr = Some (m, ds) /\ filter dconflict ds = [] /\
      s_fs s' l = Content (FULL m) /\ (forall q, q <> l -> s_fs s' q = fs q).
  Proof.
    intros flt s b l r fs s' R ND. unfold run_driver in R. apply exit0_complete in R.
    destruct R as [[L _]|R]; [simpl in L; contradiction|].
    destruct R as [nb [nl_ [nr [m [ds [H1 [H2 [H3 [H4 [H5 H6]]]]]]]]]]. simpl in *.
    exists nb, nl_, nr, m, ds. repeat (split; auto); destruct (H6 eq_refl) as [P Q]; auto.
  Qed.

  Theorem driver_fault_before_write_untouched : forall flt s b l r fs st' s' e,
    RUND flt s b l r fs = (st', s') -> s_fired s' = true ->
    hd_error (s_trace s') = Some e -> is_after_commit e = false -> s_fs s' = fs.
  Proof.
    intros. unfold run_driver in H. eapply fault_before_write_untouched in H; eauto. tauto.
  Qed.
End Props.
