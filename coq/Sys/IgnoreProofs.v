From Coq Require Import List NArith String Bool Lia.
From NB Require Import Base.Res Base.Json Diff.DiffFormat Diff.Codec Diff.GenericDiff Gen.NbConfig Gen.IgnoreTable Sys.Ignore.
Import ListNotations.

(* the 64 generated tables are exactly the tables the categories demand, one per subset *)
Lemma tables_exact_l :
  forallb (fun row => table_eqb (snd row) (expected_table (fst row))) ignore_tables = true
  /\ Nat.eqb (List.length ignore_tables) 64 = true
  /\ forallb (fun p => bits_eqb (fst (fst p)) (snd p)) (combine ignore_tables (all_bits 6)) = true.
Proof. vm_compute. repeat split. Qed.

Lemma tables_exact_in : forall ig tab, In (ig, tab) ignore_tables -> table_eqb tab (expected_table ig) = true.
Proof.
  intros ig tab H. destruct tables_exact_l as [H1 _]. rewrite forallb_forall in H1. exact (H1 (ig, tab) H).
Qed.

(* all 3^6 flag assignments follow the rule *)
Lemma flags_rule_l :
  forallb (fun row => opt_bits_eqb (snd (fst row)) (flag_rule (fst (fst row)))
                      && match snd (fst row) with
                         | None => true
                         | Some _ => Bool.eqb (snd row) (existsb (fun v => match v with Some _ => true | None => false end) (fst (fst row)))
                         end)
          flag_table = true
  /\ Nat.eqb (List.length flag_table) 729 = true.
Proof. vm_compute. split; reflexivity. Qed.

(* an ignored path yields no diff; a key filter removes exactly the listed keys *)
Lemma run_ignore O cfg n path a b : run O cfg (S n) DfIgnore path a b = Ok [].
Proof. reflexivity. Qed.

Lemma run_ignore_keys O cfg n inner ks path a b d :
  run O cfg (S n) (DfIgnoreKeys inner ks) path a b = Ok d ->
  forall e k, In e d -> dkey e = KS k -> existsb (str_eqb k) ks = false.
Proof.
  cbn [run]. destruct (run O cfg n inner path a b) as [d0|]; [|discriminate]. cbn [bind].
  intros H e k Hin Hk. inversion H; subst d. apply filter_In in Hin as [_ Hf]. rewrite Hk in Hf.
  apply negb_true_iff in Hf. exact Hf.
Qed.

(* in an object diff, a key whose sub-path is ignored produces no patch entry *)
Lemma ignored_key_no_entry O cfg n path k va vb :
  get_differ cfg (subpath path k) = DfIgnore ->
  kind_eqb (kind_of va) (kind_of vb) && negb (is_atomic cfg va (subpath path k)) = true ->
  (let sp := subpath path k in
   if kind_eqb (kind_of va) (kind_of vb) && negb (is_atomic cfg va sp) then
     do dd <- run O cfg (S n) (get_differ cfg sp) sp va vb;
     match dd with [] => Ok [] | _ => Ok [DPatch (KS k) dd] end
   else Err RuntimeError) = Ok [].
Proof. intros H1 H2. cbv zeta. rewrite H2, H1. reflexivity. Qed.
