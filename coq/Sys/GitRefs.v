(* C17 -- model of nbdime/gitfiles.py (changed_notebooks, _get_diff_entry_stream), nbdime/utils.py (pushd),
   nbdime/args.py (resolve_diff_args) and the git-ref branch of nbdime/nbdiffapp.py (main_diff).

   The process working directory is explicit state.  git itself (what GitPython's Diffable.diff returns) and the
   file system are an uninterpreted "world": the theorems hold for every world.  Source facts that decide the
   behaviour (what pushd saves, whether it restores in a finally block, the notebook suffix, what the
   all-arguments-are-paths branch of resolve_diff_args assigns to base, whether the working-tree read is skipped for an
   entry git reports as deleted) are a record [facts]; the value for the
   current source is GENERATED into Gen/GitRefsFacts.v by tools/gen/gen_gitrefs.py. *)
From Coq Require Import List NArith Bool Arith.
From NB Require Import Base.Json.
Import ListNotations.

(* ------------------------------------------------------------------ source facts *)
Inductive pushd_saves_t := Curdir   (* old = os.curdir, i.e. the string '.' *)
                         | Getcwd.  (* old = os.getcwd() or an equivalent absolute path *)
Inductive allpaths_base_t := BaseNone   (* base = remote = None *)
                           | BaseHead.  (* base = 'HEAD'; remote = None *)
Record facts := {
  f_pushd_saves : pushd_saves_t;
  f_pushd_finally : bool;          (* os.chdir(old) sits in a finally block around the yield *)
  f_nb_suffix : pystr;             (* the argument of path.endswith(...) in _get_diff_entry_stream *)
  f_allpaths_base : allpaths_base_t; (* resolve_diff_args, three or more positionals, first is not a ref *)
  f_skip_both : bool;              (* changed_notebooks skips an entry only when BOTH sides are not notebooks
                                      (false: as soon as either side is not a notebook) *)
  f_filter_in_try : bool;          (* apply_possible_filter(path) is called inside the try/except IOError *)
  f_deleted_missing : bool         (* the remote side of an entry git reports as deleted (entry.deleted_file) is the missing
                                      file when the remote is the working tree: nothing on disk is looked at for it *)
}.

(* ------------------------------------------------------------------ paths *)
Definition comp := pystr.
Definition path := list comp.      (* list of components; absolute paths are components below '/' *)
Definition slash : N := 47%N.

Fixpoint path_str (p : path) : pystr :=
  match p with
  | [] => []
  | [c] => c
  | c :: r => c ++ slash :: path_str r
  end.

Fixpoint prefix_eqb (a b : pystr) : bool :=   (* a is a prefix of b *)
  match a, b with
  | [], _ => true
  | x :: xs, y :: ys => N.eqb x y && prefix_eqb xs ys
  | _ :: _, [] => false
  end.
Definition ends_with (s suf : pystr) : bool := prefix_eqb (rev suf) (rev s).   (* str.endswith *)
Definition is_nb (F : facts) (p : path) : bool := ends_with (path_str p) (f_nb_suffix F).

(* argument of os.chdir: k times '..' ('.' when k = 0), or an absolute path *)
Inductive dirarg := Up (k : nat) | Abs (p : path).
Fixpoint up (k : nat) (p : path) : path :=
  match k with 0 => p | S k' => up k' (removelast p) end.     (* '..' at '/' stays at '/' *)
Definition chdir (cwd : path) (d : dirarg) : path :=
  match d with Up k => up k cwd | Abs p => p end.

(* ------------------------------------------------------------------ the world *)
Definition content := N.                       (* identifier of a file content *)
Inductive fres := FNone                        (* apply_possible_filter returned the path: no filter *)
                | FSome (c : content)          (* filtered content *)
                | FRaiseIO                     (* it raised IOError/OSError (the file is not there) *)
                | FRaise.                      (* it raised something else *)
Inductive ref := RCommit (name : pystr) | RIndex | RWorktree.
Record entry := { a_path : path; a_blob : option content; b_path : path; b_blob : option content;
                  e_deleted : bool }.             (* GitPython: entry.deleted_file, git's status D *)
Record world := {
  w_fs : path -> option content;               (* absolute path -> content of a readable file there *)
  w_filter : path -> path -> fres;             (* cwd, path -> outcome of apply_possible_filter(path) *)
  w_diff : ref -> ref -> list path -> list entry  (* GitPython: tree_or_index(base).diff(remote, paths), paths from the repo root *)
}.

(* ------------------------------------------------------------------ _get_diff_entry_stream *)
Inductive stream := SMissing                   (* EXPLICIT_MISSING_FILE *)
                  | SBlob (c : content)        (* BlobWrapper around the blob's data *)
                  | SFile (p : path) (c : content)      (* io.open(path) of that relative path *)
                  | SFiltered (p : path) (c : content). (* buffer returned by apply_possible_filter *)
Inductive outcome := ONotNb | OStream (s : stream) | ORaise.

(* body of `with pushd(repo_dir):`, executed with working directory cwd *)
Definition pushd_body (F : facts) (W : world) (cwd p : path) : outcome :=
  match w_filter W cwd p with
  | FRaise => ORaise
  | FRaiseIO => if f_filter_in_try F then OStream SMissing else ORaise
  | FSome c => OStream (SFiltered p c)
  | FNone => match w_fs W (cwd ++ p) with
             | Some c => OStream (SFile p c)
             | None => OStream SMissing            (* except IOError *)
             end
  end.

Definition read := (path * path)%type.         (* working directory at the time, relative path accessed *)

(* [del]: the keyword argument `deleted` (false where the caller does not pass it, or the function does not have it) *)
Definition get_stream (F : facts) (W : world) (cwd : path) (p : path) (blob : option content) (r : ref) (del : bool)
           (repo_dir : dirarg) : path * list read * outcome :=
  match p with
  | [] => (cwd, [], OStream SMissing)
  | _ :: _ =>
    if negb (is_nb F p) then (cwd, [], ONotNb) else
    match r with
    | RWorktree =>
        if f_deleted_missing F && del then (cwd, [], OStream SMissing) else     (* `if deleted: return EXPLICIT_MISSING_FILE` *)
        let old := match f_pushd_saves F with Curdir => Up 0 | Getcwd => Abs cwd end in
        let cwd1 := chdir cwd repo_dir in
        let o := pushd_body F W cwd1 p in
        let cwd2 := match o with
                    | ORaise => if f_pushd_finally F then chdir cwd1 old else cwd1
                    | _ => chdir cwd1 old
                    end in
        (cwd2, [(cwd1, p)], o)
    | _ => match blob with
           | None => (cwd, [], OStream SMissing)
           | Some c => (cwd, [], OStream (SBlob c))
           end
    end
  end.

(* ------------------------------------------------------------------ changed_notebooks (a generator) *)
Record yielded := { y_a : stream; y_b : stream; y_cwd : path }.    (* y_cwd: working directory at the yield *)
Record result := { r_yields : list yielded; r_reads : list read; r_cwd : path; r_raised : bool }.

Definition add_reads (rd : list read) (r : result) : result :=
  {| r_yields := r_yields r; r_reads := rd ++ r_reads r; r_cwd := r_cwd r; r_raised := r_raised r |}.
Definition add_yield (y : yielded) (r : result) : result :=
  {| r_yields := y :: r_yields r; r_reads := r_reads r; r_cwd := r_cwd r; r_raised := r_raised r |}.

Definition is_notnb (o : outcome) : bool := match o with ONotNb => true | _ => false end.
(* `if fa is None: continue` placed before the remote side is looked at *)
Definition early_skip (F : facts) (oa : outcome) : bool := negb (f_skip_both F) && is_notnb oa.
(* the pair that is yielded, if any, once both sides are known *)
Definition pair_of (F : facts) (oa ob : outcome) : option (stream * stream) :=
  match oa, ob with
  | OStream fa, OStream fb => Some (fa, fb)
  | OStream fa, ONotNb => if f_skip_both F then Some (fa, SMissing) else None
  | ONotNb, OStream fb => if f_skip_both F then Some (SMissing, fb) else None
  | _, _ => None
  end.
Definition is_raise (o : outcome) : bool := match o with ORaise => true | _ => false end.

Fixpoint cn_loop (F : facts) (W : world) (rb rr : ref) (repo_dir : dirarg) (es : list entry) (cwd : path) : result :=
  match es with
  | [] => {| r_yields := []; r_reads := []; r_cwd := cwd; r_raised := false |}
  | e :: rest =>
    let '(cwd1, rd1, oa) := get_stream F W cwd (a_path e) (a_blob e) rb false repo_dir in
    if is_raise oa then {| r_yields := []; r_reads := rd1; r_cwd := cwd1; r_raised := true |}
    else if early_skip F oa then add_reads rd1 (cn_loop F W rb rr repo_dir rest cwd1)
    else
      let '(cwd2, rd2, ob) := get_stream F W cwd1 (b_path e) (b_blob e) rr (e_deleted e) repo_dir in
      if is_raise ob then {| r_yields := []; r_reads := rd1 ++ rd2; r_cwd := cwd2; r_raised := true |}
      else match pair_of F oa ob with
           | None => add_reads (rd1 ++ rd2) (cn_loop F W rb rr repo_dir rest cwd2)
           | Some (fa, fb) =>
               add_reads (rd1 ++ rd2)
                 (add_yield {| y_a := fa; y_b := fb; y_cwd := cwd2 |} (cn_loop F W rb rr repo_dir rest cwd2))
           end
  end.

Definition head_ref : ref := RCommit [72; 69; 65; 68]%N.   (* "HEAD" *)
(* repo.commit(None) is HEAD's commit: a working-tree *base* lists HEAD's tree but reads files from disk *)
Definition tree_of_base (rb : ref) : ref := match rb with RWorktree => head_ref | x => x end.

(* changed_notebooks(ref_base, ref_remote, paths, repo_dir=None) called with working directory root ++ popped *)
Definition changed_notebooks (F : facts) (W : world) (root popped : path) (rb rr : ref) (paths : list path) : result :=
  let repo_dir := Up (length popped) in                      (* os.path.relpath(working_tree_dir, os.curdir) *)
  let paths' := map (fun p => popped ++ p) paths in          (* os.path.join of popped and p *)
  cn_loop F W rb rr repo_dir (w_diff W (tree_of_base rb) rr paths') (root ++ popped).

(* the same with an explicit absolute repo_dir = root (nb_server_extension) *)
Definition changed_notebooks_abs (F : facts) (W : world) (root cwd : path) (rb rr : ref) (paths : list path) : result :=
  cn_loop F W rb rr (Abs root) (w_diff W (tree_of_base rb) rr paths) cwd.

(* ------------------------------------------------------------------ specification side *)
(* what one side of an entry should be, reading the working tree at the repository root; the working-tree side of an
   entry that git reports as deleted ([del]) is the missing file whatever sits at the path on disk (an untracked file
   after `git rm --cached`, a file re-created after a staged deletion): this does not depend on the source facts *)
Definition spec_stream (F : facts) (W : world) (root : path) (p : path) (blob : option content) (r : ref) (del : bool) : outcome :=
  match p with
  | [] => OStream SMissing
  | _ :: _ =>
    if negb (is_nb F p) then ONotNb else
    match r with
    | RWorktree => if del then OStream SMissing else pushd_body F W root p
    | _ => match blob with None => OStream SMissing | Some c => OStream (SBlob c) end
    end
  end.

Fixpoint spec_pairs (F : facts) (W : world) (root : path) (rb rr : ref) (es : list entry) : list (stream * stream) * bool :=
  match es with
  | [] => ([], false)
  | e :: rest =>
    let oa := spec_stream F W root (a_path e) (a_blob e) rb false in
    if is_raise oa then ([], true)
    else if early_skip F oa then spec_pairs F W root rb rr rest
    else
      let ob := spec_stream F W root (b_path e) (b_blob e) rr (e_deleted e) in
      if is_raise ob then ([], true)
      else match pair_of F oa ob with
           | None => spec_pairs F W root rb rr rest
           | Some pr => let '(l, x) := spec_pairs F W root rb rr rest in (pr :: l, x)
           end
  end.

Definition nb_or_none (F : facts) (p : path) : bool := match p with [] => true | _ => is_nb F p end.
Definition entry_is_nb (F : facts) (e : entry) : bool :=
  if f_skip_both F then nb_or_none F (a_path e) || nb_or_none F (b_path e)
  else nb_or_none F (a_path e) && nb_or_none F (b_path e).
Definition stream_of (o : outcome) : stream := match o with OStream s => s | _ => SMissing end.
Definition entry_pair (F : facts) (W : world) (root : path) (rb rr : ref) (e : entry) : stream * stream :=
  (stream_of (spec_stream F W root (a_path e) (a_blob e) rb false),
   stream_of (spec_stream F W root (b_path e) (b_blob e) rr (e_deleted e))).
Definition pairs_of (r : result) : list (stream * stream) := map (fun y => (y_a y, y_b y)) (r_yields r).

(* ------------------------------------------------------------------ resolve_diff_args / main_diff *)
(* positional arguments of `nbdiff [base [remote [paths...]]]`, base defaults to 'HEAD' *)
Definition head_name : pystr := [72; 69; 65; 68]%N.
Inductive paths_t := PNone | POne (p : pystr) | PMany (l : list pystr).

Definition parse_positionals (l : list pystr) : option pystr * option pystr * list pystr :=
  match l with
  | [] => (Some head_name, None, [])
  | [b] => (Some b, None, [])
  | b :: r :: ps => (Some b, Some r, ps)
  end.

Section Resolve.
  Variable F : facts.
  Variable is_gitref : option pystr -> bool.      (* gitfiles.is_gitref, evaluated in the caller's directory *)

  Definition truthy (x : option pystr) : bool := match x with Some (_ :: _) => true | _ => false end.

  Definition resolve_diff_args (base remote : option pystr) (paths : list pystr)
    : option pystr * option pystr * paths_t :=
    let paths0 := match paths with [] => PNone | _ => PMany paths end in      (* if not paths: paths = None *)
    match remote, paths0 with
    | None, PNone =>
        if negb (is_gitref base) then
          (Some head_name, remote, match base with Some b => POne b | None => PNone end)
        else (base, remote, paths0)
    | _, PNone =>
        if is_gitref base && negb (is_gitref remote) then
          (base, None, match remote with Some r => POne r | None => PNone end)
        else (base, remote, paths0)
    | _, _ =>
        if truthy base && truthy remote then
          if negb (is_gitref base) then
            let all := match base, remote with Some b, Some r => b :: r :: paths | _, _ => paths end in
            match f_allpaths_base F with
            | BaseNone => (None, None, PMany all)
            | BaseHead => (Some head_name, None, PMany all)
            end
          else if negb (is_gitref remote) then
            (base, None, PMany (match remote with Some r => r :: paths | None => paths end))
          else (base, remote, paths0)
        else (base, remote, paths0)
    end.

  Inductive mode := GitMode (rb rr : ref) (paths : list pystr) | FileMode (base remote : option pystr).

  (* how changed_notebooks reads a CLI reference: None is the working tree sentinel *)
  Definition ref_of (x : option pystr) : ref := match x with None => RWorktree | Some s => RCommit s end.
  Definition paths_list (p : paths_t) : list pystr := match p with PNone => [] | POne x => [x] | PMany l => l end.

  Definition main_mode (args : list pystr) : mode :=
    let '(b, r, ps) := parse_positionals args in
    let '(b', r', ps') := resolve_diff_args b r ps in
    if is_gitref b' && is_gitref r' then GitMode (ref_of b') (ref_of r') (paths_list ps')
    else FileMode b' r'.

  (* what `git diff`-style arguments mean: leading references, then paths *)
  Definition spec_mode (args : list pystr) : mode :=
    match args with
    | [] => GitMode head_ref RWorktree []
    | [x] => if is_gitref (Some x) then GitMode (RCommit x) RWorktree [] else GitMode head_ref RWorktree [x]
    | [x; y] =>
        if is_gitref (Some x) then
          if is_gitref (Some y) then GitMode (RCommit x) (RCommit y) [] else GitMode (RCommit x) RWorktree [y]
        else FileMode (Some x) (Some y)                     (* two files: plain file diff, not git mode *)
    | x :: y :: ps =>
        if is_gitref (Some x) then
          if is_gitref (Some y) then GitMode (RCommit x) (RCommit y) ps else GitMode (RCommit x) RWorktree (y :: ps)
        else GitMode head_ref RWorktree (x :: y :: ps)
    end.
End Resolve.
