(* C08 -- a small concrete instance of the model Sys/MergeApp.v, used
   (a) by the correspondence check: harness/props/c08.py generates a cases file that evaluates [inst_obs] with
       vm_compute under coqc and compares the printed observations with what the real entry points did;
   (b) for non-vacuity examples of the theorems.
   Notebooks are tokens (N), a decision is its conflict flag, strategies are unit.  The library-level facts of a case
   (does the merge conflict? does a stage raise? does the serialisation end in a newline?) are case parameters: the
   harness measures them on the real library, independently of the command under test. *)
From Coq Require Import List NArith Bool Arith.
From NB Require Import Gen.MergeAppFacts.
From NB Require Import Sys.MergeApp.
Import ListNotations.

Record lib := { i_conflict : bool; i_fail : nat (* 0 none, 1 diff, 3 decide, 4 apply *); i_ser_nl : bool; i_dec_chunks : nat }.

Definition i_parse (b : bytes) : parsed N :=
  match b with
  | [n] => if N.ltb n 100 then PNb n else if N.eqb n 100 then PNotJson else POther
  | [] => PNotJson
  | _ => POther
  end.
Definition i_minimal : N := 0%N.
Definition i_diffnb (L : lib) (a b : N) : option unit := if Nat.eqb (i_fail L) 1 then None else Some tt.
Definition i_decide (L : lib) (_ : unit) (b l r : N) (_ _ : unit) : option (list bool) :=
  if Nat.eqb (i_fail L) 3 then None else Some (if i_conflict L then [false; true] else [false]).
Definition i_apply (L : lib) (b : N) (ds : list bool) : option N := if Nat.eqb (i_fail L) 4 then None else Some 7%N.
Definition i_serialise (L : lib) (nb : N) : bytes := if i_ser_nl L then [123; nb; 10]%N else [123; nb; 125]%N.
Definition i_dec_chunks_f (L : lib) (ds : list bool) : list bytes := repeat [91%N] (i_dec_chunks L).

Definition i_run (L : lib) (flt : option fault) (c : cfg unit) (fs : fsys) : status * st :=
  run N bool unit unit i_parse i_minimal (i_diffnb L) (i_decide L) (i_apply L) (fun d => d) (i_serialise L) (i_dec_chunks_f L) flt c fs.

(* ---- cases as lists of small numbers (easy to generate from Python)
   [entry; kb; kl; kr; ko; decisions; conflict; fail; ser_nl; dec_chunks; fk; fkind; fpartial]
   entry 0 = nbmerge, 1 = git driver.   kb/kl/kr: 0 = /dev/null, 1 = notebook, 2 = empty file, 3 = missing,
   4 = not JSON, 5 = JSON but not a notebook.   ko: 0 = no --out (stdout), 1 = output path absent, 2 = output path
   holds older content.   fk = 0: no fault; fkind 0 exception, 1 interrupt, 2 kill. *)
Definition pbase : path := 1%N.  Definition plocal : path := 2%N.  Definition premote : path := 3%N.  Definition pout : path := 4%N.

Definition kind_state (k : nat) (tok : N) : fstate :=
  match k with
  | 1 => Content [tok] | 2 => Content [] | 4 => Content [100%N] | 5 => Content [101%N] | _ => Absent
  end.
Definition kind_path (k : nat) (p : path) : path := match k with 0 => devnull | _ => p end.
Definition old_out : bytes := [79; 76; 68]%N.

Definition nthd (l : list nat) (i : nat) : nat := nth i l 0.
Definition nz (n : nat) : bool := negb (Nat.eqb n 0).

Definition ev_code (e : ev) : nat :=
  match e with
  | EOpenR RBase => 1 | EOpenR RLocal => 2 | EOpenR RRemote => 3 | EOpenR ROut => 4
  | EDiff => 5 | EDecide => 6 | EApply => 7 | ESerialise => 8 | EOpenW => 9 | EWrite => 10 | EClose => 11 | ERemove => 12
  end.
Definition status_code (s : status) : nat := match s with Exit n => n | SigInt => 1002 | SigKill => 1009 end.

Definition fstate_eqb (a b : fstate) : bool :=
  match a, b with
  | Absent, Absent => true
  | Content x, Content y | Partial x, Partial y => if list_eq_dec N.eq_dec x y then true else false
  | _, _ => false
  end.

(* observation: [status; class of the designated output; stdout chunks written; every other file untouched?; events...]
   class: 0 same as before, 1 removed, 2 holds complete content (closed), 3 partial / other *)
Definition inst_obs (cs : list nat) : list nat :=
  let entry := nthd cs 0 in let kb := nthd cs 1 in let kl := nthd cs 2 in let kr := nthd cs 3 in let ko := nthd cs 4 in
  let L := {| i_conflict := nz (nthd cs 6); i_fail := nthd cs 7; i_ser_nl := nz (nthd cs 8); i_dec_chunks := nthd cs 9 |} in
  let flt := match nthd cs 10 with
             | 0 => None
             | k => Some {| f_k := k; f_kind := match nthd cs 11 with 0 => KExn | 1 => KIntr | _ => KKill end; f_partial := nz (nthd cs 12) |}
             end in
  let fs : fsys := fun p =>
    if N.eqb p pbase then kind_state kb 11 else if N.eqb p plocal then kind_state kl 12
    else if N.eqb p premote then kind_state kr 13
    else if N.eqb p pout then (match ko with 2 => Content old_out | _ => Absent end) else Absent in
  let b := kind_path kb pbase in let l := kind_path kl plocal in let r := kind_path kr premote in
  let c := match entry with
           | 0 => {| c_base := b; c_local := l; c_remote := r; c_out := match ko with 0 => None | _ => Some pout end;
                     c_decisions := nz (nthd cs 5); c_strat := tt |}
           | _ => driver_cfg unit tt b l r None
           end in
  let (stt, s') := i_run L flt c fs in
  let o := match c_out c with Some o => o | None => pout end in
  let cls := if fstate_eqb (s_fs s' o) (fs o) then 0
             else match s_fs s' o with Absent => 1 | Content _ => 2 | Partial _ => 3 end in
  let others := forallb (fun q => N.eqb q o || fstate_eqb (s_fs s' q) (fs q)) [pbase; plocal; premote; pout] in
  status_code stt :: cls :: length (s_out s') :: (if others then 1 else 0) :: map ev_code (rev (s_trace s')).

(* ---------------------------------------------------------------- non-vacuity *)
Definition L0 := {| i_conflict := false; i_fail := 0; i_ser_nl := false; i_dec_chunks := 2 |}.
Definition L1 := {| i_conflict := true; i_fail := 0; i_ser_nl := false; i_dec_chunks := 2 |}.

(* nbmerge base local remote --out out (older content there), clean merge: exit 0, complete output, 12 boundaries *)
Example ex_clean : inst_obs [0;1;1;1;2; 0;0;0;0;2; 0;0;0] = [0; 2; 0; 1; 1;2;3;5;5;6;7;8;9;10;10;11].
Proof. vm_compute. reflexivity. Qed.
(* conflicting merge: exit 1, output still complete *)
Example ex_conflict : inst_obs [0;1;1;1;2; 0;1;0;0;2; 0;0;0] = [1; 2; 0; 1; 1;2;3;5;5;6;7;8;9;10;10;11].
Proof. vm_compute. reflexivity. Qed.
(* git driver, empty base file (two opens of base), output in place of local *)
Example ex_driver_empty_base : inst_obs [1;2;1;1;0; 0;1;0;0;2; 0;0;0] = [1; 2; 0; 1; 1;1;2;3;5;5;6;7;8;9;10;10;11].
Proof. vm_compute. reflexivity. Qed.
(* an exception at the serialise boundary (8th): exit 1, output untouched *)
Example ex_fault_serialise : inst_obs [0;1;1;1;2; 0;0;0;0;2; 8;0;0] = [1; 0; 0; 1; 1;2;3;5;5;6;7;8].
Proof. vm_compute. reflexivity. Qed.
(* a kill inside the first write: SIGKILL, output partial *)
Example ex_kill_in_write : inst_obs [0;1;1;1;2; 0;0;0;0;2; 10;2;1] = [1009; 3; 0; 1; 1;2;3;5;5;6;7;8;9;10].
Proof. vm_compute. reflexivity. Qed.
(* both sides deleted: output removed, exit 0 *)
Example ex_agreed_deletion : inst_obs [0;1;0;0;2; 0;0;0;0;2; 0;0;0] = [0; 1; 0; 1; 1;12].
Proof. vm_compute. reflexivity. Qed.
