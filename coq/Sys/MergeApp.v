(* C08 -- model of the merge command (nbdime/nbmergeapp.py: main, main_merge, _handle_agreed_deletion), the git merge
   driver wrapper (nbdime/vcs/git/mergedriver.py: main, merge branch), nbdime.utils.read_notebook and nbformat.write,
   as PROGRAMS of a small instruction language over an abstract file system, run by an interpreter that injects one
   fault (exception / interrupt / kill) at a chosen step boundary.

   Definitions only; proofs are in MergeAppProofs.v.  Stdlib only.

   The library parts (parsing, diffing, deciding, applying, serialising) are Section variables with NO hypotheses:
   every theorem holds for every notebook format, every merge algorithm and every strategy.  What is modelled
   literally is the ORDER of operations, the branching on /dev/null and empty files, how the return code is derived,
   and what each operation does to the file system.  Source facts come from Gen/MergeAppFacts.v (regenerated). *)
From Coq Require Import List NArith Bool Arith.
From NB Require Import Gen.MergeAppFacts.
Import ListNotations.

Definition bytes := list N.
Definition path := N.
Definition devnull : path := 0%N.          (* EXPLICIT_MISSING_FILE; compared BY NAME, as in the code *)

Inductive fstate := Absent | Content (b : bytes) | Partial (b : bytes).
(* Partial b: the file has been opened for writing (truncated) and b has been handed to it, not yet closed. *)
Definition fsys := path -> fstate.

Definition upd (fs : fsys) (p : path) (s : fstate) : fsys :=
  if N.eqb p devnull then fs                           (* the null device swallows writes *)
  else fun q => if N.eqb q p then s else fs q.

Definition exists_ (fs : fsys) (p : path) : bool :=
  if N.eqb p devnull then true else match fs p with Absent => false | _ => true end.

Inductive role := RBase | RLocal | RRemote | ROut.

(* Step boundaries.  A fault is injected AT a boundary, i.e. instead of the operation the boundary announces. *)
Inductive ev :=
| EOpenR (r : role)      (* open an input for reading (nbformat.read; the emptiness re-check of read_notebook) *)
| EDiff | EDecide | EApply   (* diff_notebooks, decide_merge_with_diff, apply_decisions inside merge_notebooks *)
| ESerialise             (* nbformat.writes *)
| EOpenW                 (* open the output for writing: truncates *)
| EWrite                 (* one .write() on the output *)
| EClose                 (* close of the output *)
| ERemove.               (* os.remove of the output (agreed deletion) *)

Inductive fkind := KExn | KIntr | KKill.   (* OSError/MemoryError ; KeyboardInterrupt ; SIGKILL *)
Record fault := { f_k : nat; f_kind : fkind; f_partial : bool }.
(* f_partial: at an EWrite boundary, a strict prefix of the chunk reaches the file before the fault. *)

(* ---------------------------------------------------------------- programs *)
Inductive prog (A : Type) : Type :=
| Ret (a : A)
| Fail                                              (* the code itself raises an ordinary exception *)
| Tick (e : ev) (pw : fsys -> fsys) (k : prog A)    (* boundary; pw = what a PARTIAL fault here does to the fs *)
| Get (k : fsys -> prog A)
| Put (f : fsys -> fsys) (k : prog A)
| Out (b : bytes) (k : prog A).                     (* sys.stdout.write *)
Arguments Ret {A}. Arguments Fail {A}. Arguments Tick {A}. Arguments Get {A}. Arguments Put {A}. Arguments Out {A}.

Fixpoint bind {A B} (m : prog A) (f : A -> prog B) : prog B :=
  match m with
  | Ret a => f a
  | Fail => Fail
  | Tick e pw k => Tick e pw (bind k f)
  | Get k => Get (fun fs => bind (k fs) f)
  | Put g k => Put g (bind k f)
  | Out b k => Out b (bind k f)
  end.
Notation "x <- m ;; k" := (bind m (fun x => k)) (at level 61, m at next level, right associativity).
Notation "m ;;; k" := (bind m (fun _ => k)) (at level 61, right associativity).

Definition tick (e : ev) : prog unit := Tick e (fun fs => fs) (Ret tt).
Definition getfs : prog fsys := Get (fun fs => Ret fs).
Definition putfs (f : fsys -> fsys) : prog unit := Put f (Ret tt).

(* ---------------------------------------------------------------- interpreter *)
Record st := { s_fs : fsys; s_k : nat; s_trace : list ev (* newest first *); s_out : list bytes (* newest first *);
               s_fired : bool }.
Inductive result (A : Type) := Done (a : A) | Aborted (k : fkind).
Arguments Done {A}. Arguments Aborted {A}.

Fixpoint exec {A} (flt : option fault) (p : prog A) (s : st) : result A * st :=
  match p with
  | Ret a => (Done a, s)
  | Fail => (Aborted KExn, s)
  | Tick e pw k =>
      let n := S (s_k s) in
      let s1 := {| s_fs := s_fs s; s_k := n; s_trace := e :: s_trace s; s_out := s_out s; s_fired := s_fired s |} in
      match flt with
      | Some f => if Nat.eqb (f_k f) n
                  then (Aborted (f_kind f),
                        {| s_fs := if f_partial f then pw (s_fs s) else s_fs s; s_k := n; s_trace := e :: s_trace s;
                           s_out := s_out s; s_fired := true |})
                  else exec flt k s1
      | None => exec flt k s1
      end
  | Get k => exec flt (k (s_fs s)) s
  | Put g k => exec flt k {| s_fs := g (s_fs s); s_k := s_k s; s_trace := s_trace s; s_out := s_out s; s_fired := s_fired s |}
  | Out b k => exec flt k {| s_fs := s_fs s; s_k := s_k s; s_trace := s_trace s; s_out := b :: s_out s; s_fired := s_fired s |}
  end.

Definition init (fs : fsys) : st := {| s_fs := fs; s_k := 0; s_trace := []; s_out := []; s_fired := false |}.

(* Process exit status as the parent (git, the shell) sees it.
   CPython: sys.exit(n) -> n; uncaught exception -> 1; uncaught KeyboardInterrupt -> dies of SIGINT; kill -> SIGKILL. *)
Inductive status := Exit (n : nat) | SigInt | SigKill.
Definition status_of {A} (rc : A -> nat) (r : result A) : status :=
  match r with Done a => Exit (Nat.modulo (rc a) 256)      (* a process status has 8 bits *) | Aborted KExn => Exit 1 | Aborted KIntr => SigInt | Aborted KKill => SigKill end.

(* ---------------------------------------------------------------- the code *)
Inductive parsed (nbk : Type) := PNb (nb : nbk) | PNotJson | POther.
Arguments PNb {nbk}. Arguments PNotJson {nbk}. Arguments POther {nbk}.

Record cfg (strat : Type) := { c_base : path; c_local : path; c_remote : path; c_out : option path;
                               c_decisions : bool; c_strat : strat }.
Arguments c_base {strat}. Arguments c_local {strat}. Arguments c_remote {strat}. Arguments c_out {strat}.
Arguments c_decisions {strat}. Arguments c_strat {strat}.

Definition nl : bytes := [10%N].
Fixpoint ends_nl (b : bytes) : bool :=
  match b with [] => false | [x] => N.eqb x 10 | _ :: t => ends_nl t end.
Definition half (b : bytes) : bytes := firstn (Nat.div2 (length b)) b.

Section Code.
  Variable nbk dec dif strat : Type.
  Variable parse : bytes -> parsed nbk.                      (* nbformat.reads(..., as_version=4) *)
  Variable minimal : nbk.                                    (* nbformat.v4.new_notebook() *)
  Variable diffnb : nbk -> nbk -> option dif.                (* diff_notebooks; None = raises *)
  Variable decide : strat -> nbk -> nbk -> nbk -> dif -> dif -> option (list dec).
  Variable apply : nbk -> list dec -> option nbk.
  Variable dconflict : dec -> bool.                          (* d.conflict *)
  Variable serialise : nbk -> bytes.                         (* nbformat.writes *)
  Variable dec_chunks : list dec -> list bytes.              (* the .write() calls json.dump(decisions, f, indent=2) makes *)

  Definition lift {A} (o : option A) : prog A := match o with Some a => Ret a | None => Fail end.

  (* nbdime.utils.read_notebook(f, on_null='minimal', on_empty=...) *)
  Definition read_notebook (p : path) (r : role) (on_empty_minimal : bool) : prog nbk :=
    if N.eqb p devnull then Ret minimal
    else
      tick (EOpenR r) ;;;                                    (* nbformat.read: open(fp, encoding="utf8") *)
      fs <- getfs ;;
      match fs p with
      | Content b =>
          match parse b with
          | PNb nb => Ret nb
          | POther => Fail
          | PNotJson =>                                      (* except nbformat.reader.NotJSONError: *)
              if on_empty_minimal then
                tick (EOpenR r) ;;;                          (*   with io.open(f) as fo: len(fo.read(10)) != 0 -> raise *)
                match b with [] => Ret minimal | _ => Fail end
              else Fail
          end
      | _ => Fail                                            (* FileNotFoundError *)
      end.

  (* nbdime.merging.notebooks.merge_notebooks *)
  Definition merge_notebooks (s : strat) (b l r : nbk) : prog (nbk * list dec) :=
    tick EDiff ;;; ld <- lift (diffnb b l) ;;
    tick EDiff ;;; rd <- lift (diffnb b r) ;;
    tick EDecide ;;; ds <- lift (decide s b l r ld rd) ;;
    tick EApply ;;; m <- lift (apply b ds) ;;
    Ret (m, ds).

  (* the same without boundaries: "what the library merge returns" *)
  Definition lib_merge (s : strat) (b l r : nbk) : option (nbk * list dec) :=
    match diffnb b l with None => None | Some ld =>
    match diffnb b r with None => None | Some rd =>
    match decide s b l r ld rd with None => None | Some ds =>
    match apply b ds with None => None | Some m => Some (m, ds) end end end end.

  (* writing chunks to an open file: each write appends to what the file holds *)
  Fixpoint write_chunks (p : path) (acc : bytes) (cs : list bytes) : prog bytes :=
    match cs with
    | [] => Ret acc
    | c :: cs' =>
        Tick EWrite (fun fs => upd fs p (Partial (acc ++ half c))) (Ret tt) ;;;
        putfs (fun fs => upd fs p (Partial (acc ++ c))) ;;;
        write_chunks p (acc ++ c) cs'
    end.

  Definition open_w (p : path) : prog unit := tick EOpenW ;;; putfs (fun fs => upd fs p (Partial [])).
  Definition close_w (p : path) (acc : bytes) : prog unit := tick EClose ;;; putfs (fun fs => upd fs p (Content acc)).

  Definition nb_chunks (s : bytes) : list bytes := if ends_nl s then [s] else [s; nl].

  (* nbformat.write(nb, <path>):  s = writes(nb); fp.write -> AttributeError -> with Path(fp).open("w") as f: f.write(s); f.write("\n") *)
  Definition nbformat_write_path (nb : nbk) (p : path) : prog unit :=
    tick ESerialise ;;;
    let s := serialise nb in
    open_w p ;;; acc <- write_chunks p [] (nb_chunks s) ;; close_w p acc.

  (* with open(mfn, "w") as f: nbformat.write(nb, f)   -- the other recognised shape (fact_write_via = WriteOpened) *)
  Definition nbformat_write_opened (nb : nbk) (p : path) : prog unit :=
    open_w p ;;;
    tick ESerialise ;;;
    let s := serialise nb in
    acc <- write_chunks p [] (nb_chunks s) ;; close_w p acc.

  (* nbformat.write(nb, sys.stdout) *)
  Definition nbformat_write_stdout (nb : nbk) : prog unit :=
    tick ESerialise ;;;
    let s := serialise nb in
    Out s (if ends_nl s then Ret tt else Out nl (Ret tt)).

  Definition write_merged (nb : nbk) (p : path) : prog unit :=
    match fact_write_via with WritePath => nbformat_write_path nb p | WriteOpened => nbformat_write_opened nb p end.

  (* nbmergeapp._handle_agreed_deletion(base_fn, output_fn, args) *)
  Definition handle_agreed_deletion (c : cfg strat) : prog unit :=
    if fact_del_asserts_base && N.eqb (c_base c) devnull then Fail          (* assert base_fn != EXPLICIT_MISSING_FILE *)
    else
      _b <- read_notebook (c_base c) RBase fact_del_base_on_empty_minimal ;;
      if fact_deletion_passes_args && c_decisions c then Ret tt            (* pretty-prints a delete-all decision to the log *)
      else match c_out c with
           | None => Ret tt
           | Some o =>
               fs <- getfs ;;
               if negb fact_del_checks_exists || exists_ fs o then
                 tick ERemove ;;;
                 if N.eqb o devnull then Fail                              (* os.remove('/dev/null'): EPERM (see notes) *)
                 else match fs o with Absent => Fail | _ => putfs (fun fs => upd fs o Absent) end
               else Ret tt
           end.

  Definition returncode (ds : list dec) : nat :=
    match fact_rc_mode with
    | RcConst => match filter dconflict ds with [] => fact_rc_clean | _ :: _ => fact_rc_conflict end
    | RcCount => length (filter dconflict ds)
    end.

  (* nbmergeapp.main_merge(args) *)
  Definition main_merge (c : cfg strat) : prog nat :=
    fs <- getfs ;;
    if negb (forallb (exists_ fs) [c_base c; c_local c; c_remote c]) then Ret fact_rc_missing
    else if N.eqb (c_local c) devnull && N.eqb (c_remote c) devnull then
      handle_agreed_deletion c ;;; Ret fact_rc_deletion
    else
      b <- read_notebook (c_base c) RBase fact_base_on_empty_minimal ;;
      l <- read_notebook (c_local c) RLocal fact_local_on_empty_minimal ;;
      r <- read_notebook (c_remote c) RRemote fact_remote_on_empty_minimal ;;
      md <- merge_notebooks (c_strat c) b l r ;;
      let (merged, decisions) := md in
      (if c_decisions c then
         match c_out c with
         | Some o => open_w o ;;; acc <- write_chunks o [] (dec_chunks decisions ++ [nl]) ;; close_w o acc
         | None => Ret tt                                                   (* pretty-printed to the log *)
         end
       else
         match c_out c with
         | Some o => write_merged merged o
         | None => nbformat_write_stdout merged
         end) ;;;
      Ret (returncode decisions).

  (* mergedriver.main(['merge', base, local, remote, marker, path]) *)
  Definition driver_cfg (s : strat) (b l r : path) (out_arg : option path) : cfg strat :=
    {| c_base := b; c_local := l; c_remote := r;
       c_out := match fact_driver_out with DOutLocal => Some l | DOutArg => out_arg end;
       c_decisions := fact_driver_decisions; c_strat := s |}.

  (* the two processes: console-script shim `sys.exit(main())` *)
  Definition run (flt : option fault) (c : cfg strat) (fs : fsys) : status * st :=
    let (r, s) := exec flt (main_merge c) (init fs) in (status_of (fun n => n) r, s).

  Definition run_driver (flt : option fault) (s : strat) (b l r : path) (fs : fsys) : status * st :=
    run flt (driver_cfg s b l r None) fs.

  (* ---- what the theorems talk about *)
  (* the notebook an input path denotes when it can be read *)
  Definition denotes (fs : fsys) (p : path) (on_empty_minimal : bool) (nb : nbk) : Prop :=
    (p = devnull /\ nb = minimal) \/
    (p <> devnull /\ exists b, fs p = Content b /\
        (parse b = PNb nb \/ (parse b = PNotJson /\ on_empty_minimal = true /\ b = [] /\ nb = minimal))).

  Definition full_output (m : nbk) : bytes := concat (nb_chunks (serialise m)).
End Code.

(* boundaries at or after which the output may differ from its previous state *)
Definition is_commit (e : ev) : bool := match e with EOpenW | ERemove => true | _ => false end.
Definition is_after_commit (e : ev) : bool := match e with EWrite | EClose => true | _ => false end.

(* events passed (i.e. whose operation was actually performed), oldest first *)
Definition passed (s : st) : list ev :=
  rev (if s_fired s then tl (s_trace s) else s_trace s).
