(* C16 -- model of the terminal renderer nbdime/prettyprint.py.
   Modelled function by function (same names): PrettyPrintConfig.should_ignore_path (+ utils.split_path / star_path /
   join_path), diff_render (renderer selection), diff_render_with_git (command line), external_diff_render (the
   "No newline" strip and its assertion), _trim_base64 (the predicate only), pretty_print_source (highlight decision),
   pretty_print_diff_entry / _dict_diff / _list_diff / _string_diff / pretty_print_diff / pretty_print_notebook_diff,
   and the common-path walk of pretty_print_merge_decision.
   Output is abstracted to a list of events; every event stands for a write of at least one character.  Value
   formatters (pretty_print_value_at and below) are abstracted to [EvValue]: "writes, cannot fail".
   The tables and conditions marked (Gen) come from Gen/RenderFilter.v, regenerated from the source on every run. *)
From Coq Require Import List NArith ZArith Bool Lia String Ascii.
From NB Require Import Base.Res.
From NB Require Import Base.Json.
From NB Require Import Base.PyStr.
From NB Require Import Diff.DiffFormat.
From NB Require Import Diff.Patch.
From NB Require Import Diff.Codec.
From NB Require Import Sys.RenderTypes.
From NB Require Import Gen.RenderFilter.
Import ListNotations.

(* ---------- configuration: PrettyPrintConfig + which() results ---------- *)
Record cfg := {
  inc_sources : bool; inc_outputs : bool; inc_attachments : bool; inc_metadata : bool; inc_id : bool; inc_details : bool;
  use_color : bool; color_words : bool; use_git : bool; use_diff : bool;
  has_git : bool; has_diff : bool      (* which('git'), which('diff') *)
}.

Definition flag (c : cfg) (k : category) : bool :=
  match k with
  | Sources => inc_sources c | Outputs => inc_outputs c | Attachments => inc_attachments c
  | Metadata => inc_metadata c | Id => inc_id c | Details => inc_details c
  end.
Definition ignored (c : cfg) (k : category) : bool := negb (flag c k).

(* ---------- utils.split_path, star_path, join_path ---------- *)
Inductive seg := SStar | SKey (s : pystr).

Definition is_digit (ch : N) : bool := (48 <=? ch)%N && (ch <=? 57)%N.
Definition digits1 (s : pystr) : bool := match s with [] => false | _ => forallb is_digit s end.
Definition strip_final_nl (s : pystr) : pystr :=
  match rev s with 10%N :: r => rev r | _ => s end.
(* r_is_int = ^[-+]?\d+$   ($ also matches before one final newline; ASCII digits only in the model) *)
Definition int_like (s : pystr) : bool :=
  let s1 := match s with ch :: r => if (ch =? 43)%N || (ch =? 45)%N then r else s | [] => [] end in
  digits1 s1 || digits1 (strip_final_nl s1).

Definition classify (s : pystr) : seg := if int_like s then SStar else SKey s.

(* path.strip("/").split("/") without the empty pieces; [cur] is the current piece, reversed *)
Fixpoint split_slash (s cur : pystr) : list pystr :=
  match s with
  | [] => match cur with [] => [] | _ => [rev cur] end
  | ch :: r =>
      if (ch =? 47)%N
      then match cur with [] => split_slash r [] | _ => rev cur :: split_slash r [] end
      else split_slash r (ch :: cur)
  end.

Definition segs_of_string (s : pystr) : list seg := map classify (split_slash s []).

Definition segs_of_key (k : key) : list seg :=
  match k with KI _ => [SStar] | KS s => segs_of_string s end.     (* str(int) is always int-like *)

Definition path_segs (p : list key) : list seg := flat_map segs_of_key p.

Definition seg_str (sg : seg) : pystr := match sg with SStar => [42%N] | SKey s => s end.
Definition segs_str (l : list seg) : pystr := flat_map (fun sg => 47%N :: seg_str sg) l.
(* join_path: "/" + "/".join(parts), and "/" for no parts *)
Definition starred_of (l : list seg) : pystr := match l with [] => [47%N] | _ => segs_str l end.

Fixpoint startswith (p s : pystr) : bool :=
  match p, s with
  | [], _ => true
  | x :: p', y :: s' => (x =? y)%N && startswith p' s'
  | _ :: _, [] => false
  end.

(* ---------- PrettyPrintConfig.should_ignore_path (Gen: ignore_rules, ignore_default) ---------- *)
Fixpoint eval_bexp (c : cfg) (starred : pystr) (e : bexp) : bool :=
  match e with
  | BNotFlag k => negb (flag c k)
  | BStarredEq s => str_eqb starred s
  | BAnd a b => eval_bexp c starred a && eval_bexp c starred b
  | BOr a b => eval_bexp c starred a || eval_bexp c starred b
  | BConst b => b
  end.

Fixpoint eval_rules (c : cfg) (starred : pystr) (rules : list rule) (default : bexp) : bool :=
  match rules with
  | [] => eval_bexp c starred default
  | r :: rest =>
      if existsb (fun p => startswith p starred) (r_prefixes r)
      then eval_bexp c starred (r_result r)
      else eval_rules c starred rest default
  end.

Definition should_ignore_starred (c : cfg) (starred : pystr) : bool :=
  eval_rules c starred ignore_rules ignore_default.
Definition should_ignore_string (c : cfg) (path : pystr) : bool :=
  should_ignore_starred c (starred_of (segs_of_string path)).
Definition should_ignore_path (c : cfg) (path : list key) : bool :=
  should_ignore_starred c (starred_of (path_segs path)).

(* ---------- diff_render: renderer selection (Gen: renderer_rules, renderer_default) ---------- *)
Definition tcond_holds (c : cfg) (t : tcond) : bool :=
  match t with TUseGit => use_git c | TUseDiff => use_diff c | THasGit => has_git c | THasDiff => has_diff c end.

Fixpoint select_from (c : cfg) (rules : list (list tcond * renderer)) (default : renderer) : renderer :=
  match rules with
  | [] => default
  | (conds, r) :: rest => if forallb (tcond_holds c) conds then r else select_from c rest default
  end.
Definition select_renderer (c : cfg) : renderer := select_from c renderer_rules renderer_default.

(* diff_render_with_git: the command line (Gen: tabulated by execution for the four colour settings) *)
Definition git_cmd (c : cfg) : list pystr :=
  match use_color c, color_words c with
  | false, false => git_cmd_00 | false, true => git_cmd_01
  | true, false => git_cmd_10 | true, true => git_cmd_11
  end.

(* ---------- external_diff_render: strip of "\ No newline at end of file" and assert n <= bound ---------- *)
Definition opt_color_words : pystr := of_ascii "--color-words".
Definition word_mode (argv : list pystr) : bool := existsb (str_eqb opt_color_words) argv.

(* [n] = number of lines of the tool's raw output that start with the marker text *)
Definition strip_ok (argv : list pystr) (n : nat) : bool :=
  match strip_assert with
  | StripAlways => Nat.leb n strip_bound
  | StripUnlessWordDiff => word_mode argv || Nat.leb n strip_bound
  | StripNoAssert => true
  end.

(* what is assumed of git/diff: outside word-diff mode every content line carries a one-character prefix, so the only
   lines that start with the marker are the tool's own, at most one per file *)
Definition tool_contract (argv : list pystr) (n : nat) : Prop := word_mode argv = false -> n <= 2.

(* ---------- output events ---------- *)
Inductive ev :=
| EvHeader                                   (* nbdiff a b / --- / +++ *)
| EvAction (path : list key) (len : nat)     (* "## <verb> <path>:", a range <path>-<last> when len > 1 *)
| EvValue                                    (* some value formatter ran: writes, cannot fail (abstraction) *)
| EvTool (r : renderer) (argv : list pystr)  (* multi-line string diff delegated to this backend *)
| EvEnd.                                     (* DIFF_ENTRY_END + RESET *)

Definition render_tool (c : cfg) (n : nat) : res (list ev) :=
  match select_renderer c with
  | RGit => if strip_ok (git_cmd c) n then Ok [EvTool RGit (git_cmd c)] else Err AssertionError
  | RDiff => if strip_ok diff_cmd n then Ok [EvTool RDiff diff_cmd] else Err AssertionError
  | RDifflib => Ok [EvTool RDifflib []]
  end.

(* ---------- _trim_base64: does the snip apply ---------- *)
Definition b64c (ch : N) : bool :=
  ((65 <=? ch) && (ch <=? 90) || (97 <=? ch) && (ch <=? 122) || (48 <=? ch) && (ch <=? 57) || (ch =? 43) || (ch =? 47))%N.

Fixpoint b64_groups (t : pystr) : bool :=
  match t with
  | [] => true
  | a :: b :: c :: d :: r =>
      match r with
      | [] => b64c a && b64c b && ((b64c c && (b64c d || (d =? 61)%N)) || ((c =? 61)%N && (d =? 61)%N))
      | _ => b64c a && b64c b && b64c c && b64c d && b64_groups r
      end
  | _ => false
  end.

Definition trim_applies (s : pystr) : bool :=
  Nat.ltb 64 (List.length s) && b64_groups (filter (fun ch => negb (ch =? 10)%N) s).

Definition has_nl (s : pystr) : bool := existsb (fun ch => (ch =? 10)%N) s.

(* ---------- indexing: a[key], a[key : key + length] ---------- *)
Definition index (a : json) (k : key) : res json :=
  match a, k with
  | JObj kv, KS s => match obj_get s kv with Some v => Ok v | None => Err KeyError end
  | JObj _, KI _ => Err KeyError
  | JArr l, KI i => nth_res l i
  | JArr _, KS _ => Err TypeError
  | _, _ => Err TypeError
  end.

Definition slice_check (a : json) (k : key) : res unit :=
  match a, k with
  | JArr _, KI _ => Ok tt            (* list slices clamp, never raise *)
  | JObj _, KI _ => Err KeyError     (* dict[slice] *)
  | _, _ => Err TypeError            (* str key + int length *)
  end.

(* sorted([(e.key, e) for e in di], key=...) of pretty_print_dict_diff *)
Definition key_leb (x y : key) : bool :=
  match x, y with
  | KS s, KS t => negb (str_ltb t s)
  | KI i, KI j => Nat.leb i j
  | _, _ => true
  end.
Fixpoint insert_entry (e : dentry) (l : list dentry) : list dentry :=
  match l with
  | [] => [e]
  | x :: r => if key_leb (dkey x) (dkey e) then x :: insert_entry e r else e :: l
  end.
Definition sort_by_dkey (l : list dentry) : list dentry := fold_left (fun acc e => insert_entry e acc) l [].

Definition is_ks (e : dentry) : bool := match dkey e with KS _ => true | KI _ => false end.
Definition sort_entries (d : list dentry) : res (list dentry) :=
  if forallb is_ks d || forallb (fun e => negb (is_ks e)) d then Ok (sort_by_dkey d) else Err TypeError.

(* ---------- pretty_print_string_diff ---------- *)
Definition string_diff (c : cfg) (O : list key -> nat) (s : pystr) (d : list dentry) (path : list key) : res (list ev) :=
  do bj <- patch (ddepth d + 4) (JStr s) d;
  match bj with
  | JStr b =>
      do body <- (if trim_applies s || trim_applies b then Ok [EvValue; EvValue]
                  else if has_nl s || has_nl b then render_tool c (O path)
                  else Ok [EvValue; EvValue]);
      Ok (EvAction path 1 :: body ++ [EvEnd])
  | _ => Err TypeError
  end.

(* ---------- pretty_print_diff_entry, given the recursive call ---------- *)
Definition render_entry (rec : json -> list dentry -> list key -> res (list ev))
           (c : cfg) (a : json) (e : dentry) (path : list key) : res (list ev) :=
  if should_ignore_path c path then Ok [] else
  let k := dkey e in
  let np := path ++ [k] in
  match e with
  | DPatch _ dd => do v <- index a k; rec v dd np
  | DAddRange _ _ => Ok [EvAction np 1; EvValue; EvEnd]
  | DRemoveRange _ len => do _ <- slice_check a k; Ok [EvAction np len; EvValue; EvEnd]
  | DRemove _ =>
      if should_ignore_path c np then Ok [] else do _ <- index a k; Ok [EvAction np 1; EvValue; EvEnd]
  | DAdd _ _ =>
      if should_ignore_path c np then Ok [] else Ok [EvAction np 1; EvValue; EvEnd]
  | DReplace _ _ =>
      if should_ignore_path c np then Ok [] else do _ <- index a k; Ok [EvAction np 1; EvValue; EvValue; EvEnd]
  end.

Fixpoint render_entries (f : dentry -> res (list ev)) (l : list dentry) : res (list ev) :=
  match l with
  | [] => Ok []
  | e :: r => do x <- f e; do y <- render_entries f r; Ok (x ++ y)
  end.

(* ---------- pretty_print_diff ---------- *)
Fixpoint render_diff (fuel : nat) (c : cfg) (O : list key -> nat) (a : json) (d : list dentry) (path : list key)
  : res (list ev) :=
  match fuel with
  | 0 => Err OutOfFuel
  | S f =>
      match a with
      | JObj _ => do ds <- sort_entries d;
                  render_entries (fun e => render_entry (render_diff f c O) c a e path) ds
      | JArr _ => render_entries (fun e => render_entry (render_diff f c O) c a e path) d
      | JStr s => string_diff c O s d path
      | _ => Err NBDiffFormatError
      end
  end.

(* ---------- pretty_print_notebook_diff ---------- *)
Definition render_notebook_diff (fuel : nat) (c : cfg) (O : list key -> nat) (a : json) (d : list dentry) : res (list ev) :=
  match d with
  | [] => Ok []
  | _ => do body <- render_diff fuel c O a d []; Ok (EvHeader :: body)
  end.

(* ---------- pretty_print_merge_decision: walk base along common_path, wrapping a line-level diff ---------- *)
Fixpoint walk_common (value : json) (cp : list key) (d : list dentry) : res (json * list dentry) :=
  match cp with
  | [] => Ok (value, d)
  | k :: rest =>
      match value with
      | JStr _ => match rest with
                  | [] => Ok (value, [DPatch k d])      (* diff = [op_patch(k, diff)]; break *)
                  | _ => Err AssertionError
                  end
      | _ => do v <- index value k; walk_common v rest d
      end
  end.

Definition render_decision_diff (fuel : nat) (c : cfg) (O : list key -> nat) (base : json) (cp : list key) (d : list dentry)
  : res (list ev) :=
  match d with
  | [] => Ok []                                         (* "if diff:" *)
  | _ => do vd <- walk_common base cp d; render_diff fuel c O (fst vd) (snd vd) cp
  end.

(* ---------- pretty_print_source: is pygments highlighting applied (Gen: highlight_cond) ---------- *)
Fixpoint eval_hexp (c : cfg) (prefix_blank markdown language : bool) (h : hexp) : bool :=
  match h with
  | HPrefixBlank => prefix_blank | HMarkdown => markdown | HLanguage => language | HUseColor => use_color c
  | HAnd a b => eval_hexp c prefix_blank markdown language a && eval_hexp c prefix_blank markdown language b
  | HOr a b => eval_hexp c prefix_blank markdown language a || eval_hexp c prefix_blank markdown language b
  | HNot a => negb (eval_hexp c prefix_blank markdown language a)
  | HConst b => b
  end.
Definition highlights (c : cfg) (prefix_blank markdown language : bool) : bool :=
  eval_hexp c prefix_blank markdown language highlight_cond.

(* constants selected by use_color *)
Definition constants (c : cfg) : list pystr := if use_color c then col_color else col_nocolor.
Definition ESC : N := 27%N.
Definition esc_free (s : pystr) : bool := forallb (fun ch => negb (ch =? ESC)%N) s.
