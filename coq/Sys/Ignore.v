(* C14: the six ignorable categories, the differ table each subset must install (written from the
   property text), the flag rule of process_exclusive_ignorables, and the configurations used by
   the correspondence. *)
From Coq Require Import List NArith String Bool.
From NB Require Import Base.Json Diff.Codec Diff.GenericDiff Gen.NbConfig Gen.IgnoreTable.
Import ListNotations.

(* ignored flags, in the order sources, outputs, attachments, metadata, id, details *)
Definition ig_sources (ig : list bool) := nth 0 ig false.
Definition ig_outputs (ig : list bool) := nth 1 ig false.
Definition ig_attachments (ig : list bool) := nth 2 ig false.
Definition ig_metadata (ig : list bool) := nth 3 ig false.
Definition ig_id (ig : list bool) := nth 4 ig false.
Definition ig_details (ig : list bool) := nth 5 ig false.

Definition when {A} (b : bool) (l : list A) : list A := if b then l else [].

(* what must be installed: whole-path ignores for every location of an ignored category, and key
   filters on the cell (execution_count, id, attachments, outputs) and on the output (execution_count) *)
Definition expected_table (ig : list bool) : list (pystr * differ) :=
  let cell_keys := when (ig_details ig) [of_ascii "execution_count"%string] ++ when (ig_id ig) [of_ascii "id"%string]
                   ++ when (ig_attachments ig) [of_ascii "attachments"%string]
                   ++ when (ig_outputs ig) [of_ascii "outputs"%string] in
  when (negb (Nat.eqb (List.length cell_keys) 0)) [(of_ascii "/cells/*"%string, DfIgnoreKeys DfDiff cell_keys)]
  ++ when (ig_attachments ig) [(of_ascii "/cells/*/attachments"%string, DfIgnore)]
  ++ when (ig_id ig) [(of_ascii "/cells/*/id"%string, DfIgnore)]
  ++ when (ig_metadata ig) [(of_ascii "/cells/*/metadata"%string, DfIgnore)]
  ++ when (ig_outputs ig) [(of_ascii "/cells/*/outputs"%string, DfIgnore)]
  ++ when (ig_details ig) [(of_ascii "/cells/*/outputs/*"%string, DfIgnoreKeys DfSingleOutputs [of_ascii "execution_count"%string])]
  ++ when (ig_metadata ig) [(of_ascii "/cells/*/outputs/*/metadata"%string, DfIgnore)]
  ++ when (ig_sources ig) [(of_ascii "/cells/*/source"%string, DfIgnore)]
  ++ when (ig_metadata ig) [(of_ascii "/metadata"%string, DfIgnore)].

Fixpoint differ_eqb (a b : differ) : bool :=
  match a, b with
  | DfDiff, DfDiff | DfStringLines, DfStringLines | DfSeqMultilevel, DfSeqMultilevel
  | DfStringsByChar, DfStringsByChar | DfSingleOutputs, DfSingleOutputs | DfAttachments, DfAttachments
  | DfIgnore, DfIgnore => true
  | DfIgnoreKeys i ks, DfIgnoreKeys j ls =>
      differ_eqb i j && Nat.eqb (List.length ks) (List.length ls) && forallb (fun p => str_eqb (fst p) (snd p)) (combine ks ls)
  | _, _ => false
  end.

Definition table_eqb (t u : list (pystr * differ)) : bool :=
  Nat.eqb (List.length t) (List.length u)
  && forallb (fun p => str_eqb (fst (fst p)) (fst (snd p)) && differ_eqb (snd (fst p)) (snd (snd p))) (combine t u).

Fixpoint all_bits (n : nat) : list (list bool) :=
  match n with
  | 0 => [[]]
  | S n' => map (cons false) (all_bits n') ++ map (cons true) (all_bits n')
  end.

Definition bits_eqb (a b : list bool) : bool :=
  Nat.eqb (List.length a) (List.length b) && forallb (fun p => Bool.eqb (fst p) (snd p)) (combine a b).

(* process_exclusive_ignorables: all given flags positive -> the others are off; all negative -> the
   others are on; mixed -> error; none given -> everything on *)
Definition flag_rule (vals : list (option bool)) : option (list bool) :=
  let pos := existsb (fun v => match v with Some true => true | _ => false end) vals in
  let neg := existsb (fun v => match v with Some false => true | _ => false end) vals in
  if pos && neg then None
  else let default := negb pos in
       Some (map (fun v => match v with Some b => b | None => default end) vals).

Definition opt_bits_eqb (a b : option (list bool)) : bool :=
  match a, b with
  | None, None => true
  | Some x, Some y => bits_eqb x y
  | _, _ => false
  end.

(* configuration in force for a subset: the generated table in front of the default notebook tables *)
Definition ignore_config (i : nat) : config :=
  match nth_error ignore_tables i with
  | Some (_, tab) =>
      {| c_predicates := c_predicates nb_config; c_pred_default := c_pred_default nb_config;
         c_pred_keys := c_pred_keys nb_config; c_differs := tab ++ c_differs nb_config;
         c_differ_default := c_differ_default nb_config; c_atomic := c_atomic nb_config;
         c_split_mimes := c_split_mimes nb_config; c_generic_pred := c_generic_pred nb_config;
         c_dict_strict := c_dict_strict nb_config; c_mime_strict := c_mime_strict nb_config;
         c_conj_cfg := c_conj_cfg nb_config; c_mime_guard := c_mime_guard nb_config |}
  | None => nb_config
  end.
