(* Executable instance of Sys/Server.v used by the correspondence check of property C20.

   harness/props/c20.py writes, for every request sequence it played against the real server, a [case]: the
   start-up parameters, the initial directory contents, finite tables recording what the real libraries
   (nbformat, nbdime's differ and merger, os.path) answer on the values that occur, the requests, and what
   the real server was observed to do.  [run_case] runs the model's [serve] on it and returns the indices of
   the steps whose status / body / directory contents / stop flag differ (evaluated with vm_compute under coqc).
   Texts, notebooks, diffs and decision lists are numbered by the harness (canonical JSON -> N). *)
From Coq Require Import List NArith ZArith Bool String.
From NB Require Import Base.Json.
From NB Require Import Gen.ServerFacts.
From NB Require Import Sys.Server.
Import ListNotations.
Local Open Scope list_scope.

Definition q (s : string) : pystr := sf_str s.

Definition MISS : N := 999999%N.     (* answer of a library table on a value the harness did not record *)

Fixpoint alist_get {A B} (eqb : A -> A -> bool) (k : A) (l : list (A * B)) : option B :=
  match l with
  | [] => None
  | (k', v) :: r => if eqb k k' then Some v else alist_get eqb k r
  end.

Definition pair_eqb (a b : N * N) : bool := N.eqb (fst a) (fst b) && N.eqb (snd a) (snd b).
Definition triple_eqb (a b : N * N * N) : bool :=
  N.eqb (fst (fst a)) (fst (fst b)) && N.eqb (snd (fst a)) (snd (fst b)) && N.eqb (snd a) (snd b).

Definition node_eqb (a b : node N) : bool :=
  match a, b with
  | Absent, Absent | NoParent, NoParent | Dir, Dir => true
  | File x, File y => N.eqb x y
  | _, _ => false
  end.

Definition rbody_eqb (a b : rbody N N N) : bool :=
  match a, b with
  | RbDiff x d, RbDiff y e => N.eqb x y && N.eqb d e
  | RbMerge x d, RbMerge y e => N.eqb x y && N.eqb d e
  | RbEmpty, RbEmpty | RbPage, RbPage | RbError, RbError => true
  | _, _ => false
  end.

Record case := {
  c_params : params;
  c_keys : list pystr;                              (* every file-system name the case can touch, resolved *)
  c_fs0 : list (node N);                            (* aligned with c_keys *)
  c_resolve : list (pystr * pystr);                 (* os.path: joined path string -> resolved name *)
  c_nbread : list (N * rdres N);                    (* nbformat.reads on each text *)
  c_newnb : N;
  c_diff : list (N * N * option N);                 (* nbdime.diff_notebooks, fresh process per call *)
  c_merge : list (N * N * N * option N);            (* decide_notebook_merge, fresh process per call *)
  c_ser : list (json * option N);                   (* nbformat.from_dict + writes *)
  c_reqs : list request;
  c_expect : list (N * rbody N N N * list (node N) * bool);   (* observed: status, body, directory after, stopped *)
  c_exit : json;                                    (* observed return value of main_server *)
  c_stopped : bool }.

Definition fs_of (keys : list pystr) (nodes : list (node N)) : fs N :=
  fun k => match alist_get str_eqb k (combine keys nodes) with Some n => n | None => Absent end.

Section Run.
  Variable c : case.

  Definition t_nbread (t : N) : rdres N :=
    match alist_get N.eqb t (c_nbread c) with Some r => r | None => RdFail end.
  Definition t_diff (a b : N) : option N :=
    match alist_get pair_eqb (a, b) (c_diff c) with Some r => r | None => Some MISS end.
  Definition t_merge (a b d : N) : option N :=
    match alist_get triple_eqb (a, b, d) (c_merge c) with Some r => r | None => Some MISS end.
  Definition t_ser (j : json) : option N :=
    match alist_get json_eqb j (c_ser c) with Some r => r | None => Some MISS end.
  Definition t_resolve (s : pystr) : pystr :=
    match alist_get str_eqb s (c_resolve c) with Some r => r | None => s end.

  Definition run_serve (order : store_order_t) :=
    serve_gen N N N N t_nbread (fun t => N.eqb t 0) 0%N (c_newnb c) t_diff t_merge t_ser t_resolve (fun _ => FOther)
              order (c_params c) sstate0 (fs_of (c_keys c) (c_fs0 c)) (c_reqs c).

  Definition step_ok (o : outcome N N N N) (e : N * rbody N N N * list (node N) * bool) : bool :=
    let '(st, b, nodes, stop) := e in
    N.eqb (o_status _ _ _ _ o) st && rbody_eqb (o_body _ _ _ _ o) b
    && forallb (fun kn => node_eqb (o_fs _ _ _ _ o (fst kn)) (snd kn)) (combine (c_keys c) nodes)
    && Bool.eqb (o_stop _ _ _ _ o) stop.

  Fixpoint mism (i : nat) (os : list (outcome N N N N)) (es : list (N * rbody N N N * list (node N) * bool)) : list nat :=
    match os, es with
    | [], [] => []
    | o :: os', e :: es' => (if step_ok o e then [] else [i]) ++ mism (S i) os' es'
    | _, _ => [1001]                                  (* different number of answered requests *)
    end.

  Definition run_case_at (order : store_order_t) : list nat :=
    let '(os, _, st, stopped) := run_serve order in
    mism 0 os (c_expect c)
    ++ (if json_eqb (ss_exit st) (c_exit c) then [] else [1000])
    ++ (if Bool.eqb stopped (c_stopped c) then [] else [1002]).

  Definition run_case : list nat := run_case_at store_order.

  (* for diagnostics: what the model answers *)
  Definition show (order : store_order_t) :=
    let '(os, _, st, stopped) := run_serve order in
    (map (fun o => (o_status _ _ _ _ o, o_body _ _ _ _ o, map (fun k => o_fs _ _ _ _ o k) (c_keys c), o_stop _ _ _ _ o)) os,
     ss_exit st, stopped).
End Run.

Fixpoint failing (i : nat) (cs : list case) : list (nat * list nat) :=
  match cs with
  | [] => []
  | c :: r => match run_case c with [] => failing (S i) r | l => (i, l) :: failing (S i) r end
  end.
