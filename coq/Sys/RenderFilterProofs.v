(* C16 -- proofs about the renderer model Sys/RenderFilter.v (tables from Gen/RenderFilter.v). *)
From Coq Require Import List NArith ZArith Bool Lia String Ascii.
From NB Require Import Base.Res.
From NB Require Import Base.Json.
From NB Require Import Base.PyStr.
From NB Require Import Diff.DiffFormat.
From NB Require Import Diff.Patch.
From NB Require Import Diff.Codec.
From NB Require Import Diff.Wf.
From NB Require Import Sys.RenderTypes.
From NB Require Import Gen.RenderFilter.
From NB Require Import Sys.RenderFilter.
Import ListNotations.

(* ====================================================================================================== *)
(* 1. Colour constants, command lines, renderer selection (finite)                                          *)
(* ====================================================================================================== *)

Lemma nocolor_constants_clean_l :
  forall c s, use_color c = false -> In s (constants c ++ [diff_entry_end]) -> esc_free s = true.
Proof.
  intros c s H Hin. unfold constants in Hin. rewrite H in Hin.
  assert (A : forallb esc_free (col_nocolor ++ [diff_entry_end]) = true) by (vm_compute; reflexivity).
  rewrite forallb_forall in A. auto.
Qed.

(* non-vacuity: the table selected by use_color = True does contain ESC, so the test distinguishes the tables *)
Example color_constants_have_esc : existsb (fun s => negb (esc_free s)) col_color = true.
Proof. vm_compute. reflexivity. Qed.

Definition opt_color : pystr := of_ascii "--color".
Definition is_color_opt (s : pystr) : bool := startswith opt_color s.

Lemma nocolor_git_cmd_clean_l :
  forall c, use_color c = false -> existsb is_color_opt (git_cmd c) = false /\ existsb is_color_opt diff_cmd = false.
Proof.
  intros c H. unfold git_cmd. rewrite H. destruct (color_words c); split; vm_compute; reflexivity.
Qed.

Example color_git_cmd_has_option :
  existsb is_color_opt git_cmd_10 = true /\ existsb is_color_opt git_cmd_11 = true.
Proof. split; vm_compute; reflexivity. Qed.

(* the renderer chosen is the first available one the configuration allows, the built-in difflib otherwise *)
Definition spec_renderer (c : cfg) : renderer :=
  if use_git c && has_git c then RGit else if use_diff c && has_diff c then RDiff else RDifflib.

Lemma renderer_selection_l : forall c, select_renderer c = spec_renderer c.
Proof.
  intros [s o a m i d uc cw ug ud hg hd]. unfold select_renderer, spec_renderer. simpl.
  destruct ug, ud, hg, hd; vm_compute; reflexivity.
Qed.

(* ====================================================================================================== *)
(* 2. pretty_print_source: highlighting when colour is disabled                                             *)
(* ====================================================================================================== *)

Lemma eval_hexp_ext c c' pb md lg h :
  use_color c = use_color c' -> eval_hexp c pb md lg h = eval_hexp c' pb md lg h.
Proof. intros H. induction h; simpl; try congruence. Qed.

Definition cfg0 : cfg := Build_cfg true true true true true true false false true true true true.   (* use_color = false *)

Definition bool3 : list (bool * bool * bool) :=
  [(false,false,false);(false,false,true);(false,true,false);(false,true,true);
   (true,false,false);(true,false,true);(true,true,false);(true,true,true)].

(* decided from the generated condition: does use_color = False switch highlighting off in all 8 situations? *)
Definition highlight_respects_nocolor : bool :=
  forallb (fun t => negb (match t with (pb, md, lg) => highlights cfg0 pb md lg end)) bool3.

Definition show_nocolor_clean_stmt : Prop :=
  forall c pb md lg, use_color c = false -> highlights c pb md lg = false.
Definition show_nocolor_refuted_stmt : Prop :=
  exists c pb md lg, use_color c = false /\ highlights c pb md lg = true.

Lemma show_nocolor_clean_if : highlight_respects_nocolor = true -> show_nocolor_clean_stmt.
Proof.
  intros H c pb md lg Hc. unfold highlights.
  rewrite (eval_hexp_ext c cfg0) by (rewrite Hc; reflexivity).
  unfold highlight_respects_nocolor in H. rewrite forallb_forall in H.
  assert (I : In (pb, md, lg) bool3) by (destruct pb, md, lg; simpl; tauto).
  specialize (H _ I). cbv beta iota in H. apply negb_true_iff in H. exact H.
Qed.

Lemma forallb_negb_false {A} (f : A -> bool) l :
  forallb (fun x => negb (f x)) l = false -> exists x, In x l /\ f x = true.
Proof.
  induction l as [|x l IH]; simpl; intros H; [discriminate|].
  destruct (f x) eqn:E; simpl in H.
  - exists x. auto.
  - destruct (IH H) as [y [I Hy]]. exists y. auto.
Qed.

Lemma show_nocolor_refuted_if : highlight_respects_nocolor = false -> show_nocolor_refuted_stmt.
Proof.
  intros H. unfold highlight_respects_nocolor in H.
  apply (forallb_negb_false (fun t => match t with (pb, md, lg) => highlights cfg0 pb md lg end)) in H.
  destruct H as [[[pb md] lg] [_ Hh]].
  exists cfg0, pb, md, lg. split; [reflexivity | exact Hh].
Qed.

(* ====================================================================================================== *)
(* 3. external_diff_render: the strip assertion under the tool contract                                     *)
(* ====================================================================================================== *)

Definition selected_argv (c : cfg) : list pystr :=
  match select_renderer c with RGit => git_cmd c | RDiff => diff_cmd | RDifflib => [] end.

Definition all_cmds : list (list pystr) := [git_cmd_00; git_cmd_01; git_cmd_10; git_cmd_11; diff_cmd].

Definition strip_ok_g (m : strip_mode) (b : nat) (argv : list pystr) (n : nat) : bool :=
  match m with
  | StripAlways => Nat.leb n b
  | StripUnlessWordDiff => word_mode argv || Nat.leb n b
  | StripNoAssert => true
  end.
Lemma strip_ok_is argv n : strip_ok argv n = strip_ok_g strip_assert strip_bound argv n.
Proof. reflexivity. Qed.

(* decided from the generated facts: can the assertion fire on output that satisfies the tool contract? *)
Definition strip_safe_g (m : strip_mode) (b : nat) (cmds : list (list pystr)) : bool :=
  match m with
  | StripNoAssert => true
  | StripUnlessWordDiff => Nat.leb 2 b
  | StripAlways => Nat.leb 2 b && negb (existsb word_mode cmds)
  end.
Definition strip_safe_check : bool := strip_safe_g strip_assert strip_bound all_cmds.

Definition tool_safe_stmt : Prop :=
  forall c n, tool_contract (selected_argv c) n -> exists evs, render_tool c n = Ok evs.
Definition tool_refuted_stmt : Prop :=
  exists c n, tool_contract (selected_argv c) n /\ render_tool c n = Err AssertionError.

Lemma selected_argv_in c : select_renderer c <> RDifflib -> In (selected_argv c) all_cmds.
Proof.
  unfold selected_argv, git_cmd, all_cmds. destruct (select_renderer c); intros H; try congruence.
  - destruct (use_color c), (color_words c); simpl; tauto.
  - simpl; tauto.
Qed.

Lemma strip_ok_g_if m b cmds argv n :
  strip_safe_g m b cmds = true -> In argv cmds -> tool_contract argv n -> strip_ok_g m b argv n = true.
Proof.
  unfold tool_contract. intros H I C.
  destruct m; cbv beta iota delta [strip_safe_g strip_ok_g] in *.
  - apply andb_true_iff in H as [H1 H2]. apply negb_true_iff in H2.
    assert (W : word_mode argv = false).
    { destruct (word_mode argv) eqn:W; auto.
      assert (existsb word_mode cmds = true) by (apply existsb_exists; eauto). congruence. }
    apply Nat.leb_le. apply Nat.leb_le in H1. specialize (C W). lia.
  - destruct (word_mode argv) eqn:W; simpl; auto.
    apply Nat.leb_le. apply Nat.leb_le in H. specialize (C eq_refl). lia.
  - reflexivity.
Qed.

Lemma strip_ok_if argv n :
  strip_safe_check = true -> In argv all_cmds -> tool_contract argv n -> strip_ok argv n = true.
Proof. intros. rewrite strip_ok_is. apply (strip_ok_g_if _ _ all_cmds); auto. Qed.

Lemma tool_safe_if : strip_safe_check = true -> tool_safe_stmt.
Proof.
  intros H c n C. unfold render_tool. unfold selected_argv in C.
  pose proof (selected_argv_in c) as I. unfold selected_argv in I.
  destruct (select_renderer c).
  - rewrite (strip_ok_if _ _ H (I ltac:(discriminate)) C). eauto.
  - rewrite (strip_ok_if _ _ H (I ltac:(discriminate)) C). eauto.
  - eauto.
Qed.

(* ====================================================================================================== *)
(* 4. should_ignore_path against the categories of the property text                                        *)
(* ====================================================================================================== *)

Definition K (s : string) : key := KS (of_ascii s).

Inductive cellkey := CKSource | CKAttachments | CKMetadata | CKId | CKExecutionCount | CKCellType.
Definition cellkey_name (k : cellkey) : string :=
  match k with
  | CKSource => "source" | CKAttachments => "attachments" | CKMetadata => "metadata" | CKId => "id"
  | CKExecutionCount => "execution_count" | CKCellType => "cell_type"
  end.

Inductive outkey := OKOutputType | OKData | OKMetadata | OKName | OKText | OKEname | OKEvalue | OKTraceback.
Definition outkey_name (k : outkey) : string :=
  match k with
  | OKOutputType => "output_type" | OKData => "data" | OKMetadata => "metadata" | OKName => "name"
  | OKText => "text" | OKEname => "ename" | OKEvalue => "evalue" | OKTraceback => "traceback"
  end.

(* locations inside a valid v4 notebook (nbformat schema: no other keys at notebook, cell, output level) *)
Inductive nbpath :=
| PRoot | PCells | PCell (i : nat)
| PNbformat | PNbformatMinor
| PNbMeta (rest : list key)                              (* /metadata/... *)
| PCellKey (i : nat) (k : cellkey) (rest : list key)     (* /cells/i/<k>/... *)
| POutputs (i : nat) | POutput (i j : nat)               (* /cells/i/outputs, /cells/i/outputs/j *)
| POutputExecCount (i j : nat)                           (* /cells/i/outputs/j/execution_count *)
| POutputKey (i j : nat) (k : outkey) (rest : list key). (* /cells/i/outputs/j/<k>/... *)

Definition keys_of (p : nbpath) : list key :=
  match p with
  | PRoot => [] | PCells => [K "cells"] | PCell i => [K "cells"; KI i]
  | PNbformat => [K "nbformat"] | PNbformatMinor => [K "nbformat_minor"]
  | PNbMeta rest => K "metadata" :: rest
  | PCellKey i k rest => K "cells" :: KI i :: K (cellkey_name k) :: rest
  | POutputs i => [K "cells"; KI i; K "outputs"]
  | POutput i j => [K "cells"; KI i; K "outputs"; KI j]
  | POutputExecCount i j => [K "cells"; KI i; K "outputs"; KI j; K "execution_count"]
  | POutputKey i j k rest => K "cells" :: KI i :: K "outputs" :: KI j :: K (outkey_name k) :: rest
  end.

(* The categories a location belongs to, written from the property text: sources, outputs, attachments, metadata at
   notebook / cell / output level, id, details (execution counts and whatever no other option covers). *)
Definition categories_of (p : nbpath) : list category :=
  match p with
  | PRoot | PCells | PCell _ => []
  | PNbformat | PNbformatMinor => [Details]
  | PNbMeta _ => [Metadata]
  | PCellKey _ CKSource _ => [Sources]
  | PCellKey _ CKAttachments _ => [Attachments]
  | PCellKey _ CKMetadata _ => [Metadata]
  | PCellKey _ CKId _ => [Id]
  | PCellKey _ CKExecutionCount _ | PCellKey _ CKCellType _ => [Details]
  | POutputs _ | POutput _ _ => [Outputs]
  | POutputExecCount _ _ => [Outputs; Details]
  | POutputKey _ _ OKMetadata _ => [Outputs; Metadata]
  | POutputKey _ _ _ _ => [Outputs]
  end.

(* The categories whose being ignored makes the renderer hide the location.  Differs from [categories_of] in one place:
   output-level metadata is hidden with outputs only (printing it when only metadata is ignored is not against C16). *)
Definition hide_categories (p : nbpath) : list category :=
  match p with
  | POutputKey _ _ _ _ => [Outputs]
  | _ => categories_of p
  end.

Lemma hide_sub p : incl (hide_categories p) (categories_of p).
Proof. destruct p; simpl; try apply incl_refl. destruct k; simpl; intros x [<-|[]]; simpl; auto. Qed.

Lemma path_segs_cons k l : path_segs (k :: l) = segs_of_key k ++ path_segs l.
Proof. reflexivity. Qed.

Ltac flags c := destruct c as [s o a m i0 d uc cw ug ud hg hd]; destruct s, o, a, m, i0, d.

Lemma should_ignore_hide c p :
  should_ignore_path c (keys_of p) = existsb (ignored c) (hide_categories p).
Proof.
  unfold should_ignore_path.
  destruct p as [ | | i | | | rest | i k rest | i | i j | i j | i j k rest ]; simpl keys_of;
    try (destruct k); rewrite ?path_segs_cons; try generalize (path_segs rest); intros;
    flags c; vm_compute; reflexivity.
Qed.

Lemma filter_matches_categories_l :
  forall c p, should_ignore_path c (keys_of p) = true <-> exists k, In k (hide_categories p) /\ ignored c k = true.
Proof. intros c p. rewrite should_ignore_hide. apply existsb_exists. Qed.

(* what "speaks" needs: the filter never hides a location all of whose categories are shown *)
Lemma filter_sound_l :
  forall c p, (forall k, In k (categories_of p) -> flag c k = true) -> should_ignore_path c (keys_of p) = false.
Proof.
  intros c p H. destruct (should_ignore_path c (keys_of p)) eqn:E; auto.
  apply filter_matches_categories_l in E. destruct E as [k [I G]].
  apply hide_sub in I. apply H in I. unfold ignored in G. rewrite I in G. discriminate.
Qed.

(* and never shows a location whose own (outermost) category is ignored *)
Lemma filter_complete_l :
  forall c p k, In k (hide_categories p) -> flag c k = false -> should_ignore_path c (keys_of p) = true.
Proof.
  intros c p k I G. apply filter_matches_categories_l. exists k. split; auto. unfold ignored. rewrite G. reflexivity.
Qed.

(* documented difference (C14's business, F6-like): output-level metadata is not filtered as metadata *)
Example output_metadata_not_filtered_as_metadata :
  should_ignore_path (Build_cfg true true true false true true true true true true true true)
                     (keys_of (POutputKey 0 0 OKMetadata [])) = false.
Proof. vm_compute. reflexivity. Qed.

(* non-vacuity of the filter theorem: some location is hidden by some configuration, some is not *)
Example filter_hides_something :
  should_ignore_path (Build_cfg false true true true true true true true true true true true)
                     (keys_of (PCellKey 3 CKSource [KI 2])) = true.
Proof. vm_compute. reflexivity. Qed.

(* ====================================================================================================== *)
(* 5. The dispatch skeleton: silent on the empty diff, total on well-formed diffs, speaks on visible leaves *)
(* ====================================================================================================== *)

Lemma render_empty_silent_l : forall fuel c O a, render_notebook_diff fuel c O a [] = Ok [].
Proof. reflexivity. Qed.

Lemma render_entries_ok f l :
  (forall e, In e l -> exists evs, f e = Ok evs) -> exists evs, render_entries f l = Ok evs.
Proof.
  induction l as [|e l IH]; intros H; simpl; [eauto|].
  destruct (H e (or_introl eq_refl)) as [x Hx]. rewrite Hx. simpl.
  destruct IH as [y Hy]. { intros e' I. apply H. right. exact I. }
  rewrite Hy. simpl. eauto.
Qed.

(* the per-entry content of wf_diff for a list base and for a dict base *)
Definition entry_wf_arr (rec : json -> list dentry -> bool) (items : list json) (e : dentry) : bool :=
  match e with
  | DAddRange (KI _) (VList _) => true
  | DRemoveRange (KI _) _ => true
  | DPatch (KI k) dd => match nth_error items k with Some x => rec x dd | None => false end
  | _ => false
  end.

Definition entry_wf_obj (rec : json -> list dentry -> bool) (kv : list (pystr * json)) (e : dentry) : bool :=
  match dkey e with
  | KI _ => false
  | KS k =>
      match e with
      | DAdd _ _ => true
      | DRemove _ | DReplace _ _ => obj_has k kv
      | DPatch _ dd => match obj_get k kv with Some x => rec x dd | None => false end
      | _ => false
      end
  end.

Definition wf_map_of (rec : json -> list dentry -> bool) (kv : list (pystr * json)) :=
  fix wf_map (prev : option pystr) (d : list dentry) {struct d} : bool :=
    match d with
    | [] => true
    | e :: r =>
        match dkey e with
        | KI _ => false
        | KS k =>
            match prev with None => true | Some p => str_ltb p k end &&
            match e with
            | DAdd _ _ => negb (obj_has k kv)
            | DRemove _ => obj_has k kv
            | DReplace _ _ => obj_has k kv
            | DPatch _ dd =>
                match obj_get k kv with
                | Some x => is_container x && negb (Nat.eqb (List.length dd) 0) && rec x dd
                | None => false
                end
            | _ => false
            end && wf_map (Some k) r
        end
    end.

Lemma wf_diff_obj f kv d : wf_diff (S f) (JObj kv) d = wf_map_of (wf_diff f) kv None d.
Proof. reflexivity. Qed.

Lemma swf_entries n vl_ok patch_ok d : forall c0 ok,
  swf n vl_ok patch_ok c0 ok d = true ->
  forall e, In e d ->
  match e with
  | DAddRange (KI _) vs => vl_ok vs = true
  | DRemoveRange (KI _) _ => True
  | DPatch (KI k) dd => patch_ok k dd = true
  | _ => False
  end.
Proof.
  induction d as [|e d IH]; intros c0 ok H x I; [destruct I|].
  destruct I as [<-|I].
  - destruct e as [k v|k|k v|k vs|k len|k dd]; try discriminate; destruct k as [k|k]; simpl in H; try discriminate.
    + repeat (apply andb_true_iff in H as [H _]). exact H.
    + exact I.
    + apply andb_true_iff in H as [H _]. apply andb_true_iff in H as [_ H]. exact H.
  - destruct e as [k v|k|k v|k vs|k len|k dd]; try discriminate; destruct k as [k|k]; simpl in H; try discriminate;
      apply andb_true_iff in H as [_ H]; eapply IH; eauto.
Qed.

Lemma wf_arr_entries f items d :
  wf_diff (S f) (JArr items) d = true -> forall e, In e d -> entry_wf_arr (wf_diff f) items e = true.
Proof.
  intros H e I. cbn [wf_diff] in H. pose proof (swf_entries _ _ _ _ _ _ H e I) as W.
  unfold entry_wf_arr. destruct e as [k v|k|k v|k vs|k len|k dd]; try contradiction; destruct k as [k|k]; try contradiction.
  - destruct vs; [reflexivity | discriminate].
  - reflexivity.
  - destruct (nth_error items k); try discriminate. apply andb_true_iff in W as [_ W]. exact W.
Qed.

Lemma wf_map_entries rec kv d : forall prev,
  wf_map_of rec kv prev d = true -> forall e, In e d -> entry_wf_obj rec kv e = true.
Proof.
  induction d as [|e d IH]; intros prev H x I; [destruct I|].
  unfold entry_wf_obj. simpl in H. destruct I as [<-|I].
  - destruct (dkey e) as [i|k] eqn:Ek; try discriminate.
    apply andb_true_iff in H as [H _]. apply andb_true_iff in H as [_ H].
    destruct e; try discriminate; auto.
    destruct (obj_get k kv); try discriminate. apply andb_true_iff in H as [_ H]. exact H.
  - destruct (dkey e) as [i|k] eqn:Ek; try discriminate.
    apply andb_true_iff in H as [_ H]. eapply (IH (Some k)); eauto.
Qed.

Lemma wf_obj_entries f kv d :
  wf_diff (S f) (JObj kv) d = true -> forall e, In e d -> entry_wf_obj (wf_diff f) kv e = true.
Proof. rewrite wf_diff_obj. apply wf_map_entries. Qed.

Lemma insert_entry_in e x l : In x (insert_entry e l) -> x = e \/ In x l.
Proof.
  induction l as [|y l IH]; simpl; intros H.
  - destruct H as [<-|[]]; auto.
  - destruct (key_leb (dkey y) (dkey e)); simpl in H.
    + destruct H as [<-|H]; auto. destruct (IH H); auto.
    + destruct H as [<-|H]; auto.
Qed.

Lemma in_insert_entry e x l : x = e \/ In x l -> In x (insert_entry e l).
Proof.
  induction l as [|y l IH]; simpl; intros H.
  - destruct H as [->|[]]; auto.
  - destruct (key_leb (dkey y) (dkey e)); simpl.
    + destruct H as [->|[->|H]]; auto.
    + destruct H as [->|H]; auto.
Qed.

Lemma sort_by_dkey_in_gen l : forall acc x, In x (fold_left (fun acc e => insert_entry e acc) l acc) <-> In x l \/ In x acc.
Proof.
  induction l as [|e l IH]; intros acc x; simpl.
  - tauto.
  - rewrite IH. split.
    + intros [H|H]; auto. apply insert_entry_in in H. destruct H as [->|H]; auto.
    + intros [[<-|H]|H]; auto; right; apply in_insert_entry; auto.
Qed.

Lemma sort_by_dkey_in l x : In x (sort_by_dkey l) <-> In x l.
Proof. unfold sort_by_dkey. rewrite sort_by_dkey_in_gen. simpl. tauto. Qed.

(* assumption of the safety theorem, stated as a premise: patching a string with a well-formed line diff succeeds
   (this is the totality half of C02/C11's round trip for strings, proved there; here it is a hypothesis) *)
Definition string_patch_total : Prop :=
  forall s d, wf_lines (splitlines s) d = true -> exists b, patch (ddepth d + 4) (JStr s) d = Ok (JStr b).

Definition tools_ok (c : cfg) (O : list key -> nat) : Prop := forall p, exists evs, render_tool c (O p) = Ok evs.

Lemma render_wf_safe_l :
  string_patch_total ->
  forall c O, tools_ok c O ->
  forall fuel a d path, wf_diff fuel a d = true -> exists evs, render_diff fuel c O a d path = Ok evs.
Proof.
  intros Hp c O Ht. induction fuel as [|f IH]; intros a d path H; [discriminate|].
  destruct a as [ | b | z | m e | s | items | kv ]; try discriminate.
  - (* string *)
    simpl in H. simpl. unfold string_diff. destruct (Hp s d H) as [b Hb]. rewrite Hb. simpl.
    destruct (trim_applies s || trim_applies b); simpl; eauto.
    destruct (has_nl s || has_nl b); simpl; eauto.
    destruct (Ht path) as [evs Hevs]. rewrite Hevs. simpl. eauto.
  - (* list *)
    pose proof (wf_arr_entries f items d H) as W. cbn [render_diff].
    apply render_entries_ok. intros e I. specialize (W e I). unfold render_entry.
    destruct (should_ignore_path c path); eauto.
    destruct e as [k v|k|k v|k vs|k len|k dd]; try discriminate; destruct k as [k|k]; try discriminate; simpl in W |- *; eauto.
    unfold nth_res. destruct (nth_error items k) as [x|]; try discriminate. simpl. apply IH. exact W.
  - (* dict *)
    pose proof (wf_obj_entries f kv d H) as W. cbn [render_diff].
    assert (S1 : forallb is_ks d = true).
    { apply forallb_forall. intros e I. specialize (W e I). unfold entry_wf_obj in W. unfold is_ks.
      destruct (dkey e); [discriminate | reflexivity]. }
    unfold sort_entries. rewrite S1. simpl.
    apply render_entries_ok. intros e I. apply (proj1 (sort_by_dkey_in _ _)) in I. specialize (W e I).
    unfold render_entry, entry_wf_obj in *.
    destruct (should_ignore_path c path); eauto.
    destruct (dkey e) as [i|k] eqn:Ek; try discriminate.
    destruct e as [k0 v|k0|k0 v|k0 vs|k0 len|k0 dd]; try discriminate; simpl in Ek; subst k0; simpl.
    + destruct (should_ignore_path c (path ++ [KS k])); eauto.
    + destruct (should_ignore_path c (path ++ [KS k])); eauto.
      unfold obj_has in W. destruct (obj_get k kv); try discriminate. simpl. eauto.
    + destruct (should_ignore_path c (path ++ [KS k])); eauto.
      unfold obj_has in W. destruct (obj_get k kv); try discriminate. simpl. eauto.
    + destruct (obj_get k kv) as [x|]; try discriminate. simpl. apply IH. exact W.
Qed.

(* merge decisions: the walk along common_path, then the same renderer *)
Lemma render_decision_safe_l :
  string_patch_total ->
  forall c O, tools_ok c O ->
  forall fuel base cp d v d', walk_common base cp d = Ok (v, d') -> wf_diff fuel v d' = true ->
  exists evs, render_decision_diff fuel c O base cp d = Ok evs.
Proof.
  intros Hp c O Ht fuel base cp d v d' Hw H. unfold render_decision_diff.
  destruct d; [eauto|]. rewrite Hw. simpl. apply render_wf_safe_l; auto.
Qed.

(* ---------- speaks ---------- *)
Definition leaf_visible (c : cfg) (path : list key) (e : dentry) : bool :=
  negb (should_ignore_path c path) &&
  match e with
  | DAdd _ _ | DRemove _ | DReplace _ _ => negb (should_ignore_path c (path ++ [dkey e]))
  | DAddRange _ _ | DRemoveRange _ _ => true
  | DPatch _ _ => false
  end.

(* a diff touches something the configuration shows: some leaf operation sits at a location the filter lets through,
   with every enclosing location let through as well; a string diff that is reached always counts *)
Fixpoint touches (fuel : nat) (c : cfg) (a : json) (d : list dentry) (path : list key) : bool :=
  match fuel with
  | 0 => false
  | S f =>
      match a with
      | JStr _ => true
      | JArr _ | JObj _ =>
          existsb (fun e => leaf_visible c path e ||
                            (negb (should_ignore_path c path) &&
                             match e with
                             | DPatch k dd => match index a k with Ok v => touches f c v dd (path ++ [k]) | Err _ => false end
                             | _ => false
                             end)) d
      | _ => false
      end
  end.

Lemma render_entries_nonempty f l e x :
  In e l -> f e = Ok x -> x <> [] -> forall evs, render_entries f l = Ok evs -> evs <> [].
Proof.
  induction l as [|y l IH]; intros I Hx Hne evs H; [destruct I|].
  simpl in H. destruct (f y) as [xy|] eqn:Ey; try discriminate. simpl in H.
  destruct (render_entries f l) as [yl|] eqn:El; try discriminate. simpl in H. inversion H; subst.
  destruct I as [->|I].
  - rewrite Hx in Ey. inversion Ey; subst. destruct xy; [congruence | discriminate].
  - specialize (IH I Hx Hne yl eq_refl). destruct xy; simpl; [exact IH | discriminate].
Qed.

Lemma string_diff_nonempty c O s d path evs : string_diff c O s d path = Ok evs -> evs <> [].
Proof.
  unfold string_diff. destruct (patch _ _ _) as [bj|]; try discriminate. simpl.
  destruct bj; try discriminate.
  destruct (if trim_applies s || trim_applies s0 then _ else _); try discriminate. simpl.
  intros H. inversion H. discriminate.
Qed.

Lemma render_speaks_l :
  forall c O fuel a d path, touches fuel c a d path = true ->
  forall evs, render_diff fuel c O a d path = Ok evs -> evs <> [].
Proof.
  intros c O. induction fuel as [|f IH]; intros a d path T evs H; [discriminate|].
  assert (ENTRY : forall e, In e d ->
            (leaf_visible c path e ||
             (negb (should_ignore_path c path) &&
              match e with
              | DPatch k dd => match index a k with Ok v => touches f c v dd (path ++ [k]) | Err _ => false end
              | _ => false end)) = true ->
            forall x, render_entry (render_diff f c O) c a e path = Ok x -> x <> []).
  { intros e I V x Hx. unfold render_entry in Hx. cbv zeta in Hx. apply orb_true_iff in V. destruct V as [V|V].
    - unfold leaf_visible in V. apply andb_true_iff in V as [V1 V2]. apply negb_true_iff in V1. rewrite V1 in Hx.
      destruct e; try discriminate; cbn [dkey] in Hx, V2; try (apply negb_true_iff in V2; rewrite V2 in Hx).
      + intro E; rewrite E in Hx; discriminate Hx.
      + destruct (index a k); try discriminate; simpl in Hx. intro E; rewrite E in Hx; discriminate Hx.
      + destruct (index a k); try discriminate; simpl in Hx. intro E; rewrite E in Hx; discriminate Hx.
      + intro E; rewrite E in Hx; discriminate Hx.
      + destruct (slice_check a k); try discriminate; simpl in Hx. intro E; rewrite E in Hx; discriminate Hx.
    - apply andb_true_iff in V as [V1 V2]. apply negb_true_iff in V1. rewrite V1 in Hx.
      destruct e; try discriminate. cbn [dkey] in Hx. destruct (index a k) as [v|]; try discriminate. simpl in Hx.
      eapply IH; eauto. }
  destruct a as [ | b | z | m e | s | items | kv ]; try discriminate.
  - simpl in H. eapply string_diff_nonempty; eauto.
  - cbn [touches] in T. cbn [render_diff] in H. apply existsb_exists in T. destruct T as [e [I V]].
    cbv beta in V.
    destruct (render_entry (render_diff f c O) c (JArr items) e path) as [x|] eqn:Ex.
    + eapply (render_entries_nonempty (fun e => render_entry (render_diff f c O) c (JArr items) e path)); [exact I | exact Ex | exact (ENTRY e I V x Ex) | exact H].
    + exfalso. clear - I Ex H. revert evs H. induction d as [|y d IHd]; intros evs H; [destruct I|].
      simpl in H. destruct I as [->|I].
      * rewrite Ex in H. discriminate.
      * destruct (render_entry _ c (JArr items) y path); try discriminate. simpl in H.
        destruct (render_entries _ d) eqn:El; try discriminate. eapply IHd; eauto.
  - cbn [touches] in T. cbn [render_diff] in H. apply existsb_exists in T. destruct T as [e [I V]].
    destruct (sort_entries d) as [ds|] eqn:Es; try discriminate. simpl in H.
    assert (I' : In e ds).
    { unfold sort_entries in Es. destruct (forallb is_ks d || forallb (fun e0 => negb (is_ks e0)) d); try discriminate.
      inversion Es; subst. apply (proj2 (sort_by_dkey_in _ _)). exact I. }
    cbv beta in V.
    destruct (render_entry (render_diff f c O) c (JObj kv) e path) as [x|] eqn:Ex.
    + eapply (render_entries_nonempty (fun e => render_entry (render_diff f c O) c (JObj kv) e path)); [exact I' | exact Ex | exact (ENTRY e I V x Ex) | exact H].
    + exfalso. clear - I' Ex H. revert evs H. induction ds as [|y ds IHd]; intros evs H; [destruct I'|].
      simpl in H. destruct I' as [->|I'].
      * rewrite Ex in H. discriminate.
      * destruct (render_entry _ c (JObj kv) y path); try discriminate. simpl in H.
        destruct (render_entries _ ds) eqn:El; try discriminate. eapply IHd; eauto.
Qed.

(* non-vacuity: a one-cell notebook whose source changes; with sources shown it touches, the render succeeds and speaks;
   with sources ignored nothing below the header is printed *)
Definition ex_nb : json :=
  JObj [(of_ascii "cells", JArr [JObj [(of_ascii "cell_type", JStr (of_ascii "code")); (of_ascii "source", JStr (of_ascii "x"))]])].
Definition ex_diff : list dentry :=
  [DPatch (K "cells") [DPatch (KI 0) [DPatch (K "source") [DAddRange (KI 0) (VList [JStr (of_ascii "y")]); DRemoveRange (KI 0) 1]]]].
Definition cfg_all : cfg := Build_cfg true true true true true true true true true true true true.
Definition cfg_nosrc : cfg := Build_cfg false true true true true true true true true true true true.

Example ex_wf : wf_diff 8 ex_nb ex_diff = true.
Proof. vm_compute. reflexivity. Qed.
Example ex_touches : touches 8 cfg_all ex_nb ex_diff [] = true.
Proof. vm_compute. reflexivity. Qed.
Example ex_speaks : exists evs, render_diff 8 cfg_all (fun _ => 0) ex_nb ex_diff [] = Ok evs /\ evs <> [].
Proof. eexists. split; [vm_compute; reflexivity | discriminate]. Qed.
Example ex_hidden : render_diff 8 cfg_nosrc (fun _ => 0) ex_nb ex_diff [] = Ok [EvAction [K "cells"; KI 0; K "source"] 1; EvValue; EvValue; EvEnd].
Proof. vm_compute. reflexivity. Qed.

(* ====================================================================================================== *)
(* 6. Statements that follow the source either way (the generated facts decide which half holds)           *)
(* ====================================================================================================== *)

Lemma show_nocolor_decided_l :
  (highlight_respects_nocolor = true /\ show_nocolor_clean_stmt) \/
  (highlight_respects_nocolor = false /\ show_nocolor_refuted_stmt).
Proof.
  destruct highlight_respects_nocolor eqn:E.
  - left. split; auto. apply show_nocolor_clean_if. exact E.
  - right. split; auto. apply show_nocolor_refuted_if. exact E.
Qed.

Lemma tool_assert_decided_l :
  (strip_safe_check = true /\ tool_safe_stmt) \/ strip_safe_check = false.
Proof.
  destruct strip_safe_check eqn:E.
  - left. split; auto. apply tool_safe_if. exact E.
  - right. reflexivity.
Qed.

(* concrete witness for the assertion: colour on, colour-words on, git selected, three marker-looking lines in the
   word-diff output (word-diff prints content lines without prefix, so the contract does not bound them) *)
Definition tool_witness_cfg : cfg := cfg_all.
Definition tool_witness_n : nat := 3.

(* holds in both worlds: with the unguarded assertion the witness computes; once the source guards it the premise is false *)
Lemma tool_refuted_if : strip_safe_check = false -> tool_refuted_stmt.
Proof.
  intros H.
  first [ exists tool_witness_cfg, tool_witness_n; split;
          [ intros W; vm_compute in W; discriminate | vm_compute; reflexivity ]
        | vm_compute in H; discriminate ].
Qed.
