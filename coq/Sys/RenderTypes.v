(* C16 -- vocabulary shared by the generated file Gen/RenderFilter.v and the model Sys/RenderFilter.v. *)
From Coq Require Import List NArith Bool.
From NB Require Import Base.Json.
Import ListNotations.

(* nbdime/ignorables.py: diff_ignorables *)
Inductive category := Sources | Outputs | Attachments | Metadata | Id | Details.

Definition category_eqb (a b : category) : bool :=
  match a, b with
  | Sources, Sources | Outputs, Outputs | Attachments, Attachments
  | Metadata, Metadata | Id, Id | Details, Details => true
  | _, _ => false
  end.

(* right-hand sides of the `return` statements of PrettyPrintConfig.should_ignore_path *)
Inductive bexp :=
| BNotFlag (c : category)            (* not self.<c> *)
| BStarredEq (s : pystr)             (* starred == '<s>' *)
| BAnd (a b : bexp)
| BOr (a b : bexp)
| BConst (b : bool).

(* one `if starred.startswith(p1) or starred.startswith(p2) ...: return e` *)
Record rule := { r_prefixes : list pystr; r_result : bexp }.

(* diff_render: which backend renders a multi-line string diff *)
Inductive renderer := RGit | RDiff | RDifflib.
Inductive tcond := TUseGit | TUseDiff | THasGit | THasDiff.

(* the test of the `if` in pretty_print_source that decides whether pygments highlights the source *)
Inductive hexp :=
| HPrefixBlank                       (* not prefix.strip() *)
| HMarkdown                          (* is_markdown *)
| HLanguage                          (* config.language (truthy) *)
| HUseColor                          (* config.use_color *)
| HAnd (a b : hexp)
| HOr (a b : hexp)
| HNot (a : hexp)
| HConst (b : bool).

(* external_diff_render: is the "\ No newline at end of file" strip (and its assertion n <= bound) applied *)
Inductive strip_mode :=
| StripAlways                        (* applied to the output of every external command *)
| StripUnlessWordDiff                (* skipped when the command line contains --color-words *)
| StripNoAssert.                     (* stripping without the assertion *)
