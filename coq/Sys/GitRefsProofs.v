(* C17 -- proofs about Sys/GitRefs.v.  Stdlib only. *)
From Coq Require Import List NArith Bool Arith Lia.
From NB Require Import Base.Json.
From NB Require Import Sys.GitRefs.
Import ListNotations.

(* ------------------------------------------------------------------ path arithmetic *)
Lemma up_add a b p : up (a + b) p = up b (up a p).
Proof. revert p; induction a as [|a IH]; intros p; simpl; [reflexivity | apply IH]. Qed.

Lemma up_app root popped : up (length popped) (root ++ popped) = root.
Proof.
  induction popped as [|c q IH] using rev_ind; simpl.
  - rewrite app_nil_r. reflexivity.
  - rewrite app_length. simpl. rewrite Nat.add_comm. simpl.
    rewrite app_assoc. rewrite removelast_last. exact IH.
Qed.

Lemma up_nil k : up k [] = [].
Proof. induction k; simpl; auto. Qed.

(* ------------------------------------------------------------------ one stream *)
Definition gs_reads (F : facts) (p : path) (r : ref) (del : bool) (at_ : path) : list read :=
  match p with
  | [] => []
  | _ :: _ => if negb (is_nb F p) then [] else match r with RWorktree => if del then [] else [(at_, p)] | _ => [] end
  end.

(* pushd saves an absolute directory and restores it in `finally`; the working-tree side of an entry git reports as
   deleted is the missing file without looking at the disk *)
Definition good (F : facts) : Prop :=
  f_pushd_saves F = Getcwd /\ f_pushd_finally F = true /\ f_deleted_missing F = true.

(* a (facts, repo_dir, cwd) combination under which _get_diff_entry_stream leaves the directory alone and
   reads at [root] *)
Definition stable (F : facts) (W : world) (d : dirarg) (cwd root : path) : Prop :=
  forall p blob r del,
    get_stream F W cwd p blob r del d = (cwd, gs_reads F p r del root, spec_stream F W root p blob r del).

Lemma stable_good F W d cwd : good F -> stable F W d cwd (chdir cwd d).
Proof.
  intros (Hs & Hf & Hd) p blob r del. unfold get_stream, gs_reads, spec_stream.
  destruct p as [|c p']; [reflexivity|].
  destruct (negb (is_nb F (c :: p'))); [reflexivity|].
  destruct r; try (destruct blob; reflexivity).
  rewrite Hd. destruct del; [reflexivity|].
  rewrite Hs, Hf. simpl. destruct (pushd_body F W (chdir cwd d) (c :: p')); reflexivity.
Qed.

Lemma stable_root F W cwd : f_deleted_missing F = true -> stable F W (Up 0) cwd cwd.
Proof.
  intros Hd p blob r del. unfold get_stream, gs_reads, spec_stream.
  destruct p as [|c p']; [reflexivity|].
  destruct (negb (is_nb F (c :: p'))); [reflexivity|].
  destruct r; try (destruct blob; reflexivity).
  rewrite Hd. destruct del; [reflexivity|].
  simpl. destruct (f_pushd_saves F), (pushd_body F W cwd (c :: p')), (f_pushd_finally F); reflexivity.
Qed.

(* ------------------------------------------------------------------ the loop under stability *)
Definition loop_ok (F : facts) (W : world) (root cwd : path) (rb rr : ref) (es : list entry) (res : result) : Prop :=
  r_cwd res = cwd /\
  Forall (fun y => y_cwd y = cwd) (r_yields res) /\
  Forall (fun rd => fst rd = root) (r_reads res) /\
  (pairs_of res, r_raised res) = spec_pairs F W root rb rr es.

Lemma gs_reads_at F p r del root : Forall (fun rd : read => fst rd = root) (gs_reads F p r del root).
Proof.
  unfold gs_reads. destruct p; [constructor|]. destruct (negb _); [constructor|].
  destruct r; try destruct del; repeat constructor.
Qed.

Lemma cn_loop_stable F W d cwd root rb rr es :
  stable F W d cwd root -> loop_ok F W root cwd rb rr es (cn_loop F W rb rr d es cwd).
Proof.
  intros St. induction es as [|e rest IH].
  - simpl. repeat split; constructor.
  - destruct IH as (Hc & Hy & Hr & Hp). unfold loop_ok.
    simpl cn_loop. rewrite (St (a_path e) (a_blob e) rb false).
    simpl spec_pairs.
    pose proof (gs_reads_at F (a_path e) rb false root) as Ra.
    pose proof (gs_reads_at F (b_path e) rr (e_deleted e) root) as Rb.
    destruct (is_raise (spec_stream F W root (a_path e) (a_blob e) rb false)).
    { simpl. repeat split; auto. }
    destruct (early_skip F (spec_stream F W root (a_path e) (a_blob e) rb false)).
    { simpl. repeat split; auto. apply Forall_app; split; auto. }
    rewrite (St (b_path e) (b_blob e) rr (e_deleted e)).
    destruct (is_raise (spec_stream F W root (b_path e) (b_blob e) rr (e_deleted e))).
    { simpl. repeat split; auto. apply Forall_app; split; auto. }
    destruct (pair_of F (spec_stream F W root (a_path e) (a_blob e) rb false)
                        (spec_stream F W root (b_path e) (b_blob e) rr (e_deleted e)))
      as [[fa fb]|].
    + simpl. repeat split; auto.
      * apply Forall_app; split; auto. apply Forall_app; split; auto.
      * unfold pairs_of in *. simpl.
        destruct (spec_pairs F W root rb rr rest) as [l x]. inversion Hp; subst. reflexivity.
    + simpl. repeat split; auto. apply Forall_app; split; auto. apply Forall_app; split; auto.
Qed.

(* ------------------------------------------------------------------ the property, per source fact *)
Definition cn_conclusion (F : facts) (W : world) (root popped : path) (rb rr : ref) (paths : list path) : Prop :=
  let res := changed_notebooks F W root popped rb rr paths in
  let es := w_diff W (tree_of_base rb) rr (map (fun p => popped ++ p) paths) in
  (* cwd_restored: after the generator is exhausted or has raised, and at every yield *)
  r_cwd res = root ++ popped /\
  Forall (fun y => y_cwd y = root ++ popped) (r_yields res) /\
  (* worktree_reads_resolve *)
  Forall (fun rd => fst rd = root) (r_reads res) /\
  (* pairs_exact (including where it raises) *)
  (pairs_of res, r_raised res) = spec_pairs F W root rb rr es.

Definition full_property (F : facts) : Prop :=
  forall W root popped rb rr paths, cn_conclusion F W root popped rb rr paths.
Definition root_property (F : facts) : Prop :=
  forall W root rb rr paths, cn_conclusion F W root [] rb rr paths.

Theorem full_of_good F : good F -> full_property F.
Proof.
  intros G W root popped rb rr paths. unfold cn_conclusion, changed_notebooks.
  pose proof (stable_good F W (Up (length popped)) (root ++ popped) G) as St.
  simpl chdir in St. rewrite up_app in St.
  exact (cn_loop_stable F W _ _ _ rb rr _ St).
Qed.

(* from the repository root the directory facts do not matter (the deleted-entry fact does: see [deleted_refuted]) *)
Theorem root_of_any F : f_deleted_missing F = true -> root_property F.
Proof.
  intros Hd W root rb rr paths. unfold cn_conclusion, changed_notebooks. simpl length.
  pose proof (stable_root F W (root ++ []) Hd) as St.
  pose proof (cn_loop_stable F W _ _ _ rb rr (w_diff W (tree_of_base rb) rr (map (fun p => [] ++ p) paths)) St) as H.
  rewrite app_nil_r in *. exact H.
Qed.

(* explicit absolute repo_dir (server extension): pairs and reads are right for every fact; the directory is
   restored when pushd is good *)
Theorem abs_of_good F W root cwd rb rr paths : good F ->
  loop_ok F W root cwd rb rr (w_diff W (tree_of_base rb) rr paths) (changed_notebooks_abs F W root cwd rb rr paths).
Proof.
  intros G. unfold changed_notebooks_abs.
  exact (cn_loop_stable F W _ _ _ rb rr _ (stable_good F W (Abs root) cwd G)).
Qed.

(* ------------------------------------------------------------------ pairs_exact in "map over filter" form *)
Lemma spec_stream_noraise F W root p blob r del :
  (forall q, w_filter W root q <> FRaise) ->
  (f_filter_in_try F = true \/ forall q, w_filter W root q <> FRaiseIO) ->
  is_raise (spec_stream F W root p blob r del) = false.
Proof.
  intros NR NI. unfold spec_stream. destruct p; [reflexivity|]. destruct (negb _); [reflexivity|].
  destruct r; try (destruct blob; reflexivity).
  destruct del; [reflexivity|].
  unfold pushd_body. specialize (NR (c :: p)).
  destruct (w_filter W root (c :: p)) eqn:E; try congruence; try reflexivity.
  - destruct (w_fs W _); reflexivity.
  - destruct NI as [T | NI]; [rewrite T; reflexivity | exfalso; exact (NI _ E)].
Qed.

Lemma spec_stream_notnb F W root p blob r del :
  is_raise (spec_stream F W root p blob r del) = false ->
  is_notnb (spec_stream F W root p blob r del) = negb (nb_or_none F p).
Proof.
  unfold spec_stream, nb_or_none. destruct p; [reflexivity|].
  destruct (is_nb F (c :: p)); simpl; [|reflexivity].
  destruct r; try (destruct blob; reflexivity).
  destruct del; [reflexivity|].
  unfold pushd_body. destruct (w_filter W root (c :: p)); simpl; try reflexivity; try discriminate.
  - destruct (w_fs W _); reflexivity.
  - destruct (f_filter_in_try F); simpl; [reflexivity | discriminate].
Qed.

Lemma spec_pairs_filter F W root rb rr es :
  (forall p, w_filter W root p <> FRaise) ->
  (f_filter_in_try F = true \/ forall q, w_filter W root q <> FRaiseIO) ->
  spec_pairs F W root rb rr es = (map (entry_pair F W root rb rr) (filter (entry_is_nb F) es), false).
Proof.
  intros NR NI.
  induction es as [|e rest IH]; [reflexivity|].
  simpl. unfold entry_is_nb at 1.
  pose proof (spec_stream_noraise F W root (a_path e) (a_blob e) rb false NR NI) as Ra.
  pose proof (spec_stream_noraise F W root (b_path e) (b_blob e) rr (e_deleted e) NR NI) as Rb.
  pose proof (spec_stream_notnb F W root (a_path e) (a_blob e) rb false Ra) as Na.
  pose proof (spec_stream_notnb F W root (b_path e) (b_blob e) rr (e_deleted e) Rb) as Nb.
  rewrite Ra, Rb. unfold early_skip. rewrite Na. rewrite IH.
  assert (EP : entry_pair F W root rb rr e =
               (stream_of (spec_stream F W root (a_path e) (a_blob e) rb false),
                stream_of (spec_stream F W root (b_path e) (b_blob e) rr (e_deleted e)))) by reflexivity.
  destruct (spec_stream F W root (a_path e) (a_blob e) rb false) as [|fa|];
    destruct (spec_stream F W root (b_path e) (b_blob e) rr (e_deleted e)) as [|fb|];
    simpl in Ra, Rb, Na, Nb; try discriminate;
    destruct (nb_or_none F (a_path e)); try discriminate;
    destruct (nb_or_none F (b_path e)); try discriminate;
    unfold pair_of; destruct (f_skip_both F); simpl; rewrite ?EP; reflexivity.
Qed.

Theorem pairs_exact F W root popped rb rr paths :
  good F -> (forall p, w_filter W root p <> FRaise) ->
  (f_filter_in_try F = true \/ forall q, w_filter W root q <> FRaiseIO) ->
  let res := changed_notebooks F W root popped rb rr paths in
  pairs_of res = map (entry_pair F W root rb rr)
                     (filter (entry_is_nb F) (w_diff W (tree_of_base rb) rr (map (fun p => popped ++ p) paths)))
  /\ r_raised res = false.
Proof.
  intros G NR NI res. destruct (full_of_good F G W root popped rb rr paths) as (_ & _ & _ & Hp).
  fold res in Hp. rewrite (spec_pairs_filter F W root rb rr _ NR NI) in Hp. inversion Hp. split; reflexivity.
Qed.

(* an entry with a notebook on one side only (rename across the suffix) is skipped by the either-side rule *)
Lemma mixed_entry_skipped F W root rb rr e rest :
  f_skip_both F = false -> entry_is_nb F e = false -> rb <> RWorktree ->
  spec_pairs F W root rb rr (e :: rest) = spec_pairs F W root rb rr rest.
Proof.
  intros Sk H Hb. simpl. unfold entry_is_nb in H. rewrite Sk in H. unfold early_skip, pair_of. rewrite Sk. simpl negb.
  unfold nb_or_none in H. unfold spec_stream.
  destruct (a_path e) as [|c p] eqn:Ea.
  - simpl in H. destruct (b_path e) as [|c' p'] eqn:Eb; [discriminate|]. rewrite H. reflexivity.
  - destruct (is_nb F (c :: p)) eqn:Ia; simpl; [|reflexivity].
    simpl in H. destruct (b_path e) as [|c' p'] eqn:Eb; [discriminate|]. rewrite H. simpl.
    destruct rb; try congruence; destruct (a_blob e); reflexivity.
Qed.

(* base = working tree (what the CLI passes when base is None): both sides are the same read *)
Lemma worktree_base_degenerate F W root es :
  Forall (fun e => a_path e = b_path e /\ e_deleted e = false) es ->
  Forall (fun pr : stream * stream => fst pr = snd pr) (fst (spec_pairs F W root RWorktree RWorktree es)).
Proof.
  induction 1 as [|e rest [He Hd] _ IH]; simpl; [constructor|].
  rewrite <- He, Hd.
  destruct (is_raise (spec_stream F W root (a_path e) (a_blob e) RWorktree false)); [constructor|].
  destruct (early_skip F _); [exact IH|].
  assert (E : spec_stream F W root (a_path e) (b_blob e) RWorktree false = spec_stream F W root (a_path e) (a_blob e) RWorktree false).
  { unfold spec_stream. destruct (a_path e); [reflexivity|]. destruct (negb _); reflexivity. }
  rewrite E.
  destruct (is_raise (spec_stream F W root (a_path e) (a_blob e) RWorktree false)); [constructor|].
  unfold pair_of.
  destruct (spec_stream F W root (a_path e) (a_blob e) RWorktree false).
  - exact IH.
  - destruct (spec_pairs F W root RWorktree RWorktree rest); simpl in *. constructor; auto.
  - exact IH.
Qed.

(* ------------------------------------------------------------------ pushd saving '.' : the drift *)
Fixpoint drift_reads (k : nat) (cwd : path) (n : nat) : list path :=
  match n with 0 => [] | S n' => up k cwd :: drift_reads k (up k cwd) n' end.

Lemma drift_reads_app k cwd a b :
  drift_reads k cwd (a + b) = drift_reads k cwd a ++ drift_reads k (up (k * a) cwd) b.
Proof.
  revert cwd; induction a as [|a IH]; intros cwd; simpl.
  - rewrite Nat.mul_0_r. reflexivity.
  - f_equal. rewrite IH. f_equal. f_equal.
    replace (k * S a) with (k + k * a) by lia. rewrite up_add. reflexivity.
Qed.

Lemma get_stream_curdir F W cwd p blob r del k :
  f_pushd_saves F = Curdir ->
  exists rd o, get_stream F W cwd p blob r del (Up k) = (up (k * length rd) cwd, rd, o)
               /\ map fst rd = drift_reads k cwd (length rd).
Proof.
  intros Hs. unfold get_stream.
  destruct p as [|c p'].
  { exists [], (OStream SMissing). simpl. rewrite Nat.mul_0_r. auto. }
  destruct (negb (is_nb F (c :: p'))).
  { exists [], ONotNb. simpl. rewrite Nat.mul_0_r. auto. }
  destruct r.
  - destruct blob; eexists [], _; simpl; rewrite Nat.mul_0_r; auto.
  - destruct blob; eexists [], _; simpl; rewrite Nat.mul_0_r; auto.
  - destruct (f_deleted_missing F && del).
    { exists [], (OStream SMissing). simpl. rewrite Nat.mul_0_r. auto. }
    rewrite Hs. exists [(up k cwd, c :: p')], (pushd_body F W (up k cwd) (c :: p')). simpl.
    rewrite Nat.mul_1_r. split; [|reflexivity].
    destruct (pushd_body F W (up k cwd) (c :: p')), (f_pushd_finally F); reflexivity.
Qed.

Theorem curdir_drift F W rb rr k es cwd :
  f_pushd_saves F = Curdir ->
  let res := cn_loop F W rb rr (Up k) es cwd in
  r_cwd res = up (k * length (r_reads res)) cwd /\
  map fst (r_reads res) = drift_reads k cwd (length (r_reads res)).
Proof.
  intros Hs. revert cwd. induction es as [|e rest IH]; intros cwd; simpl.
  - rewrite Nat.mul_0_r. auto.
  - destruct (get_stream_curdir F W cwd (a_path e) (a_blob e) rb false k Hs) as (rd1 & oa & E1 & D1).
    rewrite E1.
    assert (Comb : forall (rd : list read) c2 (res' : result),
               c2 = up (k * length rd) cwd -> map fst rd = drift_reads k cwd (length rd) ->
               r_cwd res' = up (k * length (r_reads res')) c2 ->
               map fst (r_reads res') = drift_reads k c2 (length (r_reads res')) ->
               r_cwd (add_reads rd res') = up (k * length (r_reads (add_reads rd res'))) cwd /\
               map fst (r_reads (add_reads rd res')) = drift_reads k cwd (length (r_reads (add_reads rd res')))).
    { intros rd c2 res' Hc Hd Hr Hm. simpl. rewrite app_length. split.
      - subst c2. rewrite Nat.mul_add_distr_l, up_add. exact Hr.
      - subst c2. rewrite map_app, drift_reads_app. f_equal; [exact Hd | exact Hm]. }
    destruct (is_raise oa).
    { simpl. split; [reflexivity | exact D1]. }
    destruct (early_skip F oa).
    { destruct (IH (up (k * length rd1) cwd)) as [I1 I2]. apply Comb with (c2 := up (k * length rd1) cwd); auto. }
    destruct (get_stream_curdir F W (up (k * length rd1) cwd) (b_path e) (b_blob e) rr (e_deleted e) k Hs) as (rd2 & ob & E2 & D2).
    rewrite E2.
    assert (C2 : up (k * length rd2) (up (k * length rd1) cwd) = up (k * length (rd1 ++ rd2)) cwd).
    { rewrite app_length, Nat.mul_add_distr_l, up_add. reflexivity. }
    assert (M2 : map fst (rd1 ++ rd2) = drift_reads k cwd (length (rd1 ++ rd2))).
    { rewrite map_app, app_length, drift_reads_app. f_equal; [exact D1 | exact D2]. }
    destruct (is_raise ob).
    { simpl. rewrite C2. split; [reflexivity | exact M2]. }
    destruct (IH (up (k * length rd2) (up (k * length rd1) cwd))) as [I1 I2].
    destruct (pair_of F oa ob) as [[fa fb]|];
      apply Comb with (c2 := up (k * length rd2) (up (k * length rd1) cwd)); auto.
Qed.

(* consequence: from a subdirectory of depth k >= 1, as soon as one working-tree file has been read the caller's
   directory has changed *)
Lemma up_app_shorter root popped n :
  n >= 1 -> popped <> [] -> up (length popped * n) (root ++ popped) <> root ++ popped.
Proof.
  intros Hn Hp E.
  assert (L : forall k p, length (up k p) = length p - k).
  { induction k as [|k IHk]; intros p; simpl; [lia|]. rewrite IHk.
    destruct p as [|x p'] using rev_ind; [reflexivity|]. rewrite removelast_last, app_length. simpl. lia. }
  apply (f_equal (@length comp)) in E. rewrite L in E.
  destruct popped; [congruence|]. rewrite app_length in E. simpl in E. destruct n; [lia|].
  rewrite Nat.mul_succ_r in E. simpl in E. lia.
Qed.

Theorem curdir_not_restored F W root popped rb rr paths :
  f_pushd_saves F = Curdir -> popped <> [] ->
  let res := changed_notebooks F W root popped rb rr paths in
  r_reads res <> [] -> r_cwd res <> root ++ popped.
Proof.
  intros Hs Hp res Hr. unfold res, changed_notebooks in *.
  destruct (curdir_drift F W rb rr (length popped) (w_diff W (tree_of_base rb) rr (map (fun p => popped ++ p) paths))
              (root ++ popped) Hs) as [Hc _].
  rewrite Hc. apply up_app_shorter; auto.
  destruct (r_reads _); [congruence | simpl; lia].
Qed.

(* ------------------------------------------------------------------ concrete witness (the refutation) *)
Definition s_ipynb : pystr := [46; 105; 112; 121; 110; 98]%N.      (* ".ipynb" *)
Definition c_r : comp := [114]%N.  Definition c_s : comp := [115]%N.
Definition c_b : comp := [98; 46; 105; 112; 121; 110; 98]%N.       (* "b.ipynb" *)
Definition c_c : comp := [99; 46; 105; 112; 121; 110; 98]%N.       (* "c.ipynb" *)

Fixpoint path_eqb (a b : path) : bool :=
  match a, b with
  | [], [] => true
  | x :: xs, y :: ys => str_eqb x y && path_eqb xs ys
  | _, _ => false
  end.

Definition wit_entries : list entry :=
  [ {| a_path := [c_s; c_b]; a_blob := Some 10%N; b_path := [c_s; c_b]; b_blob := None; e_deleted := false |};
    {| a_path := [c_s; c_c]; a_blob := Some 11%N; b_path := [c_s; c_c]; b_blob := None; e_deleted := false |} ].
Definition wit_world : world := {|
  w_fs := fun p => if path_eqb p [c_r; c_s; c_b] then Some 20%N
                   else if path_eqb p [c_r; c_s; c_c] then Some 21%N else None;
  w_filter := fun _ _ => FNone;
  w_diff := fun _ _ _ => wit_entries |}.

Definition subdir_refuted (F : facts) : Prop :=
  exists W root popped rb rr paths,
    let res := changed_notebooks F W root popped rb rr paths in
    popped <> [] /\ r_raised res = false /\
    r_cwd res <> root ++ popped /\
    (exists y, In y (r_yields res) /\ y_cwd y <> root ++ popped) /\
    (exists rd, In rd (r_reads res) /\ fst rd <> root) /\
    pairs_of res <> fst (spec_pairs F W root rb rr (w_diff W (tree_of_base rb) rr (map (fun p => popped ++ p) paths))).

Theorem refuted_of_curdir F : f_pushd_saves F = Curdir -> f_nb_suffix F = s_ipynb -> subdir_refuted F.
Proof.
  intros Hs Hn. destruct F as [sv fin suf ap sk ft dm]. simpl in Hs, Hn. subst sv suf.
  exists wit_world, [c_r], [c_s], head_ref, RWorktree, [].
  destruct fin, sk, ft, dm; vm_compute; (split; [discriminate|]); (split; [reflexivity|]); (split; [discriminate|]);
    (split; [eexists; split; [left; reflexivity | discriminate]|]);
    (split; [eexists; split; [right; left; reflexivity | discriminate] | discriminate]).
Qed.

(* the positive statement is not vacuous: the same scenario under a restoring pushd *)
Example full_property_witness :
  let F := {| f_pushd_saves := Getcwd; f_pushd_finally := true; f_nb_suffix := s_ipynb; f_allpaths_base := BaseHead;
              f_skip_both := false; f_filter_in_try := false; f_deleted_missing := true |} in
  let res := changed_notebooks F wit_world [c_r] [c_s] head_ref RWorktree [] in
  r_cwd res = [c_r; c_s] /\
  pairs_of res = [(SBlob 10%N, SFile [c_s; c_b] 20%N); (SBlob 11%N, SFile [c_s; c_c] 21%N)].
Proof. vm_compute. split; reflexivity. Qed.

Example curdir_witness_behaviour :
  let F := {| f_pushd_saves := Curdir; f_pushd_finally := true; f_nb_suffix := s_ipynb; f_allpaths_base := BaseNone;
              f_skip_both := false; f_filter_in_try := false; f_deleted_missing := false |} in
  let res := changed_notebooks F wit_world [c_r] [c_s] head_ref RWorktree [] in
  r_cwd res = [] /\
  pairs_of res = [(SBlob 10%N, SFile [c_s; c_b] 20%N); (SBlob 11%N, SMissing)].
Proof. vm_compute. split; reflexivity. Qed.

(* ------------------------------------------------------------------ an entry git reports as deleted, something on disk *)
(* `git rm --cached x.ipynb` with the file left in place (or a staged deletion followed by re-creation of the file):
   git reports `D x.ipynb` between HEAD and the working tree, the entry has deleted_file set and no b_blob, and an
   untracked x.ipynb sits on disk.  If the working-tree branch ignores the flag, the pair's remote side is that file. *)
Definition c_x : comp := [120; 46; 105; 112; 121; 110; 98]%N.       (* "x.ipynb" *)
Definition del_entries : list entry :=
  [ {| a_path := [c_x]; a_blob := Some 10%N; b_path := [c_x]; b_blob := None; e_deleted := true |} ].
Definition del_world : world := {|
  w_fs := fun p => if path_eqb p [c_r; c_x] then Some 20%N else None;
  w_filter := fun _ _ => FNone;
  w_diff := fun _ _ _ => del_entries |}.

Definition deleted_refuted (F : facts) : Prop :=
  exists W root rb rr paths,
    let res := changed_notebooks F W root [] rb rr paths in
    let es := w_diff W (tree_of_base rb) rr (map (fun p => [] ++ p) paths) in
    r_raised res = false /\
    (exists e, In e es /\ e_deleted e = true) /\
    (exists y, In y (r_yields res) /\ y_b y <> SMissing) /\
    r_reads res <> [] /\
    pairs_of res <> fst (spec_pairs F W root rb rr es) /\
    Forall (fun pr : stream * stream => snd pr = SMissing) (fst (spec_pairs F W root rb rr es)).

Theorem refuted_of_deleted_ignored F : f_deleted_missing F = false -> f_nb_suffix F = s_ipynb -> deleted_refuted F.
Proof.
  intros Hd Hn. destruct F as [sv fin suf ap sk ft dm]. simpl in Hd, Hn. subst dm suf.
  exists del_world, [c_r], head_ref, RWorktree, [].
  destruct sv, fin, sk, ft; vm_compute; (split; [reflexivity|]);
    (split; [eexists; split; [left; reflexivity | reflexivity]|]);
    (split; [eexists; split; [left; reflexivity | discriminate]|]);
    (split; [discriminate|]); (split; [discriminate|]); repeat constructor.
Qed.

(* not vacuous: the same scenario when the flag is honoured -- the remote side is the missing file, nothing is read *)
Example deleted_witness_behaviour :
  let F := {| f_pushd_saves := Getcwd; f_pushd_finally := true; f_nb_suffix := s_ipynb; f_allpaths_base := BaseHead;
              f_skip_both := true; f_filter_in_try := true; f_deleted_missing := true |} in
  let res := changed_notebooks F del_world [c_r] [] head_ref RWorktree [] in
  pairs_of res = [(SBlob 10%N, SMissing)] /\ r_reads res = [] /\ r_cwd res = [c_r].
Proof. vm_compute. repeat split; reflexivity. Qed.

(* the specification's remote side of a deleted notebook entry is the missing file ... *)
Lemma deleted_side_missing F W root p blob :
  p <> [] -> is_nb F p = true -> spec_stream F W root p blob RWorktree true = OStream SMissing.
Proof. intros Hp Hn. unfold spec_stream. destruct p; [congruence|]. rewrite Hn. reflexivity. Qed.

(* ... and when the flag is honoured the code returns it without a read and without touching the directory, for
   every pushd variant, every repo_dir and every directory it is called from *)
Theorem deleted_not_read F W cwd p blob d :
  f_deleted_missing F = true -> p <> [] -> is_nb F p = true ->
  get_stream F W cwd p blob RWorktree true d = (cwd, [], OStream SMissing).
Proof.
  intros Hd Hp Hn. unfold get_stream. destruct p; [congruence|]. rewrite Hn, Hd. reflexivity.
Qed.

(* ------------------------------------------------------------------ statement selected by the source facts *)
Definition c17_statement (F : facts) : Prop :=
  match f_deleted_missing F with
  | false => f_nb_suffix F = s_ipynb -> deleted_refuted F
  | true =>
    match f_pushd_saves F, f_pushd_finally F with
    | Getcwd, true => full_property F
    | Getcwd, false => root_property F
    | Curdir, _ => root_property F /\
                   (f_nb_suffix F = s_ipynb -> subdir_refuted F) /\
                   (forall W root popped rb rr paths, popped <> [] ->
                      let res := changed_notebooks F W root popped rb rr paths in
                      r_reads res <> [] -> r_cwd res <> root ++ popped)
    end
  end.

Theorem c17_by_fact F : c17_statement F.
Proof.
  unfold c17_statement. destruct (f_deleted_missing F) eqn:Hd; [|apply refuted_of_deleted_ignored; exact Hd].
  destruct (f_pushd_saves F) eqn:Hs.
  - assert (X : root_property F /\ (f_nb_suffix F = s_ipynb -> subdir_refuted F) /\
                (forall W root popped rb rr paths, popped <> [] ->
                    let res := changed_notebooks F W root popped rb rr paths in
                    r_reads res <> [] -> r_cwd res <> root ++ popped)).
    { split; [apply root_of_any; exact Hd|]. split; [apply refuted_of_curdir; exact Hs|].
      intros W root popped rb rr paths Hp. apply curdir_not_restored; assumption. }
    destruct (f_pushd_finally F); exact X.
  - destruct (f_pushd_finally F) eqn:Hf.
    + apply full_of_good. repeat split; assumption.
    + apply root_of_any. exact Hd.
Qed.

(* ------------------------------------------------------------------ command line: resolve_diff_args / main_diff *)
Definition cli_hyps (is_gitref : option pystr -> bool) (args : list pystr) : Prop :=
  is_gitref None = true /\ is_gitref (Some head_name) = true /\ Forall (fun a => a <> []) args.

Lemma truthy_some (x : pystr) : x <> [] -> truthy (Some x) = true.
Proof. destruct x; [congruence | reflexivity]. Qed.

Theorem cli_short_or_ref F is_gitref args :
  cli_hyps is_gitref args ->
  (length args <= 2 \/ exists x rest, args = x :: rest /\ is_gitref (Some x) = true) ->
  main_mode F is_gitref args = spec_mode is_gitref args.
Proof.
  intros (Hn & Hh & Hne) Hc.
  destruct args as [|x [|y [|z ps]]].
  - unfold main_mode, spec_mode, parse_positionals, resolve_diff_args. rewrite Hh. simpl. rewrite Hh, Hn. reflexivity.
  - unfold main_mode, spec_mode, parse_positionals, resolve_diff_args.
    destruct (is_gitref (Some x)) eqn:Ex; simpl; rewrite ?Ex, ?Hh, ?Hn; reflexivity.
  - unfold main_mode, spec_mode, parse_positionals, resolve_diff_args.
    destruct (is_gitref (Some x)) eqn:Ex, (is_gitref (Some y)) eqn:Ey; simpl; rewrite ?Ex, ?Ey, ?Hh, ?Hn; reflexivity.
  - destruct Hc as [Hc | (x' & rest & E & Hx)]; [simpl in Hc; lia|]. inversion E; subst x' rest.
    inversion Hne as [|? ? Nx Hne']; subst. inversion Hne' as [|? ? Ny _]; subst.
    unfold main_mode, spec_mode, parse_positionals, resolve_diff_args.
    rewrite (truthy_some x Nx), (truthy_some y Ny), Hx.
    destruct (is_gitref (Some y)) eqn:Ey; simpl; rewrite ?Hx, ?Ey, ?Hn; reflexivity.
Qed.

Theorem cli_allpaths_head F is_gitref args :
  f_allpaths_base F = BaseHead -> cli_hyps is_gitref args ->
  main_mode F is_gitref args = spec_mode is_gitref args.
Proof.
  intros Hf H. pose proof H as (Hn & Hh & Hne).
  destruct args as [|x [|y [|z ps]]]; try (apply cli_short_or_ref; [exact H | left; simpl; lia]).
  destruct (is_gitref (Some x)) eqn:Ex.
  - apply cli_short_or_ref; [exact H | right; eauto].
  - inversion Hne as [|? ? Nx Hne']; subst. inversion Hne' as [|? ? Ny _]; subst.
    unfold main_mode, spec_mode, parse_positionals, resolve_diff_args.
    rewrite (truthy_some x Nx), (truthy_some y Ny), Ex, Hf. simpl. rewrite Hh, Hn. reflexivity.
Qed.

(* three or more paths, the first not a reference, base = remote = None: the base side is read from the working
   tree (and so equals the remote side) instead of HEAD *)
Theorem cli_allpaths_none_refuted F is_gitref x y z ps :
  f_allpaths_base F = BaseNone -> cli_hyps is_gitref (x :: y :: z :: ps) -> is_gitref (Some x) = false ->
  main_mode F is_gitref (x :: y :: z :: ps) = GitMode RWorktree RWorktree (x :: y :: z :: ps) /\
  spec_mode is_gitref (x :: y :: z :: ps) = GitMode head_ref RWorktree (x :: y :: z :: ps) /\
  main_mode F is_gitref (x :: y :: z :: ps) <> spec_mode is_gitref (x :: y :: z :: ps).
Proof.
  intros Hf (Hn & Hh & Hne) Ex.
  inversion Hne as [|? ? Nx Hne']; subst. inversion Hne' as [|? ? Ny _]; subst.
  assert (A : main_mode F is_gitref (x :: y :: z :: ps) = GitMode RWorktree RWorktree (x :: y :: z :: ps)).
  { unfold main_mode, parse_positionals, resolve_diff_args.
    rewrite (truthy_some x Nx), (truthy_some y Ny), Ex, Hf. simpl. rewrite Hn. reflexivity. }
  assert (B : spec_mode is_gitref (x :: y :: z :: ps) = GitMode head_ref RWorktree (x :: y :: z :: ps)).
  { unfold spec_mode. rewrite Ex. reflexivity. }
  split; [exact A|]. split; [exact B|]. rewrite A, B. discriminate.
Qed.

Definition cli_statement (F : facts) : Prop :=
  match f_allpaths_base F with
  | BaseHead => forall is_gitref args, cli_hyps is_gitref args ->
                  main_mode F is_gitref args = spec_mode is_gitref args
  | BaseNone => (forall is_gitref args, cli_hyps is_gitref args ->
                   (length args <= 2 \/ exists x rest, args = x :: rest /\ is_gitref (Some x) = true) ->
                   main_mode F is_gitref args = spec_mode is_gitref args) /\
                (forall is_gitref x y z ps, cli_hyps is_gitref (x :: y :: z :: ps) -> is_gitref (Some x) = false ->
                   main_mode F is_gitref (x :: y :: z :: ps) = GitMode RWorktree RWorktree (x :: y :: z :: ps) /\
                   main_mode F is_gitref (x :: y :: z :: ps) <> spec_mode is_gitref (x :: y :: z :: ps))
  end.

Theorem cli_by_fact F : cli_statement F.
Proof.
  unfold cli_statement. destruct (f_allpaths_base F) eqn:Hf.
  - split.
    + intros g args H Hc. apply cli_short_or_ref; assumption.
    + intros g x y z ps H Ex. destruct (cli_allpaths_none_refuted F g x y z ps Hf H Ex) as (A & _ & C). split; assumption.
  - intros g args H. apply cli_allpaths_head; assumption.
Qed.

Example cli_hyps_satisfiable :
  cli_hyps (fun o => match o with None => true | Some s => str_eqb s head_name end) [[97]%N; [98]%N; [99]%N].
Proof. repeat split; try reflexivity. repeat constructor; discriminate. Qed.
