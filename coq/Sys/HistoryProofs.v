From Coq Require Import List NArith String Bool Lia.
From NB Require Import Base.Json Diff.Codec Diff.GenericDiff Gen.NbConfig Sys.History Diff.DictProofs.
Import ListNotations.

(* two tables are equivalent when every lookup agrees: that is all the differ ever observes *)
Definition teq (t u : table) : Prop := forall p, lookup t p = lookup u p.

Lemma teq_refl t : teq t t. Proof. intros p; reflexivity. Qed.
Lemma teq_trans t u v : teq t u -> teq u v -> teq t v. Proof. intros H1 H2 p. rewrite H1. apply H2. Qed.
Lemma teq_sym t u : teq t u -> teq u t. Proof. intros H p. symmetry. apply H. Qed.

Lemma tget_tdel p q t : tget p (tdel q t) = if str_eqb p q then None else tget p t.
Proof.
  induction t as [|[r d] t IH]; cbn [tdel tget]; [destruct (str_eqb p q); reflexivity|].
  destruct (str_eqb q r) eqn:E.
  - apply str_eqb_eq in E. subst r. rewrite IH. destruct (str_eqb p q); reflexivity.
  - cbn [tget]. rewrite IH. destruct (str_eqb p r) eqn:E2; [|reflexivity].
    apply str_eqb_eq in E2. subst r. rewrite (str_eqb_sym p q), E. reflexivity.
Qed.

Lemma lookup_tset p q d t : lookup (tset q d t) p = if str_eqb p q then d else lookup t p.
Proof.
  unfold lookup, tset. cbn [tget]. destruct (str_eqb p q) eqn:E; [reflexivity|]. rewrite tget_tdel, E. reflexivity.
Qed.

Lemma lookup_tdel p q t : lookup (tdel q t) p = if str_eqb p q then default_differ p else lookup t p.
Proof. unfold lookup. rewrite tget_tdel. destruct (str_eqb p q); reflexivity. Qed.

(* a lookup that stores the default does not change any later lookup *)
Lemma store_defaults_teq ps : forall t, teq (store_defaults t ps) t.
Proof.
  induction ps as [|q ps IH]; intros t; [apply teq_refl|].
  cbn [store_defaults fold_left]. fold (store_defaults (match tget q t with Some _ => t | None => (q, default_differ q) :: t end) ps).
  eapply teq_trans; [apply IH|]. intros p. destruct (tget q t) eqn:E; [reflexivity|].
  unfold lookup. cbn [tget]. destruct (str_eqb p q) eqn:E2; [|reflexivity].
  apply str_eqb_eq in E2. subst p. rewrite E. reflexivity.
Qed.

(* every configuration step respects table equivalence *)
Lemma set_ignore_teq t u e : teq t u -> teq (set_ignore t e) (set_ignore u e).
Proof.
  intros H p. destruct e as [q v]. unfold set_ignore. cbn [fst snd]. destruct v.
  - rewrite !lookup_tset. destruct (str_eqb p q); [reflexivity | apply H].
  - rewrite !lookup_tdel. destruct (str_eqb p q); [reflexivity | apply H].
  - rewrite !lookup_tset, (H q). destruct (str_eqb p q); [reflexivity | apply H].
Qed.

Lemma set_ignores_teq m : forall t u, teq t u -> teq (set_ignores t m) (set_ignores u m).
Proof.
  induction m as [|e m IH]; intros t u H; [exact H|]. cbn [set_ignores fold_left].
  apply IH. apply set_ignore_teq. exact H.
Qed.

Lemma step_teq o t u : teq t u -> teq (step t o) (step u o).
Proof.
  intros H. destruct o; cbn [step].
  - eapply teq_trans; [apply store_defaults_teq|]. eapply teq_trans; [exact H|]. apply teq_sym, store_defaults_teq.
  - unfold set_targets. apply set_ignores_teq. apply set_ignores_teq. exact H.
  - apply set_ignores_teq. exact H.
  - apply teq_refl.
Qed.

(* diffs and merges leave the observable state alone *)
Lemma diff_neutral ps t : teq (step t (OpDiff ps)) t.
Proof. apply store_defaults_teq. Qed.

(* history independence of the tables: what the differ sees after any history is what it would see
   after the configuration calls of that history alone *)
Lemma fold_filter_teq h : forall t u, teq t u -> teq (fold_left step h t) (fold_left step (filter is_config h) u).
Proof.
  induction h as [|o h IH]; intros t u H; [exact H|].
  cbn [fold_left filter]. destruct (is_config o) eqn:E.
  - cbn [fold_left]. apply IH. apply step_teq. exact H.
  - destruct o; try discriminate. apply IH. eapply teq_trans; [apply diff_neutral | exact H].
Qed.

Lemma history_independent_l h : teq (run_history h) (run_history (filter is_config h)).
Proof. apply fold_filter_teq. apply teq_refl. Qed.

Lemma reset_restores_l h : run_history (h ++ [OpReset]) = [].
Proof. unfold run_history. rewrite fold_left_app. reflexivity. Qed.

(* ---------- what a batch of ignore entries does to one path ---------- *)
Fixpoint mfind (p : pystr) (m : list (pystr * ignore_value)) : option ignore_value :=
  match m with
  | [] => None
  | (q, v) :: r => if str_eqb p q then Some v else mfind p r
  end.

Fixpoint distinct (l : list pystr) : bool :=
  match l with
  | [] => true
  | x :: r => negb (existsb (str_eqb x) r) && distinct r
  end.

Lemma mfind_notin p m : existsb (str_eqb p) (map fst m) = false -> mfind p m = None.
Proof.
  induction m as [|[q v] m IH]; cbn [map fst existsb mfind]; [reflexivity|].
  intros H. apply orb_false_iff in H as [H1 H2]. rewrite H1. apply IH. exact H2.
Qed.

Lemma lookup_set_ignore_other t q v p : str_eqb p q = false -> lookup (set_ignore t (q, v)) p = lookup t p.
Proof.
  intros H. unfold set_ignore. cbn [fst snd]. destruct v; rewrite ?lookup_tset, ?lookup_tdel, H; reflexivity.
Qed.

Lemma set_ignores_lookup m : forall t p, distinct (map fst m) = true ->
  lookup (set_ignores t m) p =
  match mfind p m with
  | Some IgTrue => DfIgnore
  | Some IgFalse => default_differ p
  | Some (IgKeys ks) => DfIgnoreKeys (lookup t p) ks
  | None => lookup t p
  end.
Proof.
  induction m as [|[q v] m IH]; intros t p Hd; [reflexivity|].
  cbn [map fst distinct] in Hd. apply andb_true_iff in Hd as [Hq Hd]. apply negb_true_iff in Hq.
  cbn [set_ignores fold_left]. fold (set_ignores (set_ignore t (q, v)) m).
  rewrite (IH _ p Hd). cbn [mfind]. destruct (str_eqb p q) eqn:E.
  - apply str_eqb_eq in E. subst q. rewrite (mfind_notin p m Hq).
    unfold set_ignore. cbn [fst snd]. destruct v; rewrite ?lookup_tset, ?lookup_tdel, str_eqb_refl; reflexivity.
  - destruct (mfind p m) as [[| |ks]|]; try reflexivity; rewrite (lookup_set_ignore_other t q v p E); reflexivity.
Qed.

(* set_notebook_diff_targets determines every path it mentions, whatever was configured before *)
Definition reset_mapping : list (pystr * ignore_value) :=
  [(of_ascii "/cells/*"%string, IgFalse); (of_ascii "/cells/*/outputs/*"%string, IgFalse)].

Lemma targets_mapping_distinct s o a m i d : distinct (map fst (targets_mapping s o a m i d)) = true.
Proof. destruct s, o, a, m, i, d; vm_compute; reflexivity. Qed.

Lemma keys_only_on_reset_paths s o a m i d p ks :
  mfind p (targets_mapping s o a m i d) = Some (IgKeys ks) -> mfind p reset_mapping = Some IgFalse.
Proof.
  unfold targets_mapping. cbn [mfind].
  repeat match goal with |- context [str_eqb p ?q] => destruct (str_eqb p q) eqn:?; [try (destruct s, o, a, m, i, d; discriminate)|] end;
    try discriminate.
  - intros _. match goal with H : str_eqb p _ = true |- _ => apply str_eqb_eq in H; subst p end. reflexivity.
  - intros _. match goal with H : str_eqb p _ = true |- _ => apply str_eqb_eq in H; subst p end. reflexivity.
Qed.

Lemma targets_determined_l t s o a m i d p :
  mfind p (targets_mapping s o a m i d) <> None ->
  lookup (set_targets t s o a m i d) p = lookup (set_targets [] s o a m i d) p.
Proof.
  intros Hin. unfold set_targets. fold reset_mapping.
  rewrite !(set_ignores_lookup (targets_mapping s o a m i d)) by apply targets_mapping_distinct.
  destruct (mfind p (targets_mapping s o a m i d)) as [[| |ks]|] eqn:E; try reflexivity; [|congruence].
  pose proof (keys_only_on_reset_paths _ _ _ _ _ _ _ _ E) as Hr.
  rewrite !(set_ignores_lookup reset_mapping) by reflexivity. rewrite Hr. reflexivity.
Qed.

(* paths it does not mention keep whatever was configured *)
Lemma targets_leaves_others_l t s o a m i d p :
  mfind p (targets_mapping s o a m i d) = None ->
  lookup (set_targets t s o a m i d) p = lookup t p.
Proof.
  intros Hn. unfold set_targets. fold reset_mapping.
  rewrite (set_ignores_lookup (targets_mapping s o a m i d)) by apply targets_mapping_distinct. rewrite Hn.
  rewrite (set_ignores_lookup reset_mapping) by reflexivity.
  destruct (mfind p reset_mapping) as [v|] eqn:E; [|reflexivity].
  exfalso. unfold reset_mapping in E. cbn [mfind] in E. unfold targets_mapping in Hn. cbn [mfind] in Hn.
  repeat match goal with H : context [str_eqb p ?q] |- _ => destruct (str_eqb p q) eqn:?; try discriminate end.
Qed.
