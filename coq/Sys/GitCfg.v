(* C18 -- model of nbdime's git integration set-up (nbdime/vcs/git/{diffdriver,mergedriver,difftool,mergetool}.py
   enable()/disable(), the config sub-command of their main(), and `nbdime config-git` in nbdime/__main__.py).

   The eight functions are NOT written here: tools/gen/gen_gitcfg.py translates them from the Python AST into values
   of type [prog] (Gen/GitCfg.v).  This file gives the language those programs are written in and its semantics over
   an abstract picture of the user's configuration: one key/value map per git config scope (repository, global) and
   the text of the attributes file of each scope ([None] = the file does not exist).

   What git does is modelled as follows (validated against real git on every run of the check):
     git config [--global] K V            never fails, afterwards K has the single value V in that file
     git config [--global] --unset K      exit 5 when K is not in that file, otherwise removes it
     git config [--global] --remove-section S   exit 128 when no key of section S is in that file
     git config K           (no scope)    value from the repository file if present there, else from the global file
     git config --global K                value from the global file only; exit 1 when absent
   A key is a pair (section-with-subsection, variable): "diff.jupyternotebook.command" = ("diff.jupyternotebook","command").
   Keys are assumed single-valued (the property's grid has no multi-valued keys). *)
From Coq Require Import String Ascii List NArith Bool.
From NB Require Import Base.Json.
Import ListNotations.

Fixpoint asc (s : string) : pystr :=
  match s with
  | EmptyString => []
  | String c rest => N_of_ascii c :: asc rest
  end.

(* ------------------------------------------------------------------ configuration files *)
Definition key := (pystr * pystr)%type.
Definition key_eqb (a b : key) : bool := str_eqb (fst a) (fst b) && str_eqb (snd a) (snd b).
Definition cfg := list (key * pystr).

Fixpoint get (c : cfg) (k : key) : option pystr :=
  match c with
  | [] => None
  | (k', v) :: r => if key_eqb k' k then Some v else get r k
  end.
Definition unset (c : cfg) (k : key) : cfg := filter (fun kv => negb (key_eqb (fst kv) k)) c.
Definition set (c : cfg) (k : key) (v : pystr) : cfg := (k, v) :: unset c k.
Definition has_sec (c : cfg) (x : pystr) : bool := existsb (fun kv => str_eqb (fst (fst kv)) x) c.
Definition rmsec (c : cfg) (x : pystr) : cfg := filter (fun kv => negb (str_eqb (fst (fst kv)) x)) c.
Definition has_key (c : cfg) (k : key) : bool := match get c k with Some _ => true | None => false end.

(* ------------------------------------------------------------------ text *)
Fixpoint prefixb (p t : pystr) : bool :=
  match p, t with
  | [], _ => true
  | _ :: _, [] => false
  | a :: p', b :: t' => N.eqb a b && prefixb p' t'
  end.
(* Python: needle in text *)
Fixpoint contains (needle t : pystr) : bool :=
  prefixb needle t || match t with [] => false | _ :: t' => contains needle t' end.

Definition LF : N := 10%N.
(* pieces between line feeds: always one more piece than there are LFs *)
Fixpoint split_lf (s : pystr) : list pystr :=
  match s with
  | [] => [[]]
  | c :: r =>
    if N.eqb c LF then [] :: split_lf r
    else match split_lf r with
         | [] => [[c]]            (* unreachable *)
         | l :: ls => (c :: l) :: ls
         end
  end.
Definition is_nil {A} (l : list A) : bool := match l with [] => true | _ => false end.
(* the lines of a file: pieces, without the empty piece after a final LF *)
Definition lines (s : pystr) : list pystr :=
  let ps := split_lf s in
  if is_nil (last ps [LF]) then removelast ps else ps.

(* ------------------------------------------------------------------ state *)
Inductive scope := Local | Global.
Definition scope_eqb (a b : scope) : bool :=
  match a, b with Local, Local | Global, Global => true | _, _ => false end.
Definition other (sc : scope) : scope := match sc with Local => Global | Global => Local end.

Record state := mkState { cfgL : cfg; cfgG : cfg; attL : option pystr; attG : option pystr }.

Definition cfg_of (sc : scope) (s : state) : cfg := match sc with Local => cfgL s | Global => cfgG s end.
Definition att_of (sc : scope) (s : state) : option pystr := match sc with Local => attL s | Global => attG s end.
Definition set_cfg (sc : scope) (s : state) (c : cfg) : state :=
  match sc with
  | Local => mkState c (cfgG s) (attL s) (attG s)
  | Global => mkState (cfgL s) c (attL s) (attG s)
  end.
Definition set_att (sc : scope) (s : state) (a : option pystr) : state :=
  match sc with
  | Local => mkState (cfgL s) (cfgG s) a (attG s)
  | Global => mkState (cfgL s) (cfgG s) (attL s) a
  end.

(* ------------------------------------------------------------------ the language of the eight functions *)
(* Every function starts with   cmd = ['git', 'config'];  if scope: cmd.append('--' + scope)
   [scoped = true] : the call uses  cmd + [...]      (the file of the requested scope; repository file when no scope)
   [scoped = false]: the call uses  ['git','config'] + [...] whatever the requested scope *)
Inductive action :=
| ASet (k : key) (v : pystr)          (* check_call(cmd + [K, V]) *)
| AUnset (k : key)                    (* check_call(cmd + ['--unset', K]) *)
| ARmSec (x : pystr).                 (* check_call(cmd + ['--remove-section', S]) *)
Inductive handler :=
| Propagate                           (* bare call: CalledProcessError escapes, the process dies with a traceback *)
| Ignore                              (* try: ... except CalledProcessError: pass *)
| ReturnOnFail.                       (* try: ... except CalledProcessError: return *)
Inductive guard :=
| Always
| IfFlag                              (* if set_default: *)
| IfGetEq (scoped : bool) (k : key) (v : pystr).
    (* try: tool = check_output(cmd + [K]).decode().strip()  except CalledProcessError: pass  else: if tool == V: *)
Record cmd := Cmd { c_guard : guard; c_handler : handler; c_scoped : bool; c_act : action }.

(* body, then (if the body fell through) the attributes block:
     path = locate_gitattributes(scope); if exists(path) and NEEDLE in read(path): return
     [else ensure_dir_exists(dirname(path))];  append LINE to path *)
Record prog := Prog { body : list cmd; tail : option (pystr * pystr) }.

Inductive status := Normal | Returned | Raised.

(* file written by a call *)
Definition wscope (scoped : bool) (sc : scope) : scope := if scoped then sc else Local.
(* value seen by a reading call *)
Definition read (scoped : bool) (sc : scope) (s : state) (k : key) : option pystr :=
  match (if scoped then sc else Local) with
  | Global => get (cfgG s) k
  | Local => match get (cfgL s) k with Some v => Some v | None => get (cfgG s) k end
  end.

Definition guard_holds (sc : scope) (flag : bool) (g : guard) (s : state) : bool :=
  match g with
  | Always => true
  | IfFlag => flag
  | IfGetEq scoped k v => match read scoped sc s k with Some v' => str_eqb v' v | None => false end
  end.

(* None = git exits non-zero (CalledProcessError) *)
Definition do_action (w : scope) (a : action) (s : state) : option state :=
  match a with
  | ASet k v => Some (set_cfg w s (set (cfg_of w s) k v))
  | AUnset k => if has_key (cfg_of w s) k then Some (set_cfg w s (unset (cfg_of w s) k)) else None
  | ARmSec x => if has_sec (cfg_of w s) x then Some (set_cfg w s (rmsec (cfg_of w s) x)) else None
  end.

Definition exec_cmd (sc : scope) (flag : bool) (c : cmd) (s : state) : status * state :=
  if guard_holds sc flag (c_guard c) s then
    match do_action (wscope (c_scoped c) sc) (c_act c) s with
    | Some s' => (Normal, s')
    | None => match c_handler c with
              | Propagate => (Raised, s)
              | Ignore => (Normal, s)
              | ReturnOnFail => (Returned, s)
              end
    end
  else (Normal, s).

Fixpoint exec_body (sc : scope) (flag : bool) (b : list cmd) (s : state) : status * state :=
  match b with
  | [] => (Normal, s)
  | c :: r => match exec_cmd sc flag c s with
              | (Normal, s') => exec_body sc flag r s'
              | o => o
              end
  end.

Definition attr_step (a : option pystr) (nl : pystr * pystr) : option pystr :=
  match a with
  | Some t => if contains (fst nl) t then Some t else Some (t ++ snd nl)
  | None => Some (snd nl)
  end.

Definition exec_prog (sc : scope) (flag : bool) (p : prog) (s : state) : status * state :=
  match exec_body sc flag (body p) s with
  | (Normal, s') =>
    match tail p with
    | None => (Normal, s')
    | Some nl => (Normal, set_att sc s' (attr_step (att_of sc s') nl))
    end
  | o => o
  end.

(* `a(args) or b(args) or ...` of config-git: every main returns 0 unless an exception escapes *)
Fixpoint exec_seq (sc : scope) (flag : bool) (ps : list prog) (s : state) : status * state :=
  match ps with
  | [] => (Normal, s)
  | p :: r => match exec_prog sc flag p s with
              | (Raised, s') => (Raised, s')
              | (_, s') => exec_seq sc flag r s'
              end
  end.

(* ------------------------------------------------------------------ command lines *)
Inductive tool := DiffDriver | MergeDriver | DiffTool | MergeTool.
Definition tool_eqb (a b : tool) : bool :=
  match a, b with
  | DiffDriver, DiffDriver | MergeDriver, MergeDriver | DiffTool, DiffTool | MergeTool, MergeTool => true
  | _, _ => false
  end.

(* what the translator extracts from the sources *)
Record table := Table {
  prog_of : tool -> bool -> prog;       (* true = enable, false = disable *)
  order : list tool;                    (* the `or` chain of config-git *)
  takes_flag : tool -> bool             (* main passes opts.set_default to enable/disable *)
}.

Inductive command :=
| One (t : tool) (en : bool) (sc : scope) (sd : bool)   (* git-nbXXX config --enable|--disable [--global] [--set-default] *)
| All (en : bool) (sc : scope).                         (* nbdime config-git --enable|--disable [--global] *)

Definition is_enable (c : command) : bool := match c with One _ en _ _ => en | All en _ => en end.
Definition scope_of (c : command) : scope := match c with One _ _ sc _ => sc | All _ sc => sc end.
Definition tools_of (tb : table) (c : command) : list tool := match c with One t _ _ _ => [t] | All _ _ => order tb end.
Definition flag_of (tb : table) (c : command) : bool :=
  match c with One t _ _ sd => takes_flag tb t && sd | All _ _ => false end.
Definition progs_of (tb : table) (c : command) : list prog := map (fun t => prog_of tb t (is_enable c)) (tools_of tb c).

Definition run (tb : table) (c : command) (s : state) : status * state :=
  exec_seq (scope_of c) (flag_of tb c) (progs_of tb c) s.
Definition final (o : status * state) : state := snd o.
Definition exit_ok (o : status * state) : bool := match fst o with Raised => false | _ => true end.

Fixpoint run_many (tb : table) (cs : list command) (s : state) : list (bool * state) :=
  match cs with
  | [] => []
  | c :: r => let o := run tb c s in (exit_ok o, final o) :: run_many tb r (final o)
  end.

(* ------------------------------------------------------------------ specification vocabulary (hand-written, not generated) *)
Definition nbdime_value : pystr := asc "nbdime".
Definition false_value : pystr := asc "false".
Definition mem_str (x : pystr) (l : list pystr) : bool := existsb (str_eqb x) l.
Definition mem_key (k : key) (l : list key) : bool := existsb (key_eqb k) l.

(* what belongs to nbdime, per tool *)
Definition tool_sections (t : tool) : list pystr :=
  match t with
  | DiffDriver => [asc "diff.jupyternotebook"]
  | MergeDriver => [asc "merge.jupyternotebook"]
  | DiffTool => [asc "difftool.nbdime"]
  | MergeTool => [asc "mergetool.nbdime"]
  end.
Definition tool_prompt (t : tool) : list key :=
  match t with
  | DiffTool => [(asc "difftool", asc "prompt")]
  | MergeTool => [(asc "mergetool", asc "prompt")]
  | _ => []
  end.
Definition tool_default (t : tool) : list key :=
  match t with
  | DiffTool => [(asc "diff", asc "guitool")]
  | MergeTool => [(asc "merge", asc "tool")]
  | _ => []
  end.
(* the section git consults to route *.ipynb, and the attribute that selects it *)
Definition driver_section (t : tool) : option pystr :=
  match t with
  | DiffDriver => Some (asc "diff.jupyternotebook")
  | MergeDriver => Some (asc "merge.jupyternotebook")
  | _ => None
  end.
Definition driver_needle (t : tool) : option pystr :=
  match t with
  | DiffDriver => Some (asc "diff=jupyternotebook")
  | MergeDriver => Some (asc "merge=jupyternotebook")
  | _ => None
  end.
Definition all_tools : list tool := [DiffDriver; MergeDriver; DiffTool; MergeTool].
Definition spec_tools (c : command) : list tool := match c with One t _ _ _ => [t] | All _ _ => all_tools end.
Definition spec_flag (c : command) : bool := match c with One _ _ _ sd => sd | All _ _ => false end.

Definition own_section (x : pystr) : bool := mem_str x (flat_map tool_sections all_tools).
Definition is_prompt (k : key) : bool := mem_key k (flat_map tool_prompt all_tools).

(* a write that enabling command [c] may make *)
Definition allowed_enable_write (c : command) (k : key) (v : pystr) : bool :=
  mem_str (fst k) (flat_map tool_sections (spec_tools c))
  || (mem_key k (flat_map tool_prompt (spec_tools c)) && str_eqb v false_value)
  || (spec_flag c && mem_key k (flat_map tool_default (spec_tools c)) && str_eqb v nbdime_value).

(* one rule line, on a line of its own, naming the driver attribute *)
Definition rule_line (needle l : pystr) : Prop :=
  exists rule, l = LF :: rule ++ [LF] /\ ~ In LF rule /\ contains needle rule = true.

(* appending chunks to a possibly absent file *)
Definition text_of (a : option pystr) : pystr := match a with Some t => t | None => [] end.
Definition grow (a : option pystr) (app : list pystr) : option pystr :=
  match app with [] => a | _ => Some (text_of a ++ concat app) end.

Inductive sublist {A} : list A -> list A -> Prop :=
| sub_nil : sublist [] []
| sub_skip x l1 l2 : sublist l1 l2 -> sublist l1 (x :: l2)
| sub_keep x l1 l2 : sublist l1 l2 -> sublist (x :: l1) (x :: l2).

(* a setting disable must leave alone: not in one of nbdime's own sections, not a prompt switch *)
Definition protected (k : key) : bool := negb (own_section (fst k)) && negb (is_prompt k).

Definition all_commands : list command :=
  flat_map (fun t => flat_map (fun en => flat_map (fun sc => map (fun sd => One t en sc sd) [false; true])
                                                   [Local; Global]) [false; true]) all_tools
  ++ flat_map (fun en => map (fun sc => All en sc) [Local; Global]) [false; true].

(* ------------------------------------------------------------------ comparison helpers for the correspondence run *)
Definition opt_str_eqb (a b : option pystr) : bool :=
  match a, b with
  | Some x, Some y => str_eqb x y
  | None, None => true
  | _, _ => false
  end.
Definition cfg_incl (a b : cfg) : bool :=
  forallb (fun kv => opt_str_eqb (get b (fst kv)) (Some (snd kv))) a.
(* equality as key/value maps (both sides duplicate-free) *)
Definition cfg_same (a b : cfg) : bool := cfg_incl a b && cfg_incl b a.
Definition state_same (a b : state) : bool :=
  cfg_same (cfgL a) (cfgL b) && cfg_same (cfgG a) (cfgG b)
  && opt_str_eqb (attL a) (attL b) && opt_str_eqb (attG a) (attG b).
Fixpoint trace_same (got : list (bool * state)) (want : list (bool * state)) : bool :=
  match got, want with
  | [], [] => true
  | (b1, s1) :: r1, (b2, s2) :: r2 => Bool.eqb b1 b2 && state_same s1 s2 && trace_same r1 r2
  | _, _ => false
  end.
