(* C19 -- executable model of nbdime's option resolution (nbdime/config.py, nbdime/args.py:ConfigBackedParser) and the
   documented rule it is compared with.

   Model (one Gallina function per Python function):
     rupd            = config.recursive_update   (None deletes, nested dicts merge, empty sub-dicts pruned)
     load_disk       = the loop over _load_config_files in build_config (files arrive in DESCENDING priority,
                       are layered lowest first)
     build_config_gen= the per-class loop of build_config along the reversed MRO; the two recognised shapes of that
                       loop are selected by the generated source fact Gen.ConfigClasses.layering_interleaved
     effective       = ConfigBackedParser.parse_known_args: argparse defaults < config (minus 'Ignore') < flags
     installed_ignore= the mapping handed to set_notebook_diff_ignores
   Dictionaries are association lists; key order is unobservable (the harness compares canonical forms, [jcanon]).

   Specification (written from docs/source/config.rst and the property statement, independent of the model):
     spec_effective  = flag, else the most specific documented section that sets the option (each section resolved
                       over the files by priority, null = unset), else the built-in default
     spec_ignore_path= the same rule per path of the 'Ignore' mapping. *)
From Coq Require Import List NArith ZArith Bool String.
From NB Require Import Base.Json.
From NB Require Import Base.Res.
From NB Require Import Diff.Codec.
From NB Require Import Gen.ConfigClasses.
Import ListNotations.
Local Open Scope list_scope.

Definition dict := list (pystr * json).

Fixpoint dget (k : pystr) (d : dict) : option json :=
  match d with
  | [] => None
  | (k', v) :: r => if str_eqb k k' then Some v else dget k r
  end.

Fixpoint dset (k : pystr) (v : json) (d : dict) : dict :=
  match d with
  | [] => [(k, v)]
  | (k', v') :: r => if str_eqb k k' then (k, v) :: r else (k', v') :: dset k v r
  end.

Fixpoint ddel (k : pystr) (d : dict) : dict :=
  match d with
  | [] => []
  | (k', v') :: r => if str_eqb k k' then ddel k r else (k', v') :: ddel k r
  end.

(* Python truth value *)
Definition truthy (j : json) : bool :=
  match j with
  | JNull => false
  | JBool b => b
  | JInt z => negb (Z.eqb z 0)
  | JFlt m _ => negb (Z.eqb m 0)
  | JStr s => match s with [] => false | _ => true end
  | JArr l => match l with [] => false | _ => true end
  | JObj kv => match kv with [] => false | _ => true end
  end.

(* recursive_update(target, new, include_none) -- returns the updated target.
   for k, v in new.items():
       if isinstance(v, dict):
           if k not in target: target[k] = {}
           recursive_update(target[k], v, include_none)
           if not include_none and not target[k]: del target[k]
       elif not include_none and v is None: target.pop(k, None)
       else: target[k] = v
   A non-dict [new] has no .items(); a non-dict [target] fails on the first item (no item: nothing happens). *)
Fixpoint rupd (inc : bool) (new target : json) {struct new} : res json :=
  match new with
  | JObj kv =>
      (fix go (kv : dict) (target : json) {struct kv} : res json :=
         match kv with
         | [] => Ok target
         | (k, v) :: rest =>
             match target with
             | JObj t =>
                 do t' <- match v with
                          | JObj _ =>
                              let sub := match dget k t with Some s => s | None => JObj [] end in
                              do s' <- rupd inc v sub;
                              Ok (if negb inc && negb (truthy s') then ddel k t else dset k s' t)
                          | JNull => Ok (if inc then dset k v t else ddel k t)
                          | _ => Ok (dset k v t)
                          end;
                 go rest (JObj t')
             | _ => Err TypeError
             end
         end) kv target
  | _ => Err TypeError
  end.

Fixpoint fold_res {A} (f : json -> A -> res json) (acc : json) (l : list A) : res json :=
  match l with
  | [] => Ok acc
  | x :: r => do a <- f acc x; fold_res f a r
  end.

(* `if config: yield config` skips empty files *)
Definition layer_file (inc : bool) (acc f : json) : res json :=
  if truthy f then rupd inc f acc else Ok acc.

(* files: descending priority (cwd first), loaded backwards *)
Definition load_disk (inc : bool) (files : list json) : res json :=
  fold_res (layer_file inc) (JObj []) (rev files).

Record cls := mkcls { c_name : pystr; c_own : dict }.

Definition apply_defaults (inc : bool) (config : json) (c : cls) : res json :=
  rupd inc (JObj (c_own c)) config.

Definition apply_section (inc : bool) (disk : dict) (config : json) (c : cls) : res json :=
  match dget (c_name c) disk with
  | Some sec => rupd inc sec config
  | None => Ok config
  end.

Definition class_step (inc : bool) (disk : dict) (config : json) (c : cls) : res json :=
  do c1 <- apply_defaults inc config c; apply_section inc disk c1 c.

(* L: the NbdimeConfigurable classes of the reversed MRO, least specific first *)
Definition build_config_gen (interleaved : bool) (L : list cls) (inc : bool) (files : list json) : res json :=
  do disk <- load_disk inc files;
  match disk with
  | JObj d =>
      if interleaved then fold_res (class_step inc d) (JObj []) L
      else do c0 <- fold_res (apply_defaults inc) (JObj []) L; fold_res (apply_section inc d) c0 L
  | _ => Err TypeError
  end.

(* ---------- instantiation with the generated tables ---------- *)
Fixpoint alookup {A} (k : pystr) (l : list (pystr * A)) : option A :=
  match l with
  | [] => None
  | (k', v) :: r => if str_eqb k k' then Some v else alookup k r
  end.

Definition own_of (c : pystr) : dict := match alookup c class_own with Some d => d | None => [] end.

Definition classes_of (ep : pystr) : list cls :=
  match alookup ep ep_mro with
  | Some l => map (fun n => mkcls n (own_of n)) l
  | None => []
  end.

Definition known_ep (ep : pystr) : bool := match alookup ep entrypoints with Some _ => true | None => false end.

Definition build_config (ep : pystr) (inc : bool) (files : list json) : res json :=
  if known_ep ep then build_config_gen layering_interleaved (classes_of ep) inc files else Err ValueError.

Definition kIgnore : pystr := of_ascii "Ignore".

Definition pdefault (ep o : pystr) : json :=
  match alookup ep parser_defaults with
  | Some d => match dget o d with Some v => v | None => JNull end
  | None => JNull
  end.

(* value of option o in the namespace the entry point's parser returns; flags: dest -> parsed value *)
Definition effective (ep : pystr) (files : list json) (flags : dict) (o : pystr) : res json :=
  do cfg <- build_config ep false files;
  match cfg with
  | JObj c =>
      Ok (match dget o flags with
          | Some v => v
          | None => match dget o (ddel kIgnore c) with Some v => v | None => pdefault ep o end
          end)
  | _ => Err TypeError
  end.

Definition installed_ignore (ep : pystr) (files : list json) : res json :=
  do cfg <- build_config ep false files;
  match cfg with
  | JObj c => Ok (match dget kIgnore c with Some i => i | None => JObj [] end)
  | _ => Err TypeError
  end.

(* canonical form: object keys sorted (insertion sort by code-point order) *)
Fixpoint ins_kv (k : pystr) (v : json) (l : dict) : dict :=
  match l with
  | [] => [(k, v)]
  | (k', v') :: r => if str_ltb k k' then (k, v) :: l else (k', v') :: ins_kv k v r
  end.

Fixpoint jcanon (j : json) : json :=
  match j with
  | JArr l => JArr (map jcanon l)
  | JObj kv => JObj ((fix go (kv : dict) : dict :=
                        match kv with [] => [] | (k, v) :: r => ins_kv k (jcanon v) (go r) end) kv)
  | _ => j
  end.

Definition canon_res (r : res json) : res json := match r with Ok j => Ok (jcanon j) | Err e => Err e end.

(* ---------- the documented rule ---------- *)
(* specificity order of the shared sections, from the property statement: the entry point's own section, then its
   git-specific, diff or merge, web-tool, web and global sections *)
Definition specificity : list pystr :=
  [of_ascii "GitDiff"; of_ascii "GitMerge"; of_ascii "Diff"; of_ascii "Merge"; of_ascii "WebTool"; of_ascii "Web";
   of_ascii "Global"].

Definition documented_for (cn S : pystr) : bool :=
  match alookup S documented with Some l => existsb (str_eqb cn) l | None => false end.

(* most specific first *)
Definition spec_sections (ep : pystr) : list pystr :=
  match alookup ep entrypoints with
  | Some cn => cn :: filter (documented_for cn) specificity
  | None => []
  end.

Definition get2 (a b : pystr) (d : dict) : option json :=
  match dget a d with Some (JObj s) => dget b s | _ => None end.

Definition file_get (f : json) (S o : pystr) : option json :=
  match f with JObj d => get2 S o d | _ => None end.

Definition file_get_ign (f : json) (S p : pystr) : option json :=
  match f with JObj d => match dget S d with Some (JObj s) => get2 kIgnore p s | _ => None end | _ => None end.

(* "None deletes": an explicit null means unset; the highest-priority file that mentions the key decides *)
Definition ov (n t : option json) : option json :=
  match n with Some JNull => None | Some v => Some v | None => t end.

Fixpoint files_get (get : json -> option json) (files : list json) : option json :=
  match files with
  | [] => None
  | f :: r => ov (get f) (files_get get r)
  end.

Fixpoint first_set (look : pystr -> option json) (secs : list pystr) : option json :=
  match secs with
  | [] => None
  | s :: r => match look s with Some v => Some v | None => first_set look r end
  end.

Fixpoint mdefault (o : pystr) (M : list cls) : option json :=   (* M most specific first *)
  match M with
  | [] => None
  | c :: r => match dget o (c_own c) with Some JNull => None | Some d => Some d | None => mdefault o r end
  end.

(* the built-in default: the trait default of the most specific class declaring the option, else argparse's *)
Definition builtin_default (ep o : pystr) : json :=
  match mdefault o (rev (classes_of ep)) with Some d => d | None => pdefault ep o end.

Definition spec_effective (ep : pystr) (files : list json) (flags : dict) (o : pystr) : json :=
  match dget o flags with
  | Some v => v
  | None =>
      match first_set (fun S => files_get (fun f => file_get f S o) files) (spec_sections ep) with
      | Some v => v
      | None => builtin_default ep o
      end
  end.

Definition spec_ignore_path (ep : pystr) (files : list json) (p : pystr) : option json :=
  first_set (fun S => files_get (fun f => file_get_ign f S p) files) (spec_sections ep).

(* ---------- the input space: assignments of values to options of documented sections ---------- *)
Definition has_option (S o : pystr) : bool :=
  match alookup S class_traits with Some l => existsb (str_eqb o) l | None => false end.

Definition allowed_section (S : pystr) : bool :=
  existsb (str_eqb S) (map fst documented) || existsb (str_eqb S) (map snd entrypoints).

Definition nondict (j : json) : bool := match j with JObj _ => false | _ => true end.

Fixpoint nodupb (l : list pystr) : bool :=
  match l with [] => true | k :: r => negb (existsb (str_eqb k) r) && nodupb r end.

Definition wf_ignb (j : json) : bool :=
  match j with JObj kv => nodupb (map fst kv) && forallb (fun p => nondict (snd p)) kv | _ => false end.

Definition wf_itemb (S : pystr) (p : pystr * json) : bool :=
  has_option S (fst p) && (if str_eqb (fst p) kIgnore then wf_ignb (snd p) else nondict (snd p)).

Definition wf_secb (S : pystr) (j : json) : bool :=
  match j with JObj kv => nodupb (map fst kv) && forallb (wf_itemb S) kv | _ => false end.

Definition wf_fileb (j : json) : bool :=
  match j with
  | JObj kv => nodupb (map fst kv) && forallb (fun p => allowed_section (fst p) && wf_secb (fst p) (snd p)) kv
  | _ => false
  end.

Definition wf_filesb (files : list json) : bool := forallb wf_fileb files.

(* options an entry point's sections can set: its class's traits and those of its documented sections *)
Definition traits_of (c : pystr) : list pystr := match alookup c class_traits with Some l => l | None => [] end.
Definition options (ep : pystr) : list pystr := flat_map traits_of (spec_sections ep).

(* ---------- conformance of the class tables with the documented rule (decidable, per entry point and option) *)
Fixpoint list_str_eqb (a b : list pystr) : bool :=
  match a, b with
  | [], [] => true
  | x :: xs, y :: ys => str_eqb x y && list_str_eqb xs ys
  | _, _ => false
  end.

(* classes (most specific first) whose disk section can still reach option o: with the interleaved layering
   everything less specific than the first class declaring o is overwritten by that class's default *)
Fixpoint trunc_names (o : pystr) (M : list cls) : list pystr :=
  match M with
  | [] => []
  | c :: r => match dget o (c_own c) with Some _ => [c_name c] | None => c_name c :: trunc_names o r end
  end.

Definition reach_names (interleaved : bool) (o : pystr) (M : list cls) : list pystr :=
  if interleaved then trunc_names o M else map c_name M.

Definition inA (o S : pystr) : bool := allowed_section S && has_option S o.

Definition conforms (ep o : pystr) : bool :=
  list_str_eqb (filter (inA o) (reach_names layering_interleaved o (rev (classes_of ep))))
               (filter (inA o) (spec_sections ep)).

Definition ignore_default_empty (c : cls) : bool :=
  match dget kIgnore (c_own c) with None => true | Some (JObj []) => true | _ => false end.

Definition conforms_ign (ep : pystr) : bool :=
  forallb ignore_default_empty (classes_of ep) &&
  list_str_eqb (filter (inA kIgnore) (map c_name (rev (classes_of ep)))) (filter (inA kIgnore) (spec_sections ep)).

(* well-formedness of the generated class tables themselves *)
Definition wf_ownb (d : dict) : bool :=
  nodupb (map fst d) &&
  forallb (fun p => if str_eqb (fst p) kIgnore then wf_ignb (snd p) else nondict (snd p)) d.

Definition tables_wfb : bool :=
  forallb (fun e => forallb (fun c => wf_ownb (c_own c)) (classes_of (fst e))) entrypoints.

Definition ep_names : list pystr := map fst entrypoints.

(* ---------- comparison helpers for the generated correspondence cases (harness/props/c19.py) ---------- *)
Definition res_eqb (a b : res json) : bool :=
  match a, b with
  | Ok x, Ok y => json_eqb x y
  | Err _, Err _ => true
  | _, _ => false
  end.

Definition check_cfg (ep : pystr) (files : list json) (exp exp_none : res json) : bool :=
  res_eqb (canon_res (build_config ep false files)) exp && res_eqb (canon_res (build_config ep true files)) exp_none.

Definition check_ns (ep : pystr) (files : list json) (flags : dict) (exp : dict) (exp_ign : json) : bool :=
  forallb (fun p => res_eqb (canon_res (effective ep files flags (fst p))) (Ok (snd p))) exp &&
  res_eqb (canon_res (installed_ignore ep files)) (Ok exp_ign).

Definition failing (l : list (N * bool)) : list N := map fst (filter (fun p => negb (snd p)) l).
