(* What a key filter (notebooks.diff_ignore_keys) means for the patched document: filtering a correct
   object diff leaves a diff that still applies, and applying it gives the target at every key that is
   not ignored and keeps the BASE value (or absence) at every ignored key -- "applying it still
   reproduces the target in every non-ignored part" (C14), at the level where the filter acts. *)
From Coq Require Import List NArith Bool Lia.
From NB Require Import Base.Res Base.Json Base.PyStr Diff.DiffFormat Diff.Patch Diff.GenericDiff Diff.Wf
     Diff.DictProofs Diff.DictWf Diff.MasterProofs Diff.SpecProofs Diff.NbGood.
Import ListNotations.

Definition key_kept (ks : list pystr) (e : dentry) : bool :=
  match dkey e with KS k => negb (existsb (str_eqb k) ks) | KI _ => true end.

Lemma NoDup_map_filter {A B} (f : A -> B) (p : A -> bool) (l : list A) :
  NoDup (map f l) -> NoDup (map f (filter p l)).
Proof.
  induction l as [|x l IH]; intros H; [constructor|]. cbn [map] in H. inversion H as [|? ? Hni Hnd]; subst.
  cbn [filter]. destruct (p x); [|apply IH; exact Hnd]. cbn [map]. constructor; [|apply IH; exact Hnd].
  intros Hin. apply Hni. apply in_map_iff in Hin as (y & Ey & Hy). apply filter_In in Hy as [Hy _].
  apply in_map_iff. exists y. split; assumption.
Qed.

Section Filter.
  Variable rec : json -> diff -> res json.
  Variable kv : list (pystr * json).
  Variable ks : list pystr.

  Lemma find_entry_filter k : forall d, Forall (entry_ok rec kv) d ->
    find_entry k (filter (key_kept ks) d) = if existsb (str_eqb k) ks then None else find_entry k d.
  Proof.
    induction d as [|e d IH]; intros Hok; [destruct (existsb _ ks); reflexivity|].
    inversion Hok as [|? ? He Hok']; subst. cbn [filter]. unfold key_kept at 1.
    assert (Hke : exists ke, dkey e = KS ke).
    { destruct e as [[i|s] v|[i|s]|[i|s] v|[i|s] vs|[i|s] len|[i|s] dd]; cbn in He; try contradiction; eexists; reflexivity. }
    destruct Hke as (ke & Eke). rewrite Eke.
    destruct (existsb (str_eqb ke) ks) eqn:Ein; cbn [negb].
    - rewrite (IH Hok'). cbn [find_entry]. rewrite Eke.
      destruct (existsb (str_eqb k) ks) eqn:Ek; [reflexivity|].
      destruct (str_eqb k ke) eqn:E; [|reflexivity]. apply str_eqb_eq in E. subst ke. congruence.
    - cbn [find_entry]. rewrite Eke. destruct (str_eqb k ke) eqn:E.
      + apply str_eqb_eq in E. subst ke. rewrite Ein. reflexivity.
      + apply IH. exact Hok'.
  Qed.

  Theorem filtered_dict_patch d r :
    Forall (entry_ok rec kv) d -> NoDup (dkeys d) -> patch_dict rec kv d = Ok r ->
    exists r', patch_dict rec kv (filter (key_kept ks) d) = Ok r' /\ keys_sorted r' = true
               /\ forall k, obj_get k r' = if existsb (str_eqb k) ks then obj_get k kv else obj_get k r.
  Proof.
    intros Hok Hnd Hr.
    assert (Hok' : Forall (entry_ok rec kv) (filter (key_kept ks) d)).
    { rewrite Forall_forall in *. intros e He. apply filter_In in He as [He _]. apply Hok. exact He. }
    assert (Hnd' : NoDup (dkeys (filter (key_kept ks) d))) by (apply NoDup_map_filter; exact Hnd).
    destruct (patch_dict_spec rec kv d Hok Hnd) as (r0 & Hr0 & _ & Hg0). rewrite Hr in Hr0. inversion Hr0; subst r0.
    destruct (patch_dict_spec rec kv _ Hok' Hnd') as (r' & Hr' & Sr' & Hg').
    exists r'. split; [exact Hr'|]. split; [exact Sr'|].
    intros k. rewrite Hg', Hg0. unfold dmeaning. rewrite (find_entry_filter k d Hok).
    destruct (existsb (str_eqb k) ks); reflexivity.
  Qed.
End Filter.

(* in terms of a good diff of two objects: the filtered diff patches the base into the target except at the
   ignored keys, which keep what the base has *)
Theorem ignore_keys_semantics ka kb d ks :
  wfj (JObj ka) = true -> Good (JObj ka) (JObj kb) d ->
  forall m, depth (JObj ka) < m ->
  exists r', patch m (JObj ka) (filter (key_kept ks) d) = Ok (JObj r') /\ keys_sorted r' = true
             /\ forall k, obj_get k r' = if existsb (str_eqb k) ks then obj_get k ka else obj_get k kb.
Proof.
  intros Hwa (_ & _ & Hp & Hw) m Hm. destruct m as [|m']; [lia|].
  specialize (Hp (S m') Hm). specialize (Hw (S m') Hm). rewrite wf_diff_obj in Hw.
  destruct (wf_map_entries (wf_diff m') (patch m') (spec_patch m') ka) with (d := d) (prev := @None pystr) as (H1 & H2 & _); [|exact Hw|].
  { intros k x dd Hx Hwf. apply (patch_is_spec m' x dd (wfj_in_obj ka k x Hwa Hx) Hwf m' (le_n _)). }
  assert (Hok : Forall (entry_ok (patch m') ka) d).
  { rewrite Forall_forall in *. intros e He. apply entry_spec_entry_ok with (sub := spec_patch m'). apply H1. exact He. }
  cbn [patch] in Hp. apply bind_ok in Hp as (r & Hr & E). inversion E; subst r.
  destruct (filtered_dict_patch (patch m') ka ks d kb Hok H2 Hr) as (r' & Hr' & Sr' & Hg).
  exists r'. cbn [patch]. rewrite Hr'. repeat split; assumption.
Qed.

(* the differ-level statement: a key filter around a differ whose diff is good patches the base into the target except at
   the ignored keys, where the base's value (or absence) stays *)
From NB Require Import Diff.GenericDiff.
Theorem run_ignore_keys_semantics O cfg n inner ks path ka kb d0 :
  wfj (JObj ka) = true ->
  run O cfg n inner path (JObj ka) (JObj kb) = Ok d0 -> Good (JObj ka) (JObj kb) d0 ->
  exists d, run O cfg (S n) (DfIgnoreKeys inner ks) path (JObj ka) (JObj kb) = Ok d
    /\ forall m, depth (JObj ka) < m ->
       exists r', patch m (JObj ka) d = Ok (JObj r') /\ keys_sorted r' = true
                  /\ forall k, obj_get k r' = if existsb (str_eqb k) ks then obj_get k ka else obj_get k kb.
Proof.
  intros Hw Hr Hg. cbn [run]. rewrite Hr. cbn [bind]. eexists. split; [reflexivity|].
  intros m Hm. exact (ignore_keys_semantics ka kb d0 ks Hw Hg m Hm).
Qed.
