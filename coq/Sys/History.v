(* C12: the process-global state nbdime's differ consults -- the path -> differ override table
   (notebook_differs) and the explicit keys of the predicate table (notebook_predicates) -- as a
   state machine over the operations a long-lived process performs. *)
From Coq Require Import List NArith String Bool.
From NB Require Import Base.Json Diff.Codec Diff.GenericDiff Gen.NbConfig.
Import ListNotations.

Definition table := list (pystr * differ).

Fixpoint tget (p : pystr) (t : table) : option differ :=
  match t with
  | [] => None
  | (q, d) :: r => if str_eqb p q then Some d else tget p r
  end.

Fixpoint tdel (p : pystr) (t : table) : table :=
  match t with
  | [] => []
  | (q, d) :: r => if str_eqb p q then tdel p r else (q, d) :: tdel p r
  end.

Definition tset (p : pystr) (d : differ) (t : table) : table := (p, d) :: tdel p t.

(* the default differ of a path: notebook_differs.default_values, else the default factory *)
Definition default_differ (p : pystr) : differ := get_differ nb_config p.

(* what a lookup notebook_differs[p] returns *)
Definition lookup (t : table) (p : pystr) : differ :=
  match tget p t with Some d => d | None => default_differ p end.

Inductive ignore_value := IgTrue | IgFalse | IgKeys (ks : list pystr).

(* set_notebook_diff_ignores, one entry *)
Definition set_ignore (t : table) (e : pystr * ignore_value) : table :=
  match snd e with
  | IgTrue => tset (fst e) DfIgnore t
  | IgFalse => tdel (fst e) t
  | IgKeys ks => tset (fst e) (DfIgnoreKeys (lookup t (fst e)) ks) t
  end.

Definition set_ignores (t : table) (m : list (pystr * ignore_value)) : table := fold_left set_ignore m t.

Definition when {A} (b : bool) (l : list A) : list A := if b then l else [].
Definition bool_ig (b : bool) : ignore_value := if b then IgTrue else IgFalse.

(* set_notebook_diff_targets(sources, outputs, attachments, metadata, identifier, details); arguments
   are "shown" flags.  [reset_keys] is the source fact "the key filters are first reset to defaults". *)
Definition targets_mapping (s o a m i d : bool) : list (pystr * ignore_value) :=
  let cell_keys := when (negb d) [of_ascii "execution_count"%string] ++ when (negb i) [of_ascii "id"%string]
                   ++ when (negb a) [of_ascii "attachments"%string] ++ when (negb o) [of_ascii "outputs"%string] in
  [ (of_ascii "/cells/*/source"%string, bool_ig (negb s));
    (of_ascii "/cells/*/outputs"%string, bool_ig (negb o));
    (of_ascii "/cells/*/attachments"%string, bool_ig (negb a));
    (of_ascii "/metadata"%string, bool_ig (negb m));
    (of_ascii "/cells/*/id"%string, bool_ig (negb i));
    (of_ascii "/cells/*/metadata"%string, bool_ig (negb m));
    (of_ascii "/cells/*/outputs/*/metadata"%string, bool_ig (negb m));
    (of_ascii "/cells/*"%string, match cell_keys with [] => IgFalse | _ => IgKeys cell_keys end);
    (of_ascii "/cells/*/outputs/*"%string, if d then IgFalse else IgKeys [of_ascii "execution_count"%string]) ].

Definition set_targets (t : table) (s o a m i d : bool) : table :=
  set_ignores (set_ignores t [(of_ascii "/cells/*"%string, IgFalse); (of_ascii "/cells/*/outputs/*"%string, IgFalse)])
              (targets_mapping s o a m i d).

Inductive op :=
| OpDiff (looked_up : list pystr)         (* a diff or merge: it looks differs up, which stores defaults *)
| OpTargets (s o a m i d : bool)
| OpIgnores (m : list (pystr * ignore_value))
| OpReset.

(* defaultdict2.__missing__ stores the looked-up default under the key *)
Definition store_defaults (t : table) (ps : list pystr) : table :=
  fold_left (fun t p => match tget p t with Some _ => t | None => (p, default_differ p) :: t end) ps t.

Definition step (t : table) (o : op) : table :=
  match o with
  | OpDiff ps => store_defaults t ps
  | OpTargets s o a m i d => set_targets t s o a m i d
  | OpIgnores m => set_ignores t m
  | OpReset => []
  end.

Definition run_history (h : list op) : table := fold_left step h [].

Definition is_config (o : op) : bool := match o with OpDiff _ => false | _ => true end.
