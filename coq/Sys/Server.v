(* Model of nbdime's local web server API (nbdime/webapp/nbdimeserver.py) for property C20.

   One Gallina function per piece of the Python source:
     join / rstrip_slash / contains_scheme / py_int     posixpath.join, str.rstrip('/'), '://' in arg, int(s, 10)
     prefix, route                                      make_app: base_url prefix rule and the route table
     read_notebook                                      NbdimeHandler.read_notebook            (lines 70-114)
     body_arg, notebook_argument                        get_notebook_argument + tool overrides (116-121, 234-242, 269-273)
     diff_post, merge_post, store_post, close_post      the four API handlers                  (217-322)
     handle_gen                                         Tornado dispatch: 404 / 405 / handler, uncaught exception => 500
     serve_gen                                          main_server: requests one after the other until the loop is stopped

   Everything read off the source by tools/gen/gen_server.py arrives through Gen/ServerFacts.v (route table,
   implemented methods, status codes by site, argument names, fail_on_empty flags, EXPLICIT_MISSING_FILE and the
   ORDER in which the store handler opens its file and serialises the notebook).  The libraries are Section
   variables with no hypotheses: nbformat (reading, serialising), nbdime's differ and merger, the kernel's path
   resolution and the network.  The model is executable once they are instantiated; harness/props/c20.py
   instantiates them with finite tables recorded from the real libraries and compares [serve_gen] with the real
   server request by request. *)
From Coq Require Import List NArith ZArith Bool Lia String.
From NB Require Import Base.Json.
From NB Require Import Gen.ServerFacts.
Import ListNotations.
Local Open Scope string_scope.
Local Open Scope list_scope.

(* ---------------------------------------------------------------- strings *)
Definition slash : N := 47%N.

Definition starts_with_slash (s : pystr) : bool :=
  match s with c :: _ => N.eqb c slash | [] => false end.

Fixpoint ends_with_slash (s : pystr) : bool :=
  match s with
  | [] => false
  | [c] => N.eqb c slash
  | _ :: r => ends_with_slash r
  end.

(* posixpath.join(a, b) *)
Definition join (a b : pystr) : pystr :=
  if starts_with_slash b then b
  else match a with
       | [] => b
       | _ => if ends_with_slash a then a ++ b else a ++ slash :: b
       end.

(* s.rstrip('/') *)
Fixpoint rstrip_slash (s : pystr) : pystr :=
  match s with
  | [] => []
  | c :: r => match rstrip_slash r with
              | [] => if N.eqb c slash then [] else [c]
              | r' => c :: r'
              end
  end.

Fixpoint is_prefix (p s : pystr) : bool :=
  match p, s with
  | [], _ => true
  | _ :: _, [] => false
  | a :: p', b :: s' => N.eqb a b && is_prefix p' s'
  end.

(* '://' in s *)
Fixpoint contains_scheme (s : pystr) : bool :=
  match s with
  | [] => false
  | _ :: r => is_prefix [58%N; 47%N; 47%N] s || contains_scheme r
  end.

(* int(s, 10) restricted to [+-]?[0-9]+ ; None = ValueError.  (Python also accepts surrounding white space,
   underscores and non-ASCII digits: outside the generated input space, see notes/C20.md.) *)
Definition digit (c : N) : option Z :=
  if (N.leb 48 c && N.leb c 57)%bool then Some (Z.of_N (c - 48)) else None.

Fixpoint digits (s : pystr) (acc : Z) : option Z :=
  match s with
  | [] => Some acc
  | c :: r => match digit c with Some d => digits r (acc * 10 + d)%Z | None => None end
  end.

Definition py_int (s : pystr) : option Z :=
  match s with
  | [] => None
  | c :: r =>
      if N.eqb c 45 then match r with [] => None | _ => option_map Z.opp (digits r 0%Z) end
      else if N.eqb c 43 then match r with [] => None | _ => digits r 0%Z end
      else digits s 0%Z
  end.

(* ---------------------------------------------------------------- requests, start-up parameters *)
Inductive meth := GET | POST | OtherMethod.

(* the request body as the handlers can see it *)
Inductive bodyv :=
| BBadUtf8                (* bytes that are not UTF-8 *)
| BNotJson                (* text json.loads rejects (JSONDecodeError), including the empty body *)
| BJson (j : json).

Record request := {
  rq_method : meth;
  rq_path : pystr;
  rq_query_exit : option pystr;    (* value of the query argument exitCode, if present *)
  rq_hdr_exit : option pystr;      (* value of the header exit_code, if present *)
  rq_body : bodyv }.

Inductive mode :=
| Plain
| DiffTool (base remote : pystr)               (* difftool_args *)
| MergeTool (base local remote : pystr).       (* mergetool_args *)

Record params := {
  p_cwd : option pystr;            (* 'cwd'; None = os.curdir *)
  p_out : option pystr;            (* 'outputfilename' *)
  p_closable : bool;               (* 'closable' *)
  p_mode : mode;
  p_base_url : pystr }.

Definition curdir (p : params) : pystr :=
  match p_cwd p with Some c => c | None => [46%N] end.

Definition prefix (p : params) : pystr :=
  if str_eqb (p_base_url p) [slash] then [] else rstrip_slash (p_base_url p).

Fixpoint route_in (rs : list (pystr * handler)) (pre path : pystr) : option handler :=
  match rs with
  | [] => None
  | (pat, h) :: rest => if str_eqb (pre ++ pat) path then Some h else route_in rest pre path
  end.

Definition route (p : params) (path : pystr) : option handler := route_in routes (prefix p) path.

Definition st_ok : N := 200%N.
Definition st_uncaught : N := 500%N.       (* Tornado: any exception that is not an HTTPError *)
Definition st_not_found : N := 404%N.      (* Tornado: no route matches *)
Definition st_no_method : N := 405%N.      (* Tornado: handler does not implement the method *)

Definition k_merged : pystr := sf_str "merged".
Definition k_exit : pystr := sf_str "exitCode".

Section Server.
  Variables text nbT diffT decT : Type.

  Inductive rdres := RdOk (n : nbT) | RdNotJSON | RdFail.
  Inductive fetchres := FText (t : text) | FHttpError | FOther.

  Variable nb_read : text -> rdres.                  (* nbformat.read / nbformat.reads(.., as_version=4) of a content *)
  Variable text_empty : text -> bool.                (* len(fo.read(10)) == 0 *)
  Variable empty_text : text.                        (* content of a file just opened with mode 'w' *)
  Variable new_nb : nbT.                             (* nbformat.v4.new_notebook() *)
  Variable lib_diff : nbT -> nbT -> option diffT.    (* nbdime.diff_notebooks; None = raises *)
  Variable lib_merge : nbT -> nbT -> nbT -> option decT.  (* decide_notebook_merge(.., args=mergetool defaults); None = raises *)
  Variable nb_serialize : json -> option text.       (* nbformat.from_dict, then the text nbformat.write produces; None = raises *)
  Variable resolve : pystr -> pystr.                 (* which file-system object a path string names *)
  Variable fetch : pystr -> fetchres.                (* requests.get(url) + raise_for_status *)

  (* ---- file system: one node per resolved name *)
  Inductive node := Absent | NoParent | Dir | File (t : text).
  Definition fs := pystr -> node.

  Definition upd (f : fs) (k : pystr) (v : node) : fs := fun k' => if str_eqb k' k then v else f k'.

  Definition exists_ (n : node) : bool := match n with Dir | File _ => true | _ => false end.

  (* io.open(path, 'w'): create or truncate; fails on directories and missing parents *)
  Definition open_w (f : fs) (k : pystr) : option fs :=
    match f k with
    | Dir | NoParent => None
    | Absent | File _ => Some (upd f k (File empty_text))
    end.

  (* ---- responses *)
  Inductive rbody :=
  | RbDiff (b : nbT) (d : diffT)       (* {"base": .., "diff": ..} *)
  | RbMerge (b : nbT) (d : decT)       (* {"base": .., "merge_decisions": ..} *)
  | RbEmpty                            (* self.finish() *)
  | RbPage                             (* a rendered template *)
  | RbError.

  (* mutable server state: Application.settings['merge_args'] (cached on first use) and Application.exit_code *)
  Record sstate := { ss_merge_args : bool; ss_exit : json }.
  Definition sstate0 : sstate := {| ss_merge_args := false; ss_exit := JInt 0 |}.

  Record outcome := { o_status : N; o_body : rbody; o_fs : fs; o_st : sstate; o_stop : bool }.

  Definition fail_with (code : N) (f : fs) (st : sstate) : outcome :=
    {| o_status := code; o_body := RbError; o_fs := f; o_st := st; o_stop := false |}.

  (* ---- NbdimeHandler.read_notebook *)
  Definition read_text (t : text) (plain_ok : bool) (fail_on_empty : bool) : N + nbT :=
    match nb_read t with
    | RdOk n => inr n
    | RdNotJSON =>
        if plain_ok then
          (if fail_on_empty then inl st_unreadable
           else if text_empty t then inr new_nb else inl st_unreadable)
        else inl st_unreadable
    | RdFail => inl st_unreadable
    end.

  Definition read_notebook (p : params) (f : fs) (arg : json) (fail_on_empty : bool) : N + nbT :=
    match arg with
    | JStr a =>
        if str_eqb a explicit_missing then inr new_nb
        else
          match f (resolve (join (curdir p) a)) with
          | File t => read_text t true fail_on_empty
          | Dir => inl st_unreadable                      (* nbformat.read on a directory raises *)
          | Absent | NoParent =>
              if contains_scheme a then
                match fetch a with
                | FText t => read_text t false fail_on_empty
                | FHttpError => inl st_unreadable_http
                | FOther => inl st_unreadable
                end
              else inl st_unreadable                      (* ValueError('Supplied argument cannot be read') *)
          end
    | _ => inl st_arg_not_str
    end.

  (* body = json.loads(escape.to_unicode(self.request.body)); arg = body[argname]   -- None = some exception *)
  Definition body_arg (b : bodyv) (name : pystr) : option json :=
    match b with
    | BJson (JObj kv) => obj_get name kv
    | _ => None
    end.

  Inductive endpoint := EDiff | EMerge.

  (* get_notebook_argument with the overrides of ApiDiffHandler / ApiMergeHandler *)
  Definition tool_arg (p : params) (e : endpoint) (name : pystr) : option (pystr * bool) :=
    match e, p_mode p with
    | EDiff, DiffTool b r =>
        if str_eqb name (sf_str "base") then Some (b, difftool_fail_on_empty)
        else if str_eqb name (sf_str "remote") then Some (r, difftool_fail_on_empty) else None
    | EMerge, MergeTool b l r =>
        if str_eqb name (sf_str "base") then Some (b, mergetool_fail_on_empty)
        else if str_eqb name (sf_str "local") then Some (l, mergetool_fail_on_empty)
        else if str_eqb name (sf_str "remote") then Some (r, mergetool_fail_on_empty) else None
    | _, _ => None
    end.

  Definition uses_body (p : params) (e : endpoint) : bool :=
    match e, p_mode p with
    | EDiff, DiffTool _ _ => false
    | EMerge, MergeTool _ _ _ => false
    | _, _ => true
    end.

  Definition notebook_argument (p : params) (f : fs) (e : endpoint) (rq : request) (name : pystr) : N + nbT :=
    if uses_body p e then
      match body_arg (rq_body rq) name with
      | None => inl st_uncaught
      | Some a => read_notebook p f a true
      end
    else
      match tool_arg p e name with
      | Some (a, foe) => read_notebook p f (JStr a) foe
      | None => inl st_uncaught                           (* KeyError: cannot happen for the generated names *)
      end.

  Fixpoint notebook_arguments (p : params) (f : fs) (e : endpoint) (rq : request) (names : list pystr) : N + list nbT :=
    match names with
    | [] => inr []
    | n :: rest =>
        match notebook_argument p f e rq n with
        | inl c => inl c
        | inr x => match notebook_arguments p f e rq rest with inl c => inl c | inr xs => inr (x :: xs) end
        end
    end.

  (* ---- ApiDiffHandler.post *)
  Definition diff_post (p : params) (st : sstate) (f : fs) (rq : request) : outcome :=
    match notebook_arguments p f EDiff rq diff_arg_names with
    | inl c => fail_with c f st
    | inr [b; r] =>
        match lib_diff b r with
        | Some d => {| o_status := st_ok; o_body := RbDiff b d; o_fs := f; o_st := st; o_stop := false |}
        | None => fail_with st_diff_fail f st
        end
    | inr _ => fail_with st_uncaught f st
    end.

  (* ---- ApiMergeHandler.post *)
  Definition merge_post (p : params) (st : sstate) (f : fs) (rq : request) : outcome :=
    match notebook_arguments p f EMerge rq merge_arg_names with
    | inl c => fail_with c f st
    | inr [b; l; r] =>
        let st1 := {| ss_merge_args := true; ss_exit := ss_exit st |} in
        match lib_merge b l r with
        | Some d => {| o_status := st_ok; o_body := RbMerge b d; o_fs := f; o_st := st1; o_stop := false |}
        | None => fail_with st_merge_fail f st1
        end
    | inr _ => fail_with st_uncaught f st
    end.

  (* ---- ApiMergeStoreHandler.post *)
  Definition out_key (p : params) : option pystr :=
    match p_out p with
    | None => None
    | Some [] => None                                    (* `if not fn` *)
    | Some fn => Some (resolve (join (curdir p) fn))
    end.

  Definition store_post (order : store_order_t) (p : params) (st : sstate) (f : fs) (rq : request) : outcome :=
    match out_key p with
    | None => fail_with st_store_refuse f st
    | Some k =>
        match body_arg (rq_body rq) k_merged with
        | None => fail_with st_uncaught f st
        | Some m =>
            match order with
            | OpenThenSerialise =>
                match open_w f k with
                | None => fail_with st_uncaught f st
                | Some f1 =>
                    match nb_serialize m with
                    | None => fail_with st_uncaught f1 st          (* the file stays truncated / created empty *)
                    | Some t => {| o_status := st_ok; o_body := RbEmpty; o_fs := upd f1 k (File t); o_st := st; o_stop := false |}
                    end
                end
            | SerialiseThenOpen =>
                match nb_serialize m with
                | None => fail_with st_uncaught f st
                | Some t =>
                    match open_w f k with
                    | None => fail_with st_uncaught f st
                    | Some f1 => {| o_status := st_ok; o_body := RbEmpty; o_fs := upd f1 k (File t); o_st := st; o_stop := false |}
                    end
                end
            end
        end
    end.

  (* ---- ApiCloseHandler.post *)
  Definition with_exit (st : sstate) (v : json) : sstate := {| ss_merge_args := ss_merge_args st; ss_exit := v |}.

  Definition close_value (rq : request) (fallback : Z) : option json :=
    match rq_query_exit rq with
    | Some s => Some (JStr s)                             (* self.get_argument('exitCode') *)
    | None =>
        match rq_body rq with
        | BBadUtf8 => None                                (* UnicodeDecodeError is not a JSONDecodeError *)
        | BNotJson => Some (JInt fallback)
        | BJson (JObj kv) => Some (match obj_get k_exit kv with Some v => v | None => JInt fallback end)
        | BJson _ => None                                 (* .get on a non-dict *)
        end
    end.

  Definition close_post (p : params) (st : sstate) (f : fs) (rq : request) : outcome :=
    if negb (p_closable p) then fail_with st_close_refuse f st
    else
      match (match rq_hdr_exit rq with None => Some 1%Z | Some s => py_int s end) with
      | None => fail_with st_uncaught f st
      | Some fallback =>
          match close_value rq fallback with
          | None => fail_with st_uncaught f st
          | Some (JStr s) =>
              match py_int s with
              | None => fail_with st_uncaught f (with_exit st (JStr s))     (* exit_code already assigned *)
              | Some z => {| o_status := st_ok; o_body := RbEmpty; o_fs := f; o_st := with_exit st (JInt z); o_stop := true |}
              end
          | Some v => {| o_status := st_ok; o_body := RbEmpty; o_fs := f; o_st := with_exit st v; o_stop := true |}
          end
      end.

  (* ---- Tornado dispatch *)
  Definition handle_gen (order : store_order_t) (p : params) (st : sstate) (f : fs) (rq : request) : outcome :=
    match route p (rq_path rq) with
    | None => fail_with st_not_found f st
    | Some h =>
        match rq_method rq with
        | OtherMethod => fail_with st_no_method f st
        | GET =>
            if has_get h then {| o_status := st_ok; o_body := RbPage; o_fs := f; o_st := st; o_stop := false |}
            else fail_with st_no_method f st
        | POST =>
            if has_post h then
              match h with
              | HApiDiff => diff_post p st f rq
              | HApiMerge => merge_post p st f rq
              | HApiStore => store_post order p st f rq
              | HApiClose => close_post p st f rq
              | _ => fail_with st_no_method f st
              end
            else fail_with st_no_method f st
        end
    end.

  Definition handle := handle_gen store_order.

  (* what a client and an observer of the disk can see of one request *)
  Record observed := { ob_status : N; ob_body : rbody; ob_fs : fs; ob_stop : bool }.
  Definition obs (o : outcome) : observed :=
    {| ob_status := o_status o; ob_body := o_body o; ob_fs := o_fs o; ob_stop := o_stop o |}.

  (* main_server: requests are answered one after the other until a handler stops the loop;
     returns the answers and the final disk, state (exit code) *)
  Fixpoint serve_gen (order : store_order_t) (p : params) (st : sstate) (f : fs) (rqs : list request)
    : list outcome * fs * sstate * bool :=
    match rqs with
    | [] => ([], f, st, false)
    | rq :: rest =>
        let o := handle_gen order p st f rq in
        if o_stop o then ([o], o_fs o, o_st o, true)
        else let '(os, f', st', stopped) := serve_gen order p (o_st o) (o_fs o) rest in (o :: os, f', st', stopped)
    end.

  Definition serve := serve_gen store_order.

  (* ---- what "malformed or unreadable request" means, endpoint by endpoint (for API POSTs that are routed) *)
  Definition arg_unusable (p : params) (f : fs) (e : endpoint) (rq : request) (name : pystr) : bool :=
    match notebook_argument p f e rq name with inl _ => true | inr _ => false end.

  Definition malformed (p : params) (f : fs) (rq : request) : bool :=
    match route p (rq_path rq), rq_method rq with
    | Some HApiDiff, POST => existsb (arg_unusable p f EDiff rq) diff_arg_names
    | Some HApiMerge, POST => existsb (arg_unusable p f EMerge rq) merge_arg_names
    | Some HApiStore, POST =>
        match body_arg (rq_body rq) k_merged with
        | None => true
        | Some m => match nb_serialize m with None => true | Some _ => false end
        end
    | Some HApiClose, POST =>
        match (match rq_hdr_exit rq with None => Some 1%Z | Some s => py_int s end) with
        | None => true
        | Some fb => match close_value rq fb with
                     | None => true
                     | Some (JStr s) => match py_int s with None => true | Some _ => false end
                     | Some _ => false
                     end
        end
    | _, _ => false
    end.

  (* the store request whose `merged` is present but cannot be serialised as a notebook *)
  Definition unserialisable_store (p : params) (rq : request) : bool :=
    match route p (rq_path rq), rq_method rq with
    | Some HApiStore, POST =>
        match body_arg (rq_body rq) k_merged with
        | Some m => match nb_serialize m with None => true | Some _ => false end
        | None => false
        end
    | _, _ => false
    end.

End Server.

Arguments RdOk {nbT} n.
Arguments RdNotJSON {nbT}.
Arguments RdFail {nbT}.
Arguments FText {text} t.
Arguments FHttpError {text}.
Arguments FOther {text}.
Arguments Absent {text}.
Arguments NoParent {text}.
Arguments Dir {text}.
Arguments File {text} t.
Arguments RbDiff {nbT diffT decT} b d.
Arguments RbMerge {nbT diffT decT} b d.
Arguments RbEmpty {nbT diffT decT}.
Arguments RbPage {nbT diffT decT}.
Arguments RbError {nbT diffT decT}.
