(* Theorems about the web-server model Sys/Server.v (property C20).  All statements quantify over every
   instantiation of the library variables (nbformat, differ, merger, path resolution, network), every start-up
   parameter record, every file system, every server state and every request / request sequence. *)
From Coq Require Import List NArith ZArith Bool Lia String.
From NB Require Import Base.Json.
From NB Require Import Gen.ServerFacts.
From NB Require Import Sys.Server.
Import ListNotations.
Local Open Scope string_scope.
Local Open Scope list_scope.

(* every status the source raises explicitly is an error status; fails to check if a site is changed to < 400 *)
Lemma statuses_are_errors :
  forallb (N.leb 400) [st_arg_not_str; st_unreadable_http; st_unreadable; st_diff_fail; st_merge_fail;
                       st_store_refuse; st_close_refuse; st_uncaught; st_not_found; st_no_method] = true.
Proof. vm_compute. reflexivity. Qed.

Ltac le_const := apply N.leb_le; vm_compute; reflexivity.
Lemma le_arg_not_str : (400 <= st_arg_not_str)%N. Proof. le_const. Qed.
Lemma le_unreadable_http : (400 <= st_unreadable_http)%N. Proof. le_const. Qed.
Lemma le_unreadable : (400 <= st_unreadable)%N. Proof. le_const. Qed.
Lemma le_diff_fail : (400 <= st_diff_fail)%N. Proof. le_const. Qed.
Lemma le_merge_fail : (400 <= st_merge_fail)%N. Proof. le_const. Qed.
Lemma le_store_refuse : (400 <= st_store_refuse)%N. Proof. le_const. Qed.
Lemma le_close_refuse : (400 <= st_close_refuse)%N. Proof. le_const. Qed.
Lemma le_uncaught : (400 <= st_uncaught)%N. Proof. le_const. Qed.
Lemma le_not_found : (400 <= st_not_found)%N. Proof. le_const. Qed.
Lemma le_no_method : (400 <= st_no_method)%N. Proof. le_const. Qed.

Ltac err_status :=
  first [ exact le_arg_not_str | exact le_unreadable_http | exact le_unreadable | exact le_diff_fail
        | exact le_merge_fail | exact le_store_refuse | exact le_close_refuse | exact le_uncaught
        | exact le_not_found | exact le_no_method | le_const ].

Lemma str_eqb_false_neq a b : a <> b -> str_eqb a b = false.
Proof.
  intros H. destruct (str_eqb a b) eqn:E; [|reflexivity]. apply str_eqb_eq in E. contradiction.
Qed.

Ltac dm :=
  repeat match goal with
         | |- context [match ?x with _ => _ end] => destruct x eqn:?; simpl in *; try discriminate; try congruence
         end.

Section Proofs.
  Variables text nbT diffT decT : Type.
  Variable nb_read : text -> rdres nbT.
  Variable text_empty : text -> bool.
  Variable empty_text : text.
  Variable new_nb : nbT.
  Variable lib_diff : nbT -> nbT -> option diffT.
  Variable lib_merge : nbT -> nbT -> nbT -> option decT.
  Variable nb_serialize : json -> option text.
  Variable resolve : pystr -> pystr.
  Variable fetch : pystr -> fetchres text.

  Local Notation fs := (fs text).
  Local Notation outcome := (outcome text nbT diffT decT).
  Local Notation handle_gen := (handle_gen text nbT diffT decT nb_read text_empty empty_text new_nb lib_diff lib_merge nb_serialize resolve fetch).
  Local Notation serve_gen := (serve_gen text nbT diffT decT nb_read text_empty empty_text new_nb lib_diff lib_merge nb_serialize resolve fetch).
  Local Notation diff_post := (diff_post text nbT diffT decT nb_read text_empty new_nb lib_diff resolve fetch).
  Local Notation merge_post := (merge_post text nbT diffT decT nb_read text_empty new_nb lib_merge resolve fetch).
  Local Notation store_post := (store_post text nbT diffT decT empty_text nb_serialize resolve).
  Local Notation close_post := (close_post text nbT diffT decT).
  Local Notation notebook_argument := (notebook_argument text nbT nb_read text_empty new_nb resolve fetch).
  Local Notation notebook_arguments := (notebook_arguments text nbT nb_read text_empty new_nb resolve fetch).
  Local Notation read_notebook := (read_notebook text nbT nb_read text_empty new_nb resolve fetch).
  Local Notation malformed := (malformed text nbT nb_read text_empty new_nb nb_serialize resolve fetch).
  Local Notation unserialisable_store := (unserialisable_store text nb_serialize).
  Local Notation out_key := (out_key resolve).
  Local Notation obs := (obs text nbT diffT decT).

  (* ------------------------------------------------------------ error statuses of argument resolution *)
  Lemma read_notebook_err p f a foe c : read_notebook p f a foe = inl c -> (400 <= c)%N.
  Proof.
    unfold read_notebook, read_text. intros H.
    repeat match type of H with
           | context [match ?x with _ => _ end] => destruct x eqn:?; try discriminate
           end; inversion H; subst; err_status.
  Qed.

  Lemma notebook_argument_err p f e rq n c : notebook_argument p f e rq n = inl c -> (400 <= c)%N.
  Proof.
    unfold notebook_argument. intros H.
    destruct (uses_body p e).
    - destruct (body_arg (rq_body rq) n); [eapply read_notebook_err; eauto|]. inversion H; subst; err_status.
    - destruct (tool_arg p e n) as [[a foe]|]; [eapply read_notebook_err; eauto|]. inversion H; subst; err_status.
  Qed.

  Lemma notebook_arguments_err p f e rq ns c : notebook_arguments p f e rq ns = inl c -> (400 <= c)%N.
  Proof.
    induction ns as [|n ns IH]; simpl; [discriminate|].
    destruct (notebook_argument p f e rq n) eqn:E.
    - intros H; inversion H; subst. eapply notebook_argument_err; eauto.
    - destruct (notebook_arguments p f e rq ns) eqn:E2; [|discriminate].
      intros H; inversion H; subst. apply IH. reflexivity.
  Qed.

  Lemma notebook_arguments_some p f e rq ns c :
    notebook_arguments p f e rq ns = inl c -> existsb (arg_unusable text nbT nb_read text_empty new_nb resolve fetch p f e rq) ns = true.
  Proof.
    induction ns as [|n ns IH]; simpl; [discriminate|].
    unfold arg_unusable at 1.
    destruct (notebook_argument p f e rq n) eqn:E; [reflexivity|].
    destruct (notebook_arguments p f e rq ns) eqn:E2; [|discriminate].
    intros H. simpl. eapply IH. inversion H; subst; reflexivity.
  Qed.

  Lemma notebook_arguments_all p f e rq ns xs :
    notebook_arguments p f e rq ns = inr xs ->
    existsb (arg_unusable text nbT nb_read text_empty new_nb resolve fetch p f e rq) ns = false
    /\ Forall2 (fun n x => notebook_argument p f e rq n = inr x) ns xs.
  Proof.
    revert xs. induction ns as [|n ns IH]; simpl; intros xs H.
    - inversion H; subst. split; [reflexivity|constructor].
    - unfold arg_unusable at 1. destruct (notebook_argument p f e rq n) eqn:E; [discriminate|].
      destruct (notebook_arguments p f e rq ns) eqn:E2; [discriminate|].
      inversion H; subst. destruct (IH _ eq_refl) as [A B]. split; [exact A|constructor; assumption].
  Qed.

  (* ------------------------------------------------------------ per-handler facts *)
  Lemma diff_post_fs p st f rq : o_fs _ _ _ _ (diff_post p st f rq) = f.
  Proof. unfold diff_post. dm. Qed.

  Lemma merge_post_fs p st f rq : o_fs _ _ _ _ (merge_post p st f rq) = f.
  Proof. unfold merge_post. dm. Qed.

  Lemma close_post_fs p st f rq : o_fs _ _ _ _ (close_post p st f rq) = f.
  Proof. unfold close_post. dm. Qed.

  Lemma diff_post_nostop p st f rq : o_stop _ _ _ _ (diff_post p st f rq) = false.
  Proof. unfold diff_post. dm. Qed.

  Lemma merge_post_nostop p st f rq : o_stop _ _ _ _ (merge_post p st f rq) = false.
  Proof. unfold merge_post. dm. Qed.

  Lemma store_post_nostop o p st f rq : o_stop _ _ _ _ (store_post o p st f rq) = false.
  Proof. unfold store_post. dm. Qed.

  Lemma open_w_other f k f1 k' : open_w text empty_text f k = Some f1 -> k' <> k -> f1 k' = f k'.
  Proof.
    unfold open_w. intros H N. destruct (f k); inversion H; subst; unfold upd; rewrite (str_eqb_false_neq _ _ N); reflexivity.
  Qed.

  Lemma store_post_confined o p st f rq k :
    out_key p <> Some k -> o_fs _ _ _ _ (store_post o p st f rq) k = f k.
  Proof.
    unfold store_post. intros H.
    destruct (out_key p) as [k0|] eqn:Ek; simpl; [|reflexivity].
    assert (N : k <> k0) by (intros ->; apply H; reflexivity).
    destruct (body_arg (rq_body rq) k_merged); simpl; [|reflexivity].
    destruct o.
    - destruct (open_w text empty_text f k0) eqn:Eo; simpl; [|reflexivity].
      destruct (nb_serialize j); simpl.
      + unfold upd at 1. rewrite (str_eqb_false_neq _ _ N). eapply open_w_other; eauto.
      + eapply open_w_other; eauto.
    - destruct (nb_serialize j); simpl; [|reflexivity].
      destruct (open_w text empty_text f k0) eqn:Eo; simpl; [|reflexivity].
      unfold upd at 1. rewrite (str_eqb_false_neq _ _ N). eapply open_w_other; eauto.
  Qed.

  (* ------------------------------------------------------------ confinement *)
  (* Whatever the request (any path, method, body, extra fields), every file-system object other than the
     one named by join(cwd, outputfilename) -- both fixed at start-up -- is left as it was. *)
  Theorem store_confined_gen o p st f rq k :
    out_key p <> Some k -> o_fs _ _ _ _ (handle_gen o p st f rq) k = f k.
  Proof.
    intros H. unfold handle_gen.
    destruct (route p (rq_path rq)) as [h|]; [|reflexivity].
    destruct (rq_method rq); try reflexivity.
    - destruct (has_get h); reflexivity.
    - destruct (has_post h); [|reflexivity].
      destruct h; try reflexivity.
      + rewrite diff_post_fs; reflexivity.
      + rewrite merge_post_fs; reflexivity.
      + apply store_post_confined; assumption.
      + rewrite close_post_fs; reflexivity.
  Qed.

  (* only a store request answered 200 can change anything at all *)
  Theorem only_successful_store_writes o p st f rq k :
    o_fs _ _ _ _ (handle_gen o p st f rq) k <> f k ->
    route p (rq_path rq) = Some HApiStore /\ rq_method rq = POST /\ out_key p = Some k.
  Proof.
    intros H.
    assert (K : out_key p = Some k).
    { destruct (out_key p) as [k0|] eqn:E.
      - destruct (list_eq_dec N.eq_dec k0 k) as [->|N]; [reflexivity|].
        exfalso; apply H. apply store_confined_gen. rewrite E. congruence.
      - exfalso; apply H. apply store_confined_gen. rewrite E. discriminate. }
    revert H. unfold handle_gen.
    destruct (route p (rq_path rq)) as [h|]; [|intros X; exfalso; apply X; reflexivity].
    destruct (rq_method rq); try (intros X; exfalso; apply X; reflexivity).
    - destruct (has_get h); intros X; exfalso; apply X; reflexivity.
    - destruct (has_post h); [|intros X; exfalso; apply X; reflexivity].
      destruct h; try (intros X; exfalso; apply X; reflexivity).
      + rewrite diff_post_fs; intros X; exfalso; apply X; reflexivity.
      + rewrite merge_post_fs; intros X; exfalso; apply X; reflexivity.
      + intros _. repeat split; assumption.
      + rewrite close_post_fs; intros X; exfalso; apply X; reflexivity.
  Qed.

  (* a whole session *)
  Theorem serve_confined_gen o p k : out_key p <> Some k ->
    forall rqs st f, (let '(_, f', _, _) := serve_gen o p st f rqs in f' k) = f k.
  Proof.
    intros H. induction rqs as [|rq rest IH]; intros st f; simpl; [reflexivity|].
    destruct (o_stop _ _ _ _ (handle_gen o p st f rq)) eqn:Es.
    - apply store_confined_gen; assumption.
    - specialize (IH (o_st _ _ _ _ (handle_gen o p st f rq)) (o_fs _ _ _ _ (handle_gen o p st f rq))).
      destruct (serve_gen o p _ _ rest) as [[[os f'] st'] stopped].
      rewrite IH. apply store_confined_gen; assumption.
  Qed.

  (* without an output file fixed at start-up the store endpoint refuses, and nothing is ever written *)
  Theorem store_refuses_without_output_gen o p st f rq :
    out_key p = None ->
    (forall k, o_fs _ _ _ _ (handle_gen o p st f rq) k = f k)
    /\ (route p (rq_path rq) = Some HApiStore -> rq_method rq = POST ->
        o_status _ _ _ _ (handle_gen o p st f rq) = st_store_refuse /\ (400 <= st_store_refuse)%N).
  Proof.
    intros E. split.
    - intros k. apply store_confined_gen. rewrite E. discriminate.
    - intros R M. unfold handle_gen. rewrite R, M. simpl. unfold store_post. rewrite E. simpl.
      split; [reflexivity|err_status].
  Qed.

  Lemma out_key_none p : (p_out p = None \/ p_out p = Some []) <-> out_key p = None.
  Proof.
    unfold Server.out_key. split.
    - intros [H|H]; rewrite H; reflexivity.
    - destruct (p_out p) as [[|c r]|]; intros H; try discriminate; auto.
  Qed.

  (* a successful store writes the submitted notebook, serialised by nbformat, to the start-up output file *)
  Theorem store_writes_submitted_gen o p st f rq :
    route p (rq_path rq) = Some HApiStore -> rq_method rq = POST ->
    o_status _ _ _ _ (handle_gen o p st f rq) = st_ok ->
    exists k m t, out_key p = Some k /\ body_arg (rq_body rq) k_merged = Some m /\ nb_serialize m = Some t
                  /\ o_fs _ _ _ _ (handle_gen o p st f rq) k = File t.
  Proof.
    intros R M. unfold handle_gen. rewrite R, M. simpl. unfold store_post.
    destruct (out_key p) as [k|]; simpl; [|intros X; exfalso; revert X; vm_compute; discriminate].
    destruct (body_arg (rq_body rq) k_merged) as [m|]; simpl; [|intros X; exfalso; revert X; vm_compute; discriminate].
    destruct o.
    - destruct (open_w text empty_text f k); simpl; [|intros X; exfalso; revert X; vm_compute; discriminate].
      destruct (nb_serialize m) as [t|] eqn:Es; simpl; [|intros X; exfalso; revert X; vm_compute; discriminate].
      intros _. exists k, m, t. repeat split; auto. unfold upd. rewrite str_eqb_refl. reflexivity.
    - destruct (nb_serialize m) as [t|] eqn:Es; simpl; [|intros X; exfalso; revert X; vm_compute; discriminate].
      destruct (open_w text empty_text f k); simpl; [|intros X; exfalso; revert X; vm_compute; discriminate].
      intros _. exists k, m, t. repeat split; auto. unfold upd. rewrite str_eqb_refl. reflexivity.
  Qed.

  (* ------------------------------------------------------------ remote shutdown *)
  Lemma close_post_stop p st f rq :
    o_stop _ _ _ _ (close_post p st f rq) = true -> p_closable p = true /\ o_status _ _ _ _ (close_post p st f rq) = st_ok.
  Proof.
    unfold close_post. destruct (p_closable p); simpl; [|discriminate].
    dm; intros; split; auto.
  Qed.

  Theorem close_only_if_closable_gen o p st f rq :
    o_stop _ _ _ _ (handle_gen o p st f rq) = true ->
    p_closable p = true /\ route p (rq_path rq) = Some HApiClose /\ rq_method rq = POST
    /\ o_status _ _ _ _ (handle_gen o p st f rq) = st_ok.
  Proof.
    unfold handle_gen.
    destruct (route p (rq_path rq)) as [h|]; [|discriminate].
    destruct (rq_method rq); try discriminate.
    - destruct (has_get h); discriminate.
    - destruct (has_post h); [|discriminate].
      destruct h; try discriminate.
      + rewrite diff_post_nostop; discriminate.
      + rewrite merge_post_nostop; discriminate.
      + rewrite store_post_nostop; discriminate.
      + intros H. destruct (close_post_stop _ _ _ _ H). repeat split; auto.
  Qed.

  Theorem not_closable_refuses_gen o p st f rq :
    p_closable p = false ->
    o_stop _ _ _ _ (handle_gen o p st f rq) = false
    /\ (route p (rq_path rq) = Some HApiClose -> rq_method rq = POST ->
        o_status _ _ _ _ (handle_gen o p st f rq) = st_close_refuse /\ (400 <= st_close_refuse)%N
        /\ o_st _ _ _ _ (handle_gen o p st f rq) = st).
  Proof.
    intros C. split.
    - destruct (o_stop _ _ _ _ (handle_gen o p st f rq)) eqn:E; [|reflexivity].
      apply close_only_if_closable_gen in E. destruct E as [E _]. congruence.
    - intros R M. unfold handle_gen. rewrite R, M. simpl. unfold close_post. rewrite C. simpl.
      repeat split; auto. err_status.
  Qed.

  Theorem closable_honours_wellformed_gen o p st f rq :
    p_closable p = true -> route p (rq_path rq) = Some HApiClose -> rq_method rq = POST ->
    malformed p f rq = false ->
    o_stop _ _ _ _ (handle_gen o p st f rq) = true /\ o_status _ _ _ _ (handle_gen o p st f rq) = st_ok.
  Proof.
    intros C R M. unfold Server.malformed, handle_gen. rewrite R, M. simpl. unfold close_post. rewrite C. simpl.
    destruct (match rq_hdr_exit rq with Some s => py_int s | None => Some 1%Z end); [|discriminate].
    destruct (close_value rq z) as [v|]; [|discriminate].
    destruct v; simpl; auto.
    destruct (py_int s); [auto|discriminate].
  Qed.

  (* ------------------------------------------------------------ malformed requests *)
  Lemma malformed_status_gen o p st f rq :
    malformed p f rq = true ->
    (400 <= o_status _ _ _ _ (handle_gen o p st f rq))%N /\ o_stop _ _ _ _ (handle_gen o p st f rq) = false.
  Proof.
    unfold Server.malformed, handle_gen.
    destruct (route p (rq_path rq)) as [h|]; [|discriminate].
    destruct h; try discriminate; destruct (rq_method rq); try discriminate; simpl.
    - (* diff *)
      intros H. unfold Server.diff_post.
      destruct (notebook_arguments p f EDiff rq diff_arg_names) eqn:E.
      + simpl. split; [eapply notebook_arguments_err; eauto|reflexivity].
      + apply notebook_arguments_all in E. destruct E as [E _]. simpl in E, H. congruence.
    - (* merge *)
      intros H. unfold Server.merge_post.
      destruct (notebook_arguments p f EMerge rq merge_arg_names) eqn:E.
      + simpl. split; [eapply notebook_arguments_err; eauto|reflexivity].
      + apply notebook_arguments_all in E. destruct E as [E _]. simpl in E, H. congruence.
    - (* store *)
      intros H. rewrite store_post_nostop. split; [|reflexivity].
      unfold Server.store_post.
      destruct (out_key p) as [k0|]; simpl; [|err_status].
      destruct (body_arg (rq_body rq) k_merged) as [m|]; simpl; [|err_status].
      destruct (nb_serialize m); [discriminate|].
      destruct o; [destruct (open_w text empty_text f k0)|]; simpl; err_status.
    - (* close *)
      intros H. unfold Server.close_post. destruct (p_closable p); simpl; [|split; [err_status|reflexivity]].
      destruct (match rq_hdr_exit rq with Some s => py_int s | None => Some 1%Z end); [|simpl; split; [err_status|reflexivity]].
      destruct (close_value rq z) as [v|]; [|simpl; split; [err_status|reflexivity]].
      destruct v; try discriminate.
      destruct (py_int s); [discriminate|]. simpl. split; [err_status|reflexivity].
  Qed.

  Lemma malformed_fs_gen o p st f rq :
    malformed p f rq = true ->
    (o = SerialiseThenOpen \/ unserialisable_store p rq = false) ->
    o_fs _ _ _ _ (handle_gen o p st f rq) = f.
  Proof.
    unfold Server.malformed, Server.unserialisable_store, handle_gen.
    destruct (route p (rq_path rq)) as [h|]; [|discriminate].
    destruct h; try discriminate; destruct (rq_method rq); try discriminate; simpl.
    - intros _ _. apply diff_post_fs.
    - intros _ _. apply merge_post_fs.
    - intros H O. unfold Server.store_post.
      destruct (out_key p); simpl; [|reflexivity].
      destruct (body_arg (rq_body rq) k_merged) as [m|]; simpl; [|reflexivity].
      destruct (nb_serialize m); [discriminate|].
      destruct O as [->|O]; [reflexivity|discriminate].
    - intros _ _. apply close_post_fs.
  Qed.

  (* The clause of the property, for either order of the store handler's two steps. *)
  Definition malformed_no_effect_at (o : store_order_t) : Prop :=
    forall p st f rq, malformed p f rq = true ->
      (400 <= o_status _ _ _ _ (handle_gen o p st f rq))%N
      /\ o_fs _ _ _ _ (handle_gen o p st f rq) = f
      /\ o_stop _ _ _ _ (handle_gen o p st f rq) = false.

  Definition malformed_no_effect_but_store_at (o : store_order_t) : Prop :=
    forall p st f rq, malformed p f rq = true ->
      (400 <= o_status _ _ _ _ (handle_gen o p st f rq))%N
      /\ o_stop _ _ _ _ (handle_gen o p st f rq) = false
      /\ (unserialisable_store p rq = false -> o_fs _ _ _ _ (handle_gen o p st f rq) = f).

  Theorem malformed_no_effect_serialise_first : malformed_no_effect_at SerialiseThenOpen.
  Proof.
    intros p st f rq H. destruct (malformed_status_gen SerialiseThenOpen p st f rq H) as [A B].
    repeat split; auto. apply malformed_fs_gen; auto.
  Qed.

  Theorem malformed_no_effect_but_store : forall o, malformed_no_effect_but_store_at o.
  Proof.
    intros o p st f rq H. destruct (malformed_status_gen o p st f rq H) as [A B].
    repeat split; auto. intros U. apply malformed_fs_gen; auto.
  Qed.

  (* ------------------------------------------------------------ agreement with the library *)
  Section DiffPatch.
    Variable patch : nbT -> diffT -> option nbT.
    Hypothesis lib_roundtrip : forall a b d, lib_diff a b = Some d -> patch a d = Some b.

    Theorem diff_endpoint_patches_gen o p st f rq :
      route p (rq_path rq) = Some HApiDiff -> rq_method rq = POST ->
      o_status _ _ _ _ (handle_gen o p st f rq) = st_ok ->
      exists b r d,
        o_body _ _ _ _ (handle_gen o p st f rq) = RbDiff b d
        /\ notebook_argument p f EDiff rq (sf_str "base") = inr b
        /\ notebook_argument p f EDiff rq (sf_str "remote") = inr r
        /\ lib_diff b r = Some d
        /\ patch b d = Some r.
    Proof.
      intros R M. unfold handle_gen. rewrite R, M. simpl. unfold Server.diff_post.
      destruct (notebook_arguments p f EDiff rq diff_arg_names) as [c|xs] eqn:E.
      - simpl. intros X. apply notebook_arguments_err in E. rewrite X in E. vm_compute in E. exfalso; apply E; reflexivity.
      - apply notebook_arguments_all in E. destruct E as [_ E].
        unfold diff_arg_names in E. inversion E as [|n1 b ns1 xs1 Hb E1]; subst.
        inversion E1 as [|n2 r ns2 xs2 Hr E2]; subst. inversion E2; subst.
        destruct (lib_diff b r) as [d|] eqn:Ed; simpl.
        + intros _. exists b, r, d. repeat split; auto.
        + intros X. exfalso. revert X. vm_compute. discriminate.
    Qed.
  End DiffPatch.

  Theorem merge_endpoint_is_library_gen o p st f rq :
    route p (rq_path rq) = Some HApiMerge -> rq_method rq = POST ->
    o_status _ _ _ _ (handle_gen o p st f rq) = st_ok ->
    exists b l r d,
      o_body _ _ _ _ (handle_gen o p st f rq) = RbMerge b d
      /\ notebook_argument p f EMerge rq (sf_str "base") = inr b
      /\ notebook_argument p f EMerge rq (sf_str "local") = inr l
      /\ notebook_argument p f EMerge rq (sf_str "remote") = inr r
      /\ lib_merge b l r = Some d.
  Proof.
    intros R M. unfold handle_gen. rewrite R, M. simpl. unfold Server.merge_post.
    destruct (notebook_arguments p f EMerge rq merge_arg_names) as [c|xs] eqn:E.
    - simpl. intros X. apply notebook_arguments_err in E. rewrite X in E. vm_compute in E. exfalso; apply E; reflexivity.
    - apply notebook_arguments_all in E. destruct E as [_ E].
      unfold merge_arg_names in E. inversion E as [|n1 b ns1 xs1 Hb E1]; subst.
      inversion E1 as [|n2 l ns2 xs2 Hl E2]; subst. inversion E2 as [|n3 r ns3 xs3 Hr E3]; subst. inversion E3; subst.
      destruct (lib_merge b l r) as [d|] eqn:Ed; simpl.
      + intros _. exists b, l, r, d. repeat split; auto.
      + intros X. exfalso. revert X. vm_compute. discriminate.
  Qed.

  (* a well-formed diff / merge request is answered 200 unless the library itself raises *)
  Theorem wellformed_diff_answered_gen o p st f rq :
    route p (rq_path rq) = Some HApiDiff -> rq_method rq = POST -> malformed p f rq = false ->
    o_status _ _ _ _ (handle_gen o p st f rq) = st_ok \/ o_status _ _ _ _ (handle_gen o p st f rq) = st_diff_fail.
  Proof.
    intros R M. unfold Server.malformed, handle_gen. rewrite R, M. simpl. unfold Server.diff_post. intros H.
    destruct (notebook_arguments p f EDiff rq diff_arg_names) as [c|xs] eqn:E.
    - apply notebook_arguments_some in E. simpl in E, H. congruence.
    - apply notebook_arguments_all in E. destruct E as [_ E].
      unfold diff_arg_names in E. inversion E as [|n1 b ns1 xs1 Hb E1]; subst.
      inversion E1 as [|n2 r ns2 xs2 Hr E2]; subst. inversion E2; subst.
      destruct (lib_diff b r); simpl; auto.
  Qed.

  (* ------------------------------------------------------------ routing *)
  Lemma route_in_sound rs pre path h :
    route_in rs pre path = Some h -> exists pat, In (pat, h) rs /\ path = pre ++ pat.
  Proof.
    induction rs as [|[pat h'] rs IH]; simpl; [discriminate|].
    destruct (str_eqb (pre ++ pat) path) eqn:E.
    - intros X; inversion X; subst. exists pat. split; [left; reflexivity|]. apply str_eqb_eq in E. auto.
    - intros X. destruct (IH X) as [q [A B]]. exists q. split; [right; assumption|assumption].
  Qed.

  Theorem routed_under_prefix p path h :
    route p path = Some h -> exists pat, In (pat, h) routes /\ path = prefix p ++ pat.
  Proof. apply route_in_sound. Qed.

  Theorem unknown_path_not_found_gen o p st f rq :
    route p (rq_path rq) = None ->
    o_status _ _ _ _ (handle_gen o p st f rq) = st_not_found /\ o_fs _ _ _ _ (handle_gen o p st f rq) = f
    /\ o_stop _ _ _ _ (handle_gen o p st f rq) = false /\ o_st _ _ _ _ (handle_gen o p st f rq) = st.
  Proof. intros R. unfold handle_gen. rewrite R. simpl. auto. Qed.

  (* every answer is 200 or an error status *)
  Theorem status_200_or_error_gen o p st f rq :
    o_status _ _ _ _ (handle_gen o p st f rq) = st_ok \/ (400 <= o_status _ _ _ _ (handle_gen o p st f rq))%N.
  Proof.
    unfold handle_gen.
    destruct (route p (rq_path rq)) as [h|]; [|right; simpl; err_status].
    destruct (rq_method rq); [| |right; simpl; err_status].
    - destruct (has_get h); [left; reflexivity|right; simpl; err_status].
    - destruct (has_post h); [|right; simpl; err_status].
      destruct h; try (right; simpl; err_status).
      + unfold Server.diff_post. destruct (notebook_arguments p f EDiff rq diff_arg_names) eqn:E.
        * right. simpl. eapply notebook_arguments_err; eauto.
        * dm; auto; right; err_status.
      + unfold Server.merge_post. destruct (notebook_arguments p f EMerge rq merge_arg_names) eqn:E.
        * right. simpl. eapply notebook_arguments_err; eauto.
        * dm; auto; right; err_status.
      + unfold Server.store_post. dm; auto; right; err_status.
      + unfold Server.close_post. dm; auto; right; err_status.
  Qed.

  (* ------------------------------------------------------------ statelessness *)
  (* What a client and the disk can observe of a request does not depend on the server's mutable state
     (cached merge arguments, pending exit code): the n-th request is answered as if it were the first. *)
  Theorem handle_stateless_gen o p st1 st2 f rq :
    obs (handle_gen o p st1 f rq) = obs (handle_gen o p st2 f rq).
  Proof.
    unfold handle_gen.
    destruct (route p (rq_path rq)) as [h|]; [|reflexivity].
    destruct (rq_method rq); try reflexivity.
    - destruct (has_get h); reflexivity.
    - destruct (has_post h); [|reflexivity].
      destruct h; try reflexivity.
      + unfold Server.diff_post. dm; reflexivity.
      + unfold Server.merge_post. dm; reflexivity.
      + unfold Server.store_post. dm; reflexivity.
      + unfold Server.close_post. dm; reflexivity.
  Qed.

  Definition fs_before (os : list outcome) (f : fs) (i : nat) : fs :=
    match i with
    | O => f
    | S j => match nth_error os j with Some o' => o_fs _ _ _ _ o' | None => f end
    end.

  Theorem serve_stateless_gen o p :
    forall rqs st f i oc rq,
      nth_error (fst (fst (fst (serve_gen o p st f rqs)))) i = Some oc ->
      nth_error rqs i = Some rq ->
      obs oc = obs (handle_gen o p (sstate0) (fs_before (fst (fst (fst (serve_gen o p st f rqs)))) f i) rq).
  Proof.
    induction rqs as [|rq0 rest IH]; intros st f i oc rq; simpl.
    - destruct i; discriminate.
    - destruct (o_stop _ _ _ _ (handle_gen o p st f rq0)) eqn:Es.
      + simpl. destruct i as [|i]; simpl.
        * intros A B; inversion A; inversion B; subst. apply handle_stateless_gen.
        * destruct i; discriminate.
      + specialize (IH (o_st _ _ _ _ (handle_gen o p st f rq0)) (o_fs _ _ _ _ (handle_gen o p st f rq0))).
        destruct (serve_gen o p (o_st _ _ _ _ (handle_gen o p st f rq0)) (o_fs _ _ _ _ (handle_gen o p st f rq0)) rest)
          as [[[os f'] st'] stopped] eqn:Er.
        simpl in *. destruct i as [|i]; simpl.
        * intros A B; inversion A; inversion B; subst. apply handle_stateless_gen.
        * intros A B. specialize (IH i oc rq A B).
          rewrite IH. destruct i as [|i]; simpl; [reflexivity|].
          destruct (nth_error os i) eqn:En; [reflexivity|].
          exfalso. apply nth_error_None in En.
          assert (X : nth_error os (S i) = None) by (apply nth_error_None; lia). congruence.
  Qed.

End Proofs.

(* ---------------------------------------------------------------- concrete instance: refutation and non-vacuity *)
Module Witness.
  (* texts, notebooks, diffs, decisions are numbers; "notebooks" are the JSON objects *)
  Definition nb_read (t : N) : rdres N := if N.eqb t 0 then RdNotJSON else if N.eqb t 9 then RdFail else RdOk t.
  Definition text_empty (t : N) : bool := N.eqb t 0.
  Definition lib_diff (a b : N) : option N := Some (a * 100 + b)%N.
  Definition lib_merge (a b c : N) : option N := Some (a * 10000 + b * 100 + c)%N.
  Definition nb_serialize (j : json) : option N := match j with JObj _ => Some 7%N | _ => None end.
  Definition resolve (s : pystr) : pystr := s.
  Definition fetch (s : pystr) : fetchres N := FOther.
  Definition patch (a d : N) : option N := Some (d - a * 100)%N.

  Definition W := sf_str "/w".
  Definition out := sf_str "/w/out.ipynb".
  Definition fs0 : fs N := fun k =>
    if str_eqb k out then File 3%N
    else if str_eqb k (sf_str "/w/a.ipynb") then File 1%N
    else if str_eqb k (sf_str "/w/b.ipynb") then File 2%N
    else Absent.

  Definition par (closable : bool) : params :=
    {| p_cwd := Some W; p_out := Some (sf_str "out.ipynb"); p_closable := closable; p_mode := Plain; p_base_url := [slash] |}.

  Definition post (path : pystr) (b : json) : request :=
    {| rq_method := POST; rq_path := path; rq_query_exit := None; rq_hdr_exit := None; rq_body := BJson b |}.

  Definition H o := handle_gen N N N N nb_read text_empty 0%N 5%N lib_diff lib_merge nb_serialize resolve fetch o.
  Definition M := malformed N N nb_read text_empty 5%N nb_serialize resolve fetch.

  (* F12: {"merged": 5} *)
  Definition bad_store := post (sf_str "/api/store") (JObj [(k_merged, JInt 5)]).
  Definition good_store := post (sf_str "/api/store") (JObj [(k_merged, JObj [])]).
  Definition good_diff := post (sf_str "/api/diff") (JObj [(sf_str "base", JStr (sf_str "a.ipynb")); (sf_str "remote", JStr (sf_str "b.ipynb"))]).
  Definition good_close := post (sf_str "/api/closetool") (JObj [(k_exit, JInt 3)]).

  Lemma refutation_open_first :
    M (par false) fs0 bad_store = true
    /\ o_status _ _ _ _ (H OpenThenSerialise (par false) sstate0 fs0 bad_store) = 500%N
    /\ fs0 out = File 3%N
    /\ o_fs _ _ _ _ (H OpenThenSerialise (par false) sstate0 fs0 bad_store) out = File 0%N.
  Proof. vm_compute. repeat split. Qed.

  Lemma serialise_first_keeps :
    o_status _ _ _ _ (H SerialiseThenOpen (par false) sstate0 fs0 bad_store) = 500%N
    /\ o_fs _ _ _ _ (H SerialiseThenOpen (par false) sstate0 fs0 bad_store) out = File 3%N.
  Proof. vm_compute. repeat split. Qed.

  (* non-vacuity: the hypotheses of the positive theorems are satisfiable *)
  Example store_succeeds o :
    o_status _ _ _ _ (H o (par false) sstate0 fs0 good_store) = 200%N
    /\ o_fs _ _ _ _ (H o (par false) sstate0 fs0 good_store) out = File 7%N.
  Proof. destruct o; vm_compute; repeat split. Qed.

  Example diff_succeeds o :
    route (par false) (rq_path good_diff) = Some HApiDiff
    /\ o_status _ _ _ _ (H o (par false) sstate0 fs0 good_diff) = 200%N
    /\ o_body _ _ _ _ (H o (par false) sstate0 fs0 good_diff) = RbDiff 1%N 102%N
    /\ patch 1%N 102%N = Some 2%N.
  Proof. destruct o; vm_compute; repeat split. Qed.

  Example roundtrip_satisfiable : forall a b d, lib_diff a b = Some d -> patch a d = Some b.
  Proof. unfold lib_diff, patch. intros a b d X. inversion X; subst. f_equal. lia. Qed.

  Example close_stops_closable o :
    o_stop _ _ _ _ (H o (par true) sstate0 fs0 good_close) = true
    /\ ss_exit (o_st _ _ _ _ (H o (par true) sstate0 fs0 good_close)) = JInt 3
    /\ o_stop _ _ _ _ (H o (par false) sstate0 fs0 good_close) = false
    /\ o_status _ _ _ _ (H o (par false) sstate0 fs0 good_close) = 400%N.
  Proof. destruct o; vm_compute; repeat split. Qed.

  Example malformed_satisfiable :
    M (par false) fs0 (post (sf_str "/api/diff") (JObj [(sf_str "base", JInt 1)])) = true
    /\ M (par false) fs0 good_diff = false.
  Proof. vm_compute. split; reflexivity. Qed.
End Witness.

(* The malformed-request clause, as a function of the order read off the source:
   serialise-then-open: it holds;  open-then-serialise: it is refuted by {"merged": 5}, and holds for every
   malformed request except the store requests whose `merged` cannot be serialised. *)
Definition malformed_clause (o : store_order_t) : Prop :=
  match o with
  | SerialiseThenOpen =>
      forall text nbT diffT decT nb_read text_empty empty_text new_nb lib_diff lib_merge nb_serialize resolve fetch,
        malformed_no_effect_at text nbT diffT decT nb_read text_empty empty_text new_nb lib_diff lib_merge nb_serialize resolve fetch SerialiseThenOpen
  | OpenThenSerialise =>
      (exists p st f rq k,
          Witness.M p f rq = true
          /\ (400 <= o_status _ _ _ _ (Witness.H OpenThenSerialise p st f rq))%N
          /\ o_fs _ _ _ _ (Witness.H OpenThenSerialise p st f rq) k <> f k)
      /\ (forall text nbT diffT decT nb_read text_empty empty_text new_nb lib_diff lib_merge nb_serialize resolve fetch,
             malformed_no_effect_but_store_at text nbT diffT decT nb_read text_empty empty_text new_nb lib_diff lib_merge nb_serialize resolve fetch OpenThenSerialise)
  end.

Theorem malformed_clause_holds : forall o, malformed_clause o.
Proof.
  destruct o; simpl.
  - split.
    + exists (Witness.par false), sstate0, Witness.fs0, Witness.bad_store, Witness.out.
      destruct Witness.refutation_open_first as [A [B [C D]]].
      split; [exact A|]. split; [rewrite B; vm_compute; discriminate|].
      rewrite C, D. discriminate.
    + intros. apply malformed_no_effect_but_store.
  - intros. apply malformed_no_effect_serialise_first.
Qed.
