(* C19 -- the place where nbdime still deviates from the documented rule (finding F11), as theorems about
   the model instantiated with the generated tables.  This file is imported ONLY by the marked block of Props/C19.v:
   once nbdime is repaired these statements become false (the build of this file fails) and the block is swapped for the
   unconditional one, see notes/C19.md. *)
From Coq Require Import List NArith ZArith Bool String Lia.
From NB Require Import Base.Json.
From NB Require Import Base.Res.
From NB Require Import Diff.Codec.
From NB Require Import Gen.ConfigClasses.
From NB Require Import Sys.Config.
From NB Require Import Sys.ConfigProofs.
Import ListNotations.
Local Open Scope list_scope.

(* ---------- witnesses (F11) ---------- *)
Definition w_global_files : list json :=
  [JObj [(of_ascii "Global", JObj [(of_ascii "log_level", JStr (of_ascii "DEBUG"))])]].
Definition w_server_files : list json :=
  [JObj [(of_ascii "Web", JObj [(of_ascii "port", JInt 9000)])]].

Lemma global_section_refuted_lemma :
  exists ep files o, In ep ep_names /\ In o (options ep) /\ wf_filesb files = true /\
    effective ep files [] o <> Ok (spec_effective ep files [] o).
Proof.
  exists (of_ascii "nbdiff"), w_global_files, (of_ascii "log_level").
  repeat split; try (vm_compute; tauto). vm_compute. discriminate.
Qed.

(* the Server.port deviation was repaired in /repo (layering: all class defaults, then all sections): it now resolves as documented *)
Lemma server_port_as_documented :
  effective (of_ascii "server") w_server_files [] (of_ascii "port") = Ok (spec_effective (of_ascii "server") w_server_files [] (of_ascii "port"))
  /\ spec_effective (of_ascii "server") w_server_files [] (of_ascii "port") = JInt 9000.
Proof. split; vm_compute; reflexivity. Qed.

Lemma global_never_participates cn : participates kGlobal cn = false.
Proof.
  unfold participates. apply not_true_is_false. intros H. apply existsb_exists in H as [e [I H]].
  apply andb_true_iff in H as [_ H].
  assert (T : forallb (fun e => negb (existsb (str_eqb kGlobal) (match alookup (fst e) ep_mro with Some l => l | None => [] end))) entrypoints = true)
    by (vm_compute; reflexivity).
  rewrite forallb_forall in T. specialize (T e I). rewrite H in T. discriminate.
Qed.

