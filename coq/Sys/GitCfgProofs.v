(* C18 -- proofs about the model of Sys/GitCfg.v.  Decidable checks on programs are proved sound once, for every
   state; the property theorems for the generated programs (Gen/GitCfg.v) then follow by computation. *)
From Coq Require Import String Ascii List NArith Bool Lia.
From NB Require Import Base.Json.
From NB Require Import Sys.GitCfg.
From NB Require Import Gen.GitCfg.
Import ListNotations.

(* ------------------------------------------------------------------ keys and configuration maps *)
Lemma key_eqb_eq a b : key_eqb a b = true <-> a = b.
Proof.
  destruct a as [a1 a2], b as [b1 b2]; unfold key_eqb; simpl.
  rewrite andb_true_iff, !str_eqb_eq. split; [intros [-> ->]; reflexivity | intros H; inversion H; auto].
Qed.
Lemma key_eqb_refl a : key_eqb a a = true.
Proof. apply key_eqb_eq; reflexivity. Qed.
Lemma key_eqb_neq a b : key_eqb a b = false <-> a <> b.
Proof.
  split; intros H.
  - intros E. apply key_eqb_eq in E. congruence.
  - destruct (key_eqb a b) eqn:E; [apply key_eqb_eq in E; contradiction | reflexivity].
Qed.
Lemma key_eqb_sym a b : key_eqb a b = key_eqb b a.
Proof.
  destruct (key_eqb a b) eqn:E.
  - apply key_eqb_eq in E; subst; symmetry; apply key_eqb_refl.
  - symmetry; apply key_eqb_neq; apply key_eqb_neq in E; congruence.
Qed.
Lemma str_eqb_false a b : str_eqb a b = false <-> a <> b.
Proof.
  split; intros H.
  - intros E. apply str_eqb_eq in E. congruence.
  - destruct (str_eqb a b) eqn:E; [apply str_eqb_eq in E; contradiction | reflexivity].
Qed.

Lemma get_unset c k k' : get (unset c k) k' = if key_eqb k k' then None else get c k'.
Proof.
  induction c as [|[k0 v0] c IH]; simpl.
  - destruct (key_eqb k k'); reflexivity.
  - destruct (key_eqb k0 k) eqn:E0; simpl.
    + apply key_eqb_eq in E0; subst k0. rewrite IH. destruct (key_eqb k k'); reflexivity.
    + rewrite IH. destruct (key_eqb k0 k') eqn:E1; [|reflexivity].
      apply key_eqb_eq in E1; subst k0. rewrite key_eqb_sym, E0. reflexivity.
Qed.
Lemma get_set c k v k' : get (set c k v) k' = if key_eqb k k' then Some v else get c k'.
Proof.
  unfold set; simpl. destruct (key_eqb k k') eqn:E; [reflexivity|]. rewrite get_unset, E. reflexivity.
Qed.
Lemma get_rmsec c x k : get (rmsec c x) k = if str_eqb (fst k) x then None else get c k.
Proof.
  induction c as [|[k0 v0] c IH]; simpl.
  - destruct (str_eqb (fst k) x); reflexivity.
  - destruct (str_eqb (fst k0) x) eqn:E0; simpl.
    + rewrite IH. destruct (str_eqb (fst k) x) eqn:E1; [reflexivity|].
      destruct (key_eqb k0 k) eqn:E2; [|reflexivity].
      apply key_eqb_eq in E2; subst k0. congruence.
    + rewrite IH. destruct (key_eqb k0 k) eqn:E2; [|reflexivity].
      apply key_eqb_eq in E2; subst k0. rewrite E0. reflexivity.
Qed.
Lemma has_sec_false_get c x k : has_sec c x = false -> fst k = x -> get c k = None.
Proof.
  intros H E. induction c as [|[k0 v0] c IH]; simpl in *; [reflexivity|].
  apply orb_false_iff in H. destruct H as [H1 H2].
  destruct (key_eqb k0 k) eqn:E2.
  - apply key_eqb_eq in E2; subst k0. rewrite E in H1. rewrite str_eqb_refl in H1. discriminate.
  - auto.
Qed.
Lemma has_sec_filter c x f : has_sec c x = false -> has_sec (filter f c) x = false.
Proof.
  induction c as [|kv c IH]; simpl; [auto|]. intros H. apply orb_false_iff in H. destruct H as [H1 H2].
  destruct (f kv); simpl; [rewrite H1; simpl|]; auto.
Qed.
Lemma has_sec_rmsec_same c x : has_sec (rmsec c x) x = false.
Proof.
  induction c as [|[[k1 k2] v] c IH]; simpl; [reflexivity|].
  destruct (str_eqb k1 x) eqn:E; simpl; rewrite ?E; simpl; auto.
Qed.
Lemma has_sec_set c k v x : fst k <> x -> has_sec c x = false -> has_sec (set c k v) x = false.
Proof.
  intros N H. unfold set; simpl. apply str_eqb_false in N. rewrite N; simpl. apply has_sec_filter; assumption.
Qed.

(* ------------------------------------------------------------------ state plumbing *)
Lemma cfg_of_set_cfg_same sc s c : cfg_of sc (set_cfg sc s c) = c.
Proof. destruct sc; reflexivity. Qed.
Lemma cfg_of_set_cfg_other sc sc' s c : sc <> sc' -> cfg_of sc' (set_cfg sc s c) = cfg_of sc' s.
Proof. destruct sc, sc'; intros H; try reflexivity; contradiction. Qed.
Lemma att_of_set_cfg sc sc' s c : att_of sc' (set_cfg sc s c) = att_of sc' s.
Proof. destruct sc, sc'; reflexivity. Qed.
Lemma cfg_of_set_att sc sc' s a : cfg_of sc' (set_att sc s a) = cfg_of sc' s.
Proof. destruct sc, sc'; reflexivity. Qed.
Lemma att_of_set_att_same sc s a : att_of sc (set_att sc s a) = a.
Proof. destruct sc; reflexivity. Qed.
Lemma att_of_set_att_other sc sc' s a : sc <> sc' -> att_of sc' (set_att sc s a) = att_of sc' s.
Proof. destruct sc, sc'; intros H; try reflexivity; contradiction. Qed.
Lemma set_cfg_id sc s : set_cfg sc s (cfg_of sc s) = s.
Proof. destruct sc, s; reflexivity. Qed.
Lemma set_cfg_twice sc s c c' : set_cfg sc (set_cfg sc s c) c' = set_cfg sc s c'.
Proof. destruct sc; reflexivity. Qed.
Lemma set_att_id sc s : set_att sc s (att_of sc s) = s.
Proof. destruct sc, s; reflexivity. Qed.
Lemma set_att_twice sc s a a' : set_att sc (set_att sc s a) a' = set_att sc s a'.
Proof. destruct sc; reflexivity. Qed.
Lemma set_att_set_cfg sc s c a : set_att sc (set_cfg sc s c) a = set_cfg sc (set_att sc s a) c.
Proof. destruct sc; reflexivity. Qed.
Lemma scope_dec (a b : scope) : {a = b} + {a <> b}.
Proof. decide equality. Qed.

(* ------------------------------------------------------------------ text *)
Lemma prefixb_app p t x : prefixb p t = true -> prefixb p (t ++ x) = true.
Proof.
  revert t; induction p as [|a p IH]; intros t H; [reflexivity|].
  destruct t as [|b t]; simpl in *; [discriminate|].
  apply andb_true_iff in H. destruct H as [H1 H2]. rewrite H1; simpl; auto.
Qed.
Lemma contains_app_l n t x : contains n t = true -> contains n (t ++ x) = true.
Proof.
  induction t as [|b t IH]; intros H.
  - simpl in H. rewrite orb_false_r in H. destruct n; [|discriminate]. destruct x; reflexivity.
  - simpl in H. apply orb_true_iff in H. simpl. destruct H as [H|H].
    + change (prefixb n ((b :: t) ++ x) || contains n (t ++ x) = true).
      rewrite (prefixb_app _ _ _ H). reflexivity.
    + rewrite (IH H). apply orb_true_r.
Qed.
Lemma contains_app_r n t x : contains n x = true -> contains n (t ++ x) = true.
Proof.
  induction t as [|b t IH]; intros H; [assumption|].
  simpl. rewrite (IH H). apply orb_true_r.
Qed.

Lemma split_lf_nonempty s : split_lf s <> [].
Proof.
  destruct s as [|c r]; simpl; [discriminate|].
  destruct (N.eqb c LF); [discriminate|]. destruct (split_lf r); discriminate.
Qed.
(* cutting at a line feed cuts the list of pieces *)
Lemma split_lf_app a b : split_lf (a ++ LF :: b) = split_lf a ++ split_lf b.
Proof.
  induction a as [|c a IH]; simpl.
  - reflexivity.
  - destruct (N.eqb c LF); [rewrite IH; reflexivity|].
    rewrite IH. destruct (split_lf a) eqn:E; [exfalso; eapply split_lf_nonempty; eauto|]. reflexivity.
Qed.
Lemma split_lf_no_lf r : ~ In LF r -> split_lf r = [r].
Proof.
  induction r as [|c r IH]; intros H; [reflexivity|]. simpl.
  destruct (N.eqb c LF) eqn:E; [apply N.eqb_eq in E; subst; exfalso; apply H; left; reflexivity|].
  rewrite IH; [reflexivity|]. intros X; apply H; right; assumption.
Qed.

Definition is_prefix {A} (a b : list A) : Prop := exists x, b = a ++ x.
Lemma lines_prefix_of_pieces s : is_prefix (lines s) (split_lf s).
Proof.
  unfold lines. destruct (is_nil (last (split_lf s) [LF])).
  - exists [last (split_lf s) [LF]]. apply app_removelast_last. apply split_lf_nonempty.
  - exists []. rewrite app_nil_r. reflexivity.
Qed.
Lemma removelast_app_ne {A} (a b : list A) : b <> [] -> removelast (a ++ b) = a ++ removelast b.
Proof. apply removelast_app. Qed.
Lemma last_app_ne {A} (a b : list A) d : b <> [] -> last (a ++ b) d = last b d.
Proof.
  intros H. induction a as [|x a IH]; [reflexivity|]. simpl.
  destruct (a ++ b) eqn:E; [apply app_eq_nil in E; destruct E; contradiction|]. exact IH.
Qed.
(* appending text that starts with a line feed keeps every existing line *)
Lemma lines_kept t r : is_prefix (lines t) (lines (t ++ LF :: r)).
Proof.
  destruct (lines_prefix_of_pieces t) as [x Hx].
  unfold lines at 2. rewrite split_lf_app.
  rewrite last_app_ne by apply split_lf_nonempty.
  destruct (is_nil (last (split_lf r) [LF])).
  - rewrite removelast_app_ne by apply split_lf_nonempty. rewrite Hx, <- app_assoc. eexists; reflexivity.
  - rewrite Hx, <- app_assoc. eexists; reflexivity.
Qed.

(* ================================================================== enabling *)
(* Shape accepted for enable(): nothing but `git config K V` calls (unconditional or under `if set_default`) in the
   requested scope, then at most one attributes block. *)
Definition static_guard (flag : bool) (g : guard) : bool :=
  match g with Always => true | IfFlag => flag | IfGetEq _ _ _ => false end.
Definition is_set_cmd (c : cmd) : bool :=
  match c_act c, c_guard c with
  | ASet _ _, Always => c_scoped c
  | ASet _ _, IfFlag => c_scoped c
  | _, _ => false
  end.
Definition sets_of (flag : bool) (b : list cmd) : list (key * pystr) :=
  flat_map (fun c => match c_act c with
                     | ASet k v => if static_guard flag (c_guard c) then [(k, v)] else []
                     | _ => []
                     end) b.
Definition apply_sets (l : list (key * pystr)) (c : cfg) : cfg :=
  fold_left (fun c kv => set c (fst kv) (snd kv)) l c.
Definition allsets (flag : bool) (ps : list prog) : list (key * pystr) := flat_map (fun p => sets_of flag (body p)) ps.
Definition alltails (ps : list prog) : list (pystr * pystr) :=
  flat_map (fun p => match tail p with Some nl => [nl] | None => [] end) ps.
Definition apply_tails (T : list (pystr * pystr)) (a : option pystr) : option pystr := fold_left attr_step T a.
Definition set_only (ps : list prog) : bool := forallb (fun p => forallb is_set_cmd (body p)) ps.

Lemma exec_body_sets sc flag b : forall s, forallb is_set_cmd b = true ->
  exec_body sc flag b s = (Normal, set_cfg sc s (apply_sets (sets_of flag b) (cfg_of sc s))).
Proof.
  induction b as [|c r IH]; intros s H.
  - simpl. rewrite set_cfg_id. reflexivity.
  - simpl in H. apply andb_true_iff in H. destruct H as [Hc Hr].
    destruct c as [g h scp a]. unfold is_set_cmd in Hc; simpl in Hc.
    destruct a as [k v| |]; try (destruct g; discriminate).
    assert (scp = true) by (destruct g; try discriminate; assumption). subst scp.
    simpl. unfold exec_cmd; simpl.
    destruct g as [| |gs gk gv]; try discriminate; simpl.
    + rewrite IH by assumption. rewrite cfg_of_set_cfg_same, set_cfg_twice. reflexivity.
    + destruct flag; simpl.
      * rewrite IH by assumption. rewrite cfg_of_set_cfg_same, set_cfg_twice. reflexivity.
      * rewrite IH by assumption. reflexivity.
Qed.

Lemma apply_sets_cons kv l c : apply_sets (kv :: l) c = apply_sets l (set c (fst kv) (snd kv)).
Proof. reflexivity. Qed.
Lemma apply_sets_app l1 l2 c : apply_sets (l1 ++ l2) c = apply_sets l2 (apply_sets l1 c).
Proof. unfold apply_sets. apply fold_left_app. Qed.
Lemma apply_tails_app T1 T2 a : apply_tails (T1 ++ T2) a = apply_tails T2 (apply_tails T1 a).
Proof. unfold apply_tails. apply fold_left_app. Qed.

(* normal form of a run of set-only programs *)
Lemma exec_seq_enable sc flag ps : forall s, set_only ps = true ->
  fst (exec_seq sc flag ps s) <> Raised /\
  snd (exec_seq sc flag ps s) =
    set_att sc (set_cfg sc s (apply_sets (allsets flag ps) (cfg_of sc s))) (apply_tails (alltails ps) (att_of sc s)).
Proof.
  induction ps as [|p r IH]; intros s H.
  - simpl. rewrite set_cfg_id, set_att_id. split; [discriminate | reflexivity].
  - simpl in H. apply andb_true_iff in H. destruct H as [Hp Hr].
    simpl. unfold exec_prog. rewrite exec_body_sets by assumption.
    set (s1 := set_cfg sc s (apply_sets (sets_of flag (body p)) (cfg_of sc s))).
    unfold allsets, alltails; simpl. fold (allsets flag r). fold (alltails r).
    rewrite apply_sets_app, apply_tails_app.
    destruct (tail p) as [nl|]; simpl.
    + specialize (IH (set_att sc s1 (attr_step (att_of sc s1) nl)) Hr). destruct IH as [I1 I2].
      split; [assumption|]. rewrite I2. unfold s1.
      rewrite cfg_of_set_att, cfg_of_set_cfg_same, att_of_set_att_same, att_of_set_cfg.
      destruct sc; reflexivity.
    + specialize (IH s1 Hr). destruct IH as [I1 I2].
      split; [assumption|]. rewrite I2. unfold s1.
      rewrite cfg_of_set_cfg_same, att_of_set_cfg, set_cfg_twice. reflexivity.
Qed.

Definition functional (l : list (key * pystr)) : bool :=
  forallb (fun a => forallb (fun b => implb (key_eqb (fst a) (fst b)) (str_eqb (snd a) (snd b))) l) l.
Lemma functional_spec l : functional l = true -> forall k v v', In (k, v) l -> In (k, v') l -> v = v'.
Proof.
  intros H k v v' H1 H2. unfold functional in H. rewrite forallb_forall in H.
  specialize (H _ H1). rewrite forallb_forall in H. specialize (H _ H2). simpl in H.
  rewrite key_eqb_refl in H. simpl in H. apply str_eqb_eq in H. assumption.
Qed.

Lemma get_apply_sets_notin l : forall c k, ~ In k (map fst l) -> get (apply_sets l c) k = get c k.
Proof.
  induction l as [|[k0 v0] l IH]; intros c k H; [reflexivity|].
  simpl in H. rewrite apply_sets_cons. simpl. rewrite IH by tauto.
  rewrite get_set. destruct (key_eqb k0 k) eqn:E; [|reflexivity].
  apply key_eqb_eq in E. exfalso. apply H. left. assumption.
Qed.
Lemma key_in_dec (k : key) (l : list key) : {In k l} + {~ In k l}.
Proof.
  apply in_dec. intros a b. destruct (key_eqb a b) eqn:E; [left; apply key_eqb_eq; assumption | right; apply key_eqb_neq; assumption].
Qed.
Lemma get_apply_sets_in l : forall c k v,
  (forall k v v', In (k, v) l -> In (k, v') l -> v = v') -> In (k, v) l -> get (apply_sets l c) k = Some v.
Proof.
  induction l as [|[k0 v0] l IH]; intros c k v F H; [contradiction|].
  rewrite apply_sets_cons. simpl.
  destruct (key_in_dec k (map fst l)) as [I|I].
  - apply in_map_iff in I. destruct I as [[k1 v1] [E I]]. simpl in E. subst k1.
    assert (v1 = v) by (apply (F k); [right; assumption | assumption]). subst v1.
    apply IH; [|assumption]. intros k' a b Ha Hb. apply (F k'); right; assumption.
  - destruct H as [H|H].
    + inversion H; subst. rewrite get_apply_sets_notin by assumption. rewrite get_set, key_eqb_refl. reflexivity.
    + exfalso. apply I. apply in_map_iff. exists (k, v). split; [reflexivity | assumption].
Qed.

(* attributes *)
Lemma apply_tails_cons nl T a : apply_tails (nl :: T) a = apply_tails T (attr_step a nl).
Proof. reflexivity. Qed.
Definition needles_ok (T : list (pystr * pystr)) : bool := forallb (fun nl => contains (fst nl) (snd nl)) T.
Lemma apply_tails_some T : forall t, exists x, apply_tails T (Some t) = Some (t ++ x).
Proof.
  induction T as [|nl T IH]; intros t.
  - exists []. rewrite app_nil_r. reflexivity.
  - rewrite apply_tails_cons. simpl. destruct (contains (fst nl) t).
    + apply IH.
    + destruct (IH (t ++ snd nl)) as [x Hx]. exists (snd nl ++ x). rewrite app_assoc. exact Hx.
Qed.
Lemma attr_step_contains a nl : contains (fst nl) (snd nl) = true ->
  exists t, attr_step a nl = Some t /\ contains (fst nl) t = true.
Proof.
  intros H. destruct a as [t|]; simpl.
  - destruct (contains (fst nl) t) eqn:E; [exists t; auto|]. exists (t ++ snd nl). split; [reflexivity|]. apply contains_app_r; assumption.
  - exists (snd nl). auto.
Qed.
Lemma apply_tails_contains T : forall a, needles_ok T = true -> T <> [] ->
  exists t, apply_tails T a = Some t /\ forall nl, In nl T -> contains (fst nl) t = true.
Proof.
  induction T as [|nl0 T IH]; intros a H NE; [contradiction|].
  simpl in H. apply andb_true_iff in H. destruct H as [H0 H].
  destruct (attr_step_contains a nl0 H0) as [t1 [E1 C1]].
  rewrite apply_tails_cons. rewrite E1.
  destruct T as [|nl1 T'].
  - exists t1. split; [reflexivity|]. intros nl [<-|[]]. assumption.
  - destruct (IH (Some t1) H) as [t [Et Ct]]; [discriminate|].
    exists t. split; [assumption|]. intros nl [<-|I]; [|apply Ct; assumption].
    destruct (apply_tails_some (nl1 :: T') t1) as [x Hx]. rewrite Hx in Et. inversion Et; subst.
    apply contains_app_l; assumption.
Qed.
Lemma apply_tails_fix T : forall t, (forall nl, In nl T -> contains (fst nl) t = true) -> apply_tails T (Some t) = Some t.
Proof.
  induction T as [|nl T IH]; intros t H; [reflexivity|].
  rewrite apply_tails_cons. simpl. rewrite (H nl) by (left; reflexivity).
  apply IH. intros nl' I. apply H. right; assumption.
Qed.
Lemma apply_tails_idem T a : needles_ok T = true -> apply_tails T (apply_tails T a) = apply_tails T a.
Proof.
  intros H. destruct T as [|nl T]; [reflexivity|].
  destruct (apply_tails_contains (nl :: T) a H) as [t [E C]]; [discriminate|].
  rewrite E. apply apply_tails_fix. assumption.
Qed.
Lemma apply_tails_grow T : forall a, exists ch, sublist ch T /\ apply_tails T a = grow a (map snd ch).
Proof.
  induction T as [|nl T IH]; intros a.
  - exists []. split; [constructor | reflexivity].
  - rewrite apply_tails_cons.
    destruct (IH (attr_step a nl)) as [ch [S E]].
    assert (attr_step a nl = a \/ attr_step a nl = Some (text_of a ++ snd nl)) as [A|A].
    { destruct a as [t|]; simpl; [destruct (contains (fst nl) t); auto | auto]. }
    + exists ch. split; [constructor; assumption|]. rewrite E, A. reflexivity.
    + exists (nl :: ch). split; [constructor; assumption|]. rewrite E, A. simpl.
      destruct (map snd ch) eqn:M; simpl.
      * rewrite app_nil_r. reflexivity.
      * rewrite <- app_assoc. reflexivity.
Qed.

Definition enable_ok (flag : bool) (ps : list prog) : bool :=
  set_only ps && functional (allsets flag ps) && needles_ok (alltails ps).

(* running the same enabling command again changes nothing, and neither run fails *)
Lemma enable_idem_sound sc flag ps s : enable_ok flag ps = true ->
  let o1 := exec_seq sc flag ps s in
  let o2 := exec_seq sc flag ps (snd o1) in
  fst o1 <> Raised /\ fst o2 <> Raised /\
  (forall sc' k, get (cfg_of sc' (snd o2)) k = get (cfg_of sc' (snd o1)) k) /\
  (forall sc', att_of sc' (snd o2) = att_of sc' (snd o1)).
Proof.
  intros H. unfold enable_ok in H. apply andb_true_iff in H. destruct H as [H HN].
  apply andb_true_iff in H. destruct H as [HS HF]. simpl.
  destruct (exec_seq_enable sc flag ps s HS) as [A1 A2].
  destruct (exec_seq_enable sc flag ps (snd (exec_seq sc flag ps s)) HS) as [B1 B2].
  split; [assumption|]. split; [assumption|]. rewrite B2. rewrite A2.
  split.
  - intros sc' k. destruct (scope_dec sc sc') as [<-|NE].
    + rewrite !cfg_of_set_att, !cfg_of_set_cfg_same.
      destruct (key_in_dec k (map fst (allsets flag ps))) as [I|I].
      * apply in_map_iff in I. destruct I as [[k1 v1] [E I]]. simpl in E; subst k1.
        rewrite !(get_apply_sets_in _ _ k v1 (functional_spec _ HF) I). reflexivity.
      * rewrite get_apply_sets_notin by assumption. reflexivity.
    + rewrite !cfg_of_set_att, !(cfg_of_set_cfg_other sc sc') by assumption. rewrite cfg_of_set_att.
      rewrite (cfg_of_set_cfg_other sc sc') by assumption. reflexivity.
  - intros sc'. destruct (scope_dec sc sc') as [<-|NE].
    + rewrite !att_of_set_att_same. apply apply_tails_idem. assumption.
    + rewrite !(att_of_set_att_other sc sc') by assumption. rewrite !att_of_set_cfg.
      rewrite (att_of_set_att_other sc sc') by assumption. rewrite att_of_set_cfg. reflexivity.
Qed.

(* what an enabling run may change *)
Lemma enable_footprint_sound sc flag ps s : set_only ps = true -> functional (allsets flag ps) = true ->
  let s' := snd (exec_seq sc flag ps s) in
  (forall sc' k, get (cfg_of sc' s') k = get (cfg_of sc' s) k \/
                 (sc' = sc /\ exists v, In (k, v) (allsets flag ps) /\ get (cfg_of sc' s') k = Some v)) /\
  (forall sc', sc' <> sc -> cfg_of sc' s' = cfg_of sc' s /\ att_of sc' s' = att_of sc' s) /\
  (exists ch, sublist ch (alltails ps) /\ att_of sc s' = grow (att_of sc s) (map snd ch)).
Proof.
  intros HS HF. simpl. destruct (exec_seq_enable sc flag ps s HS) as [_ A]. rewrite A. clear A.
  split; [|split].
  - intros sc' k. destruct (scope_dec sc sc') as [<-|NE].
    + rewrite cfg_of_set_att, cfg_of_set_cfg_same.
      destruct (key_in_dec k (map fst (allsets flag ps))) as [I|I].
      * right. split; [reflexivity|]. apply in_map_iff in I. destruct I as [[k1 v1] [E I]]. simpl in E; subst k1.
        exists v1. split; [assumption|]. apply get_apply_sets_in; [apply functional_spec|]; assumption.
      * left. apply get_apply_sets_notin; assumption.
    + left. rewrite cfg_of_set_att, (cfg_of_set_cfg_other sc sc') by assumption. reflexivity.
  - intros sc' NE. assert (sc <> sc') by congruence.
    rewrite cfg_of_set_att, (cfg_of_set_cfg_other sc sc'), (att_of_set_att_other sc sc'), att_of_set_cfg by assumption.
    split; reflexivity.
  - rewrite att_of_set_att_same. apply apply_tails_grow.
Qed.

(* after enabling, everything the programs set is set and the attributes file names every driver *)
Lemma enable_establishes_sound sc flag ps s : enable_ok flag ps = true ->
  let s' := snd (exec_seq sc flag ps s) in
  (forall k v, In (k, v) (allsets flag ps) -> get (cfg_of sc s') k = Some v) /\
  (forall nl, In nl (alltails ps) -> exists t, att_of sc s' = Some t /\ contains (fst nl) t = true).
Proof.
  intros H. unfold enable_ok in H. apply andb_true_iff in H. destruct H as [H HN].
  apply andb_true_iff in H. destruct H as [HS HF]. simpl.
  destruct (exec_seq_enable sc flag ps s HS) as [_ A]. rewrite A. clear A.
  split.
  - intros k v I. rewrite cfg_of_set_att, cfg_of_set_cfg_same. apply get_apply_sets_in; [apply functional_spec|]; assumption.
  - intros nl I. rewrite att_of_set_att_same.
    destruct (apply_tails_contains (alltails ps) (att_of sc s) HN) as [t [E C]].
    + intros X. rewrite X in I. contradiction.
    + exists t. split; [assumption | apply C; assumption].
Qed.

(* ================================================================== disabling *)
Lemma exec_cmd_cases sc flag c s :
  snd (exec_cmd sc flag c s) = s \/
  (guard_holds sc flag (c_guard c) s = true /\ do_action (wscope (c_scoped c) sc) (c_act c) s = Some (snd (exec_cmd sc flag c s))).
Proof.
  unfold exec_cmd. destruct (guard_holds sc flag (c_guard c) s); [|left; reflexivity].
  destruct (do_action (wscope (c_scoped c) sc) (c_act c) s) eqn:E.
  - right. split; reflexivity.
  - left. destruct (c_handler c); reflexivity.
Qed.
Lemma do_action_att w a s s' sc' : do_action w a s = Some s' -> att_of sc' s' = att_of sc' s.
Proof.
  destruct a; simpl; intros E.
  - inversion E. apply att_of_set_cfg.
  - destruct (has_key _ _); [|discriminate]. inversion E. apply att_of_set_cfg.
  - destruct (has_sec _ _); [|discriminate]. inversion E. apply att_of_set_cfg.
Qed.
Lemma exec_cmd_att sc flag c s sc' : att_of sc' (snd (exec_cmd sc flag c s)) = att_of sc' s.
Proof.
  destruct (exec_cmd_cases sc flag c s) as [E|[_ E]]; [rewrite E; reflexivity|].
  eapply do_action_att; eauto.
Qed.
Lemma exec_body_step sc flag c r s :
  exec_body sc flag (c :: r) s =
  match fst (exec_cmd sc flag c s) with
  | Normal => exec_body sc flag r (snd (exec_cmd sc flag c s))
  | _ => exec_cmd sc flag c s
  end.
Proof. simpl. destruct (exec_cmd sc flag c s) as [[| |] s1]; reflexivity. Qed.
Lemma exec_prog_cfg sc flag p s sc' :
  cfg_of sc' (snd (exec_prog sc flag p s)) = cfg_of sc' (snd (exec_body sc flag (body p) s)).
Proof.
  unfold exec_prog. destruct (exec_body sc flag (body p) s) as [[| |] s1]; try reflexivity.
  destruct (tail p); [apply cfg_of_set_att | reflexivity].
Qed.
Lemma exec_prog_raised sc flag p s :
  fst (exec_prog sc flag p s) = Raised -> fst (exec_body sc flag (body p) s) = Raised.
Proof.
  unfold exec_prog. destruct (exec_body sc flag (body p) s) as [[| |] s1]; try (intros; assumption).
  destruct (tail p); simpl; intros; discriminate.
Qed.
Lemma exec_seq_step sc flag p r s :
  exec_seq sc flag (p :: r) s =
  match fst (exec_prog sc flag p s) with
  | Raised => (Raised, snd (exec_prog sc flag p s))
  | _ => exec_seq sc flag r (snd (exec_prog sc flag p s))
  end.
Proof. simpl. destruct (exec_prog sc flag p s) as [[| |] s1]; reflexivity. Qed.

(* ---- a property of the configuration maps that every command keeps holds at the end of any run *)
Section Invariant.
  Variable I : state -> Prop.
  Variable good : cmd -> bool.
  Variables (sc : scope) (flag : bool).
  Hypothesis I_att : forall s w a, I s -> I (set_att w s a).
  Hypothesis I_cmd : forall c s, good c = true -> I s -> I (snd (exec_cmd sc flag c s)).

  Lemma inv_body b : forall s, forallb good b = true -> I s -> I (snd (exec_body sc flag b s)).
  Proof.
    induction b as [|c r IH]; intros s H Hs; [assumption|].
    simpl in H. apply andb_true_iff in H. destruct H as [Hc Hr].
    rewrite exec_body_step. pose proof (I_cmd c s Hc Hs) as H1.
    destruct (fst (exec_cmd sc flag c s)); [apply IH; assumption | assumption | assumption].
  Qed.
  Lemma inv_prog p s : forallb good (body p) = true -> I s -> I (snd (exec_prog sc flag p s)).
  Proof.
    intros H Hs. pose proof (inv_body (body p) s H Hs) as H1. unfold exec_prog.
    destruct (exec_body sc flag (body p) s) as [[| |] s1]; simpl in *; try assumption.
    destruct (tail p); simpl; [apply I_att|]; assumption.
  Qed.
  Lemma inv_seq ps : forall s, forallb (fun p => forallb good (body p)) ps = true -> I s -> I (snd (exec_seq sc flag ps s)).
  Proof.
    induction ps as [|p r IH]; intros s H Hs; [assumption|].
    simpl in H. apply andb_true_iff in H. destruct H as [Hp Hr].
    rewrite exec_seq_step. pose proof (inv_prog p s Hp Hs) as H1.
    destruct (fst (exec_prog sc flag p s)); simpl; try (apply IH; assumption). assumption.
  Qed.
End Invariant.

(* ---- the driver section is gone afterwards *)
Definition act_sets_in (x : pystr) (a : action) : bool :=
  match a with ASet k _ => str_eqb (fst k) x | _ => false end.
Definition not_sets_in (x : pystr) (c : cmd) : bool := negb (act_sets_in x (c_act c)).
Definition is_aset (a : action) : bool := match a with ASet _ _ => true | _ => false end.
Definition non_raising (c : cmd) : bool := match c_handler c with Propagate => is_aset (c_act c) | _ => true end.
Definition non_exiting (c : cmd) : bool := match c_handler c with Ignore => true | _ => is_aset (c_act c) end.
Definition is_rm (x : pystr) (c : cmd) : bool :=
  match c_guard c, c_act c with
  | Always, ARmSec y => c_scoped c && str_eqb y x
  | _, _ => false
  end.
Fixpoint clears_body (x : pystr) (b : list cmd) : bool :=
  match b with
  | [] => false
  | c :: r => if is_rm x c then forallb (not_sets_in x) r else non_exiting c && clears_body x r
  end.
Fixpoint clears_seq (x : pystr) (ps : list prog) : bool :=
  match ps with
  | [] => false
  | p :: r => if clears_body x (body p) then forallb (fun q => forallb (not_sets_in x) (body q)) r
              else forallb non_raising (body p) && clears_seq x r
  end.

Definition clear (sc : scope) (x : pystr) (s : state) : Prop := has_sec (cfg_of sc s) x = false.

Lemma do_action_clear w a s s' sc x :
  act_sets_in x a = false -> do_action w a s = Some s' -> clear sc x s -> clear sc x s'.
Proof.
  unfold clear. intros N E H. destruct a as [k v|k|y]; simpl in *.
  - inversion E; subst s'. destruct (scope_dec w sc) as [->|NE].
    + rewrite cfg_of_set_cfg_same. apply has_sec_set; [apply str_eqb_false; assumption | assumption].
    + rewrite cfg_of_set_cfg_other by assumption. assumption.
  - destruct (has_key _ _); [|discriminate]. inversion E; subst s'. destruct (scope_dec w sc) as [->|NE].
    + rewrite cfg_of_set_cfg_same. apply has_sec_filter; assumption.
    + rewrite cfg_of_set_cfg_other by assumption. assumption.
  - destruct (has_sec (cfg_of w s) y); [|discriminate]. inversion E; subst s'. destruct (scope_dec w sc) as [->|NE].
    + rewrite cfg_of_set_cfg_same. apply has_sec_filter; assumption.
    + rewrite cfg_of_set_cfg_other by assumption. assumption.
Qed.
Lemma exec_cmd_clear sc0 x sc flag c s : not_sets_in x c = true -> clear sc0 x s -> clear sc0 x (snd (exec_cmd sc flag c s)).
Proof.
  intros N H. destruct (exec_cmd_cases sc flag c s) as [E|[_ E]]; [rewrite E; assumption|].
  eapply do_action_clear; eauto. unfold not_sets_in in N. apply negb_true_iff in N. assumption.
Qed.
Lemma clear_set_att sc0 x s w a : clear sc0 x s -> clear sc0 x (set_att w s a).
Proof. unfold clear. rewrite cfg_of_set_att. auto. Qed.

Lemma exec_cmd_rm sc flag c s x : is_rm x c = true -> clear sc x (snd (exec_cmd sc flag c s)).
Proof.
  unfold is_rm, exec_cmd, clear. destruct c as [g h scp a]; simpl.
  destruct g; try discriminate. destruct a as [| |y]; try discriminate.
  intros H. apply andb_true_iff in H. destruct H as [-> H]. apply str_eqb_eq in H. subst y. simpl.
  destruct (has_sec (cfg_of sc s) x) eqn:E; simpl.
  - rewrite cfg_of_set_cfg_same. apply has_sec_rmsec_same.
  - destruct h; assumption.
Qed.
Lemma non_exiting_normal sc flag c s : non_exiting c = true -> fst (exec_cmd sc flag c s) = Normal.
Proof.
  unfold non_exiting, exec_cmd. intros H. destruct (guard_holds _ _ _ _); [|reflexivity].
  destruct (do_action _ _ _) eqn:E; [reflexivity|].
  destruct (c_handler c); try reflexivity; destruct (c_act c); try discriminate; simpl in E; discriminate.
Qed.
Lemma non_raising_ok sc flag c s : non_raising c = true -> fst (exec_cmd sc flag c s) <> Raised.
Proof.
  unfold non_raising, exec_cmd. intros H. destruct (guard_holds _ _ _ _); [|discriminate].
  destruct (do_action _ _ _) eqn:E; [discriminate|].
  destruct (c_handler c); try discriminate; destruct (c_act c); try discriminate; simpl in E; discriminate.
Qed.
Lemma body_non_raising sc flag b : forall s, forallb non_raising b = true -> fst (exec_body sc flag b s) <> Raised.
Proof.
  induction b as [|c r IH]; intros s H; [discriminate|].
  simpl in H. apply andb_true_iff in H. destruct H as [Hc Hr].
  rewrite exec_body_step. pose proof (non_raising_ok sc flag c s Hc) as H1.
  destruct (exec_cmd sc flag c s) as [[| |] s1]; simpl in *; [apply IH; assumption | discriminate | contradiction].
Qed.

Lemma clears_body_sound x sc flag b : forall s, clears_body x b = true -> clear sc x (snd (exec_body sc flag b s)).
Proof.
  induction b as [|c r IH]; intros s H; [discriminate|].
  simpl in H. rewrite exec_body_step. destruct (is_rm x c) eqn:R.
  - pose proof (exec_cmd_rm sc flag c s x R) as H1.
    destruct (fst (exec_cmd sc flag c s)); try assumption.
    apply (inv_body (clear sc x) (not_sets_in x) sc flag); try assumption.
    intros c0 s0. apply exec_cmd_clear.
  - apply andb_true_iff in H. destruct H as [Hn Hr]. rewrite (non_exiting_normal sc flag c s Hn). apply IH; assumption.
Qed.
Lemma clears_seq_sound x sc flag ps : forall s, clears_seq x ps = true -> clear sc x (snd (exec_seq sc flag ps s)).
Proof.
  induction ps as [|p r IH]; intros s H; [discriminate|].
  simpl in H. rewrite exec_seq_step. destruct (clears_body x (body p)) eqn:B.
  - assert (clear sc x (snd (exec_prog sc flag p s))) as H1.
    { unfold clear. rewrite exec_prog_cfg. apply clears_body_sound; assumption. }
    destruct (fst (exec_prog sc flag p s)); simpl; try assumption;
      (apply (inv_seq (clear sc x) (not_sets_in x) sc flag); try assumption;
       [intros; apply clear_set_att; assumption | intros c0 s0; apply exec_cmd_clear]).
  - apply andb_true_iff in H. destruct H as [Hn Hr].
    pose proof (body_non_raising sc flag (body p) s Hn) as H1.
    destruct (fst (exec_prog sc flag p s)) eqn:E; try (apply IH; assumption).
    exfalso. apply H1. apply exec_prog_raised. assumption.
Qed.

(* ---- settings that point at other tools are left alone *)
Section Foreign.
  Variable ex : key -> bool.      (* keys exempted from the claim *)
  Definition safe_cmd (c : cmd) : bool :=
    match c_act c with
    | ASet k _ => own_section (fst k) || is_prompt k || ex k
    | ARmSec x => own_section x
    | AUnset k => own_section (fst k) || is_prompt k || ex k ||
                  match c_guard c with
                  | IfGetEq gs k' v => Bool.eqb gs (c_scoped c) && key_eqb k k' && str_eqb v nbdime_value
                  | _ => false
                  end
    end.
  Definition may_change (s0 : state) (sc' : scope) (k : key) : Prop :=
    own_section (fst k) = true \/ is_prompt k = true \/ ex k = true \/ get (cfg_of sc' s0) k = Some nbdime_value.
  Definition finv (s0 s : state) : Prop :=
    forall sc' k, get (cfg_of sc' s) k = get (cfg_of sc' s0) k \/ may_change s0 sc' k.

  Lemma read_write_same scp sc s k u v :
    read scp sc s k = Some v -> get (cfg_of (wscope scp sc) s) k = Some u -> u = v.
  Proof.
    unfold read, wscope. destruct (if scp then sc else Local); simpl; intros R G.
    - rewrite G in R. congruence.
    - congruence.
  Qed.

  Lemma finv_cmd s0 sc flag c s : safe_cmd c = true -> finv s0 s -> finv s0 (snd (exec_cmd sc flag c s)).
  Proof.
    intros S H. destruct (exec_cmd_cases sc flag c s) as [E|[G E]]; [rewrite E; assumption|].
    destruct c as [g h scp a]; simpl in *. set (w := wscope scp sc) in *.
    intros sc' k'. destruct a as [k v|k|x]; simpl in E, S.
    - inversion E as [E']. clear E. destruct (scope_dec w sc') as [<-|NE].
      + rewrite cfg_of_set_cfg_same, get_set. destruct (key_eqb k k') eqn:K; [|apply H].
        apply key_eqb_eq in K; subst k'. right. unfold may_change.
        apply orb_true_iff in S. destruct S as [S|S]; [apply orb_true_iff in S; destruct S|]; auto.
      + rewrite cfg_of_set_cfg_other by assumption. apply H.
    - destruct (has_key (cfg_of w s) k) eqn:HK; [|discriminate]. inversion E as [E']. clear E.
      destruct (scope_dec w sc') as [<-|NE]; [|rewrite cfg_of_set_cfg_other by assumption; apply H].
      rewrite cfg_of_set_cfg_same, get_unset. destruct (key_eqb k k') eqn:K; [|apply H].
      apply key_eqb_eq in K; subst k'. right. unfold may_change.
      apply orb_true_iff in S. destruct S as [S|S].
      + apply orb_true_iff in S. destruct S as [S|S]; [apply orb_true_iff in S; destruct S|]; auto.
      + destruct g as [| |gs gk gv]; try discriminate.
        apply andb_true_iff in S. destruct S as [S Sv]. apply andb_true_iff in S. destruct S as [Sg Sk].
        apply Bool.eqb_prop in Sg. simpl in Sg. subst gs. apply key_eqb_eq in Sk. subst gk. apply str_eqb_eq in Sv. subst gv.
        simpl in G. destruct (read scp sc s k) as [v'|] eqn:R; [|discriminate]. apply str_eqb_eq in G. subst v'.
        unfold has_key in HK. destruct (get (cfg_of w s) k) as [u|] eqn:GU; [|discriminate].
        assert (u = nbdime_value) by (eapply read_write_same; eauto). subst u.
        destruct (H w k) as [Q|Q]; [|exact Q]. do 3 right. rewrite <- Q. assumption.
    - destruct (has_sec (cfg_of w s) x) eqn:HS; [|discriminate]. inversion E as [E']. clear E.
      destruct (scope_dec w sc') as [<-|NE]; [|rewrite cfg_of_set_cfg_other by assumption; apply H].
      rewrite cfg_of_set_cfg_same, get_rmsec. destruct (str_eqb (fst k') x) eqn:K; [|apply H].
      apply str_eqb_eq in K. right. left. rewrite K. assumption.
  Qed.

  Definition disable_safe (ps : list prog) : bool := forallb (fun p => forallb safe_cmd (body p)) ps.
  Lemma disable_foreign_sound sc flag ps s : disable_safe ps = true ->
    forall sc' k, get (cfg_of sc' (snd (exec_seq sc flag ps s))) k = get (cfg_of sc' s) k \/ may_change s sc' k.
  Proof.
    intros H. apply (inv_seq (finv s) safe_cmd sc flag); try assumption.
    - intros s1 w a H1 sc' k. rewrite cfg_of_set_att. apply H1.
    - intros c s1. apply finv_cmd.
    - intros sc' k. left. reflexivity.
  Qed.
End Foreign.

Definition no_tails (ps : list prog) : bool := forallb (fun p => match tail p with None => true | Some _ => false end) ps.
Lemma exec_body_att sc flag b : forall s sc', att_of sc' (snd (exec_body sc flag b s)) = att_of sc' s.
Proof.
  induction b as [|c r IH]; intros s sc'; [reflexivity|].
  rewrite exec_body_step. pose proof (exec_cmd_att sc flag c s sc') as H.
  destruct (fst (exec_cmd sc flag c s)); try assumption. rewrite IH. assumption.
Qed.
Lemma exec_seq_att sc flag ps : forall s sc', no_tails ps = true -> att_of sc' (snd (exec_seq sc flag ps s)) = att_of sc' s.
Proof.
  induction ps as [|p r IH]; intros s sc' H; [reflexivity|].
  simpl in H. apply andb_true_iff in H. destruct H as [Hp Hr].
  assert (att_of sc' (snd (exec_prog sc flag p s)) = att_of sc' s) as H1.
  { unfold exec_prog. pose proof (exec_body_att sc flag (body p) s sc') as H2.
    destruct (exec_body sc flag (body p) s) as [[| |] s1]; simpl in *; try assumption.
    destruct (tail p); [discriminate | assumption]. }
  rewrite exec_seq_step. destruct (fst (exec_prog sc flag p s)); simpl; try assumption; rewrite IH; assumption.
Qed.

(* ================================================================== the generated programs (Gen/GitCfg.v) *)
Lemma all_commands_complete c : In c all_commands.
Proof. destruct c as [[] [] [] []|[] []]; vm_compute; repeat (first [left; reflexivity | right]). Qed.
Lemma for_all_commands (P : command -> bool) : forallb P all_commands = true -> forall c, P c = true.
Proof. intros H c. rewrite forallb_forall in H. apply H. apply all_commands_complete. Qed.
Lemma exit_ok_iff o : exit_ok o = true <-> fst o <> Raised.
Proof. unfold exit_ok. destruct (fst o); split; intros; try reflexivity; try discriminate; contradiction. Qed.

(* ---- enable: idempotent *)
Definition chk_enable (c : command) : bool := implb (is_enable c) (enable_ok (flag_of tbl c) (progs_of tbl c)).
Lemma chk_enable_all : forallb chk_enable all_commands = true.
Proof. vm_compute. reflexivity. Qed.
Lemma enable_ok_gen c : is_enable c = true -> enable_ok (flag_of tbl c) (progs_of tbl c) = true.
Proof. intros H. pose proof (for_all_commands _ chk_enable_all c) as X. unfold chk_enable in X. rewrite H in X. exact X. Qed.

Lemma enable_idempotent_gen : forall c s, is_enable c = true ->
  let o1 := run tbl c s in
  let o2 := run tbl c (final o1) in
  exit_ok o1 = true /\ exit_ok o2 = true /\
  (forall sc k, get (cfg_of sc (final o2)) k = get (cfg_of sc (final o1)) k) /\
  (forall sc, att_of sc (final o2) = att_of sc (final o1)).
Proof.
  intros c s H. pose proof (enable_idem_sound (scope_of c) (flag_of tbl c) (progs_of tbl c) s (enable_ok_gen c H)) as X.
  simpl in X. destruct X as [X1 [X2 [X3 X4]]]. unfold run, final. simpl.
  split; [apply exit_ok_iff; assumption|]. split; [apply exit_ok_iff; assumption|]. split; assumption.
Qed.

(* ---- enable: what it establishes *)
Definition has_set (c : command) (k : key) : bool := mem_key k (map fst (allsets (flag_of tbl c) (progs_of tbl c))).
Definition chk_establishes (c : command) : bool :=
  implb (is_enable c)
    (forallb (fun t => match driver_section t, driver_needle t with
                       | Some x, Some n =>
                         existsb (fun kv => str_eqb (fst (fst kv)) x) (allsets (flag_of tbl c) (progs_of tbl c))
                         && existsb (fun nl => str_eqb (fst nl) n) (alltails (progs_of tbl c))
                       | _, _ => true
                       end) (spec_tools c)).
Lemma chk_establishes_all : forallb chk_establishes all_commands = true.
Proof. vm_compute. reflexivity. Qed.

(* after enabling, each driver of the command has an entry in its section and its attribute is named in the file *)
Lemma enable_establishes_gen : forall c s t x n, is_enable c = true -> In t (spec_tools c) ->
  driver_section t = Some x -> driver_needle t = Some n ->
  let s' := final (run tbl c s) in
  has_sec (cfg_of (scope_of c) s') x = true /\
  exists txt, att_of (scope_of c) s' = Some txt /\ contains n txt = true.
Proof.
  intros c s t x n H It Hx Hn. simpl.
  pose proof (for_all_commands _ chk_establishes_all c) as X. unfold chk_establishes in X. rewrite H in X. simpl in X.
  rewrite forallb_forall in X. specialize (X t It). rewrite Hx, Hn in X. apply andb_true_iff in X. destruct X as [X1 X2].
  destruct (enable_establishes_sound (scope_of c) (flag_of tbl c) (progs_of tbl c) s (enable_ok_gen c H)) as [E1 E2].
  unfold run, final. split.
  - apply existsb_exists in X1. destruct X1 as [[k v] [I E]]. simpl in E. specialize (E1 k v I).
    destruct (has_sec (cfg_of (scope_of c) (snd (exec_seq (scope_of c) (flag_of tbl c) (progs_of tbl c) s))) x) eqn:HS; [reflexivity|].
    apply str_eqb_eq in E. rewrite (has_sec_false_get _ _ _ HS E) in E1. discriminate.
  - apply existsb_exists in X2. destruct X2 as [nl [I E]]. apply str_eqb_eq in E. subst n. apply E2. assumption.
Qed.

(* ---- enable: footprint *)
Definition chk_writes (c : command) : bool :=
  implb (is_enable c)
    (forallb (fun kv => allowed_enable_write c (fst kv) (snd kv)) (allsets (flag_of tbl c) (progs_of tbl c))).
Lemma chk_writes_all : forallb chk_writes all_commands = true.
Proof. vm_compute. reflexivity. Qed.

Definition rule_line_b (needle l : pystr) : bool :=
  match l with
  | c :: r => N.eqb c LF &&
              match rev r with
              | d :: m => N.eqb d LF && negb (existsb (N.eqb LF) m) && contains needle (rev m)
              | [] => false
              end
  | [] => false
  end.
Lemma rule_line_b_sound n l : rule_line_b n l = true -> rule_line n l.
Proof.
  unfold rule_line_b, rule_line. destruct l as [|c r]; [discriminate|]. intros H.
  apply andb_true_iff in H. destruct H as [Hc H]. apply N.eqb_eq in Hc. subst c.
  destruct (rev r) as [|d m] eqn:R; [discriminate|].
  apply andb_true_iff in H. destruct H as [H Hn]. apply andb_true_iff in H. destruct H as [Hd Hm].
  apply N.eqb_eq in Hd. subst d. exists (rev m). split; [|split].
  - f_equal. rewrite <- (rev_involutive r), R. reflexivity.
  - intros I. apply in_rev in I. apply negb_true_iff in Hm.
    assert (existsb (N.eqb LF) m = true) as Y by (apply existsb_exists; exists LF; split; [assumption | apply N.eqb_refl]).
    congruence.
  - assumption.
Qed.
Definition driver_rule (t : tool) (l : pystr) : Prop := exists n, driver_needle t = Some n /\ rule_line n l.
Definition driver_rule_b (t : tool) (l : pystr) : bool :=
  match driver_needle t with Some n => rule_line_b n l | None => false end.
Fixpoint forall2b {A B} (f : A -> B -> bool) (a : list A) (b : list B) : bool :=
  match a, b with
  | [], [] => true
  | x :: a', y :: b' => f x y && forall2b f a' b'
  | _, _ => false
  end.
Lemma forall2b_sound {A B} (f : A -> B -> bool) (P : A -> B -> Prop) :
  (forall x y, f x y = true -> P x y) -> forall a b, forall2b f a b = true -> Forall2 P a b.
Proof.
  intros H a. induction a as [|x a IH]; intros [|y b] E; simpl in E; try discriminate; constructor.
  - apply H. apply andb_true_iff in E. tauto.
  - apply IH. apply andb_true_iff in E. tauto.
Qed.
Definition spec_drivers (c : command) : list tool :=
  filter (fun t => match driver_needle t with Some _ => true | None => false end) (spec_tools c).
Definition enable_lines (c : command) : list pystr := map snd (alltails (progs_of tbl c)).
Definition chk_lines (c : command) : bool :=
  implb (is_enable c) (forall2b driver_rule_b (spec_drivers c) (enable_lines c)).
Lemma chk_lines_all : forallb chk_lines all_commands = true.
Proof. vm_compute. reflexivity. Qed.
Lemma enable_lines_gen c : is_enable c = true -> Forall2 driver_rule (spec_drivers c) (enable_lines c).
Proof.
  intros H. pose proof (for_all_commands _ chk_lines_all c) as X. unfold chk_lines in X. rewrite H in X. simpl in X.
  revert X. apply forall2b_sound. intros t l. unfold driver_rule_b, driver_rule.
  destruct (driver_needle t) as [n|]; [|discriminate]. intros E. exists n. split; [reflexivity | apply rule_line_b_sound; assumption].
Qed.
Lemma sublist_map {A B} (f : A -> B) (a b : list A) : sublist a b -> sublist (map f a) (map f b).
Proof. induction 1; simpl; constructor; assumption. Qed.

Lemma enable_footprint_gen : forall c s, is_enable c = true ->
  let s' := final (run tbl c s) in
  (forall sc k, get (cfg_of sc s') k <> get (cfg_of sc s) k ->
     sc = scope_of c /\ exists v, get (cfg_of sc s') k = Some v /\ allowed_enable_write c k v = true) /\
  (forall sc, sc <> scope_of c -> att_of sc s' = att_of sc s) /\
  (exists rules app, Forall2 driver_rule (spec_drivers c) rules /\ sublist app rules /\
                     att_of (scope_of c) s' = grow (att_of (scope_of c) s) app).
Proof.
  intros c s H. simpl.
  pose proof (enable_ok_gen c H) as OK. unfold enable_ok in OK.
  apply andb_true_iff in OK. destruct OK as [OK _]. apply andb_true_iff in OK. destruct OK as [HS HF].
  destruct (enable_footprint_sound (scope_of c) (flag_of tbl c) (progs_of tbl c) s HS HF) as [F1 [F2 F3]].
  unfold run, final. split; [|split].
  - intros sc k NE. destruct (F1 sc k) as [E|[E [v [I G]]]]; [contradiction|].
    split; [assumption|]. exists v. split; [assumption|].
    pose proof (for_all_commands _ chk_writes_all c) as X. unfold chk_writes in X. rewrite H in X. simpl in X.
    rewrite forallb_forall in X. apply (X (k, v)). assumption.
  - intros sc NE. apply F2. assumption.
  - destruct F3 as [ch [S E]]. exists (enable_lines c), (map snd ch).
    split; [apply enable_lines_gen; assumption|]. split; [apply sublist_map; assumption | assumption].
Qed.

(* every line that was in an attributes file is still there, unchanged and in the same order *)
Lemma sublist_Forall {A} (P : A -> Prop) (a b : list A) : sublist a b -> Forall P b -> Forall P a.
Proof.
  induction 1; intros F; [constructor | |]; inversion F; subst; auto.
Qed.
Lemma grow_keeps_lines a app : Forall (fun l => exists r, l = LF :: r) app ->
  is_prefix (lines (text_of a)) (lines (text_of (grow a app))).
Proof.
  intros F. destruct app as [|l app]; simpl.
  - exists []. rewrite app_nil_r. reflexivity.
  - inversion F as [|? ? [r ->] ?]; subst. simpl. apply lines_kept.
Qed.
Lemma enable_keeps_lines_gen : forall c s sc, is_enable c = true ->
  is_prefix (lines (text_of (att_of sc s))) (lines (text_of (att_of sc (final (run tbl c s))))).
Proof.
  intros c s sc H. destruct (enable_footprint_gen c s H) as [_ [F2 [rules [app [R [S E]]]]]].
  destruct (scope_dec sc (scope_of c)) as [->|NE].
  - rewrite E. apply grow_keeps_lines. apply (sublist_Forall _ _ _ S).
    clear -R. induction R as [|t l ts ls [n [_ [rule [-> _]]]] _ IH]; constructor; [eexists; reflexivity | assumption].
  - rewrite (F2 sc NE). exists []. rewrite app_nil_r. reflexivity.
Qed.

(* ---- disable: drivers removed *)
Definition chk_clears (c : command) : bool :=
  implb (negb (is_enable c))
    (forallb (fun t => match driver_section t with
                       | Some x => clears_seq x (progs_of tbl c)
                       | None => true
                       end) (spec_tools c)).
Lemma chk_clears_all : forallb chk_clears all_commands = true.
Proof. vm_compute. reflexivity. Qed.
Lemma disable_removes_drivers_gen : forall c s t x, is_enable c = false -> In t (spec_tools c) ->
  driver_section t = Some x ->
  let s' := final (run tbl c s) in
  has_sec (cfg_of (scope_of c) s') x = false /\ (forall k, fst k = x -> get (cfg_of (scope_of c) s') k = None).
Proof.
  intros c s t x H It Hx. simpl.
  pose proof (for_all_commands _ chk_clears_all c) as X. unfold chk_clears in X. rewrite H in X. simpl in X.
  rewrite forallb_forall in X. specialize (X t It). rewrite Hx in X.
  pose proof (clears_seq_sound x (scope_of c) (flag_of tbl c) (progs_of tbl c) s X) as C. unfold clear in C.
  unfold run, final. split; [assumption|]. intros k E. apply has_sec_false_get with (x := x); assumption.
Qed.

(* ---- disable: foreign settings kept *)
Definition no_exempt (k : key) : bool := false.
Definition chk_foreign (ex : key -> bool) (c : command) : bool :=
  implb (negb (is_enable c)) (disable_safe ex (progs_of tbl c) && no_tails (progs_of tbl c)).
Lemma disable_preserves_foreign_ex (ex : key -> bool) : forallb (chk_foreign ex) all_commands = true ->
  forall c s sc k, is_enable c = false ->
  let s' := final (run tbl c s) in
  (protected k = true -> ex k = false -> get (cfg_of sc s) k <> Some nbdime_value ->
     get (cfg_of sc s') k = get (cfg_of sc s) k) /\
  att_of sc s' = att_of sc s.
Proof.
  intros A c s sc k H. simpl.
  pose proof (for_all_commands _ A c) as X. unfold chk_foreign in X. rewrite H in X. simpl in X.
  apply andb_true_iff in X. destruct X as [X1 X2]. unfold run, final. split.
  - intros P E N.
    destruct (disable_foreign_sound ex (scope_of c) (flag_of tbl c) (progs_of tbl c) s X1 sc k) as [Q|Q]; [assumption|].
    unfold protected in P. apply andb_true_iff in P. destruct P as [P1 P2].
    apply negb_true_iff in P1. apply negb_true_iff in P2.
    destruct Q as [Q|[Q|[Q|Q]]]; congruence.
  - apply exec_seq_att. assumption.
Qed.

(* the whole claim, available once every disable() guards what it unsets (compiles on any tree) *)
Lemma disable_preserves_foreign_if : forallb (chk_foreign no_exempt) all_commands = true ->
  forall c s sc k, is_enable c = false ->
  let s' := final (run tbl c s) in
  (protected k = true -> get (cfg_of sc s) k <> Some nbdime_value -> get (cfg_of sc s') k = get (cfg_of sc s) k) /\
  att_of sc s' = att_of sc s.
Proof.
  intros A c s sc k H. destruct (disable_preserves_foreign_ex no_exempt A c s sc k H) as [X Y].
  split; [|assumption]. intros P N. apply X; auto.
Qed.

(* ---- the state of the code with respect to finding F10 (mergetool.disable unsets merge.tool unguarded).
   Everything below compiles whether or not the defect is present; Props/C18.v picks the side that holds. *)
Definition merge_tool_key : key := (asc "merge", asc "tool").
Definition exempt_merge_tool (k : key) : bool := key_eqb k merge_tool_key.
Definition all_disable_guarded : bool := forallb (chk_foreign no_exempt) all_commands.

Lemma chk_foreign_except_merge_tool : forallb (chk_foreign exempt_merge_tool) all_commands = true.
Proof. vm_compute. reflexivity. Qed.
Lemma disable_preserves_foreign_except_merge_tool_gen : forall c s sc k, is_enable c = false ->
  let s' := final (run tbl c s) in
  (protected k = true -> k <> merge_tool_key -> get (cfg_of sc s) k <> Some nbdime_value ->
     get (cfg_of sc s') k = get (cfg_of sc s) k) /\
  att_of sc s' = att_of sc s.
Proof.
  intros c s sc k H. destruct (disable_preserves_foreign_ex exempt_merge_tool chk_foreign_except_merge_tool c s sc k H) as [X Y].
  split; [|assumption]. intros P N V. apply X; auto. apply key_eqb_neq. assumption.
Qed.

Definition disable_preserves_foreign_statement : Prop :=
  forall c s sc k, is_enable c = false ->
  let s' := final (run tbl c s) in
  (protected k = true -> get (cfg_of sc s) k <> Some nbdime_value -> get (cfg_of sc s') k = get (cfg_of sc s) k) /\
  att_of sc s' = att_of sc s.
Definition mergetool_disable_refuted_statement : Prop :=
  exists s v, protected merge_tool_key = true /\ v <> nbdime_value /\
              get (cfg_of Local s) merge_tool_key = Some v /\
              get (cfg_of Local (final (run tbl (One MergeTool false Local false) s))) merge_tool_key = None.
Definition f10_witness : state := mkState [(merge_tool_key, asc "meld")] [] None None.

Lemma disable_foreign_verdict_pos : if all_disable_guarded then disable_preserves_foreign_statement else True.
Proof.
  destruct all_disable_guarded eqn:E; [|exact I].
  unfold disable_preserves_foreign_statement. apply disable_preserves_foreign_if. exact E.
Qed.
Lemma disable_foreign_verdict_neg : if all_disable_guarded then True else mergetool_disable_refuted_statement.
Proof.
  first [ exact I
        | exists f10_witness, (asc "meld"); vm_compute; repeat split; try reflexivity; discriminate ].
Qed.

(* ---- the hypotheses of the theorems can be met, and the conclusions are not trivial *)
Definition empty_state : state := mkState [] [] None None.
Example enable_does_something :
  has_sec (cfgL (final (run tbl (All true Local) empty_state))) (asc "diff.jupyternotebook") = true /\
  has_sec (cfgL (final (run tbl (All true Local) empty_state))) (asc "merge.jupyternotebook") = true /\
  attL (final (run tbl (All true Local) empty_state)) <> None.
Proof. vm_compute. repeat split; discriminate. Qed.
Example disable_undoes_enable :
  let s1 := final (run tbl (All true Global) empty_state) in
  has_sec (cfgG s1) (asc "diff.jupyternotebook") = true /\
  has_sec (cfgG (final (run tbl (All false Global) s1))) (asc "diff.jupyternotebook") = false.
Proof. vm_compute. split; reflexivity. Qed.
Example foreign_guitool_survives :
  let k := (asc "diff", asc "guitool") in
  let s := mkState [(k, asc "meld")] [] None None in
  protected k = true /\ get (cfgL s) k <> Some nbdime_value /\
  get (cfgL (final (run tbl (All false Local) s))) k = Some (asc "meld").
Proof. vm_compute. repeat split; discriminate. Qed.
Example own_guitool_is_unset :
  let k := (asc "diff", asc "guitool") in
  let s := mkState [(k, nbdime_value)] [] None None in
  get (cfgL (final (run tbl (One DiffTool false Local false) s))) k = None.
Proof. vm_compute. reflexivity. Qed.
Example set_default_is_honoured :
  get (cfgL (final (run tbl (One MergeTool true Local true) empty_state))) merge_tool_key = Some nbdime_value /\
  get (cfgL (final (run tbl (One MergeTool true Local false) empty_state))) merge_tool_key = None.
Proof. vm_compute. split; reflexivity. Qed.
