(* C02 -- generic JSON diff/patch round trip is exact, including value types.
   Statements only; the proofs are in Diff/*Proofs.v.  O ranges over ALL similarity heuristics
   (no hypothesis on o_sim) and all difflib outputs that form a valid edit script (opcodes_valid,
   validated on every recorded call); generic_config is regenerated from /repo on every run
   (Gen/NbConfig.v) and the proofs need its facts c_dict_strict = true, default predicate = strict_equals. *)
From Coq Require Import List NArith.
From NB Require Import Base.Res Base.Json Base.PyStr Diff.DiffFormat Diff.Patch Diff.GenericDiff Diff.Wf
     Diff.StringProofs Diff.StringMaster Diff.MasterProofs Diff.SpecProofs Diff.C02Proofs Diff.Codec Diff.CodecProofs Gen.NbConfig.
Import ListNotations.

(* patching a with diff(a, b) gives exactly b (strict JSON equality: bool/int/float distinct) *)
Theorem generic_diff_patch_roundtrip : forall O n a b,
  opcodes_valid O -> 2 * depth a < n -> wfj a = true -> wfj b = true -> same_container a b ->
  exists d, diff_default O generic_config n a b = Ok d /\ (forall m, depth a < m -> patch m a d = Ok b)
            /\ (forall f, depth a < f -> wf_diff f a d = true).
Proof. exact generic_roundtrip. Qed.
Print Assumptions generic_diff_patch_roundtrip.

(* the diff is empty only if the documents are identical *)
Theorem generic_diff_empty_only_if_equal : forall O n a b,
  opcodes_valid O -> 2 * depth a < n -> wfj a = true -> wfj b = true -> same_container a b ->
  diff_default O generic_config n a b = Ok [] -> a = b.
Proof. exact generic_empty_only_if_equal. Qed.
Print Assumptions generic_diff_empty_only_if_equal.

(* strings: line-based diff, flattened to characters by patch, reproduces the target; the line diff is well-formed *)
Theorem string_diff_patch_roundtrip : forall O cfg, opcodes_valid O -> forall n m s t, 0 < n -> 1 < m ->
  exists d, diff_strings_linewise O cfg n s t = Ok d /\ patch m (JStr s) d = Ok (JStr t)
            /\ wf_lines (splitlines s) d = true.
Proof. exact string_roundtrip. Qed.
Print Assumptions string_diff_patch_roundtrip.

(* str.splitlines(True) partitions the string *)
Theorem splitlines_partition : forall s, concat (splitlines s) = s.
Proof. exact splitlines_concat. Qed.
Print Assumptions splitlines_partition.

(* patch is the documented meaning of the format: on EVERY well-formed diff (not only those nbdime
   produces) nbdime's cursor-based patch -- including the flattening of line diffs to character
   diffs -- computes what the position-wise reading of the format (Wf.spec_patch) denotes *)
Theorem patch_is_documented_meaning : forall f a d, wfj a = true -> wf_diff f a d = true ->
  forall m, f <= m -> patch m a d = Ok (spec_patch f a d).
Proof. exact patch_is_spec. Qed.
Print Assumptions patch_is_documented_meaning.

(* hence an independent implementation of the documented format obtains b from diff(a, b) *)
Theorem generic_diff_denotes_target_by_documented_meaning : forall O n a b,
  opcodes_valid O -> 2 * depth a < n -> wfj a = true -> wfj b = true -> same_container a b ->
  exists d, diff_default O generic_config n a b = Ok d /\ forall f, depth a < f -> check_diff f a b d = true.
Proof. exact generic_diff_denotes_target. Qed.
Print Assumptions generic_diff_denotes_target_by_documented_meaning.

(* the JSON form in which the model's diff is compared with nbdime's (T1) is faithful: decoding what was
   encoded gives the diff back, so equal JSON means equal diffs *)
Theorem diff_json_form_faithful : forall d n, ddepth d < n -> dec_diff n (enc_diff d) = Some d.
Proof. exact dec_enc_diff. Qed.
Print Assumptions diff_json_form_faithful.

Theorem diff_json_form_injective : forall d1 d2, enc_diff d1 = enc_diff d2 -> d1 = d2.
Proof. exact enc_diff_inj. Qed.
Print Assumptions diff_json_form_injective.
