(* C02 -- generic JSON diff/patch round trip.  Statements only; proofs live in Diff/*Proofs.v. *)
From Coq Require Import List NArith.
From NB Require Import Base.Json Base.PyStr.
Import ListNotations.

Theorem splitlines_partition : forall s, concat (splitlines s) = s.
Proof. exact splitlines_concat. Qed.
Print Assumptions splitlines_partition.
