(* C06 -- changes that do not meet (different keys / no chunk fed by both sides) merge without conflict.
   Statements only; proofs live in Merge/MergeProofs.v. *)
From Coq Require Import List ZArith.
From NB Require Import Base.Res.
From NB Require Import Base.Json.
From NB Require Import Diff.DiffFormat.
From NB Require Import Diff.GenericDiff.
From NB Require Import Merge.SortKey.
From NB Require Import Merge.Chunks.
From NB Require Import Merge.Decisions.
From NB Require Import Merge.Apply.
From NB Require Import Merge.MergeGeneric.
From NB Require Import Merge.MergeProofs.
From NB Require Import Merge.MergeSmallScope.
From NB Require Import Gen.MergeFacts.
Import ListNotations.

(* separated: for objects the two diffs name different keys; for lists and multi-line strings no chunk of
   make_merge_chunks receives entries from both sides.  Then no decision is conflicted, under every strategy table,
   every oracle and every hook. *)
Theorem disjoint_merge_partial : forall O cfg St H base dl dr decs,
  plain_string_root St base -> separated chunks_guard base dl dr ->
  decide_merge_with_diff O cfg St H chunks_guard entry_eq_strict conflict_assert_strict base dl dr = Ok decs ->
  no_conf decs.
Proof. exact (fun O cfg St H => decide_separated O cfg St H chunks_guard entry_eq_strict conflict_assert_strict). Qed.
Print Assumptions disjoint_merge_partial.

(* the chunker never mixes the sides when one of them is silent, and hands identical diffs to both slots when the
   sides agree (the two facts the one-sided arm of _merge_lists relies on) *)
Theorem chunks_onesided : forall bs d0, Forall (fun c => c_d1 c = []) (make_chunks bs d0 []).
Proof. exact make_chunks_right_nil. Qed.
Print Assumptions chunks_onesided.

(* satisfiable, and the merged document is base with both changes applied *)
Theorem disjoint_merge_example :
  separated GuardListTruthy (JArr [JInt 1; JInt 2; JInt 3]) [DRemoveRange (KI 0) 1] [DRemoveRange (KI 2) 1]
  /\ exists decs, decide_merge_with_diff O0 cfg0 no_strategies no_hooks GuardListTruthy false false
                 (JArr [JInt 1; JInt 2; JInt 3]) [DRemoveRange (KI 0) 1] [DRemoveRange (KI 2) 1] = Ok decs
               /\ apply_decisions (JArr [JInt 1; JInt 2; JInt 3]) decs = Ok (JArr [JInt 2]).
Proof. exact separated_nonvacuous. Qed.
Print Assumptions disjoint_merge_example.

(* FULL statement on exhaustively enumerated finite domains: whenever the two sides' changes are separated (and both
   non-empty) the merge is conflict-free and the merged document is the position-wise meaning of the union of the two
   diffs (Wf.spec_patch, no cursor): bases = lists of length <= 3 over {1,2,3} with both sides of length <= 2, and
   objects over x,y -> {1,2,3}; 252 resp. 288 of the triples are separated with both sides changing
   (disjoint_small_scope_counts). *)
Theorem disjoint_merge_small_scope :
  (forall b l r, In b (small_lists 3) -> In l (small_lists 2) -> In r (small_lists 2) ->
                 disjoint_ok chunks_guard entry_eq_strict conflict_assert_strict b l r = true)
  /\ (forall b l r, In b small_objects2 -> In l small_objects2 -> In r small_objects2 ->
                    disjoint_ok chunks_guard entry_eq_strict conflict_assert_strict b l r = true).
Proof. exact disjoint_small_scope. Qed.
Print Assumptions disjoint_merge_small_scope.
