(* C06 -- changes that do not meet (different keys / no chunk fed by both sides) merge without conflict.
   Statements only; proofs live in Merge/MergeProofs.v. *)
From Coq Require Import String.
From NB Require Import Diff.Codec.
From Coq Require Import List ZArith.
From NB Require Import Base.Res.
From NB Require Import Base.Json.
From NB Require Import Diff.DiffFormat.
From NB Require Import Diff.GenericDiff.
From NB Require Import Merge.SortKey.
From NB Require Import Merge.Chunks.
From NB Require Import Merge.Decisions.
From NB Require Import Merge.Apply.
From NB Require Import Merge.MergeGeneric.
From NB Require Import Merge.MergeProofs.
From NB Require Import Merge.MergeSmallScope.
From NB Require Import Gen.MergeFacts.
From NB Require Import Diff.Patch Merge.MergeApplyProofs Merge.MergeDisjointFlat Merge.MergeOnesidedList Merge.MergeDisjointList Merge.MergeOnesidedObj Merge.MergeDisjointObj.
From NB Require Import Diff.Wf.
Import ListNotations.

(* separated: for objects the two diffs name different keys; for lists and multi-line strings no chunk of
   make_merge_chunks receives entries from both sides.  Then no decision is conflicted, under every strategy table,
   every oracle and every hook. *)
Theorem disjoint_merge_partial : forall O cfg St H base dl dr decs,
  plain_string_root St base -> separated chunks_guard base dl dr ->
  decide_merge_with_diff O cfg St H chunks_guard entry_eq_strict conflict_assert_strict base dl dr = Ok decs ->
  no_conf decs.
Proof. exact (fun O cfg St H => decide_separated O cfg St H chunks_guard entry_eq_strict conflict_assert_strict). Qed.
Print Assumptions disjoint_merge_partial.

(* the chunker never mixes the sides when one of them is silent, and hands identical diffs to both slots when the
   sides agree (the two facts the one-sided arm of _merge_lists relies on) *)
Theorem chunks_onesided : forall bs d0, Forall (fun c => c_d1 c = []) (make_chunks bs d0 []).
Proof. exact make_chunks_right_nil. Qed.
Print Assumptions chunks_onesided.

(* satisfiable, and the merged document is base with both changes applied *)
Theorem disjoint_merge_example :
  separated GuardListTruthy (JArr [JInt 1; JInt 2; JInt 3]) [DRemoveRange (KI 0) 1] [DRemoveRange (KI 2) 1]
  /\ exists decs, decide_merge_with_diff O0 cfg0 no_strategies no_hooks GuardListTruthy false false
                 (JArr [JInt 1; JInt 2; JInt 3]) [DRemoveRange (KI 0) 1] [DRemoveRange (KI 2) 1] = Ok decs
               /\ apply_decisions (JArr [JInt 1; JInt 2; JInt 3]) decs = Ok (JArr [JInt 2]).
Proof. exact separated_nonvacuous. Qed.
Print Assumptions disjoint_merge_example.

(* FULL statement on exhaustively enumerated finite domains: whenever the two sides' changes are separated (and both
   non-empty) the merge is conflict-free and the merged document is the position-wise meaning of the union of the two
   diffs (Wf.spec_patch, no cursor): bases = lists of length <= 3 over {1,2,3} with both sides of length <= 2, and
   objects over x,y -> {1,2,3}; 252 resp. 288 of the triples are separated with both sides changing
   (disjoint_small_scope_counts). *)
Theorem disjoint_merge_small_scope :
  (forall b l r, In b (small_lists 3) -> In l (small_lists 2) -> In r (small_lists 2) ->
                 disjoint_ok chunks_guard entry_eq_strict conflict_assert_strict b l r = true)
  /\ (forall b l r, In b small_objects2 -> In l small_objects2 -> In r small_objects2 ->
                    disjoint_ok chunks_guard entry_eq_strict conflict_assert_strict b l r = true).
Proof. exact disjoint_small_scope. Qed.
Print Assumptions disjoint_merge_small_scope.

(* FULL statement for flat objects with ANY number of keys: for every object base and every two flat (add / remove / replace),
   key-sorted object diffs naming DIFFERENT keys, the merge returns, no decision is conflicted, and applying the decisions gives
   the document obtained by applying the two diffs one after the other -- in either order: both sides' changes are kept, nothing
   else changes.  (Patch failures of an ill-fitting diff are outside the statement: the equation is conditional on the
   sequential patches succeeding.) *)
Theorem disjoint_flat_object_both_sides_kept : forall O cfg St H dl dr,
  flat dl -> flat dr -> skeys_lt None dl -> skeys_lt None dr -> disjoint_keys dl dr -> forall kv, dl <> [] ->
  exists decs,
    decide_merge_with_diff O cfg St H chunks_guard entry_eq_strict conflict_assert_strict (JObj kv) dl dr = Ok decs
    /\ no_conf decs
    /\ (forall f x y, patch (S f) (JObj kv) dl = Ok x -> patch (S f) x dr = Ok y -> apply_decisions (JObj kv) decs = Ok y)
    /\ (forall f x y, patch (S f) (JObj kv) dr = Ok x -> patch (S f) x dl = Ok y -> apply_decisions (JObj kv) decs = Ok y).
Proof. exact (fun O cfg St H => disjoint_flat_both_kept O cfg St H chunks_guard entry_eq_strict conflict_assert_strict). Qed.
Print Assumptions disjoint_flat_object_both_sides_kept.

Theorem disjoint_flat_object_example :
  let kv := [(of_ascii "a", JInt 1); (of_ascii "b", JInt 2); (of_ascii "c", JInt 3)] in
  let dl := [DReplace (KS (of_ascii "a")) (JInt 9)] in
  let dr := [DRemove (KS (of_ascii "b")); DAdd (KS (of_ascii "d")) (JInt 4)] in
  flat dl /\ flat dr /\ skeys_lt None dl /\ skeys_lt None dr /\ disjoint_keys dl dr /\ dl <> []
  /\ (do x <- patch 3 (JObj kv) dl; patch 3 x dr) = Ok (JObj [(of_ascii "a", JInt 9); (of_ascii "c", JInt 3); (of_ascii "d", JInt 4)]).
Proof. exact disjoint_flat_example. Qed.
Print Assumptions disjoint_flat_object_example.

(* FULL statement for lists and flat diffs of ANY length (runs of items inserted / deleted, e.g. different cells added or removed
   on the two sides): if no chunk receives entries from both sides (`separated`), then whenever the merge returns, no decision is
   conflicted and applying the decisions is ONE patch of base by u = the chunk-ordered union of the two diffs (split on the
   common section boundaries): every change of either side is applied exactly once and nothing else is. *)
Theorem disjoint_flat_list_both_sides_kept : forall O cfg St H l dl dr decs,
  lflat dl -> lflat dr -> separated chunks_guard (JArr l) dl dr ->
  decide_merge_with_diff O cfg St H chunks_guard entry_eq_strict conflict_assert_strict (JArr l) dl dr = Ok decs ->
  exists chunks u,
    make_merge_chunks_with chunks_guard (length l) dl dr = Ok chunks /\ u = concat (map c_slots chunks)
    /\ no_conf decs
    /\ (u <> [] -> apply_decisions (JArr l) decs = patch (pfuel (JArr l) u) (JArr l) u).
Proof.
  intros O cfg St H l dl dr decs Fl Fr Hsep E.
  apply (disjoint_flat_list O cfg St H chunks_guard entry_eq_strict conflict_assert_strict l dl dr decs Fl Fr); [|exact E].
  intros chunks EC. specialize (Hsep chunks EC). eapply Forall_impl; [|exact Hsep]. intros [[[j k] a] b] X. exact X.
Qed.
Print Assumptions disjoint_flat_list_both_sides_kept.

Theorem disjoint_flat_list_example_thm :
  let l := [JInt 0; JInt 1; JInt 2; JInt 3; JInt 4] in
  let dl := [DAddRange (KI 1) (VList [JInt 7])] in
  let dr := [DRemoveRange (KI 3) 2] in
  lflat dl /\ lflat dr
  /\ (forall chunks, make_merge_chunks_with GuardListTruthy (length l) dl dr = Ok chunks -> Forall (fun c => c_d0 c = [] \/ c_d1' c = []) chunks)
  /\ exists decs, decide_merge_with_diff O0 cfg0 no_strategies no_hooks GuardListTruthy false false (JArr l) dl dr = Ok decs
       /\ apply_decisions (JArr l) decs = Ok (JArr [JInt 0; JInt 7; JInt 1; JInt 2]).
Proof. exact disjoint_flat_list_example. Qed.
Print Assumptions disjoint_flat_list_example_thm.

(* FULL statement for OBJECT documents of any depth (notebooks are objects): the two sides change DIFFERENT top-level keys
   (one edits metadata, the other edits cells, ...), each change nested to any depth, with diffs that are well-formed for the base
   (Diff/Wf.v wf_diff, C11).  Then the merge returns, no decision is conflicted, and applying the decisions gives the document
   obtained by applying the two diffs one after the other, in either order: exactly both changes. *)
Theorem disjoint_object_both_sides_kept : forall O cfg St H kv dl dr f,
  wfj (JObj kv) = true -> wf_diff f (JObj kv) dl = true -> wf_diff f (JObj kv) dr = true -> disjoint_keys dl dr ->
  exists decs,
    decide_merge_with_diff O cfg St H chunks_guard entry_eq_strict conflict_assert_strict (JObj kv) dl dr = Ok decs
    /\ no_conf decs
    /\ (forall m, depth (JObj kv) < m -> apply_decisions (JObj kv) decs = patch m (JObj kv) (union_diff dl dr))
    /\ (forall m x y, depth (JObj kv) < m -> patch m (JObj kv) dl = Ok x -> patch m x dr = Ok y -> apply_decisions (JObj kv) decs = Ok y)
    /\ (forall m x y, depth (JObj kv) < m -> patch m (JObj kv) dr = Ok x -> patch m x dl = Ok y -> apply_decisions (JObj kv) decs = Ok y).
Proof. exact (fun O cfg St H => disjoint_object_both_kept O cfg St H chunks_guard entry_eq_strict conflict_assert_strict). Qed.
Print Assumptions disjoint_object_both_sides_kept.

Theorem disjoint_object_example :
  let dl := [DReplace (KS (exo_s "m")) (JInt 2)] in
  let dr := [DPatch (KS (exo_s "cells")) [DPatch (KI 0) [DPatch (KS (exo_s "source"))
               [DAddRange (KI 1) (VList [JStr (exo_s "xy" ++ [10%N])]); DRemoveRange (KI 1) 1]]]] in
  wfj exo_base = true /\ wf_diff 6 exo_base dl = true /\ wf_diff 6 exo_base dr = true /\ disjoint_keys dl dr
  /\ (do x <- patch 6 exo_base dl; patch 6 x dr)
     = Ok (JObj [(exo_s "cells", JArr [JObj [(exo_s "source", JStr (exo_s "ab" ++ [10%N] ++ exo_s "xy" ++ [10%N]))]]); (exo_s "m", JInt 2)]).
Proof.
  cbv zeta. split; [vm_compute; reflexivity|]. split; [vm_compute; reflexivity|]. split; [vm_compute; reflexivity|]. split.
  - intros e e' [<-|[]] [<-|[]]. vm_compute. discriminate.
  - vm_compute. reflexivity.
Qed.
Print Assumptions disjoint_object_example.
