(* C04 -- a merged notebook validates against the notebook format it declares: theorems about what the conflict
   renderers of nbdime/merging/strategies.py build (models: Merge/Render4.v, schemas: Gen/NbSchemas.v, validator:
   Schema/Schema.v).  Statements only; proofs are in Merge/Render4Proofs.v. *)
From Coq Require Import List NArith ZArith String.
From NB Require Import Base.Json Diff.Codec Schema.Schema Gen.NbSchemas Gen.RenderFacts Merge.Render4 Merge.Render4Proofs.
Import ListNotations.

(* ---- renderers that are valid for every minor 4.0 .. 4.5 ---- *)
Theorem marker_output_valid : forall k text, k <= 5 -> output_valid k (output_marker text).
Proof. exact Render4Proofs.marker_output_valid. Qed.
Print Assumptions marker_output_valid.

Theorem inline_outputs_valid : forall k hi br kb lins rins louts routs lnote rnote, k <= 5 ->
  Forall (output_valid k) lins -> Forall (output_valid k) rins ->
  Forall (output_valid k) louts -> Forall (output_valid k) routs ->
  Forall (output_valid k) (make_inline_output_conflict hi br kb lins rins louts routs lnote rnote).
Proof. exact Render4Proofs.inline_outputs_valid. Qed.
Print Assumptions inline_outputs_valid.

Theorem record_conflict_valid : forall k s n md ld rd, k <= 5 ->
  In (Some s) (metadata_schemas k) ->
  validate (nb_defs k) (S (S n)) s (JObj md) = Some true ->
  validate (nb_defs k) (S (S n)) s (record_conflicts md ld rd) = Some true.
Proof. exact Render4Proofs.record_conflict_valid. Qed.
Print Assumptions record_conflict_valid.

Theorem attachment_rename_valid : forall k n att key local remote, k <= 5 ->
  validate (nb_defs k) (S (S (S n))) attachments_schema (JObj att) = Some true ->
  validate (nb_defs k) n mimebundle_schema local = Some true ->
  validate (nb_defs k) n mimebundle_schema remote = Some true ->
  validate (nb_defs k) (S (S (S n))) attachments_schema (rename_attachments att key local remote) = Some true.
Proof. exact Render4Proofs.attachment_rename_valid. Qed.
Print Assumptions attachment_rename_valid.

(* ---- statements that follow the generated source facts (Gen/RenderFacts.v) whichever way they read ---- *)
Theorem marker_cell_by_policy : marker_statement cell_marker_id.
Proof. exact (marker_statement_holds cell_marker_id). Qed.
Print Assumptions marker_cell_by_policy.

Theorem similar_insert_by_policy : similar_statement similar_insert_id similar_insert_attachments.
Proof. exact (similar_statement_holds similar_insert_id similar_insert_attachments). Qed.
Print Assumptions similar_insert_by_policy.

(* After the repairs in /repo the positive statements hold for the regenerated source facts; reverting a repair
   flips the fact and breaks the proofs below. *)
(* BLOCK B of coq/Props/C04.v: paste in place of BLOCK A once the fix is applied (after the fixes (cell_marker_id = MarkerIdIffPayload, similar_insert_id = SimIdLocal)) *)
Theorem marker_cell_valid : forall k cid text, k <= 5 -> id_ok cid -> cell_valid k (cell_marker (Nat.leb 5 k) cid text).
Proof. exact marker_iff_valid. Qed.
Print Assumptions marker_cell_valid.

Theorem inline_cells_valid : forall k id0 id1 id2 base lvals rvals start lr rr,
  k <= 5 -> id_ok id0 -> id_ok id1 -> id_ok id2 ->
  Forall (cell_valid k) base -> Forall (cell_valid k) lvals -> Forall (cell_valid k) rvals ->
  forallb (has_key k_id) ((lvals ++ firstn (lr - rr) (skipn start base)) ++ (rvals ++ firstn (rr - lr) (skipn start base))) = Nat.leb 5 k ->
  Forall (cell_valid k) (make_inline_cell_conflict (id0, id1, id2) base lvals rvals start lr rr).
Proof. exact inline_cells_valid_iff. Qed.
Print Assumptions inline_cells_valid.

(* every value the similar-insert cell builder writes for a conflicting key (source, metadata, id, execution_count,
   outputs, attachments) is valid at that key's position of every cell type that has the key, given that the two cells'
   own values (absent = None) were *)
Theorem similar_insert_value_valid : forall k T key s lo ro src v, k <= 5 -> In T cell_type_defs ->
  prop_schema (nb_defs k) T key = Some s -> ovalid k s lo -> ovalid k s ro ->
  similar_value similar_insert_id similar_insert_attachments key lo ro src = Some v -> validate (nb_defs k) F s v = Some true.
Proof. exact (fun k T key s lo ro src v => similar_value_valid_own similar_insert_id similar_insert_attachments k T key s lo ro src v I). Qed.
Print Assumptions similar_insert_value_valid.

(* the id written for two similar inserted cells of which only one has an id (sides saved with different minors) is that
   one id, local's when both have one; with the pre-f2e9526 code (SimIdLocal) the first conjunct is false (KeyError) *)
Theorem similar_insert_id_one_sided : forall lv rv src,
  similar_value similar_insert_id similar_insert_attachments k_id None (Some rv) src = Some rv /\
  similar_value similar_insert_id similar_insert_attachments k_id (Some lv) None src = Some lv /\
  similar_value similar_insert_id similar_insert_attachments k_id (Some lv) (Some rv) src = Some lv /\
  similar_value similar_insert_id similar_insert_attachments k_id None None src = None.
Proof. exact (similar_id_one_sided similar_insert_attachments). Qed.
Print Assumptions similar_insert_id_one_sided.

(* the attachments branch: both sides' attachments kept, differing ones renamed LOCAL_/REMOTE_ -- valid attachments *)
Theorem similar_attachments_valid : forall k n latt ratt, k <= 5 ->
  validate (nb_defs k) (S (S (S n))) attachments_schema (JObj latt) = Some true ->
  validate (nb_defs k) (S (S (S n))) attachments_schema (JObj ratt) = Some true ->
  validate (nb_defs k) (S (S (S n))) attachments_schema (JObj (merge_similar_attachments latt ratt)) = Some true.
Proof. exact Render4Proofs.similar_attachments_valid. Qed.
Print Assumptions similar_attachments_valid.

(* the attachments branch is live in the regenerated source facts (reverting the repair breaks this) and produces, on a
   concrete pair of similar markdown cells at every minor, a valid cell with LOCAL_a.png / REMOTE_a.png / same.png *)
Theorem similar_attachments_branch_present : similar_insert_attachments = SimAttKeepBoth.
Proof. exact (eq_refl SimAttKeepBoth). Qed.
Print Assumptions similar_attachments_branch_present.
