(* C04 -- a merged notebook validates against the notebook format it declares: theorems about what the conflict
   renderers of nbdime/merging/strategies.py build (models: Merge/Render4.v, schemas: Gen/NbSchemas.v, validator:
   Schema/Schema.v).  Statements only; proofs are in Merge/Render4Proofs.v. *)
From Coq Require Import List NArith ZArith String.
From NB Require Import Base.Json Diff.Codec Schema.Schema Gen.NbSchemas Gen.RenderFacts Merge.Render4 Merge.Render4Proofs.
Import ListNotations.

(* ---- renderers that are valid for every minor 4.0 .. 4.5 ---- *)
Theorem marker_output_valid : forall k text, k <= 5 -> output_valid k (output_marker text).
Proof. exact Render4Proofs.marker_output_valid. Qed.
Print Assumptions marker_output_valid.

Theorem inline_outputs_valid : forall k hi br kb lins rins louts routs lnote rnote, k <= 5 ->
  Forall (output_valid k) lins -> Forall (output_valid k) rins ->
  Forall (output_valid k) louts -> Forall (output_valid k) routs ->
  Forall (output_valid k) (make_inline_output_conflict hi br kb lins rins louts routs lnote rnote).
Proof. exact Render4Proofs.inline_outputs_valid. Qed.
Print Assumptions inline_outputs_valid.

Theorem record_conflict_valid : forall k s n md ld rd, k <= 5 ->
  In (Some s) (metadata_schemas k) ->
  validate (nb_defs k) (S (S n)) s (JObj md) = Some true ->
  validate (nb_defs k) (S (S n)) s (record_conflicts md ld rd) = Some true.
Proof. exact Render4Proofs.record_conflict_valid. Qed.
Print Assumptions record_conflict_valid.

Theorem attachment_rename_valid : forall k n att key local remote, k <= 5 ->
  validate (nb_defs k) (S (S (S n))) attachments_schema (JObj att) = Some true ->
  validate (nb_defs k) n mimebundle_schema local = Some true ->
  validate (nb_defs k) n mimebundle_schema remote = Some true ->
  validate (nb_defs k) (S (S (S n))) attachments_schema (rename_attachments att key local remote) = Some true.
Proof. exact Render4Proofs.attachment_rename_valid. Qed.
Print Assumptions attachment_rename_valid.

(* ---- statements that follow the generated source facts (Gen/RenderFacts.v) whichever way they read ---- *)
Theorem marker_cell_by_policy : marker_statement cell_marker_id.
Proof. exact (marker_statement_holds cell_marker_id). Qed.
Print Assumptions marker_cell_by_policy.

Theorem similar_insert_by_policy : similar_statement similar_insert_id.
Proof. exact (similar_statement_holds similar_insert_id). Qed.
Print Assumptions similar_insert_by_policy.

(* ==== BLOCK A: the pinned code (cell_marker_id = MarkerIdAlways, similar_insert_id = SimIdDict).
   These stop type-checking when the reviewed fixes notes/C04-fix-1.diff / C04-fix-2.diff are applied; then delete
   BLOCK A, uncomment BLOCK B and remove the two entries from known_findings.d/C04.json. ==== *)
Theorem marker_cell_valid_45 : forall w cid text, id_ok cid -> cell_valid 5 (cell_marker w cid text).
Proof. exact marker_always_valid_5. Qed.
Print Assumptions marker_cell_valid_45.

Theorem marker_cell_refuted : exists k w cid text, k < 5 /\ id_ok cid /\
  validate (nb_defs k) F cell_schema (cell_marker w cid text) = Some false.
Proof. exact marker_cell_refuted_always. Qed.
Print Assumptions marker_cell_refuted.

Theorem inline_cells_valid_45 : forall id0 id1 id2 base lvals rvals start lr rr,
  id_ok id0 -> id_ok id1 -> id_ok id2 ->
  Forall (cell_valid 5) base -> Forall (cell_valid 5) lvals -> Forall (cell_valid 5) rvals ->
  Forall (cell_valid 5) (make_inline_cell_conflict (id0, id1, id2) base lvals rvals start lr rr).
Proof. exact inline_cells_valid_5. Qed.
Print Assumptions inline_cells_valid_45.

Theorem inline_cells_refuted : exists k ids base lvals rvals, k < 5 /\
  all_valid k cell_schema (base ++ lvals ++ rvals) = true /\
  all_valid k cell_schema (make_inline_cell_conflict ids base lvals rvals 0 0 0) = false.
Proof. exact inline_cells_refuted_always_ex. Qed.
Print Assumptions inline_cells_refuted.

Theorem similar_insert_cell_refuted :
  all_valid 5 cell_schema [JObj (wit_code "cell1" "x = 1"); JObj (wit_code "cell2" "x = 2")] = true /\
  exists c, similar_insert_cell (wit_code "cell1" "x = 1") (wit_code "cell2" "x = 2") [k_source; k_id] (of_ascii "<<< x = 1 === x = 2 >>>") = Some c /\
            validate (nb_defs 5) F cell_schema c = Some false.
Proof. exact similar_insert_refuted_dict. Qed.
Print Assumptions similar_insert_cell_refuted.
(* ==== end of BLOCK A ==== *)

(* BLOCK B (the positive theorems that take over after the fix) is kept ready to paste in notes/C04-blockB.v *)
