(* C17 -- diffing git revisions examines exactly what git reports; the caller's directory is restored.
   Statements only; the proofs live in Sys/GitRefsProofs.v.  [src_facts] is generated from /repo on every run. *)
From Coq Require Import List NArith Bool.
From NB Require Import Base.Json.
From NB Require Import Sys.GitRefs.
From NB Require Import Sys.GitRefsProofs.
From NB Require Import Gen.GitRefsFacts.
Import ListNotations.

(* -- valid for every source: what holds for the code as it is, selected by the generated facts -- *)
Theorem c17_changed_notebooks_by_source_fact : c17_statement src_facts.
Proof. exact (c17_by_fact src_facts). Qed.
Print Assumptions c17_changed_notebooks_by_source_fact.

Theorem c17_cli_by_source_fact : cli_statement src_facts.
Proof. exact (cli_by_fact src_facts). Qed.
Print Assumptions c17_cli_by_source_fact.

Theorem c17_from_root : root_property src_facts.
Proof. exact (root_of_any src_facts eq_refl). Qed.
Print Assumptions c17_from_root.

Theorem c17_restoring_pushd_suffices : forall F, good F -> full_property F.
Proof. exact full_of_good. Qed.
Print Assumptions c17_restoring_pushd_suffices.

Theorem c17_pairs_exact : forall F W root popped rb rr paths,
  good F -> (forall p, w_filter W root p <> FRaise) ->
  (f_filter_in_try F = true \/ forall q, w_filter W root q <> FRaiseIO) ->
  let res := changed_notebooks F W root popped rb rr paths in
  pairs_of res = map (entry_pair F W root rb rr)
                     (filter (entry_is_nb F) (w_diff W (tree_of_base rb) rr (map (fun p => popped ++ p) paths)))
  /\ r_raised res = false.
Proof. exact pairs_exact. Qed.
Print Assumptions c17_pairs_exact.

Theorem c17_saved_dot_drifts : forall F W rb rr k es cwd,
  f_pushd_saves F = Curdir ->
  let res := cn_loop F W rb rr (Up k) es cwd in
  r_cwd res = up (k * length (r_reads res)) cwd /\
  map fst (r_reads res) = drift_reads k cwd (length (r_reads res)).
Proof. exact curdir_drift. Qed.
Print Assumptions c17_saved_dot_drifts.

(* Source-state blocks.  The defects were repaired in /repo (e5eae7c: pushd saves os.getcwd();
   a4982c2: nbdiff with only paths compares HEAD with the working tree; and the working-tree side of an entry that
   git reports as deleted is the missing file whatever sits at the path on disk); the positive statements hold for
   the regenerated source facts.  Reverting any of the fixes flips the generated fact and breaks a proof below. *)
Theorem c17_full : full_property src_facts.
Proof. exact (full_of_good src_facts (conj eq_refl (conj eq_refl eq_refl))). Qed.
Print Assumptions c17_full.

Theorem c17_deleted_not_read : forall W cwd p blob d, p <> [] -> is_nb src_facts p = true ->
  get_stream src_facts W cwd p blob RWorktree true d = (cwd, [], OStream SMissing).
Proof. exact (fun W cwd p blob d => deleted_not_read src_facts W cwd p blob d eq_refl). Qed.
Print Assumptions c17_deleted_not_read.

Theorem c17_cli_full : forall is_gitref args, cli_hyps is_gitref args ->
  main_mode src_facts is_gitref args = spec_mode is_gitref args.
Proof. exact (fun g args => cli_allpaths_head src_facts g args eq_refl). Qed.
Print Assumptions c17_cli_full.
