(* C17 -- diffing git revisions examines exactly what git reports; the caller's directory is restored.
   Statements only; the proofs live in Sys/GitRefsProofs.v.  [src_facts] is generated from /repo on every run. *)
From Coq Require Import List NArith Bool.
From NB Require Import Base.Json.
From NB Require Import Sys.GitRefs.
From NB Require Import Sys.GitRefsProofs.
From NB Require Import Gen.GitRefsFacts.
Import ListNotations.

(* -- valid for every source: what holds for the code as it is, selected by the generated facts -- *)
Theorem c17_changed_notebooks_by_source_fact : c17_statement src_facts.
Proof. exact (c17_by_fact src_facts). Qed.
Print Assumptions c17_changed_notebooks_by_source_fact.

Theorem c17_cli_by_source_fact : cli_statement src_facts.
Proof. exact (cli_by_fact src_facts). Qed.
Print Assumptions c17_cli_by_source_fact.

Theorem c17_from_root : root_property src_facts.
Proof. exact (root_of_any src_facts). Qed.
Print Assumptions c17_from_root.

Theorem c17_restoring_pushd_suffices : forall F, good F -> full_property F.
Proof. exact full_of_good. Qed.
Print Assumptions c17_restoring_pushd_suffices.

Theorem c17_pairs_exact : forall F W root popped rb rr paths,
  good F -> (forall p, w_filter W root p <> FRaise) ->
  (f_filter_in_try F = true \/ forall q, w_filter W root q <> FRaiseIO) ->
  let res := changed_notebooks F W root popped rb rr paths in
  pairs_of res = map (entry_pair F W root rb rr)
                     (filter (entry_is_nb F) (w_diff W (tree_of_base rb) rr (map (fun p => popped ++ p) paths)))
  /\ r_raised res = false.
Proof. exact pairs_exact. Qed.
Print Assumptions c17_pairs_exact.

Theorem c17_saved_dot_drifts : forall F W rb rr k es cwd,
  f_pushd_saves F = Curdir ->
  let res := cn_loop F W rb rr (Up k) es cwd in
  r_cwd res = up (k * length (r_reads res)) cwd /\
  map fst (r_reads res) = drift_reads k cwd (length (r_reads res)).
Proof. exact curdir_drift. Qed.
Print Assumptions c17_saved_dot_drifts.

(* ==== BEGIN SOURCE-STATE BLOCKS =========================================================================
   Two independent switches.  In each, exactly one alternative compiles, depending on /repo:
     (An) the pinned source: the property is REFUTED on the model (witness replayed on the implementation by the check);
     (Bn) after the corresponding fix: the full positive statement.
   To switch one: comment its (An) theorem out, strip the 'B> ' prefixes of its (Bn) lines and move them out of the
   comment, and delete the matching entry of known_findings.d/C17.json.
     1 = utils.pushd saves os.getcwd()            (notes/C17-fix-1.diff, finding pushd-saves-dot:...)
     2 = resolve_diff_args all-paths base = HEAD  (notes/C17-fix-2.diff, finding cli-all-paths:...)
   The other two findings (rename across the suffix, clean filter + deleted file) need no switch: their source facts
   f_skip_both / f_filter_in_try are generated, the theorems above are stated for every value, and the
   correspondence check follows the code. *)

(* (A1) *)
Theorem c17_cwd_restored_refuted : subdir_refuted src_facts.
Proof. exact (refuted_of_curdir src_facts eq_refl eq_refl). Qed.
Print Assumptions c17_cwd_restored_refuted.
(* (B1)
B> Theorem c17_full : full_property src_facts.
B> Proof. exact (full_of_good src_facts (conj eq_refl eq_refl)). Qed.
B> Print Assumptions c17_full.
*)

(* (A2) *)
Theorem c17_cli_all_paths_refuted : forall is_gitref x y z ps,
  cli_hyps is_gitref (x :: y :: z :: ps) -> is_gitref (Some x) = false ->
  main_mode src_facts is_gitref (x :: y :: z :: ps) = GitMode RWorktree RWorktree (x :: y :: z :: ps) /\
  spec_mode is_gitref (x :: y :: z :: ps) = GitMode head_ref RWorktree (x :: y :: z :: ps) /\
  main_mode src_facts is_gitref (x :: y :: z :: ps) <> spec_mode is_gitref (x :: y :: z :: ps).
Proof. exact (fun g x y z ps => cli_allpaths_none_refuted src_facts g x y z ps eq_refl). Qed.
Print Assumptions c17_cli_all_paths_refuted.
(* (B2)
B> Theorem c17_cli_full : forall is_gitref args, cli_hyps is_gitref args ->
B>   main_mode src_facts is_gitref args = spec_mode is_gitref args.
B> Proof. exact (fun g args => cli_allpaths_head src_facts g args eq_refl). Qed.
B> Print Assumptions c17_cli_full.
*)
(* ==== END SOURCE-STATE BLOCKS ============================================================================ *)
