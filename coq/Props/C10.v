(* C10 -- use-base/use-local/use-remote equal resolving every open conflict to that side (placeholder, extended below). *)
From Coq Require Import List.
From NB Require Import Base.Json.
From NB Require Import Merge.StrategyBase.
From NB Require Import Gen.Strategies.
From NB Require Import Merge.StrategyTable.
From NB Require Import Merge.StrategyTableProofs.

Theorem use_side_strategies_reach_use_side_arms : forall side, In side sides -> use_side_accepted side = true.
Proof. exact use_side_accepted_everywhere. Qed.
Print Assumptions use_side_strategies_reach_use_side_arms.
