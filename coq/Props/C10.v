(* C10 -- use-base / use-local / use-remote equal resolving every open conflict of the open ('mergetool') merge to that
   side; no unresolved conflict.

   GOAL (full statement over the complete merge model):
     use_side_equiv : forall side cfg_open cfg_side (differing only in use-X vs mergetool at the governed positions) b l r,
        merged (merge cfg_side b l r) = apply b (relabel_conflicts side (decide cfg_open b l r))
        /\ no conflicted decision governed by use-X remains.
   Proved below: every place where a use-X strategy acts, in isolation --
     the leaf (decisions.conflict -> tryresolve), resolve_strategy_generic, the three level dispatchers, and the root
     (including validated() and apply_decisions) GIVEN the same builder before the root resolution (`_partial`: the
     induction through _merge_lists/_merge_dicts/_merge_strings that shows both runs reach the same builder is not done;
     that part of the statement is explored on the implementation by harness/props/c10.py). *)
From Coq Require Import List String.
From NB Require Import Base.Json.
From NB Require Import Base.Res.
From NB Require Import Diff.DiffFormat.
From NB Require Import Diff.Codec.
From NB Require Import Merge.SortKey.
From NB Require Import Merge.Decisions.
From NB Require Import Merge.Apply.
From NB Require Import Merge.MergeGeneric.
From NB Require Import Merge.StrategyBase.
From NB Require Import Gen.Strategies.
From NB Require Import Merge.StrategyTable.
From NB Require Import Merge.StrategyTableProofs.
From NB Require Import Merge.Strategies.
From NB Require Import Merge.StrategiesProofs.

(* the strings "use-base/local/remote" reach the use-side arms of all five dispatchers of the SOURCE (generated chains) *)
Theorem use_side_strategies_reach_use_side_arms : forall side, In side sides -> use_side_accepted side = true.
Proof. exact use_side_accepted_everywhere. Qed.
Print Assumptions use_side_strategies_reach_use_side_arms.

(* leaf level *)
Theorem use_side_equiv_leaf :
  forall cs B p l r side,
  is_side side -> truthy l = true -> truthy r = true -> conflict_args_eqb cs l r = false ->
  exists Bopen Bside,
    b_conflict cs B p l r (Some (of_ascii "mergetool")) = Ok Bopen /\
    b_conflict cs B p l r (Some (use_strategy side)) = Ok Bside /\
    map drop_strategy Bside =
      map drop_strategy B ++ relabel_conflicts (side_action side) (skipn (List.length B) (map drop_strategy Bopen)) /\
    (List.length Bopen = S (List.length B) -> skipn (List.length B) (map d_conflict Bopen) = (true :: nil)
                                              /\ skipn (List.length B) (map d_conflict Bside) = (false :: nil)).
Proof. exact StrategiesProofs.use_side_equiv_leaf. Qed.
Print Assumptions use_side_equiv_leaf.

(* every level that resolves remaining conflicts *)
Theorem use_side_generic_is_relabel :
  forall B side, is_side side ->
  resolve_strategy_generic B (Some (use_strategy side)) = relabel_open (side_action side) B.
Proof. exact generic_use_side_is_relabel. Qed.
Print Assumptions use_side_generic_is_relabel.

Theorem use_side_strings_is_relabel :
  forall B side, is_side side ->
  resolve_conflicted_strings B (Some (use_strategy side)) = relabel_open (side_action side) B.
Proof. exact strings_use_side_is_relabel. Qed.
Print Assumptions use_side_strings_is_relabel.

Theorem use_side_list_is_relabel :
  forall H p base B side, is_side side ->
  resolve_conflicted_list H p base B (Some (use_strategy side)) = Ok (relabel_open (side_action side) B).
Proof. exact list_use_side_is_relabel. Qed.
Print Assumptions use_side_list_is_relabel.

Theorem use_side_dict_is_relabel :
  forall H p base B side, is_side side ->
  resolve_conflicted_dict H p base B (Some (use_strategy side)) = Ok (relabel_open (side_action side) B).
Proof. exact dict_use_side_is_relabel. Qed.
Print Assumptions use_side_dict_is_relabel.

(* the root *)
Theorem use_side_equiv_partial :
  forall B side, is_side side -> all_conflicts_open B ->
  validated (resolve_strategy_generic B (Some (use_strategy side)))
  = relabel_conflicts (side_action side) (validated (resolve_strategy_generic B (Some (of_ascii "mergetool")))).
Proof. exact use_side_equiv_root. Qed.
Print Assumptions use_side_equiv_partial.

Theorem use_side_merged_equal_partial :
  forall base B side, is_side side -> all_conflicts_open B ->
  apply_decisions base (validated (resolve_strategy_generic B (Some (use_strategy side))))
  = apply_decisions base (relabel_conflicts (side_action side)
                            (validated (resolve_strategy_generic B (Some (of_ascii "mergetool"))))).
Proof. exact use_side_equiv_root_merged. Qed.
Print Assumptions use_side_merged_equal_partial.

Theorem use_side_no_conflict_partial :
  forall B side, is_side side -> all_conflicts_open B ->
  Forall (fun d => d_conflict d = false) (validated (resolve_strategy_generic B (Some (use_strategy side)))).
Proof. exact use_side_root_no_conflict. Qed.
Print Assumptions use_side_no_conflict_partial.

(* the two arms of _merge_lists where a use-X acts while deciding *)
Theorem use_side_equiv_pr_arm :
  forall cs B p l r,
  truthy l = true -> truthy r = true -> conflict_args_eqb cs l r = false ->
  exists Bopen, b_conflict cs B p l r None = Ok Bopen /\
    map drop_strategy (b_base B p l r)
      = map drop_strategy B ++ relabel_conflicts ABase (skipn (List.length B) (map drop_strategy Bopen)) /\
    (exists Bl, b_local B p l r = Ok Bl /\
       map drop_strategy Bl = map drop_strategy B ++ relabel_conflicts ALocal (skipn (List.length B) (map drop_strategy Bopen))) /\
    (exists Br, b_remote B p l r = Ok Br /\
       map drop_strategy Br = map drop_strategy B ++ relabel_conflicts ARemote (skipn (List.length B) (map drop_strategy Bopen))).
Proof. exact StrategiesProofs.use_side_equiv_pr_arm. Qed.
Print Assumptions use_side_equiv_pr_arm.

Theorem use_side_equiv_insert_arm :
  forall cs B p l r side,
  is_side side -> truthy l = true -> truthy r = true -> conflict_args_eqb cs l r = false ->
  exists Bside,
    b_tryresolve cs B p l r (Some (use_strategy side)) = Ok (Bside, true) /\
    b_tryresolve cs B p l r (Some (of_ascii "mergetool")) = Ok (B, false) /\
    (forall Bopen, b_local_then_remote B p l r true = Ok Bopen ->
       map drop_strategy Bside = map drop_strategy B ++
         relabel_conflicts (side_action side) (skipn (List.length B) (map drop_strategy Bopen))) /\
    (forall Bopen, b_remote_then_local B p l r true = Ok Bopen ->
       map drop_strategy Bside = map drop_strategy B ++
         relabel_conflicts (side_action side) (skipn (List.length B) (map drop_strategy Bopen))).
Proof. exact StrategiesProofs.use_side_equiv_insert_arm. Qed.
Print Assumptions use_side_equiv_insert_arm.
