(* C16 -- terminal rendering never fails; silent on the empty diff; speaks on every diff that touches a shown location;
   no ANSI escape codes with colour disabled.  Statements only; models in Sys/RenderFilter.v (+ Gen/RenderFilter.v,
   regenerated from nbdime/prettyprint.py), proofs in Sys/RenderFilterProofs.v. *)
From Coq Require Import List NArith.
From NB Require Import Base.Res.
From NB Require Import Base.Json.
From NB Require Import Diff.DiffFormat.
From NB Require Import Diff.Wf.
From NB Require Import Sys.RenderTypes.
From NB Require Import Gen.RenderFilter.
From NB Require Import Sys.RenderFilter.
From NB Require Import Sys.RenderFilterProofs.
Import ListNotations.

Theorem render_empty_silent : forall fuel c O a, render_notebook_diff fuel c O a [] = Ok [].
Proof. exact render_empty_silent_l. Qed.
Print Assumptions render_empty_silent.

Theorem render_wf_safe :
  string_patch_total -> forall c O, tools_ok c O ->
  forall fuel a d path, wf_diff fuel a d = true -> exists evs, render_diff fuel c O a d path = Ok evs.
Proof. exact render_wf_safe_l. Qed.
Print Assumptions render_wf_safe.

Theorem render_decision_safe :
  string_patch_total -> forall c O, tools_ok c O ->
  forall fuel base cp d v d', walk_common base cp d = Ok (v, d') -> wf_diff fuel v d' = true ->
  exists evs, render_decision_diff fuel c O base cp d = Ok evs.
Proof. exact render_decision_safe_l. Qed.
Print Assumptions render_decision_safe.

Theorem render_speaks :
  forall c O fuel a d path, touches fuel c a d path = true ->
  forall evs, render_diff fuel c O a d path = Ok evs -> evs <> [].
Proof. exact render_speaks_l. Qed.
Print Assumptions render_speaks.

Theorem filter_matches_categories :
  forall c p, should_ignore_path c (keys_of p) = true <-> exists k, In k (hide_categories p) /\ ignored c k = true.
Proof. exact filter_matches_categories_l. Qed.
Print Assumptions filter_matches_categories.

Theorem filter_sound :
  forall c p, (forall k, In k (categories_of p) -> flag c k = true) -> should_ignore_path c (keys_of p) = false.
Proof. exact filter_sound_l. Qed.
Print Assumptions filter_sound.

Theorem nocolor_constants_clean :
  forall c s, use_color c = false -> In s (constants c ++ [diff_entry_end]) -> esc_free s = true.
Proof. exact nocolor_constants_clean_l. Qed.
Print Assumptions nocolor_constants_clean.

Theorem nocolor_git_cmd_clean :
  forall c, use_color c = false -> existsb is_color_opt (git_cmd c) = false /\ existsb is_color_opt diff_cmd = false.
Proof. exact nocolor_git_cmd_clean_l. Qed.
Print Assumptions nocolor_git_cmd_clean.

Theorem renderer_selection : forall c, select_renderer c = spec_renderer c.
Proof. exact renderer_selection_l. Qed.
Print Assumptions renderer_selection.

(* The next two hold whatever the source says; which disjunct holds is read off by the check on every run. *)
Theorem show_nocolor_decided :
  (highlight_respects_nocolor = true /\ show_nocolor_clean_stmt) \/
  (highlight_respects_nocolor = false /\ show_nocolor_refuted_stmt).
Proof. exact show_nocolor_decided_l. Qed.
Print Assumptions show_nocolor_decided.

Theorem tool_assert_decided : (strip_safe_check = true /\ tool_safe_stmt) \/ strip_safe_check = false.
Proof. exact tool_assert_decided_l. Qed.
Print Assumptions tool_assert_decided.

(* F8 (show-nocolor-ansi) was repaired by /repo commit 9e1765a: pretty_print_source now consults use_color.
   Reverting that fix flips the generated fact highlight_respects_nocolor and breaks this proof. *)
Theorem show_nocolor_clean : show_nocolor_clean_stmt.
Proof. exact (show_nocolor_clean_if eq_refl). Qed.
Print Assumptions show_nocolor_clean.

(* F14 (colorwords-marker-assert) was repaired by /repo commit cf285eb: markers are not stripped from word diffs. *)
Theorem tool_assert_safe : tool_safe_stmt.
Proof. exact (tool_safe_if eq_refl). Qed.
Print Assumptions tool_assert_safe.
