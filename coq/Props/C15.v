(* C15 -- browser-side (TypeScript) patch and decision application agree with the Python side.
   Statements only.  Models: Ts/TsSplit.v, Ts/TsPatch.v, Ts/TsDecisions.v, Diff/Patch.v, Base/PyStr.v, Gen/Actions.v
   (regenerated from /repo on every run).  Proofs: Ts/TsSplitProofs.v, Ts/TsStringProofs.v, Ts/TsPatchProofs.v,
   Ts/TsDecisionsProofs.v. *)
From Coq Require Import List NArith.
From NB Require Import Base.Res.
From NB Require Import Base.Json.
From NB Require Import Base.PyStr.
From NB Require Import Diff.DiffFormat.
From NB Require Import Diff.Patch.
From NB Require Import Diff.Wf.
From NB Require Import Diff.Codec.
From NB Require Import Gen.Actions.
From NB Require Import Ts.TsSplit.
From NB Require Import Ts.TsPatch.
From NB Require Import Ts.TsDecisions.
From NB Require Import Ts.TsSplitProofs.
From NB Require Import Ts.TsPatchProofs.
From NB Require Import Ts.TsDecisionsProofs.
Import ListNotations.

(* ---- patch: for every well-formed diff of a document whose strings use only LF / CR / CRLF as line separators
        (JavaScript strings being code-unit lists: BMP text), the TypeScript patcher returns exactly what the Python
        patcher returns -- objects, arrays, multi-line strings with line- and character-level entries, nested. ---- *)
Theorem ts_patch_agrees :
  forall n a d, wfj a = true -> seps_ok a = true -> wf_diff n a d = true -> ts_patch n a d = patch n a d.
Proof. exact TsPatchProofs.ts_patch_agrees. Qed.
Print Assumptions ts_patch_agrees.

Theorem splitlines_ts_agrees :
  forall s, only_nl_cr s = true -> drop_last_empty (ts_split_lines s) = splitlines s.
Proof. exact TsSplitProofs.splitlines_ts_agrees. Qed.
Print Assumptions splitlines_ts_agrees.

(* ---- vocabulary (finite; lists regenerated from the sources): holds before and after the repair of F4 ---- *)
Theorem py_emitted_accepted_except_take_max :
  forall a, In a py_emitted -> a = take_max \/ ts_validate_action a = Ok a.
Proof. exact TsDecisionsProofs.py_emitted_accepted_except_take_max. Qed.
Print Assumptions py_emitted_accepted_except_take_max.

Theorem ts_accepted_resolved : forall a, In a ts_accepted -> ts_resolves a = true.
Proof. exact TsDecisionsProofs.ts_accepted_resolved. Qed.
Print Assumptions ts_accepted_resolved.

Theorem py_emitted_in_schema_except_take_max :
  forall a, In a py_emitted -> a = take_max \/ In a schema_actions.
Proof. exact TsDecisionsProofs.py_emitted_in_schema_except_take_max. Qed.
Print Assumptions py_emitted_in_schema_except_take_max.

(* the published merge-decision schema lists every action the Python side can emit (take_max since /repo 06b95f5) *)
Theorem py_emitted_in_schema : forall a, In a py_emitted -> In a schema_actions.
Proof. exact TsDecisionsProofs.py_emitted_in_schema. Qed.
Print Assumptions py_emitted_in_schema.

(* ======== BLOCK F4 (known finding "ts-rejects-emitted-action:take_max") ========
   True of the code as it is.  Once take_max is added to validateAction / resolveAction in decisions.ts and to
   merge_format.schema.json, Gen/Actions.v changes, this theorem fails, and the block is to be replaced by
     [py_emitted_accepted : forall a, In a py_emitted -> ts_validate_action a = Ok a], proved by
     [exact (TsDecisionsProofs.py_emitted_accepted_if_take_max_accepted eq_refl)]. *)
Theorem take_max_refuted :
  In take_max py_emitted /\ ts_validate_action take_max = Err RuntimeError /\ In take_max schema_actions.
Proof. exact TsDecisionsProofs.take_max_refuted. Qed.
Print Assumptions take_max_refuted.
(* ======== END BLOCK F4 ======== *)

(* ======== BLOCK F7 (known finding "...base-has-line-separator-js-splits-differently") ========
   The separator hypothesis of ts_patch_agrees cannot be dropped: for each of VT, FF, FS, GS, RS, NEL, U+2028, U+2029
   the line tables differ and a well-formed diff is applied differently. *)
Theorem splitlines_ts_refuted :
  forall c, In c exotic_list -> drop_last_empty (ts_split_lines [97; c; 98]%N) <> splitlines [97; c; 98]%N.
Proof. exact TsSplitProofs.splitlines_ts_refuted. Qed.
Print Assumptions splitlines_ts_refuted.

Theorem ts_patch_refuted :
  forall c, In c exotic_list ->
    wfj (sep_witness_base c) = true /\ wf_diff 3 (sep_witness_base c) sep_witness_diff = true /\
    ts_patch 3 (sep_witness_base c) sep_witness_diff <> patch 3 (sep_witness_base c) sep_witness_diff.
Proof. exact TsPatchProofs.ts_patch_refuted. Qed.
Print Assumptions ts_patch_refuted.
(* ======== END BLOCK F7 ======== *)

(* ======== BLOCK UTF-16 (known finding "...astral-code-point-before-char-level-edit") ========
   Nor can the code-unit reading: character-level keys are code-point offsets on the Python side. *)
Theorem ts_patch_astral_refuted :
  exists s d r,
    only_nl_cr s = true /\ wf_diff 3 (JStr s) d = true /\
    patch 3 (JStr s) d = Ok (JStr r) /\
    ts_patch 3 (JStr (utf16_enc s)) d <> Ok (JStr (utf16_enc r)).
Proof. exact TsPatchProofs.ts_patch_astral_refuted. Qed.
Print Assumptions ts_patch_astral_refuted.
(* ======== END BLOCK UTF-16 ======== *)
