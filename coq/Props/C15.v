(* C15 -- browser-side patch and decision application agree with the Python side.
   Statements only; models in Ts/*.v, proofs in Ts/*Proofs.v. *)
From Coq Require Import List NArith.
From NB Require Import Base.Json.
From NB Require Import Base.PyStr.
From NB Require Import Ts.TsSplit.
From NB Require Import Ts.TsSplitProofs.
Import ListNotations.

Theorem splitlines_ts_agrees :
  forall s, only_nl_cr s = true -> drop_last_empty (ts_split_lines s) = splitlines s.
Proof. exact TsSplitProofs.splitlines_ts_agrees. Qed.
Print Assumptions splitlines_ts_agrees.

Theorem splitlines_ts_refuted :
  forall c, In c exotic_list -> drop_last_empty (ts_split_lines [97; c; 98]%N) <> splitlines [97; c; 98]%N.
Proof. exact TsSplitProofs.splitlines_ts_refuted. Qed.
Print Assumptions splitlines_ts_refuted.
