(* C11 -- every produced diff is well-formed for its base document.
   wf_diff (coq/Diff/Wf.v): list operations ordered by position, non-overlapping, in bounds, addrange
   first at equal key and at most one per key; object keys strictly increasing, additions name absent
   keys, removals / replacements / patches name present ones; nested patches descend only into
   containers and are never empty; string diffs are line diffs whose nested patches are character diffs. *)
From Coq Require Import List NArith.
From NB Require Import Base.Res Base.Json Base.PyStr Diff.DiffFormat Diff.Patch Diff.GenericDiff Diff.Wf
     Diff.StringProofs Diff.StringMaster Diff.MasterProofs Diff.C02Proofs Diff.NbProofs Diff.C01Proofs Gen.NbConfig.
Import ListNotations.

(* the generic differ: its diff is well-formed for the base (and patches the base into the target) *)
Theorem generic_diff_wellformed : forall O n a b,
  opcodes_valid O -> 2 * depth a < n -> wfj a = true -> wfj b = true -> same_container a b ->
  exists d, diff_default O generic_config n a b = Ok d /\ (forall f, depth a < f -> wf_diff f a d = true).
Proof.
  intros O n a b H1 H2 H3 H4 H5. destruct (generic_roundtrip O n a b H1 H2 H3 H4 H5) as (d & Hd & _ & Hw).
  exists d. split; assumption.
Qed.
Print Assumptions generic_diff_wellformed.

(* string (source, text) diffs are well-formed line diffs *)
Theorem string_diff_wellformed : forall O cfg, opcodes_valid O -> forall n s t, 0 < n ->
  exists d, diff_strings_linewise O cfg n s t = Ok d /\ wf_lines (splitlines s) d = true.
Proof.
  intros O cfg H n s t Hn. destruct (string_roundtrip O cfg H n 2 s t Hn ltac:(auto)) as (d & H1 & _ & H3).
  exists d. split; assumption.
Qed.
Print Assumptions string_diff_wellformed.

(* the notebook differ (multilevel cell/output alignment under any heuristic, source lines, mime
   bundles, attachments, single outputs; tables regenerated from /repo): whenever it returns, its diff
   is well-formed for the base notebook *)
Theorem notebook_diff_wellformed : forall O n a b d,
  opcodes_valid O -> wfj a = true -> wfj b = true -> sources_are_strings a = true ->
  diff_ O nb_config n [] a b = Ok d -> forall f, depth a < f -> wf_diff f a d = true.
Proof. intros O n a b d H1 H2 H3 H4 H5. exact (proj1 (proj2 (nb_roundtrip O n a b d H1 H2 H3 H4 H5))). Qed.
Print Assumptions notebook_diff_wellformed.
