(* C13 -- diff, patch, merge and rendering never modify their inputs.  Statements only; the store-passing model is
   Diff/Store.v, the proofs are in Diff/StoreProofs.v, and the configuration constants (patch_cfg,
   dso_restore_protected, apply_copies_base) are GENERATED from /repo's source into Gen/C13Facts.v on every run. *)
From Coq Require Import List.
From NB Require Import Base.Res.
From NB Require Import Base.Json.
From NB Require Import Diff.DiffFormat.
From NB Require Import Diff.Store.
From NB Require Import Diff.StoreProofs.
From NB Require Import Gen.C13Facts.
Import ListNotations.

(* patch(obj, diff) writes to no object that existed before the call: the heap only grows.  So the base, the diff
   and everything else keep their contents exactly (same items, same order). *)
Theorem patch_base_untouched : forall n h obj d h' r,
  patch_s patch_cfg n h obj d = Ok (h', r) ->
  (exists e, h' = h ++ e) /\ forall l, l < length h -> nth_error h' l = nth_error h l.
Proof. exact (fun n h obj d h' r => patch_inputs_untouched patch_cfg n h obj d h' r eq_refl). Qed.
Print Assumptions patch_base_untouched.

(* no object reachable from the patched result is reachable from the base *)
Theorem patch_result_disjoint_from_base : forall n h obj d h' r,
  closed_in h obj ->
  (forall l, from_diff h d l -> ~ reach h obj l) ->
  patch_s patch_cfg n h obj d = Ok (h', r) ->
  forall l, reach h' r l -> ~ reach h' obj l.
Proof. exact (fun n h obj d h' r => patch_result_disjoint_from_base_gen patch_cfg n h obj d h' r eq_refl). Qed.
Print Assumptions patch_result_disjoint_from_base.

(* every object of the result is new or belongs to a value carried by the diff *)
Theorem patch_result_new_or_from_diff : forall n h obj d h' r,
  patch_s patch_cfg n h obj d = Ok (h', r) ->
  forall l, reach h' r l -> length h <= l \/ (copy_diffvals patch_cfg = false /\ from_diff h d l).
Proof. exact (fun n h obj d h' r => patch_result_reach patch_cfg n h obj d h' r eq_refl). Qed.
Print Assumptions patch_result_new_or_from_diff.

(* the aliasing clause, decided by the generated source fact copy_diffvals patch_cfg:
   either the source copies the diff's values and result and diff are disjoint,
   or it does not and  patch([], [addrange(0, [[]])])  returns a list whose item IS the diff's value, so that
   mutating the result alters the diff (finding "patch-result-shares-diff-value") *)
Theorem patch_result_disjoint_from_diff_or_refuted :
  (copy_diffvals patch_cfg = true /\ disjoint_from_diff patch_cfg) \/
  (copy_diffvals patch_cfg = false /\ shares_diff_value patch_cfg).
Proof. exact (patch_diff_aliasing_by_source patch_cfg eq_refl). Qed.
Print Assumptions patch_result_disjoint_from_diff_or_refuted.

Theorem patch_result_disjoint_from_diff :
  copy_diffvals patch_cfg = true -> disjoint_from_diff patch_cfg.
Proof. exact (fun H n h obj d h' r => patch_result_disjoint_from_diff_gen patch_cfg n h obj d h' r eq_refl H). Qed.
Print Assumptions patch_result_disjoint_from_diff.

Theorem patch_result_disjoint_from_diff_refuted :
  copy_diffvals patch_cfg = false -> shares_diff_value patch_cfg.
Proof. exact (patch_result_shares_diff_value patch_cfg). Qed.
Print Assumptions patch_result_disjoint_from_diff_refuted.

(* diff_single_outputs (display_data / execute_result): on the normal path every object alive before the call has
   the same contents afterwards, dicts compared as mappings (canonical, sorted-key JSON) ... *)
Theorem diff_outputs_restores : forall n h a b h',
  dso dso_restore_protected None n h a b = (h', Returned) -> heap_equiv h h'.
Proof. exact (dso_restores dso_restore_protected). Qed.
Print Assumptions diff_outputs_restores.

(* ... while 'data' moves to the end of the insertion order of both outputs *)
Theorem diff_outputs_moves_data_last : forall n h a b h',
  a <> b -> b < length h -> dso dso_restore_protected None n h a b = (h', Returned) ->
  exists kva va kvb vb,
    nth_error h a = Some (CDict kva) /\ assoc k_data kva = Some va /\
    nth_error h b = Some (CDict kvb) /\ assoc k_data kvb = Some vb /\
    nth_error h' a = Some (CDict (remove_key k_data kva ++ [(k_data, va)])) /\
    nth_error h' b = Some (CDict (remove_key k_data kvb ++ [(k_data, vb)])).
Proof. exact (dso_moves_data_last dso_restore_protected). Qed.
Print Assumptions diff_outputs_moves_data_last.

Theorem diff_outputs_changes_key_order_only :
  exists h h' va vb,
    run_dso false None wit_oa wit_ob = Some (h, h', Returned, va, vb) /\
    read 6 h' va <> read 6 h va /\ cread 6 h' va = cread 6 h va /\ cread 6 h' vb = cread 6 h vb.
Proof. exact dso_changes_key_order_only. Qed.
Print Assumptions diff_outputs_changes_key_order_only.

(* hazard outside the property's input space: copy.deepcopy raising between pop and restore loses 'data' unless
   the restore is in a finally clause *)
Theorem diff_outputs_fault_hazard :
  dso_restore_protected = false ->
  exists h h' va vb,
    run_dso dso_restore_protected (Some 0) wit_oa wit_ob = Some (h, h', Raised 0, va, vb) /\
    cread 6 h' va <> cread 6 h va.
Proof. exact (dso_fault_hazard dso_restore_protected). Qed.
Print Assumptions diff_outputs_fault_hazard.

(* MergeDecisionBuilder.validated only deletes "strategy" from the builder's own decision dicts *)
Theorem validated_only_touches_own : forall h bl ds h' r,
  nth_error h bl = Some (CList ds) ->
  validated_s h bl = Ok (h', r) ->
  forall l, l < length h ->
    nth_error h' l = if existsb (is_ref l) ds then option_map strip_strategy (nth_error h l) else nth_error h l.
Proof. exact validated_only_touches_own_gen. Qed.
Print Assumptions validated_only_touches_own.

(* apply_decisions: the objects of base keep their contents *)
Theorem apply_base_untouched : forall n h0 base groups h' m,
  closed_in h0 base ->
  (forall p d l, In (p, d) groups -> from_diff h0 d l -> ~ reach h0 base l) ->
  apply_s patch_cfg apply_copies_base n h0 base groups = Ok (h', m) ->
  forall l, reach h0 base l -> nth_error h' l = nth_error h0 l.
Proof. exact (fun n h0 base groups h' m => apply_base_untouched_gen patch_cfg n h0 base groups h' m eq_refl). Qed.
Print Assumptions apply_base_untouched.
