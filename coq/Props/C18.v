(* C18 -- git integration set-up is idempotent and never touches foreign settings.
   Statements only; the model is Sys/GitCfg.v, the programs are Gen/GitCfg.v (translated from /repo on every run),
   the proofs are in Sys/GitCfgProofs.v.  [tbl] is the generated table of the eight enable/disable programs. *)
From Coq Require Import String List NArith Bool.
From NB Require Import Base.Json.
From NB Require Import Sys.GitCfg.
From NB Require Import Gen.GitCfg.
From NB Require Import Sys.GitCfgProofs.
Import ListNotations.

(* Enabling twice = enabling once, for every command line (per driver/tool with or without --set-default, or
   config-git), both scopes, every initial configuration; and neither run fails. *)
Theorem enable_idempotent : forall c s, is_enable c = true ->
  let o1 := run tbl c s in
  let o2 := run tbl c (final o1) in
  exit_ok o1 = true /\ exit_ok o2 = true /\
  (forall sc k, get (cfg_of sc (final o2)) k = get (cfg_of sc (final o1)) k) /\
  (forall sc, att_of sc (final o2) = att_of sc (final o1)).
Proof. exact enable_idempotent_gen. Qed.
Print Assumptions enable_idempotent.

(* Enabling changes only: keys of the command's own tools in the requested scope (own sections; the prompt switch,
   to "false"; with --set-default the default-tool key, to "nbdime"); the attributes file of that scope, which grows
   by at most one rule line per driver of the command (each on a line of its own, naming the driver attribute). *)
Theorem enable_footprint : forall c s, is_enable c = true ->
  let s' := final (run tbl c s) in
  (forall sc k, get (cfg_of sc s') k <> get (cfg_of sc s) k ->
     sc = scope_of c /\ exists v, get (cfg_of sc s') k = Some v /\ allowed_enable_write c k v = true) /\
  (forall sc, sc <> scope_of c -> att_of sc s' = att_of sc s) /\
  (exists rules app, Forall2 driver_rule (spec_drivers c) rules /\ sublist app rules /\
                     att_of (scope_of c) s' = grow (att_of (scope_of c) s) app).
Proof. exact enable_footprint_gen. Qed.
Print Assumptions enable_footprint.

(* Existing attributes content is kept: every line that was there is still there, unchanged, in the same order. *)
Theorem enable_keeps_attribute_lines : forall c s sc, is_enable c = true ->
  is_prefix (lines (text_of (att_of sc s))) (lines (text_of (att_of sc (final (run tbl c s))))).
Proof. exact enable_keeps_lines_gen. Qed.
Print Assumptions enable_keeps_attribute_lines.

(* Enabling does enable: the driver section is populated and the attributes file names the driver. *)
Theorem enable_establishes : forall c s t x n, is_enable c = true -> In t (spec_tools c) ->
  driver_section t = Some x -> driver_needle t = Some n ->
  let s' := final (run tbl c s) in
  has_sec (cfg_of (scope_of c) s') x = true /\
  exists txt, att_of (scope_of c) s' = Some txt /\ contains n txt = true.
Proof. exact enable_establishes_gen. Qed.
Print Assumptions enable_establishes.

(* Disabling removes the diff / merge driver sections from the requested scope, whatever was there before. *)
Theorem disable_removes_drivers : forall c s t x, is_enable c = false -> In t (spec_tools c) ->
  driver_section t = Some x ->
  let s' := final (run tbl c s) in
  has_sec (cfg_of (scope_of c) s') x = false /\ (forall k, fst k = x -> get (cfg_of (scope_of c) s') k = None).
Proof. exact disable_removes_drivers_gen. Qed.
Print Assumptions disable_removes_drivers.

(* Disabling never alters or removes a setting that points at another tool: every key outside nbdime's own sections
   (and other than the prompt switches) whose value is not "nbdime" keeps its value, in both scopes; attributes files
   are not touched.  (Before the fix of finding F10 this held for every key except merge.tool.) *)
Theorem disable_preserves_foreign : forall c s sc k, is_enable c = false ->
  let s' := final (run tbl c s) in
  (protected k = true -> get (cfg_of sc s) k <> Some nbdime_value -> get (cfg_of sc s') k = get (cfg_of sc s) k) /\
  att_of sc s' = att_of sc s.
Proof. exact disable_foreign_verdict_pos. Qed.
Print Assumptions disable_preserves_foreign.
