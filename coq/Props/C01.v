(* C01 -- notebook diff followed by patch reproduces the target notebook. *)
From Coq Require Import List NArith.
From NB Require Import Base.Res Base.Json Base.PyStr Diff.DiffFormat Diff.Patch Diff.GenericDiff Diff.Wf
     Diff.StringProofs Diff.StringMaster.
Import ListNotations.

(* cell sources (and every other string): line diff + flattened patch reproduce the target *)
Theorem source_diff_patch_roundtrip : forall O cfg, opcodes_valid O -> forall n m s t, 0 < n -> 1 < m ->
  exists d, diff_strings_linewise O cfg n s t = Ok d /\ patch m (JStr s) d = Ok (JStr t)
            /\ wf_lines (splitlines s) d = true.
Proof. exact string_roundtrip. Qed.
Print Assumptions source_diff_patch_roundtrip.
