(* C01 -- notebook diff followed by patch reproduces the target notebook. *)
From Coq Require Import List NArith.
From NB Require Import Base.Res Base.Json Base.PyStr Diff.DiffFormat Diff.Patch Diff.GenericDiff Diff.Wf
     Diff.StringProofs Diff.StringMaster Diff.NbProofs Diff.NbTotal Diff.C01Proofs Diff.Codec Gen.NbConfig.
From NB Require Extract.Api.
Import ListNotations.

(* cell sources (and every other string): line diff + flattened patch reproduce the target *)
Theorem source_diff_patch_roundtrip : forall O cfg, opcodes_valid O -> forall n m s t, 0 < n -> 1 < m ->
  exists d, diff_strings_linewise O cfg n s t = Ok d /\ patch m (JStr s) d = Ok (JStr t)
            /\ wf_lines (splitlines s) d = true.
Proof. exact string_roundtrip. Qed.
Print Assumptions source_diff_patch_roundtrip.

(* the whole notebook differ (diff_notebooks = generic.diff at path "" with the notebook tables of
   /repo, regenerated into Gen/NbConfig.v): multilevel alignment of cells and outputs under ANY
   similarity heuristic (the oracles O are unconstrained), source lines, mime bundles, attachments,
   single outputs.  Whenever it returns a diff d (it raises only on documents that are not valid
   notebooks: no output_type, no data, mismatched kinds), patching a with d gives exactly b, d is
   well-formed, d read by the position-wise documented meaning denotes b, and d is empty only if a = b. *)
Theorem notebook_diff_patch_roundtrip : forall O n a b d,
  opcodes_valid O -> wfj a = true -> wfj b = true -> sources_are_strings a = true ->
  diff_ O nb_config n [] a b = Ok d ->
  (forall m, depth a < m -> patch m a d = Ok b)
  /\ (forall f, depth a < f -> wf_diff f a d = true)
  /\ (forall f, depth a < f -> check_diff f a b d = true)
  /\ (d = [] -> a = b).
Proof. exact nb_roundtrip. Qed.
Print Assumptions notebook_diff_patch_roundtrip.

(* the same for ANY differ tables meeting cfg_ok (strict comparisons; a lone predicate is strict
   equality; no ignoring differ) -- the tables of /repo do: *)
Theorem notebook_tables_admissible : cfg_ok nb_config = true.
Proof. exact nb_config_ok. Qed.
Print Assumptions notebook_tables_admissible.

(* and on notebook-SHAPED documents (cells a list of objects with string sources, outputs objects with a
   string output_type and, for display_data / execute_result, an object data bundle, attachments an object
   of objects; everything else arbitrary JSON) the differ DOES return, whatever the heuristics answer, given
   the fuel the API gives it: no assert, KeyError, IndexError or RuntimeError path is reachable -- and the
   diff is right.  cfg_tot (no predicate keys, non-empty predicate lists, output predicates test the output
   type first, single-outputs / attachments differs only at their paths, mime recursion guarded) is
   recomputed on the regenerated tables. *)
Theorem notebook_diff_total_and_correct : forall O n a b,
  opcodes_valid O -> wfj a = true -> wfj b = true -> sources_are_strings a = true ->
  notebook_shaped a = true -> notebook_shaped b = true -> 4 * depth a + 4 <= n ->
  exists d, diff_ O nb_config n [] a b = Ok d
            /\ (forall m, depth a < m -> patch m a d = Ok b)
            /\ (forall f, depth a < f -> wf_diff f a d = true)
            /\ (forall f, depth a < f -> check_diff f a b d = true)
            /\ (d = [] -> a = b).
Proof. exact nb_total. Qed.
Print Assumptions notebook_diff_total_and_correct.

(* the function the correspondence check runs against nbdime (Extract/Api.v, extracted to OCaml) returns
   {"ok": d} on notebook-shaped documents, with d patching a into b *)
Theorem extracted_entry_point_returns : forall O a b,
  opcodes_valid O -> wfj a = true -> wfj b = true -> sources_are_strings a = true ->
  notebook_shaped a = true -> notebook_shaped b = true ->
  exists d, Api.api_nbdiff O Api.nb_config a b = JObj [(Api.k_ok, enc_diff d)]
            /\ (forall m, depth a < m -> patch m a d = Ok b).
Proof. exact nb_api_total. Qed.
Print Assumptions extracted_entry_point_returns.
