(* C19 -- option resolution: flag > most specific config section > default.  Statements only. *)
From Coq Require Import List NArith ZArith Bool String.
From NB Require Import Base.Json Base.Res Diff.Codec Gen.ConfigClasses Sys.Config Sys.ConfigProofs.
Import ListNotations.

Theorem server_port_refuted :
  exists files, wf_filesb files = true /\
    effective (of_ascii "server") files [] (of_ascii "port") <> Ok (spec_effective (of_ascii "server") files [] (of_ascii "port")).
Proof. exact server_port_refuted_lemma. Qed.
Print Assumptions server_port_refuted.
