(* C19 -- option resolution: flag > most specific config section > default.
   Statements only; model in Sys/Config.v, proofs in Sys/ConfigProofs.v, class tables in Gen/ConfigClasses.v
   (regenerated from nbdime/config.py, the real argument parsers and docs/source/config.rst on every run). *)
From Coq Require Import List NArith ZArith Bool String.
From NB Require Import Base.Json.
From NB Require Import Base.Res.
From NB Require Import Diff.Codec.
From NB Require Import Gen.ConfigClasses.
From NB Require Import Sys.Config.
From NB Require Import Sys.ConfigProofs.
From NB Require Import Sys.ConfigDeviations.   (* part of the block to swap *)
Import ListNotations.

(* For every entry point, every option its sections can set, every well-formed assignment of values to options of
   documented sections spread over any number of files of different priority, and every set of flags: the value in
   the parser's namespace is the flag, else the most specific documented section that sets it (each section
   resolved over the files by priority, null = unset), else the built-in default. *)
(* ---- BEGIN block to swap when the deviation below is repaired: drop the exception hypothesis ---- *)
Theorem effective_value_spec :
  forall ep o files flags,
    In ep ep_names -> In o (options ep) -> o <> kIgnore ->
    o <> kLog ->
    wf_filesb files = true ->
    effective ep files flags o = Ok (spec_effective ep files flags o).
Proof. exact effective_value_spec_full. Qed.
Print Assumptions effective_value_spec.

Theorem global_section_refuted :
  exists ep files o, In ep ep_names /\ In o (options ep) /\ wf_filesb files = true /\
    effective ep files [] o <> Ok (spec_effective ep files [] o).
Proof. exact global_section_refuted_lemma. Qed.
Print Assumptions global_section_refuted.

(* Server.port was the second deviation (its class default shadowed the Web section); repaired in /repo *)
Theorem server_port_as_documented :
  effective (of_ascii "server") w_server_files [] (of_ascii "port") = Ok (spec_effective (of_ascii "server") w_server_files [] (of_ascii "port"))
  /\ spec_effective (of_ascii "server") w_server_files [] (of_ascii "port") = JInt 9000.
Proof. exact server_port_as_documented. Qed.
Print Assumptions server_port_as_documented.
Theorem global_section_never_participates : forall cn, participates kGlobal cn = false.
Proof. exact global_never_participates. Qed.
Print Assumptions global_section_never_participates.
(* ---- END block ---- *)

(* the working-directory file masks, key by key, whatever files of lower priority say *)
Theorem cwd_file_wins :
  forall ep o cwd rest flags,
    In ep ep_names -> In o (options ep) -> o <> kIgnore -> o <> kLog ->
    wf_filesb (cwd :: rest) = true ->
    (forall S f, In S (spec_sections ep) -> In f rest -> file_get f S o <> None -> file_get cwd S o <> None) ->
    effective ep (cwd :: rest) flags o = effective ep [cwd] flags o.
Proof. exact cwd_file_wins_full. Qed.
Print Assumptions cwd_file_wins.

(* 'Ignore' mappings are merged path by path, the most specific section winning for each path *)
Theorem ignore_merge_pathwise :
  forall ep files p,
    In ep ep_names -> wf_filesb files = true ->
    exists ign, installed_ignore ep files = Ok (JObj ign) /\ dget p ign = spec_ignore_path ep files p.
Proof. exact ignore_merge_pathwise_full. Qed.
Print Assumptions ignore_merge_pathwise.

(* every documented (section, entry point) pair other than Global is among the classes build_config layers *)
Theorem documented_sections_participate :
  forall S cn, In (S, cn) doc_pairs -> S <> kGlobal -> participates S cn = true.
Proof. exact documented_sections_participate_lemma. Qed.
Print Assumptions documented_sections_participate.

