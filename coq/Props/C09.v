(* C09 -- merge decisions follow the published schema and are ordered deeper-first.  Statements only; proofs are in
   Merge/SortKeyOrder.v (over the decision / sort-key model of Merge/Decisions.v, Merge/SortKey.v). *)
From Coq Require Import List NArith ZArith.
From NB Require Import Base.Json Diff.DiffFormat Merge.SortKey Merge.Decisions Merge.SortKeyOrder Gen.Actions Gen.NbSchemas.
Import ListNotations.

(* ordering clause, for the list MergeDecisionBuilder.validated() returns: a decision is never preceded by a decision
   on a strict prefix of its path *)
Theorem order_deeper_first : forall (B : builder) a x b y c,
  validated B = a ++ x :: b ++ y :: c -> ~ strict_prefix (d_path x) (d_path y).
Proof. exact (fun B => order_deeper_first_gen d_path (map drop_strategy B)). Qed.
Print Assumptions order_deeper_first.

(* validated() only reorders (and drops the internal strategy field): nothing lost, nothing invented *)
Theorem validated_same_decisions : forall (B : builder) d, In d (validated B) <-> In d (map drop_strategy B).
Proof. exact (fun B d => sort_desc_In (fun d => sort_key (d_path d)) (map drop_strategy B) d). Qed.
Print Assumptions validated_same_decisions.

(* the two translators that read the schema's action enum agree *)
Theorem enum_translators_agree : subset schema_actions merge_action_enum = true /\ subset merge_action_enum schema_actions = true.
Proof. exact SortKeyOrder.enum_translators_agree. Qed.
Print Assumptions enum_translators_agree.

(* every emitted action is in the published enum, except possibly take_max *)
Theorem emitted_subset_schema_but_take_max : subset py_emitted (s_take_max :: schema_actions) = true.
Proof. exact SortKeyOrder.emitted_subset_schema_but_take_max. Qed.
Print Assumptions emitted_subset_schema_but_take_max.

(* the vocabulary clause in the form that follows the generated facts whichever way they read *)
Theorem vocabulary_by_schema : vocabulary_statement.
Proof. exact vocabulary_holds. Qed.
Print Assumptions vocabulary_by_schema.

(* After the repairs in /repo the positive statements hold for the regenerated source facts; reverting a repair
   flips the fact and breaks the proofs below. *)
(* BLOCK B of coq/Props/C09.v: paste in place of BLOCK A once the fix is applied (after the fix) *)
Theorem emitted_subset_schema : subset py_emitted schema_actions = true.
Proof. exact (eq_refl true <: subset py_emitted schema_actions = true). Qed.
Print Assumptions emitted_subset_schema.



