From NB Require Import Schema.Schema Gen.NbSchemas.
