(* C09 -- merge decisions follow the published schema and are ordered deeper-first.  Statements only; proofs are in
   Merge/SortKeyOrder.v (over the decision / sort-key model of Merge/Decisions.v, Merge/SortKey.v). *)
From Coq Require Import List NArith ZArith.
From NB Require Import Base.Json Diff.DiffFormat Merge.SortKey Merge.Decisions Merge.SortKeyOrder Gen.Actions Gen.NbSchemas.
Import ListNotations.

(* ordering clause, for the list MergeDecisionBuilder.validated() returns: a decision is never preceded by a decision
   on a strict prefix of its path *)
Theorem order_deeper_first : forall (B : builder) a x b y c,
  validated B = a ++ x :: b ++ y :: c -> ~ strict_prefix (d_path x) (d_path y).
Proof. exact (fun B => order_deeper_first_gen d_path (map drop_strategy B)). Qed.
Print Assumptions order_deeper_first.

(* validated() only reorders (and drops the internal strategy field): nothing lost, nothing invented *)
Theorem validated_same_decisions : forall (B : builder) d, In d (validated B) <-> In d (map drop_strategy B).
Proof. exact (fun B d => sort_desc_In (fun d => sort_key (d_path d)) (map drop_strategy B) d). Qed.
Print Assumptions validated_same_decisions.

(* the two translators that read the schema's action enum agree *)
Theorem enum_translators_agree : subset schema_actions merge_action_enum = true /\ subset merge_action_enum schema_actions = true.
Proof. exact SortKeyOrder.enum_translators_agree. Qed.
Print Assumptions enum_translators_agree.

(* every emitted action is in the published enum, except possibly take_max *)
Theorem emitted_subset_schema_but_take_max : subset py_emitted (s_take_max :: schema_actions) = true.
Proof. exact SortKeyOrder.emitted_subset_schema_but_take_max. Qed.
Print Assumptions emitted_subset_schema_but_take_max.

(* the vocabulary clause in the form that follows the generated facts whichever way they read *)
Theorem vocabulary_by_schema : vocabulary_statement.
Proof. exact vocabulary_holds. Qed.
Print Assumptions vocabulary_by_schema.

(* ==== BLOCK A: the pinned schema (take_max missing from the enum).  Stops type-checking when notes/C09-fix-1.diff is
   applied; then replace BLOCK A by notes/C09-blockB.v and remove the entry from known_findings.d/C09.json. ==== *)
Theorem emitted_subset_schema_refuted : exists a, mem a py_emitted = true /\ mem a schema_actions = false.
Proof. exact (not_subset_witness py_emitted schema_actions (eq_refl false <: subset py_emitted schema_actions = false)). Qed.
Print Assumptions emitted_subset_schema_refuted.
(* ==== end of BLOCK A ==== *)

(* BLOCK B (the positive theorems that take over after the fix) is kept ready to paste in notes/C09-blockB.v *)
