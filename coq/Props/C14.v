(* C14 -- ignore options hide exactly the ignored categories.
   Gen/IgnoreTable.v is regenerated on every run by EXECUTING set_notebook_diff_targets for all 64 subsets
   and process_exclusive_ignorables for all 3^6 flag assignments in /repo's nbdime. *)
From Coq Require Import List NArith Bool.
From NB Require Import Base.Res Base.Json Diff.DiffFormat Diff.Patch Diff.GenericDiff Diff.NbGood Gen.IgnoreTable Sys.Ignore Sys.IgnoreProofs Sys.IgnoreSem.
Import ListNotations.

(* for every subset of the six categories, the installed differ table is exactly the one the categories
   demand: whole-path ignores for sources, outputs, attachments, metadata (notebook, cell and output
   level) and ids, key filters for execution counts, ids and attachments on the cell and for execution
   counts on the output -- and nothing else; the 64 rows are the 64 subsets *)
Theorem ignore_tables_exact :
  forallb (fun row => table_eqb (snd row) (expected_table (fst row))) ignore_tables = true
  /\ Nat.eqb (length ignore_tables) 64 = true
  /\ forallb (fun p => bits_eqb (fst (fst p)) (snd p)) (combine ignore_tables (all_bits 6)) = true.
Proof. exact tables_exact_l. Qed.
Print Assumptions ignore_tables_exact.

(* positive / negative flags: all positive -> the others are ignored; all negative -> only those; mixed -> refused *)
Theorem ignore_flags_rule :
  forallb (fun row => opt_bits_eqb (snd (fst row)) (flag_rule (fst (fst row)))
                      && match snd (fst row) with
                         | None => true
                         | Some _ => Bool.eqb (snd row) (existsb (fun v => match v with Some _ => true | None => false end) (fst (fst row)))
                         end)
          flag_table = true
  /\ Nat.eqb (length flag_table) 729 = true.
Proof. exact flags_rule_l. Qed.
Print Assumptions ignore_flags_rule.

(* an ignored path yields no diff at all, for every pair of values *)
Theorem ignored_path_silent : forall O cfg n path a b, run O cfg (S n) DfIgnore path a b = Ok [].
Proof. exact run_ignore. Qed.
Print Assumptions ignored_path_silent.

(* a key filter lets no entry for a listed key through *)
Theorem ignored_keys_silent : forall O cfg n inner ks path a b d,
  run O cfg (S n) (DfIgnoreKeys inner ks) path a b = Ok d ->
  forall e k, In e d -> dkey e = KS k -> existsb (str_eqb k) ks = false.
Proof. exact run_ignore_keys. Qed.
Print Assumptions ignored_keys_silent.

(* what a key filter MEANS for the patched document ("applying it still reproduces the target in every non-ignored part"):
   around any differ whose diff is good (patches the base into the target and is well-formed for it -- what the C01/C11 theorems
   give for the notebook differ), the filtered diff still applies, and the result equals the TARGET at every key that is not
   ignored and keeps the BASE's value (or absence) at every ignored key.  For all objects, key lists and inner differs. *)
Theorem ignored_keys_keep_base_rest_is_target : forall O cfg n inner ks path ka kb d0,
  wfj (JObj ka) = true ->
  run O cfg n inner path (JObj ka) (JObj kb) = Ok d0 -> Good (JObj ka) (JObj kb) d0 ->
  exists d, run O cfg (S n) (DfIgnoreKeys inner ks) path (JObj ka) (JObj kb) = Ok d
    /\ forall m, depth (JObj ka) < m ->
       exists r', patch m (JObj ka) d = Ok (JObj r') /\ keys_sorted r' = true
                  /\ forall k, obj_get k r' = if existsb (str_eqb k) ks then obj_get k ka else obj_get k kb.
Proof. exact run_ignore_keys_semantics. Qed.
Print Assumptions ignored_keys_keep_base_rest_is_target.
