From NB Require Import Merge.Render Merge.RenderProofs.
