(* C07 -- default merge neither drops nor invents source lines; real conflicts are flagged.
   Statements only; models in Merge/Render.v, proofs in Merge/RenderProofs.v. *)
From Coq Require Import List NArith ZArith Bool.
From NB Require Import Base.Json.
From NB Require Import Base.PyStr.
From NB Require Import Diff.DiffFormat.
From NB Require Import Merge.Render.
From NB Require Import Merge.RenderProofs.
Import ListNotations.

(* ---- the built-in renderer (prettyprint.format_merge_render_lines / builtin_merge_render): no hypothesis *)
Theorem builtin_survival : forall base local remote x,
  In x local \/ In x remote ->
  In (chomp x) (map chomp (format_merge_render_lines base local remote)).
Proof. exact RenderProofs.builtin_survival. Qed.
Print Assumptions builtin_survival.

Theorem builtin_provenance : forall base local remote y,
  In y (format_merge_render_lines base local remote) ->
  In (chomp y) (map chomp local) \/ In (chomp y) (map chomp remote) \/ is_marker (chomp y) = true.
Proof. exact RenderProofs.builtin_provenance. Qed.
Print Assumptions builtin_provenance.

Theorem builtin_flags : forall base local remote,
  (snd (builtin_merge_render base local remote) = 0%Z <-> local = remote) /\
  (local = remote -> fst (builtin_merge_render base local remote) = local) /\
  (local <> remote ->
     snd (builtin_merge_render base local remote) = 1%Z /\
     exists pre lo re post,
       map chomp (splitlines local) = map chomp (pre ++ lo) /\
       map chomp (splitlines remote) = map chomp (pre ++ re) /\
       (forall x, In x post -> In x lo) /\
       map chomp (format_merge_render_lines (splitlines base) (splitlines local) (splitlines remote))
       = map chomp (assembled pre lo re post) /\
       fst (builtin_merge_render base local remote)
       = concat (format_merge_render_lines (splitlines base) (splitlines local) (splitlines remote))).
Proof. exact RenderProofs.builtin_flags. Qed.
Print Assumptions builtin_flags.

(* flagging for the built-in renderer: a position rewritten by both sides to different fresh lines gives status 1 with the
   local variant in the local branch and the remote variant in the remote branch of the conflict block *)
Theorem builtin_flags_variants : forall base local remote x y,
  In (x, y) (clashes base local remote) ->
  snd (builtin_merge_render base local remote) = 1%Z /\
  let out := map chomp (format_merge_render_lines (splitlines base) (splitlines local) (splitlines remote)) in
  In x (fst (branches Outside out)) /\ In y (snd (branches Outside out)).
Proof. exact RenderProofs.builtin_flags_variants. Qed.
Print Assumptions builtin_flags_variants.

(* ---- resolve_strategy_inline_source, any text-merge tool whose answer to THIS call meets the contract *)
Theorem inline_source_survival : forall tool base local remote d x,
  resolve_strategy_inline_source tool base local remote = Some d ->
  tool_contract tool base local remote ->
  In x (side_lines local ++ side_lines remote) -> nonblank x = true ->
  In x (tlines base) \/ In x (tlines (d_source d)).
Proof. exact RenderProofs.inline_source_survival. Qed.
Print Assumptions inline_source_survival.

Theorem inline_source_provenance : forall tool base local remote d y,
  resolve_strategy_inline_source tool base local remote = Some d ->
  tool_contract tool base local remote ->
  In y (tlines (d_source d)) -> nonblank y = true ->
  In y (tlines base) \/ In y (side_lines local) \/ In y (side_lines remote) \/ is_marker y = true.
Proof. exact RenderProofs.inline_source_provenance. Qed.
Print Assumptions inline_source_provenance.

Theorem inline_source_flags : forall tool base local remote d,
  resolve_strategy_inline_source tool base local remote = Some d ->
  tool_contract tool base local remote ->
  (local = None \/ remote = None -> d_conflict d = true) /\
  (forall l r x y, local = Some l -> remote = Some r -> In (x, y) (clashes base l r) ->
     d_conflict d = true /\
     In x (fst (branches Outside (tlines (d_source d)))) /\
     In y (snd (branches Outside (tlines (d_source d))))).
Proof. exact RenderProofs.inline_source_flags. Qed.
Print Assumptions inline_source_flags.

(* ---- make_inline_cell_conflict *)
Theorem inline_cells_keep_both : forall (cell : Type) (mk : pystr -> cell) base_cells start lvals lremove rvals rremove c,
  In c lvals \/ In c rvals ->
  In c (make_inline_cell_conflict cell mk base_cells start lvals lremove rvals rremove).
Proof. exact RenderProofs.inline_cells_keep_both. Qed.
Print Assumptions inline_cells_keep_both.

Theorem inline_cells_provenance : forall (cell : Type) (mk : pystr -> cell) base_cells start lvals lremove rvals rremove c,
  In c (make_inline_cell_conflict cell mk base_cells start lvals lremove rvals rremove) ->
  In c lvals \/ In c rvals \/ In c base_cells \/ c = mk m0_text \/ c = mk m1_text \/ c = mk m2_text.
Proof. exact RenderProofs.inline_cells_provenance. Qed.
Print Assumptions inline_cells_provenance.

(* ---- delete-vs-edit: the deletion is countered whenever the other side patched the source *)
Theorem countered_deletion_keeps_cell : forall f d sd,
  In (DPatch (KS p_source) sd) d ->
  (exists e rest, sd = e :: rest /\ is_patch e = false) ->
  exists cd,
    delete_vs_patch default_counters (S (S f)) d cell_path default_transients = CounterDeletion cd /\
    In (CParentDeleted (KS p_source)) cd.
Proof. exact RenderProofs.countered_deletion_keeps_cell. Qed.
Print Assumptions countered_deletion_keeps_cell.

(* the counter diff never contains a patch with nothing below it (generic.py: `if subdiff:`) *)
Theorem counter_diff_no_empty_branch : forall counters f d p,
  forallb centry_nonempty (create_parent_deletion_counter_diff counters f d p) = true.
Proof. exact RenderProofs.cpd_nonempty. Qed.
Print Assumptions counter_diff_no_empty_branch.
