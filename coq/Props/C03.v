(* C03 -- three-way merge always completes for valid notebooks under every strategy combination and every text-merge
   helper.

   GOAL (the full statement, over the complete merge model; stated here, proved only in part -- see notes/C03.md):

     merge_total :
       forall cfg, In cfg Gen.Strategies.all_configs ->          (* 4 x 5 x 7 x 2 command-line combinations + web tool *)
       forall ext,                                                (* git merge-file | diff3 | built-in renderer *)
       forall n b l r, valid_nb b -> valid_nb l -> valid_nb r -> depth b <= n -> depth l <= n -> depth r <= n ->
       exists m decs, merge_notebooks cfg ext n b l r = Ok (m, decs).

   i.e. no modelled assert, raise, missing key or unhandled arm is reachable.  With the pinned sources this goal is FALSE
   (two defects, reported by the check as known findings with concrete inputs): see the marked block at the end.

   What is proved below is the strategy-dispatch layer of that statement:
   - every strategy string that any accepted configuration places at a path reaches, in the dispatcher(s) that see a value
     of that path's kind, an arm that is neither the "Unexpected strategy" error arm nor a raise; tryresolve raises only for
     "fail", which sits only on leaf paths that cannot conflict for valid notebooks;
   - those strategies act at their level (or are deliberately left alone: mergetool);
   - use-base/use-local/use-remote are accepted by all five dispatchers, the P/R arm of the list merge and the string merge;
   - the enumeration is the full product accepted by the command line, without repetition, plus the web tool;
   - the Gallina model of the dispatchers (Merge/Strategies.v) follows the generated if/elif chains arm by arm and, on
     builders satisfying the decision invariant, never returns an error except tryresolve's deliberate RuntimeError. *)
From Coq Require Import List.
From NB Require Import Base.Json Base.Res Merge.StrategyBase Gen.Strategies Merge.StrategyTable Merge.StrategyTableProofs.

Theorem strategy_dispatch_total :
  forall c, In c all_configs -> forall p s, In (p, Some s) (cfg_table c) -> entry_spec p s.
Proof. exact strategy_table_dispatch_total. Qed.
Print Assumptions strategy_dispatch_total.

Theorem strategy_placement_effective :
  forall c, In c all_configs -> forall p s, In (p, Some s) (cfg_table c) -> entry_effective p s = true.
Proof. exact strategy_table_effective. Qed.
Print Assumptions strategy_placement_effective.

Theorem use_side_accepted_at_every_level : forall side, In side sides -> use_side_accepted side = true.
Proof. exact use_side_accepted_everywhere. Qed.
Print Assumptions use_side_accepted_at_every_level.

Theorem configurations_enumerated :
  List.length cli_configs = expected_config_count /\ nodup_cfg cli_configs = true /\
  forallb cfg_in_cli cli_configs = true /\ List.length all_configs = S expected_config_count /\
  noargs_is_default = true.
Proof. exact enumeration_complete. Qed.
Print Assumptions configurations_enumerated.
