(* C03 -- three-way merge always completes for valid notebooks under every strategy combination and every text-merge
   helper.

   GOAL (the full statement, over the complete merge model; stated here, proved only in part -- see notes/C03.md):

     merge_total :
       forall cfg, In cfg Gen.Strategies.all_configs ->          (* 4 x 5 x 7 x 2 command-line combinations + web tool *)
       forall ext,                                                (* git merge-file | diff3 | built-in renderer *)
       forall n b l r, valid_nb b -> valid_nb l -> valid_nb r -> depth b <= n -> depth l <= n -> depth r <= n ->
       exists m decs, merge_notebooks cfg ext n b l r = Ok (m, decs).

   i.e. no modelled assert, raise, missing key or unhandled arm is reachable.  With the pinned sources this goal is FALSE
   (two defects, reported by the check as known findings with concrete inputs): see the marked block at the end.

   What is proved below is the strategy-dispatch layer of that statement:
   - every strategy string that any accepted configuration places at a path reaches, in the dispatcher(s) that see a value
     of that path's kind, an arm that is neither the "Unexpected strategy" error arm nor a raise; tryresolve raises only for
     "fail", which sits only on leaf paths that cannot conflict for valid notebooks;
   - those strategies act at their level (or are deliberately left alone: mergetool);
   - use-base/use-local/use-remote are accepted by all five dispatchers, the P/R arm of the list merge and the string merge;
   - the enumeration is the full product accepted by the command line, without repetition, plus the web tool;
   - the Gallina model of the dispatchers (Merge/Strategies.v) follows the generated if/elif chains arm by arm and, on
     builders satisfying the decision invariant, never returns an error except tryresolve's deliberate RuntimeError. *)
From Coq Require Import List String.
From NB Require Import Base.Json.
From NB Require Import Base.Res.
From NB Require Import Diff.DiffFormat.
From NB Require Import Diff.Codec.
From NB Require Import Merge.SortKey.
From NB Require Import Merge.Decisions.
From NB Require Import Merge.MergeGeneric.
From NB Require Import Merge.StrategyBase.
From NB Require Import Gen.Strategies.
From NB Require Import Merge.StrategyTable.
From NB Require Import Merge.StrategyTableProofs.
From NB Require Import Merge.Strategies.
From NB Require Import Merge.StrategiesProofs.
From Coq Require Import NArith ZArith.
From NB Require Import Diff.Patch Diff.GenericDiff Diff.StringProofs Diff.C01Proofs Gen.NbConfig Gen.MergeFacts Merge.Apply Merge.MergeProofs Merge.MergeOnesidedObj Merge.MergePipeline.
Import ListNotations.

Theorem strategy_dispatch_total :
  forall c, In c all_configs -> forall p s, In (p, Some s) (cfg_table c) -> entry_spec p s.
Proof. exact strategy_table_dispatch_total. Qed.
Print Assumptions strategy_dispatch_total.

Theorem strategy_placement_effective :
  forall c, In c all_configs -> forall p s, In (p, Some s) (cfg_table c) -> entry_effective p s = true.
Proof. exact strategy_table_effective. Qed.
Print Assumptions strategy_placement_effective.

Theorem use_side_accepted_at_every_level : forall side, In side sides -> use_side_accepted side = true.
Proof. exact use_side_accepted_everywhere. Qed.
Print Assumptions use_side_accepted_at_every_level.

Theorem configurations_enumerated :
  List.length cli_configs = expected_config_count /\ nodup_cfg cli_configs = true /\
  forallb cfg_in_cli cli_configs = true /\ List.length all_configs = S expected_config_count /\
  noargs_is_default = true.
Proof. exact enumeration_complete. Qed.
Print Assumptions configurations_enumerated.

(* the dispatchers of the merge-core model are the generated if/elif chains, interpreted (source tie by proof) *)
Theorem tryresolve_is_source_chain :
  forall cs B p l r st, b_tryresolve cs B p l r st = tryresolve_src cs B p l r st.
Proof. exact tryresolve_follows_source. Qed.
Print Assumptions tryresolve_is_source_chain.

Theorem resolve_strategy_generic_is_source_chain :
  forall B st, resolve_strategy_generic B st = generic_src B st.
Proof. exact generic_follows_source. Qed.
Print Assumptions resolve_strategy_generic_is_source_chain.

Theorem resolve_conflicted_strings_is_source_chain :
  forall B st, resolve_conflicted_strings B st = strings_src B st.
Proof. exact strings_follows_source. Qed.
Print Assumptions resolve_conflicted_strings_is_source_chain.

Theorem resolve_conflicted_list_is_source_chain :
  forall H p base B st, resolve_conflicted_list H p base B st = list_src H p base B st.
Proof. exact list_follows_source. Qed.
Print Assumptions resolve_conflicted_list_is_source_chain.

Theorem resolve_conflicted_dict_is_source_chain :
  forall H p base B st, resolve_conflicted_dict H p base B st = dict_src H p base B st.
Proof. exact dict_follows_source. Qed.
Print Assumptions resolve_conflicted_dict_is_source_chain.

(* merge_total, dispatch layer: registering a genuine two-sided conflict never fails, whatever the strategy string,
   except for the deliberate "fail" *)
Theorem conflict_registration_total :
  forall cs B p l r s, truthy l = true -> truthy r = true -> conflict_args_eqb cs l r = false -> s <> Some (of_ascii "fail") ->
  exists B', b_conflict cs B p l r s = Ok B'.
Proof. exact conflict_total. Qed.
Print Assumptions conflict_registration_total.

Theorem fail_strategy_raises :
  forall cs B p l r, truthy l = true -> truthy r = true -> conflict_args_eqb cs l r = false ->
  b_tryresolve cs B p l r (Some (of_ascii "fail")) = Err RuntimeError.
Proof. exact tryresolve_fail_raises. Qed.
Print Assumptions fail_strategy_raises.

(* merge_total, level dispatchers: for every strategy any accepted configuration places anywhere, the list- and dict-level
   dispatchers either return normally or are exactly the call of the (not yet modelled) inline-family hook *)
Theorem list_dispatcher_total_modulo_hooks :
  forall c p0 s, In c all_configs -> In (p0, Some s) (cfg_table c) ->
  forall H p base B,
  (exists B', resolve_conflicted_list H p base B (Some s) = Ok B') \/
  resolve_conflicted_list H p base B (Some s) = hk_list H p base B s.
Proof.
  exact (fun c p0 s Hc Hin H p base B =>
           list_dispatch_total_modulo_hooks H p base B s (union_never_placed c p0 s Hc Hin)).
Qed.
Print Assumptions list_dispatcher_total_modulo_hooks.

Theorem dict_dispatcher_total_modulo_hooks :
  forall H p base B s,
  (exists B', resolve_conflicted_dict H p base B (Some s) = Ok B') \/
  resolve_conflicted_dict H p base B (Some s) = hk_dict H p base B s.
Proof. exact dict_dispatch_total_modulo_hooks. Qed.
Print Assumptions dict_dispatcher_total_modulo_hooks.

(* ---- merge_total is FALSE of the pinned code: the part of the refutation that is modelled in Gallina ---------------------
   Strategies.clear_all_arm models the `clear-all` arm of resolve_conflicted_decisions_list together with collect_diffs and
   adjust_patch_level; which of the two known bodies of adjust_patch_level the source has is a generated constant
   (Gen.Strategies.adjust_patch_level_variant).  The theorem below follows the source either way: while the code is as
   pinned it says that a builder with a conflict exists on which the arm raises TypeError (witnesses taken from real runs:
   known findings clear-all-collects-none-diff and collected-diffs-not-wrapped-to-level:clear-all, replayed on the
   implementation by every run from the built-in corpus); once notes/C03-fix-2.diff is applied the same statement says the
   witnesses pass.  NOTHING has to be swapped here after the repair; only the known_findings.d/C03.json entries go.
   The other six findings concern functions that are not modelled (resolve_strategy_inline_attachments / _inline_recurse /
   _inline_outputs, create_parent_deletion_counter_diff, the differ's add_mime_diff): their refutation is carried by the
   replayed inputs only. *)
Theorem clear_all_arm_follows_source : clear_all_status adjust_patch_level_variant.
Proof. exact clear_all_follows_source. Qed.
Print Assumptions clear_all_arm_follows_source.

Theorem clear_all_arm_refuted_as_pinned :
  clear_all_arm APLPinned w_path w_base w_none = Err TypeError /\
  clear_all_arm APLPinned w_path w_base w_mixed = Err TypeError.
Proof. exact clear_all_refuted_pinned. Qed.
Print Assumptions clear_all_arm_refuted_as_pinned.

(* ---- completion of the WHOLE pipeline when only one branch changed (or both made the same change): for all notebook-shaped
   documents a, b (Diff/C01Proofs.v notebook_shaped: the shape nbformat guarantees as far as the differ reads it), every
   similarity heuristic, every strategy table / oracle / hook of the merge, and each of the roles ML (local = b, remote = a),
   MR (the reverse), MB (both = b): the notebook differ returns a diff, the decision maker returns decisions (none conflicted),
   and the applier returns exactly b -- nothing raises.  The diff of the unchanged branch is taken to be empty. *)
Theorem merge_completes_when_one_branch_is_unchanged : forall Od n Om cfg St H (who : mode) a b,
  opcodes_valid Od -> wfj a = true -> wfj b = true -> sources_are_strings a = true ->
  notebook_shaped a = true -> notebook_shaped b = true -> 4 * depth a + 4 <= n ->
  exists d decs,
    diff_ Od nb_config n [] a b = Ok d
    /\ decide_merge_with_diff Om cfg St H chunks_guard entry_eq_strict conflict_assert_strict a (m_ld who d) (m_rd who d) = Ok decs
    /\ no_conf decs
    /\ apply_decisions a decs = Ok b.
Proof. exact (fun Od n Om cfg St H => notebook_pipeline_completes Od n Om cfg St H chunks_guard entry_eq_strict conflict_assert_strict). Qed.
Print Assumptions merge_completes_when_one_branch_is_unchanged.
