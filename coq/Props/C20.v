(* C20 -- the local web server's API agrees with the library and writes only where told at start-up.

   Model: Sys/Server.v (handle, serve), specialised to the facts that tools/gen/gen_server.py reads off
   nbdime/webapp/nbdimeserver.py on every run (Gen/ServerFacts.v: route table, methods, status codes, argument
   names, and the order `store_order` in which the store handler opens its file and serialises the notebook).
   The section variables are the libraries the handlers call (nbformat, nbdime's differ and merger, path
   resolution, the network): the theorems hold for every behaviour of those. *)
From Coq Require Import List NArith ZArith Bool String.
From NB Require Import Base.Json.
From NB Require Import Gen.ServerFacts.
From NB Require Import Sys.Server.
From NB Require Import Sys.ServerProofs.
Import ListNotations.
Local Open Scope string_scope.
Local Open Scope list_scope.

Section C20.
  Variables text nbT diffT decT : Type.
  Variable nb_read : text -> rdres nbT.
  Variable text_empty : text -> bool.
  Variable empty_text : text.
  Variable new_nb : nbT.
  Variable lib_diff : nbT -> nbT -> option diffT.
  Variable lib_merge : nbT -> nbT -> nbT -> option decT.
  Variable nb_serialize : json -> option text.
  Variable resolve : pystr -> pystr.
  Variable fetch : pystr -> fetchres text.

  Local Notation handle := (handle text nbT diffT decT nb_read text_empty empty_text new_nb lib_diff lib_merge nb_serialize resolve fetch).
  Local Notation serve := (serve text nbT diffT decT nb_read text_empty empty_text new_nb lib_diff lib_merge nb_serialize resolve fetch).
  Local Notation malformed := (malformed text nbT nb_read text_empty new_nb nb_serialize resolve fetch).
  Local Notation notebook_argument := (notebook_argument text nbT nb_read text_empty new_nb resolve fetch).
  Local Notation status := (o_status text nbT diffT decT).
  Local Notation body := (o_body text nbT diffT decT).
  Local Notation disk := (o_fs text nbT diffT decT).
  Local Notation stops := (o_stop text nbT diffT decT).
  Local Notation state := (o_st text nbT diffT decT).
  Local Notation obs := (obs text nbT diffT decT).
  Local Notation out_key := (out_key resolve).

  (* --- confinement: only join(cwd, outputfilename), fixed at start-up, can ever change *)
  Theorem store_confined : forall p st f rq k,
    out_key p <> Some k -> disk (handle p st f rq) k = f k.
  Proof. exact (store_confined_gen text nbT diffT decT nb_read text_empty empty_text new_nb lib_diff lib_merge nb_serialize resolve fetch store_order). Qed.

  Theorem session_confined : forall p k, out_key p <> Some k ->
    forall rqs st f, (let '(_, f', _, _) := serve p st f rqs in f' k) = f k.
  Proof. exact (serve_confined_gen text nbT diffT decT nb_read text_empty empty_text new_nb lib_diff lib_merge nb_serialize resolve fetch store_order). Qed.

  Theorem only_store_writes : forall p st f rq k,
    disk (handle p st f rq) k <> f k ->
    route p (rq_path rq) = Some HApiStore /\ rq_method rq = POST /\ out_key p = Some k.
  Proof. exact (only_successful_store_writes text nbT diffT decT nb_read text_empty empty_text new_nb lib_diff lib_merge nb_serialize resolve fetch store_order). Qed.

  Theorem store_refuses_without_output : forall p st f rq,
    out_key p = None ->
    (forall k, disk (handle p st f rq) k = f k)
    /\ (route p (rq_path rq) = Some HApiStore -> rq_method rq = POST ->
        status (handle p st f rq) = st_store_refuse /\ (400 <= st_store_refuse)%N).
  Proof. exact (store_refuses_without_output_gen text nbT diffT decT nb_read text_empty empty_text new_nb lib_diff lib_merge nb_serialize resolve fetch store_order). Qed.

  Theorem store_writes_submitted : forall p st f rq,
    route p (rq_path rq) = Some HApiStore -> rq_method rq = POST ->
    status (handle p st f rq) = st_ok ->
    exists k m t, out_key p = Some k /\ body_arg (rq_body rq) k_merged = Some m /\ nb_serialize m = Some t
                  /\ disk (handle p st f rq) k = File t.
  Proof. exact (store_writes_submitted_gen text nbT diffT decT nb_read text_empty empty_text new_nb lib_diff lib_merge nb_serialize resolve fetch store_order). Qed.

  (* --- remote shutdown only for closable sessions *)
  Theorem close_only_if_closable : forall p st f rq,
    stops (handle p st f rq) = true ->
    p_closable p = true /\ route p (rq_path rq) = Some HApiClose /\ rq_method rq = POST
    /\ status (handle p st f rq) = st_ok.
  Proof. exact (close_only_if_closable_gen text nbT diffT decT nb_read text_empty empty_text new_nb lib_diff lib_merge nb_serialize resolve fetch store_order). Qed.

  Theorem not_closable_refuses : forall p st f rq,
    p_closable p = false ->
    stops (handle p st f rq) = false
    /\ (route p (rq_path rq) = Some HApiClose -> rq_method rq = POST ->
        status (handle p st f rq) = st_close_refuse /\ (400 <= st_close_refuse)%N /\ state (handle p st f rq) = st).
  Proof. exact (not_closable_refuses_gen text nbT diffT decT nb_read text_empty empty_text new_nb lib_diff lib_merge nb_serialize resolve fetch store_order). Qed.

  Theorem closable_honours_wellformed : forall p st f rq,
    p_closable p = true -> route p (rq_path rq) = Some HApiClose -> rq_method rq = POST ->
    malformed p f rq = false ->
    stops (handle p st f rq) = true /\ status (handle p st f rq) = st_ok.
  Proof. exact (closable_honours_wellformed_gen text nbT diffT decT nb_read text_empty empty_text new_nb lib_diff lib_merge nb_serialize resolve fetch store_order). Qed.

  (* --- malformed / unreadable requests: error status, server keeps running *)
  Theorem malformed_answered_with_error : forall p st f rq,
    malformed p f rq = true ->
    (400 <= status (handle p st f rq))%N /\ stops (handle p st f rq) = false.
  Proof. exact (malformed_status_gen text nbT diffT decT nb_read text_empty empty_text new_nb lib_diff lib_merge nb_serialize resolve fetch store_order). Qed.

  Theorem status_200_or_error : forall p st f rq,
    status (handle p st f rq) = st_ok \/ (400 <= status (handle p st f rq))%N.
  Proof. exact (status_200_or_error_gen text nbT diffT decT nb_read text_empty empty_text new_nb lib_diff lib_merge nb_serialize resolve fetch store_order). Qed.

  (* --- agreement with the library *)
  Theorem diff_endpoint_patches :
    forall (patch : nbT -> diffT -> option nbT),
    (forall a b d, lib_diff a b = Some d -> patch a d = Some b) ->
    forall p st f rq,
    route p (rq_path rq) = Some HApiDiff -> rq_method rq = POST ->
    status (handle p st f rq) = st_ok ->
    exists b r d,
      body (handle p st f rq) = RbDiff b d
      /\ notebook_argument p f EDiff rq (sf_str "base") = inr b
      /\ notebook_argument p f EDiff rq (sf_str "remote") = inr r
      /\ lib_diff b r = Some d
      /\ patch b d = Some r.
  Proof. exact (fun patch H => diff_endpoint_patches_gen text nbT diffT decT nb_read text_empty empty_text new_nb lib_diff lib_merge nb_serialize resolve fetch patch H store_order). Qed.

  Theorem merge_endpoint_is_library : forall p st f rq,
    route p (rq_path rq) = Some HApiMerge -> rq_method rq = POST ->
    status (handle p st f rq) = st_ok ->
    exists b l r d,
      body (handle p st f rq) = RbMerge b d
      /\ notebook_argument p f EMerge rq (sf_str "base") = inr b
      /\ notebook_argument p f EMerge rq (sf_str "local") = inr l
      /\ notebook_argument p f EMerge rq (sf_str "remote") = inr r
      /\ lib_merge b l r = Some d.
  Proof. exact (merge_endpoint_is_library_gen text nbT diffT decT nb_read text_empty empty_text new_nb lib_diff lib_merge nb_serialize resolve fetch store_order). Qed.

  Theorem wellformed_diff_answered : forall p st f rq,
    route p (rq_path rq) = Some HApiDiff -> rq_method rq = POST -> malformed p f rq = false ->
    status (handle p st f rq) = st_ok \/ status (handle p st f rq) = st_diff_fail.
  Proof. exact (wellformed_diff_answered_gen text nbT diffT decT nb_read text_empty empty_text new_nb lib_diff lib_merge nb_serialize resolve fetch store_order). Qed.

  (* --- routing under the base URL *)
  Theorem unknown_path_not_found : forall p st f rq,
    route p (rq_path rq) = None ->
    status (handle p st f rq) = st_not_found /\ disk (handle p st f rq) = f
    /\ stops (handle p st f rq) = false /\ state (handle p st f rq) = st.
  Proof. exact (unknown_path_not_found_gen text nbT diffT decT nb_read text_empty empty_text new_nb lib_diff lib_merge nb_serialize resolve fetch store_order). Qed.

  (* --- later requests are answered as if they were the first *)
  Theorem handle_stateless : forall p st1 st2 f rq,
    obs (handle p st1 f rq) = obs (handle p st2 f rq).
  Proof. exact (handle_stateless_gen text nbT diffT decT nb_read text_empty empty_text new_nb lib_diff lib_merge nb_serialize resolve fetch store_order). Qed.

  Theorem session_stateless : forall p rqs st f i oc rq,
    nth_error (fst (fst (fst (serve p st f rqs)))) i = Some oc ->
    nth_error rqs i = Some rq ->
    obs oc = obs (handle p sstate0 (fs_before text nbT diffT decT (fst (fst (fst (serve p st f rqs)))) f i) rq).
  Proof. exact (serve_stateless_gen text nbT diffT decT nb_read text_empty empty_text new_nb lib_diff lib_merge nb_serialize resolve fetch store_order). Qed.
End C20.

Theorem routed_under_prefix : forall p path h,
  route p path = Some h -> exists pat, In (pat, h) routes /\ path = prefix p ++ pat.
Proof. exact ServerProofs.routed_under_prefix. Qed.

(* --- malformed requests change nothing on disk: the clause as it stands for the order read off the source.
   With store_order = OpenThenSerialise (current code) this says: REFUTED by the body {"merged": 5} (answered
   500 with the output file truncated -- finding F12, witness Sys/ServerProofs.v Witness.bad_store), and true for
   every malformed request other than a store whose `merged` cannot be serialised.  With SerialiseThenOpen (after
   notes/C20-fix-1.diff) it is the unrestricted clause.  Nothing here needs editing when the fix lands. *)
Theorem malformed_no_effect_as_coded : malformed_clause store_order.
Proof. exact (malformed_clause_holds store_order). Qed.

Print Assumptions store_confined.
Print Assumptions session_confined.
Print Assumptions only_store_writes.
Print Assumptions store_refuses_without_output.
Print Assumptions store_writes_submitted.
Print Assumptions close_only_if_closable.
Print Assumptions not_closable_refuses.
Print Assumptions closable_honours_wellformed.
Print Assumptions malformed_answered_with_error.
Print Assumptions status_200_or_error.
Print Assumptions diff_endpoint_patches.
Print Assumptions merge_endpoint_is_library.
Print Assumptions wellformed_diff_answered.
Print Assumptions unknown_path_not_found.
Print Assumptions handle_stateless.
Print Assumptions session_stateless.
Print Assumptions routed_under_prefix.
Print Assumptions malformed_no_effect_as_coded.
