(* C05 -- merge obeys identity, one-sided adoption, agreement (and side symmetry).
   Statements only; proofs live in Merge/MergeProofs.v.  The model is instantiated with the source
   facts generated from /repo (Gen/MergeFacts.v): chunks_guard, entry_eq_strict. *)
From Coq Require Import List.
From NB Require Import Base.Res.
From NB Require Import Base.Json.
From NB Require Import Diff.DiffFormat.
From NB Require Import Diff.GenericDiff.
From NB Require Import Merge.SortKey.
From NB Require Import Merge.Decisions.
From NB Require Import Merge.Apply.
From NB Require Import Merge.MergeGeneric.
From NB Require Import Merge.MergeProofs.
From NB Require Import Gen.MergeFacts.
Import ListNotations.

(* identity: nothing changed => no decision at all, and applying no decision gives base back *)
Theorem merge_id : forall O cfg St H base,
  is_container base = true -> plain_string_root St base -> base <> JArr [] -> base <> JStr [] ->
  decide_merge_with_diff O cfg St H chunks_guard entry_eq_strict base [] [] = Ok []
  /\ apply_decisions base [] = Ok base.
Proof. exact merge_id_thm. Qed.
Print Assumptions merge_id.

(* ==== BEGIN block tied to the source fact chunks_guard (finding C05 empty-sequence-root) ====
   On the current source the identity law FAILS for an empty list / empty string at the root.
   After the fix (guard `base or any(split_diffs)`) replace this theorem by:
     merge_id_empty_seq : forall O cfg St H, decide_merge_with_diff O cfg St H chunks_guard entry_eq_strict (JArr []) [] [] = Ok []
     proved by  exact (fun O cfg St H => decide_id_empty_fixed O cfg St H entry_eq_strict). *)
Theorem merge_id_empty_seq_refuted : forall O cfg St H,
  decide_merge_with_diff O cfg St H chunks_guard entry_eq_strict (JArr []) [] [] = Err AssertionError.
Proof. exact (fun O cfg St H => decide_id_refuted O cfg St H entry_eq_strict). Qed.
Print Assumptions merge_id_empty_seq_refuted.
(* ==== END block ==== *)
