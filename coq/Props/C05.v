(* C05 -- merge obeys identity, one-sided adoption, agreement (and side symmetry).
   Statements only; proofs live in Merge/MergeProofs.v.  The model (Merge/MergeGeneric.v) is instantiated
   with the source facts generated from /repo (Gen/MergeFacts.v): chunks_guard, entry_eq_strict,
   conflict_assert_strict.  O, cfg (heuristic oracles, differ tables), St (strategy table) and H (hooks of the
   notebook-specific strategy layer) are universally quantified: the laws hold under every strategy. *)
From Coq Require Import String.
From NB Require Import Diff.Codec.
From Coq Require Import List ZArith.
From NB Require Import Base.Res.
From NB Require Import Base.Json.
From NB Require Import Diff.DiffFormat.
From NB Require Import Diff.GenericDiff.
From NB Require Import Merge.SortKey.
From NB Require Import Merge.Decisions.
From NB Require Import Merge.Apply.
From NB Require Import Merge.MergeGeneric.
From NB Require Import Merge.MergeProofs.
From NB Require Import Merge.MergeSmallScope.
From NB Require Import Merge.MergeApplyProofs.
From NB Require Import Diff.Patch.
From NB Require Import Gen.MergeFacts.
From NB Require Import Diff.Wf Diff.StringProofs Diff.C01Proofs Gen.NbConfig.
From NB Require Import Merge.MergeOnesidedList Merge.MergeListTotal Merge.MergeOnesidedObj.
From NB Require Import Merge.MergeKeySym.
From NB Require Import Merge.MergeDictSym.
From NB Require Import Merge.MergeSymNeutral.
Import ListNotations.

Notation decide O cfg St H :=
  (decide_merge_with_diff O cfg St H chunks_guard entry_eq_strict conflict_assert_strict).

(* identity: nothing changed => no decision at all, and applying no decision gives base back *)
Theorem merge_id : forall O cfg St H base,
  is_container base = true -> plain_string_root St base -> base <> JArr [] -> base <> JStr [] ->
  decide O cfg St H base [] [] = Ok [] /\ apply_decisions base [] = Ok base.
Proof. exact merge_id_thm. Qed.
Print Assumptions merge_id.

(* one-sided change, local role: whatever the diff, no decision is conflicted *)
Theorem merge_onesided_l_partial : forall O cfg St H base d decs,
  plain_string_root St base -> decide O cfg St H base d [] = Ok decs -> no_conf decs.
Proof. exact (fun O cfg St H => decide_onesided_local O cfg St H chunks_guard entry_eq_strict conflict_assert_strict). Qed.
Print Assumptions merge_onesided_l_partial.

(* one-sided change, remote role *)
Theorem merge_onesided_r_partial : forall O cfg St H base d decs,
  plain_string_root St base -> decide O cfg St H base [] d = Ok decs -> no_conf decs.
Proof. exact (fun O cfg St H => decide_onesided_remote O cfg St H chunks_guard entry_eq_strict conflict_assert_strict). Qed.
Print Assumptions merge_onesided_r_partial.

(* one-sided adoption, FULL statement for flat object diffs: for every object base and every non-empty diff made of
   add / remove / replace entries with strictly increasing keys (what the differ emits for an object whose changed members are
   not containers), the merge is conflict-free and applying its decisions is exactly patching base with the diff *)
Theorem merge_onesided_l_flat_object : forall O cfg St H kv d,
  d <> [] -> flat d -> skeys_lt None d ->
  exists decs, decide O cfg St H (JObj kv) d [] = Ok decs /\ no_conf decs
               /\ apply_decisions (JObj kv) decs = patch (pfuel (JObj kv) d) (JObj kv) d.
Proof. exact (fun O cfg St H => onesided_flat_object O cfg St H chunks_guard entry_eq_strict conflict_assert_strict). Qed.
Print Assumptions merge_onesided_l_flat_object.

Theorem merge_onesided_r_flat_object : forall O cfg St H kv d,
  d <> [] -> flat d -> skeys_lt None d ->
  exists decs, decide O cfg St H (JObj kv) [] d = Ok decs /\ no_conf decs
               /\ apply_decisions (JObj kv) decs = patch (pfuel (JObj kv) d) (JObj kv) d.
Proof. exact (fun O cfg St H => onesided_remote_flat_object O cfg St H chunks_guard entry_eq_strict conflict_assert_strict). Qed.
Print Assumptions merge_onesided_r_flat_object.

Theorem merge_agree_flat_object : forall O cfg St H kv d,
  d <> [] -> flat d -> skeys_lt None d ->
  exists decs, decide O cfg St H (JObj kv) d d = Ok decs /\ no_conf decs
               /\ apply_decisions (JObj kv) decs = patch (pfuel (JObj kv) d) (JObj kv) d.
Proof. exact (fun O cfg St H => agree_flat_object O cfg St H chunks_guard entry_eq_strict conflict_assert_strict). Qed.
Print Assumptions merge_agree_flat_object.

(* ONE-SIDED ADOPTION AND AGREEMENT, FULL STATEMENT FOR EVERY OBJECT DOCUMENT (notebooks are objects), ANY DEPTH:
   for every well-formed object base and every diff d that is well-formed for it (Diff/Wf.v wf_diff, the C11 predicate the
   differ provably satisfies: nested patches into objects, lists and multi-line strings to any depth), whether d is the
   local side's change (ML), the remote side's (MR), or both sides' (MB), under every strategy table, oracle and hook:
   the merge RETURNS, no decision is conflicted, and applying the decisions is exactly patch(base, d).
   The proof follows ensure_common_path (decisions pushed down singleton patch chains), validated() (stable descending sort:
   root decisions last), and apply_decisions group by group (split_string_path, resolve_action, combine_patches, set_at). *)
Theorem merge_onesided_object_full : forall O cfg St H (who : mode) kv d f,
  wfj (JObj kv) = true -> wf_diff f (JObj kv) d = true ->
  exists decs,
    decide O cfg St H (JObj kv) (m_ld who d) (m_rd who d) = Ok decs
    /\ no_conf decs
    /\ forall m, depth (JObj kv) < m -> apply_decisions (JObj kv) decs = patch m (JObj kv) d.
Proof. exact (fun O cfg St H => onesided_object O cfg St H chunks_guard entry_eq_strict conflict_assert_strict). Qed.
Print Assumptions merge_onesided_object_full.

(* composed with the notebook differ (C01/C11): when only one side changed a notebook, or both made the same change, and the
   diffs are the ones nbdime's own notebook differ computes (any similarity heuristics), the merged notebook IS that side *)
Theorem merge_notebook_onesided_is_that_side : forall Od n Om cfg St H (who : mode) ka b d,
  opcodes_valid Od -> wfj (JObj ka) = true -> wfj b = true -> sources_are_strings (JObj ka) = true ->
  diff_ Od nb_config n [] (JObj ka) b = Ok d ->
  exists decs,
    decide Om cfg St H (JObj ka) (m_ld who d) (m_rd who d) = Ok decs /\ no_conf decs
    /\ apply_decisions (JObj ka) decs = Ok b.
Proof.
  intros Od n Om cfg St H who ka b d Hop Hwa Hwb Hsrc Hd.
  destruct (nb_roundtrip Od n (JObj ka) b d Hop Hwa Hwb Hsrc Hd) as (Hp & Hf & _).
  destruct (onesided_object Om cfg St H chunks_guard entry_eq_strict conflict_assert_strict who ka d _ Hwa (Hf _ (Nat.lt_succ_diag_r _)))
    as (decs & D1 & D2 & D3).
  exists decs. split; [exact D1|]. split; [exact D2|]. rewrite (D3 _ (Nat.lt_succ_diag_r _)). apply Hp. apply Nat.lt_succ_diag_r.
Qed.
Print Assumptions merge_notebook_onesided_is_that_side.

Theorem merge_onesided_object_example :
  wfj exo_base = true /\ wf_diff 6 exo_base exo_diff = true
  /\ exists decs, decide_merge_with_diff O0 cfg0 no_strategies no_hooks GuardListTruthy false false exo_base exo_diff [] = Ok decs
       /\ length decs = 3
       /\ apply_decisions exo_base decs
          = Ok (JObj [(exo_s "cells", JArr [JObj [(exo_s "source", JStr (exo_s "ab" ++ [10%N] ++ exo_s "xy" ++ [10%N]))]]);
                      (exo_s "m", JInt 2); (exo_s "z", JNull)]).
Proof. exact onesided_object_example. Qed.
Print Assumptions merge_onesided_object_example.

(* the three laws for LIST documents and flat list diffs of ANY length (insert / delete runs of items, e.g. whole cells at a
   list root), totality included: the merge RETURNS (the sanity asserts of make_merge_chunks hold: the first chunk starts at 0, the
   last one ends at len(base)), no decision is conflicted and applying the decisions is patch(base, d).  The chunker (section
   boundaries, split on boundaries, make_chunks) and the chunk switch of _merge_lists are followed step by step. *)
Theorem merge_onesided_l_flat_list : forall O cfg St H l d,
  lst_ok (length l) 0 0 d -> d <> [] ->
  exists decs, decide O cfg St H (JArr l) d [] = Ok decs
               /\ no_conf decs /\ apply_decisions (JArr l) decs = patch (pfuel (JArr l) d) (JArr l) d.
Proof. exact (fun O cfg St H => onesided_flat_list_total O cfg St H chunks_guard entry_eq_strict conflict_assert_strict). Qed.
Print Assumptions merge_onesided_l_flat_list.

Theorem merge_onesided_r_flat_list : forall O cfg St H l d,
  lst_ok (length l) 0 0 d -> d <> [] ->
  exists decs, decide O cfg St H (JArr l) [] d = Ok decs
               /\ no_conf decs /\ apply_decisions (JArr l) decs = patch (pfuel (JArr l) d) (JArr l) d.
Proof. exact (fun O cfg St H => onesided_remote_flat_list_total O cfg St H chunks_guard entry_eq_strict conflict_assert_strict). Qed.
Print Assumptions merge_onesided_r_flat_list.

Theorem merge_agree_flat_list : forall O cfg St H l d,
  lst_ok (length l) 0 0 d -> d <> [] ->
  exists decs, decide O cfg St H (JArr l) d d = Ok decs
               /\ no_conf decs /\ apply_decisions (JArr l) decs = patch (pfuel (JArr l) d) (JArr l) d.
Proof. exact (fun O cfg St H => agree_flat_list_total O cfg St H chunks_guard entry_eq_strict conflict_assert_strict). Qed.
Print Assumptions merge_agree_flat_list.

Theorem merge_flat_list_example :
  let l := [JInt 0; JInt 1; JInt 2; JInt 3; JInt 4] in
  let d := [DAddRange (KI 1) (VList [JInt 7; JInt 8]); DRemoveRange (KI 2) 2] in
  lst_ok (length l) 0 0 d /\ d <> []
  /\ exists decs, decide_merge_with_diff O0 cfg0 no_strategies no_hooks GuardListTruthy false false (JArr l) d [] = Ok decs
                  /\ apply_decisions (JArr l) decs = Ok (JArr [JInt 0; JInt 7; JInt 8; JInt 1; JInt 4]).
Proof. exact onesided_flat_list_example. Qed.
Print Assumptions merge_flat_list_example.

(* the same change on both sides *)
Theorem merge_agree_partial : forall O cfg St H base d decs,
  plain_string_root St base -> decide O cfg St H base d d = Ok decs -> no_conf decs.
Proof. exact (fun O cfg St H => decide_agree O cfg St H chunks_guard entry_eq_strict conflict_assert_strict). Qed.
Print Assumptions merge_agree_partial.

(* the hypotheses above are satisfiable with non-empty diffs, and the merged documents are the expected ones *)
Theorem merge_onesided_example :
  exists decs, decide_merge_with_diff O0 cfg0 no_strategies no_hooks GuardListTruthy false false
                 (JArr [JInt 1; JInt 2]) [DRemoveRange (KI 0) 1] [] = Ok decs
               /\ decs <> [] /\ apply_decisions (JArr [JInt 1; JInt 2]) decs = Ok (JArr [JInt 2]).
Proof. exact onesided_nonvacuous. Qed.
Print Assumptions merge_onesided_example.

(* the full statement of the three laws (no conflict AND merged = X), with X reached through the model's own differ,
   on every pair of distinct lists of length <= 3 over {1,2,3} and every pair of distinct objects over x,y,z -> {1,2,3} *)
Theorem merge_laws_small_scope :
  (forall b x, In b (small_lists 3) -> In x (small_lists 3) -> b <> x ->
               laws chunks_guard entry_eq_strict conflict_assert_strict b x)
  /\ (forall b x, In b small_objects -> In x small_objects -> b <> x ->
                  laws chunks_guard entry_eq_strict conflict_assert_strict b x).
Proof. exact laws_small_scope. Qed.
Print Assumptions merge_laws_small_scope.

(* the same on two-level documents (decisions pushed down common paths, sorted deeper-first, applied group by group):
   all pairs of distinct lists (len <= 2) of lists (len <= 2 over {1,2}) and of objects x,y -> such lists *)
Theorem merge_laws_small_scope_nested :
  (forall b x, In b nested_lists -> In x nested_lists -> b <> x ->
               laws chunks_guard entry_eq_strict conflict_assert_strict b x)
  /\ (forall b x, In b nested_objects -> In x nested_objects -> b <> x ->
                  laws chunks_guard entry_eq_strict conflict_assert_strict b x).
Proof. exact laws_small_scope_nested. Qed.
Print Assumptions merge_laws_small_scope_nested.

(* side symmetry (same verdict; same merged document when conflict-free; same-position inserts excluded) on every
   triple of lists of length <= 2 over {1,2,3} and of objects over x,y -> {1,2,3} *)
Theorem merge_symmetric_small_scope_partial :
  (forall b l r, In b (small_lists 2) -> In l (small_lists 2) -> In r (small_lists 2) ->
                 symmetric_on chunks_guard entry_eq_strict conflict_assert_strict b l r = true)
  /\ (forall b l r, In b small_objects2 -> In l small_objects2 -> In r small_objects2 ->
                    symmetric_on chunks_guard entry_eq_strict conflict_assert_strict b l r = true).
Proof. exact (conj symmetry_small_scope symmetry_small_scope_objects). Qed.
Print Assumptions merge_symmetric_small_scope_partial.

Theorem merge_symmetric_small_scope_nested_partial :
  forall b l r, In b nested_objects1 -> In l nested_objects1 -> In r nested_objects1 ->
                symmetric_on chunks_guard entry_eq_strict conflict_assert_strict b l r = true.
Proof. exact symmetry_small_scope_nested. Qed.
Print Assumptions merge_symmetric_small_scope_nested_partial.

(* ---- side symmetry, unbounded (Merge/MergeKeySym.v, Merge/MergeDictSym.v) ----
   objmeet base dl dr: base is an object and, wherever BOTH diffs patch the same key, the value there satisfies objmeet
   with the two sub-diffs again -- the two sides meet only inside objects.  Nothing else is restricted: any values, any
   one-sided or two-sided add / remove / replace entries, one-sided patches into lists and strings to any depth, any
   transients table, any oracle, any hooks, either reading of the generated source facts.  With no strategy configured
   (the property's setting: the verdict of the merge itself), exchanging local and remote makes decide_merge_with_diff
   return exactly the same decisions with the sides exchanged: same paths, same order, same conflict flags (so the
   same verdict), local_diff/remote_diff swapped and the action local<->remote; and it fails with the same error
   exactly when the original order fails.  Proof follows _merge_dicts loop by loop: the dict-based diffs are key
   sorted, so sorted(A ^ B) and sorted(A & B) do not depend on which side is A (dsorted_keys_ext); every builder call
   commutes with the exchange because Python == and JSON identity on diff entries are symmetric (py_eqb_sym,
   entry_eqb_sym, ...) and ensure_common_path treats the two sides alike (add_decision_swap); validated() sorts by
   path only (validated_swap).  Still missing for the whole clause (hence _partial): sides meeting inside a list or a
   multi-line string (the list merger), and the equality of the merged documents (see the refutation below: it fails
   when the two sides agree only up to Python ==). *)
Theorem merge_symmetric_objects_partial : forall O cfg St H base dl dr,
  SortKey.st_table St = [] -> objmeet base dl dr ->
  decide O cfg St H base dr dl = swap_decs (decide O cfg St H base dl dr).
Proof. exact (fun O cfg St H => decide_objmeet_swap O cfg St H chunks_guard entry_eq_strict conflict_assert_strict). Qed.
Print Assumptions merge_symmetric_objects_partial.

(* the verdict itself *)
Theorem merge_symmetric_objects_verdict : forall B, has_conflicted (map swap_dec B) = has_conflicted B.
Proof. exact has_conflicted_swap. Qed.
Print Assumptions merge_symmetric_objects_verdict.

(* ... and the merged document: with the sides exchanged the merge returns the exchanged decisions, with the same verdict,
   and applying them to base builds the SAME merged document -- provided every agreement decision (action either) records
   JSON-identical diffs on its two sides (side_neutral).  The excluded case is precisely the recorded finding
   symmetry-merged-differs-by-json-type-only below. *)
Theorem merge_symmetric_objects_merged_partial : forall O cfg St H base dl dr D,
  SortKey.st_table St = [] -> objmeet base dl dr ->
  decide O cfg St H base dl dr = Ok D ->
  exists D', decide O cfg St H base dr dl = Ok D'
             /\ D' = map swap_dec D
             /\ has_conflicted D' = has_conflicted D
             /\ (Forall side_neutral D -> apply_decisions base D' = apply_decisions base D).
Proof. exact (fun O cfg St H => decide_apply_objmeet_swap O cfg St H chunks_guard entry_eq_strict conflict_assert_strict). Qed.
Print Assumptions merge_symmetric_objects_merged_partial.

(* THE SYMMETRY CLAUSE IN FULL for these documents, following the generated source fact (no edit needed either way):
   with agreement tested by JSON identity (entry_eq_strict = true: the source after the repair of
   symmetry-merged-differs-by-json-type-only) the merge with the sides exchanged returns, has the same verdict and builds
   the same merged document, with no side condition; were the fact false the statement is trivial and the refutation
   below applies instead. *)
Theorem merge_symmetric_objects_full_by_fact : forall O cfg St H,
  symmetry_full_statement O cfg St H chunks_guard entry_eq_strict conflict_assert_strict.
Proof. exact (fun O cfg St H => symmetry_full_by_fact O cfg St H chunks_guard entry_eq_strict conflict_assert_strict). Qed.
Print Assumptions merge_symmetric_objects_full_by_fact.

(* the same, spelled out under the fact as a premise *)
Theorem merge_symmetric_objects_full : entry_eq_strict = true ->
  forall O cfg St H base dl dr D, SortKey.st_table St = [] -> objmeet base dl dr ->
    decide O cfg St H base dl dr = Ok D ->
    exists D', decide O cfg St H base dr dl = Ok D'
               /\ has_conflicted D' = has_conflicted D
               /\ apply_decisions base D' = apply_decisions base D.
Proof.
  intros Hs O cfg St H. pose proof (symmetry_full_by_fact O cfg St H chunks_guard entry_eq_strict conflict_assert_strict) as F.
  unfold symmetry_full_statement in F. rewrite Hs in F. rewrite Hs. exact F.
Qed.
Print Assumptions merge_symmetric_objects_full.

(* one layer, with the recursive call abstract: for a key of an object that BOTH sides changed (steps (4)-(8) of
   _merge_dicts), given that the sub-merge the key makes is symmetric *)
Theorem merge_symmetric_per_key_partial : forall St M rec base p B key ld rd,
  merge_fn_sym M ->
  SortKey.strat_get St (dspath p ++ 47%N :: key) = None ->
  merge_key St entry_eq_strict conflict_assert_strict M rec base p (map swap_dec B) key rd ld
  = swap_res (merge_key St entry_eq_strict conflict_assert_strict M rec base p B key ld rd).
Proof. exact (fun St => merge_key_swap_gen St entry_eq_strict conflict_assert_strict). Qed.
Print Assumptions merge_symmetric_per_key_partial.

(* keys only one side changed: recording the one-sided decision commutes with exchanging the sides, whatever the diffs
   (ensure_common_path pushes both orders down the same singleton patch chain: add_decision_swap) *)
Theorem merge_symmetric_onesided_key : forall B p l r,
  b_onesided (map swap_dec B) p r l = swap_res (b_onesided B p l r).
Proof. exact b_onesided_swap. Qed.
Print Assumptions merge_symmetric_onesided_key.

(* non-vacuity: a nested document where both sides patch the same object key (and the sides then disagree on a leaf)
   satisfies objmeet, and the merge of it is conflicted in both orders *)
Example merge_symmetric_objects_example :
  let a := of_ascii "a" in let x := of_ascii "x" in
  let base := JObj [(a, JObj [(x, JInt 0)])] in
  let dl := [DPatch (KS a) [DReplace (KS x) (JInt 1)]] in
  let dr := [DPatch (KS a) [DReplace (KS x) (JInt 2)]] in
  objmeet base dl dr
  /\ exists d, decide_merge_with_diff O0 cfg0 no_strategies no_hooks chunks_guard entry_eq_strict conflict_assert_strict base dl dr = Ok [d]
               /\ d_conflict d = true.
Proof.
  cbv zeta. split.
  - constructor. intros key dl dr bv I1 I2 Eb.
    destruct I1 as [I1|[]]. destruct I2 as [I2|[]]. inversion I1; subst. inversion I2; subst.
    vm_compute in Eb. inversion Eb; subst.
    constructor. intros key dl dr bv [I3|[]]. discriminate I3.
  - eexists. split; vm_compute; reflexivity.
Qed.

(* non-vacuity: the hypothesis on the recursive call is met by a symmetric merge function, and a concrete two-sided
   key (replace vs remove, nothing transient) yields the swapped conflicted decision *)
Example merge_symmetric_per_key_example :
  merge_key no_strategies false false (fun _ _ _ _ _ => Ok []) false [] [] [] (of_ascii "a")
            (DReplace (KS (of_ascii "a")) (JInt 1)) (DRemove (KS (of_ascii "a")))
  = swap_res (merge_key no_strategies false false (fun _ _ _ _ _ => Ok []) false [] [] [] (of_ascii "a")
            (DRemove (KS (of_ascii "a"))) (DReplace (KS (of_ascii "a")) (JInt 1)))
  /\ exists d, merge_key no_strategies false false (fun _ _ _ _ _ => Ok []) false [] [] [] (of_ascii "a")
            (DReplace (KS (of_ascii "a")) (JInt 1)) (DRemove (KS (of_ascii "a"))) = Ok [d] /\ d_conflict d = true.
Proof. split; [vm_compute; reflexivity | eexists; split; vm_compute; reflexivity]. Qed.

(* ---- The two theorems below follow the generated source facts either way (no edit needed after a repair).
   On the current source (chunks_guard = GuardListTruthy, entry_eq_strict = false) they are REFUTATIONS:
   - identity fails for an unchanged empty list / empty string at the root: decide (JArr []) [] [] = Err AssertionError
     (finding empty-sequence-root-unchanged-asserts-no-merge-chunks);
   - symmetry fails for base {a:0}, a:=1 on one side, a:=true on the other: conflict-free both ways, merged {a:1} vs {a:true}
     (finding symmetry-merged-differs-by-json-type-only).
   After the fixes in notes/C05-fix-1.diff / C05-fix-2.diff the same theorems state the repaired behaviour
   (Ok [] resp. a conflict in both orders); see empty_seq_statement / symmetry_witness_statement in MergeProofs.v. *)
Theorem merge_id_empty_seq_refuted_or_repaired : forall O cfg St H,
  empty_seq_statement chunks_guard (decide O cfg St H (JArr []) [] []).
Proof. exact (fun O cfg St H => decide_empty_seq_by_fact O cfg St H chunks_guard entry_eq_strict conflict_assert_strict). Qed.
Print Assumptions merge_id_empty_seq_refuted_or_repaired.

Theorem merge_symmetric_refuted_or_repaired : forall O cfg,
  symmetry_witness_statement entry_eq_strict conflict_assert_strict
    (decide_merge_with_diff O cfg no_strategies no_hooks GuardListTruthy entry_eq_strict conflict_assert_strict sym_base sym_dl sym_dr)
    (decide_merge_with_diff O cfg no_strategies no_hooks GuardListTruthy entry_eq_strict conflict_assert_strict sym_base sym_dr sym_dl).
Proof. exact (fun O cfg => symmetry_witness_by_fact O cfg entry_eq_strict conflict_assert_strict). Qed.
Print Assumptions merge_symmetric_refuted_or_repaired.
