(* C05 -- merge obeys identity, one-sided adoption, agreement (and side symmetry).
   Statements only; proofs live in Merge/MergeProofs.v.  The model (Merge/MergeGeneric.v) is instantiated
   with the source facts generated from /repo (Gen/MergeFacts.v): chunks_guard, entry_eq_strict,
   conflict_assert_strict.  O, cfg (heuristic oracles, differ tables), St (strategy table) and H (hooks of the
   notebook-specific strategy layer) are universally quantified: the laws hold under every strategy. *)
From Coq Require Import List ZArith.
From NB Require Import Base.Res.
From NB Require Import Base.Json.
From NB Require Import Diff.DiffFormat.
From NB Require Import Diff.GenericDiff.
From NB Require Import Merge.SortKey.
From NB Require Import Merge.Decisions.
From NB Require Import Merge.Apply.
From NB Require Import Merge.MergeGeneric.
From NB Require Import Merge.MergeProofs.
From NB Require Import Gen.MergeFacts.
Import ListNotations.

Notation decide O cfg St H :=
  (decide_merge_with_diff O cfg St H chunks_guard entry_eq_strict conflict_assert_strict).

(* identity: nothing changed => no decision at all, and applying no decision gives base back *)
Theorem merge_id : forall O cfg St H base,
  is_container base = true -> plain_string_root St base -> base <> JArr [] -> base <> JStr [] ->
  decide O cfg St H base [] [] = Ok [] /\ apply_decisions base [] = Ok base.
Proof. exact merge_id_thm. Qed.
Print Assumptions merge_id.

(* one-sided change, local role: whatever the diff, no decision is conflicted *)
Theorem merge_onesided_l_partial : forall O cfg St H base d decs,
  plain_string_root St base -> decide O cfg St H base d [] = Ok decs -> no_conf decs.
Proof. exact (fun O cfg St H => decide_onesided_local O cfg St H chunks_guard entry_eq_strict conflict_assert_strict). Qed.
Print Assumptions merge_onesided_l_partial.

(* one-sided change, remote role *)
Theorem merge_onesided_r_partial : forall O cfg St H base d decs,
  plain_string_root St base -> decide O cfg St H base [] d = Ok decs -> no_conf decs.
Proof. exact (fun O cfg St H => decide_onesided_remote O cfg St H chunks_guard entry_eq_strict conflict_assert_strict). Qed.
Print Assumptions merge_onesided_r_partial.

(* the same change on both sides *)
Theorem merge_agree_partial : forall O cfg St H base d decs,
  plain_string_root St base -> decide O cfg St H base d d = Ok decs -> no_conf decs.
Proof. exact (fun O cfg St H => decide_agree O cfg St H chunks_guard entry_eq_strict conflict_assert_strict). Qed.
Print Assumptions merge_agree_partial.

(* the hypotheses above are satisfiable with non-empty diffs, and the merged documents are the expected ones *)
Theorem merge_onesided_example :
  exists decs, decide_merge_with_diff O0 cfg0 no_strategies no_hooks GuardListTruthy false false
                 (JArr [JInt 1; JInt 2]) [DRemoveRange (KI 0) 1] [] = Ok decs
               /\ decs <> [] /\ apply_decisions (JArr [JInt 1; JInt 2]) decs = Ok (JArr [JInt 2]).
Proof. exact onesided_nonvacuous. Qed.
Print Assumptions merge_onesided_example.

(* ==== BEGIN block tied to the source fact chunks_guard (finding: empty-sequence-root-unchanged-asserts-no-merge-chunks) ====
   On the current source the identity law FAILS for an empty list / empty string at the root.
   After the fix (guard `base or any(split_diffs)`) replace the statement and proof below by:
     merge_id_empty_seq : forall O cfg St H, decide O cfg St H (JArr []) [] [] = Ok []
     exact (fun O cfg St H => decide_id_empty_fixed O cfg St H entry_eq_strict conflict_assert_strict). *)
Theorem merge_id_empty_seq_refuted : forall O cfg St H,
  decide O cfg St H (JArr []) [] [] = Err AssertionError.
Proof. exact (fun O cfg St H => decide_id_refuted O cfg St H entry_eq_strict conflict_assert_strict). Qed.
Print Assumptions merge_id_empty_seq_refuted.
(* ==== END block ==== *)

(* ==== BEGIN block tied to the source facts entry_eq_strict / conflict_assert_strict
        (finding: symmetry-merged-differs-by-json-type-only) ====
   On the current source the symmetry clause FAILS: {a:0} with a:=1 on one side and a:=true on the other merges
   without conflict to {a:1} or {a:true} depending on which side is called local.
   After the fix (strict_equals in generic.py AND in the asserts of decisions.py) replace the statement and proof by:
     merge_symmetric_example : forall O cfg, (statement of symmetry_example_strict with the two `true` written as
                                              entry_eq_strict conflict_assert_strict)
     exact symmetry_example_strict. *)
Theorem merge_symmetric_refuted : forall O cfg,
  let base := JObj [(ka, JInt 0)] in
  let dl := [DReplace (KS ka) (JInt 1)] in
  let dr := [DReplace (KS ka) (JBool true)] in
  exists d1 d2 m1 m2,
    decide_merge_with_diff O cfg no_strategies no_hooks GuardListTruthy entry_eq_strict conflict_assert_strict base dl dr = Ok d1 /\ no_conf d1 /\
    decide_merge_with_diff O cfg no_strategies no_hooks GuardListTruthy entry_eq_strict conflict_assert_strict base dr dl = Ok d2 /\ no_conf d2 /\
    apply_decisions base d1 = Ok m1 /\ apply_decisions base d2 = Ok m2 /\ m1 <> m2.
Proof. exact symmetry_refuted_pyeq. Qed.
Print Assumptions merge_symmetric_refuted.
(* ==== END block ==== *)
