(* C08 -- merge command and git merge driver: exit status, output file, behaviour on failure.
   Statements only; model in Sys/MergeApp.v, proofs in Sys/MergeAppProofs.v.
   Every theorem is quantified over ALL notebook types, parsers, differs, deciders (hence every strategy), appliers,
   conflict predicates and serialisers: what is fixed is the command's own control flow, taken from the source
   (Gen/MergeAppFacts.v is regenerated from nbmergeapp.py / mergedriver.py / nbformat.write on every run). *)
From Coq Require Import List NArith Bool.
From NB Require Import Gen.MergeAppFacts.
From NB Require Import Sys.MergeApp.
From NB Require Import Sys.MergeAppProofs.
From NB Require Import Sys.MergeAppInst.   (* the instance the correspondence check evaluates + non-vacuity examples *)
Import ListNotations.

(* Exit status 0 -- under any fault, from any file system -- implies: either both sides deleted the file (then the
   output is absent), or all inputs were readable, the library merge of them has no conflicted decision and the
   output holds exactly the complete serialisation of that merge (other files unchanged; stdout when no --out). *)
Theorem exit0_complete :
  forall (nbk dec dif strat : Type) (parse : bytes -> parsed nbk) (minimal : nbk)
         (diffnb : nbk -> nbk -> option dif)
         (decide : strat -> nbk -> nbk -> nbk -> dif -> dif -> option (list dec))
         (apply : nbk -> list dec -> option nbk) (dconflict : dec -> bool)
         (serialise : nbk -> bytes) (dec_chunks : list dec -> list bytes)
         (flt : option fault) (c : cfg strat) (fs : fsys) (s' : st),
  run nbk dec dif strat parse minimal diffnb decide apply dconflict serialise dec_chunks flt c fs = (Exit 0, s') ->
  (c_local c = devnull /\ c_remote c = devnull /\
     (c_decisions c = false -> forall o, c_out c = Some o -> o <> devnull -> s_fs s' o = Absent))
  \/
  (exists b l r m ds,
     denotes nbk parse minimal fs (c_base c) fact_base_on_empty_minimal b /\
     denotes nbk parse minimal fs (c_local c) fact_local_on_empty_minimal l /\
     denotes nbk parse minimal fs (c_remote c) fact_remote_on_empty_minimal r /\
     lib_merge nbk dec dif strat diffnb decide apply (c_strat c) b l r = Some (m, ds) /\
     filter dconflict ds = [] /\
     (c_decisions c = false -> out_complete nbk strat serialise c fs s' m)).
Proof. exact MergeAppProofs.exit0_complete. Qed.
Print Assumptions exit0_complete.

(* Readable inputs and a defined library merge: the command finishes, its status is derived from the conflicted
   decisions, and the complete merged notebook is at the output whether or not there were conflicts. *)
Theorem finish_complete :
  forall (nbk dec dif strat : Type) (parse : bytes -> parsed nbk) (minimal : nbk)
         (diffnb : nbk -> nbk -> option dif)
         (decide : strat -> nbk -> nbk -> nbk -> dif -> dif -> option (list dec))
         (apply : nbk -> list dec -> option nbk) (dconflict : dec -> bool)
         (serialise : nbk -> bytes) (dec_chunks : list dec -> list bytes)
         (c : cfg strat) (fs : fsys) b l r m ds,
  forallb (exists_ fs) [c_base c; c_local c; c_remote c] = true ->
  N.eqb (c_local c) devnull && N.eqb (c_remote c) devnull = false ->
  c_decisions c = false ->
  denotes nbk parse minimal fs (c_base c) fact_base_on_empty_minimal b ->
  denotes nbk parse minimal fs (c_local c) fact_local_on_empty_minimal l ->
  denotes nbk parse minimal fs (c_remote c) fact_remote_on_empty_minimal r ->
  lib_merge nbk dec dif strat diffnb decide apply (c_strat c) b l r = Some (m, ds) ->
  exists s', run nbk dec dif strat parse minimal diffnb decide apply dconflict serialise dec_chunks None c fs
               = (Exit (Nat.modulo (returncode dec dconflict ds) 256), s')
             /\ out_complete nbk strat serialise c fs s' m.
Proof. exact MergeAppProofs.finish_complete. Qed.
Print Assumptions finish_complete.

Theorem exit0_iff_clean :
  forall (nbk dec dif strat : Type) (parse : bytes -> parsed nbk) (minimal : nbk)
         (diffnb : nbk -> nbk -> option dif)
         (decide : strat -> nbk -> nbk -> nbk -> dif -> dif -> option (list dec))
         (apply : nbk -> list dec -> option nbk) (dconflict : dec -> bool)
         (serialise : nbk -> bytes) (dec_chunks : list dec -> list bytes)
         (c : cfg strat) (fs : fsys) b l r m ds,
  forallb (exists_ fs) [c_base c; c_local c; c_remote c] = true ->
  N.eqb (c_local c) devnull && N.eqb (c_remote c) devnull = false ->
  c_decisions c = false ->
  denotes nbk parse minimal fs (c_base c) fact_base_on_empty_minimal b ->
  denotes nbk parse minimal fs (c_local c) fact_local_on_empty_minimal l ->
  denotes nbk parse minimal fs (c_remote c) fact_remote_on_empty_minimal r ->
  lib_merge nbk dec dif strat diffnb decide apply (c_strat c) b l r = Some (m, ds) ->
  (fst (run nbk dec dif strat parse minimal diffnb decide apply dconflict serialise dec_chunks None c fs) = Exit 0
   <-> filter dconflict ds = []).
Proof. exact MergeAppProofs.exit0_iff_clean. Qed.
Print Assumptions exit0_iff_clean.

(* A single fault (exception, interrupt, kill; optionally after a partial write) at ANY boundary of the run fires
   and the process does not report success. *)
Theorem fault_never_success :
  forall (nbk dec dif strat : Type) (parse : bytes -> parsed nbk) (minimal : nbk)
         (diffnb : nbk -> nbk -> option dif)
         (decide : strat -> nbk -> nbk -> nbk -> dif -> dif -> option (list dec))
         (apply : nbk -> list dec -> option nbk) (dconflict : dec -> bool)
         (serialise : nbk -> bytes) (dec_chunks : list dec -> list bytes)
         (ft : fault) (c : cfg strat) (fs : fsys) st0 s0,
  run nbk dec dif strat parse minimal diffnb decide apply dconflict serialise dec_chunks None c fs = (st0, s0) ->
  1 <= f_k ft <= s_k s0 ->
  exists s', run nbk dec dif strat parse minimal diffnb decide apply dconflict serialise dec_chunks (Some ft) c fs
               = (kind_status (f_kind ft), s')
             /\ kind_status (f_kind ft) <> Exit 0 /\ s_fired s' = true /\ s_k s' = f_k ft.
Proof. exact MergeAppProofs.fault_never_success. Qed.
Print Assumptions fault_never_success.

Theorem success_means_no_fault :
  forall (nbk dec dif strat : Type) (parse : bytes -> parsed nbk) (minimal : nbk)
         (diffnb : nbk -> nbk -> option dif)
         (decide : strat -> nbk -> nbk -> nbk -> dif -> dif -> option (list dec))
         (apply : nbk -> list dec -> option nbk) (dconflict : dec -> bool)
         (serialise : nbk -> bytes) (dec_chunks : list dec -> list bytes)
         (flt : option fault) (c : cfg strat) (fs : fsys) s',
  run nbk dec dif strat parse minimal diffnb decide apply dconflict serialise dec_chunks flt c fs = (Exit 0, s') ->
  s_fired s' = false /\
  run nbk dec dif strat parse minimal diffnb decide apply dconflict serialise dec_chunks None c fs = (Exit 0, s').
Proof. exact MergeAppProofs.success_means_no_fault. Qed.
Print Assumptions success_means_no_fault.

(* BEGIN block that depends on the order "serialise, then open the output" (fact_write_via = WritePath and
   fact_nbformat_serialises_first).  If the source is changed to open the output first, this proof breaks. *)
Theorem fault_before_write_untouched :
  forall (nbk dec dif strat : Type) (parse : bytes -> parsed nbk) (minimal : nbk)
         (diffnb : nbk -> nbk -> option dif)
         (decide : strat -> nbk -> nbk -> nbk -> dif -> dif -> option (list dec))
         (apply : nbk -> list dec -> option nbk) (dconflict : dec -> bool)
         (serialise : nbk -> bytes) (dec_chunks : list dec -> list bytes)
         (flt : option fault) (c : cfg strat) (fs : fsys) st' s' e,
  run nbk dec dif strat parse minimal diffnb decide apply dconflict serialise dec_chunks flt c fs = (st', s') ->
  s_fired s' = true -> hd_error (s_trace s') = Some e -> is_after_commit e = false ->
  s_fs s' = fs /\ s_out s' = [].
Proof. exact MergeAppProofs.fault_before_write_untouched. Qed.
Print Assumptions fault_before_write_untouched.
(* END block *)

(* The code's own failures (unreadable or missing input, exception inside the library) leave everything untouched. *)
Theorem failure_untouched :
  forall (nbk dec dif strat : Type) (parse : bytes -> parsed nbk) (minimal : nbk)
         (diffnb : nbk -> nbk -> option dif)
         (decide : strat -> nbk -> nbk -> nbk -> dif -> dif -> option (list dec))
         (apply : nbk -> list dec -> option nbk) (dconflict : dec -> bool)
         (serialise : nbk -> bytes) (dec_chunks : list dec -> list bytes)
         (flt : option fault) (c : cfg strat) (fs : fsys) k s',
  exec flt (main_merge nbk dec dif strat parse minimal diffnb decide apply dconflict serialise dec_chunks c) (init fs)
    = (Aborted k, s') ->
  s_fired s' = false -> s_fs s' = fs /\ s_out s' = [].
Proof. exact MergeAppProofs.failure_untouched. Qed.
Print Assumptions failure_untouched.

(* The git merge driver: exit 0 implies the complete clean merge stands in place of the local file (%A). *)
Theorem driver_exit0_complete :
  forall (nbk dec dif strat : Type) (parse : bytes -> parsed nbk) (minimal : nbk)
         (diffnb : nbk -> nbk -> option dif)
         (decide : strat -> nbk -> nbk -> nbk -> dif -> dif -> option (list dec))
         (apply : nbk -> list dec -> option nbk) (dconflict : dec -> bool)
         (serialise : nbk -> bytes) (dec_chunks : list dec -> list bytes)
         (flt : option fault) (s : strat) (b l r : path) (fs : fsys) s',
  run_driver nbk dec dif strat parse minimal diffnb decide apply dconflict serialise dec_chunks flt s b l r fs = (Exit 0, s') ->
  l <> devnull ->
  exists nb nl_ nr m ds,
    denotes nbk parse minimal fs b fact_base_on_empty_minimal nb /\
    denotes nbk parse minimal fs l fact_local_on_empty_minimal nl_ /\
    denotes nbk parse minimal fs r fact_remote_on_empty_minimal nr /\
    lib_merge nbk dec dif strat diffnb decide apply s nb nl_ nr = Some (m, ds) /\ filter dconflict ds = [] /\
    s_fs s' l = Content (full_output nbk serialise m) /\ (forall q, q <> l -> s_fs s' q = fs q).
Proof. exact MergeAppProofs.driver_exit0_complete. Qed.
Print Assumptions driver_exit0_complete.

Theorem driver_fault_before_write_untouched :
  forall (nbk dec dif strat : Type) (parse : bytes -> parsed nbk) (minimal : nbk)
         (diffnb : nbk -> nbk -> option dif)
         (decide : strat -> nbk -> nbk -> nbk -> dif -> dif -> option (list dec))
         (apply : nbk -> list dec -> option nbk) (dconflict : dec -> bool)
         (serialise : nbk -> bytes) (dec_chunks : list dec -> list bytes)
         (flt : option fault) (s : strat) (b l r : path) (fs : fsys) st' s' e,
  run_driver nbk dec dif strat parse minimal diffnb decide apply dconflict serialise dec_chunks flt s b l r fs = (st', s') ->
  s_fired s' = true -> hd_error (s_trace s') = Some e -> is_after_commit e = false -> s_fs s' = fs.
Proof. exact MergeAppProofs.driver_fault_before_write_untouched. Qed.
Print Assumptions driver_fault_before_write_untouched.
