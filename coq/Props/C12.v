(* C12 -- diffing is a pure function of its inputs and the ignore options in force.
   The process-global state the differ consults is the path -> differ override table (notebook_differs)
   and the explicit keys of the predicate table.  Sys/History.v models every operation of a long-lived
   process on that state; two tables are equivalent (teq) when every lookup gives the same differ, which
   is all a diff can observe.  The differ itself is a function of (configuration, a, b) in the model
   (Diff/GenericDiff.v), tied to the code by exact correspondence in C01/C14 and, here, across histories. *)
From Coq Require Import List Bool String.
From NB Require Import Diff.Codec.
From NB Require Import Base.Json Diff.GenericDiff Sys.History Sys.HistoryProofs Gen.HistoryFacts.
From NB Require Import Sys.Flags.
Import ListNotations.

(* what the differ sees after ANY history of diffs, merges, ignore settings and resets is what it would
   see after the configuration calls of that history alone *)
Theorem history_independent : forall h, teq (run_history h) (run_history (filter is_config h)).
Proof. exact history_independent_l. Qed.
Print Assumptions history_independent.

(* a diff or merge (which stores looked-up defaults in the table) changes no later lookup *)
Theorem diff_leaves_state : forall ps t, teq (step t (OpDiff ps)) t.
Proof. exact diff_neutral. Qed.
Print Assumptions diff_leaves_state.

(* resetting restores the initial table, after any history *)
Theorem reset_restores : forall h, run_history (h ++ [OpReset]) = [].
Proof. exact reset_restores_l. Qed.
Print Assumptions reset_restores.

(* set_notebook_diff_targets determines every path it mentions whatever was configured before, and
   leaves every other path alone *)
Theorem targets_determined : forall t s o a m i d p,
  mfind p (targets_mapping s o a m i d) <> None ->
  lookup (set_targets t s o a m i d) p = lookup (set_targets [] s o a m i d) p.
Proof. exact targets_determined_l. Qed.
Print Assumptions targets_determined.

Theorem targets_leaves_others : forall t s o a m i d p,
  mfind p (targets_mapping s o a m i d) = None -> lookup (set_targets t s o a m i d) p = lookup t p.
Proof. exact targets_leaves_others_l. Qed.
Print Assumptions targets_leaves_others.

(* the command-line route to the table (nbdime/args.py process_exclusive_ignorables + process_diff_flags, Sys/Flags.v;
   run against the real function after every operation of a history): with no flag the table is left as it is; selecting
   all six parts is set_notebook_diff_targets(True x 6), i.e. the full reset of everything the flags govern, whatever
   was configured before; positive flags show exactly the parts given, negative flags hide exactly the parts given *)
Theorem flags_none_leaves_state : forall t, step t (flags_op None None None None None None) = t.
Proof. exact flags_none. Qed.
Print Assumptions flags_none_leaves_state.

Theorem flags_all_six_resets : forall t p,
  mfind p (targets_mapping true true true true true true) <> None ->
  lookup (step t (flags_op (Some true) (Some true) (Some true) (Some true) (Some true) (Some true))) p
  = lookup (step [] (OpTargets true true true true true true)) p.
Proof. intros t p Hp. rewrite flags_all_six. exact (targets_determined_l t true true true true true true p Hp). Qed.
Print Assumptions flags_all_six_resets.

(* non-vacuity: /cells/*/source is a path the flags govern; after `-s` (sources only) followed by all six flags the source
   differ is the default one again, while after `-s` alone outputs are ignored *)
Example flags_all_six_example :
  mfind (of_ascii "/cells/*/outputs"%string) (targets_mapping true true true true true true) <> None
  /\ lookup (run_history [flags_op (Some true) None None None None None;
                          flags_op (Some true) (Some true) (Some true) (Some true) (Some true) (Some true)])
            (of_ascii "/cells/*/outputs"%string)
     = lookup [] (of_ascii "/cells/*/outputs"%string)
  /\ lookup (run_history [flags_op (Some true) None None None None None]) (of_ascii "/cells/*/outputs"%string)
     <> lookup [] (of_ascii "/cells/*/outputs"%string).
Proof. split; [vm_compute; discriminate | split; [vm_compute; reflexivity | vm_compute; discriminate]]. Qed.

Theorem flags_subsets : forall s o a m i d,
  orb s (orb o (orb a (orb m (orb i d)))) = true ->
  flags_op (if s then Some true else None) (if o then Some true else None) (if a then Some true else None)
           (if m then Some true else None) (if i then Some true else None) (if d then Some true else None)
  = OpTargets s o a m i d
  /\ flags_op (if s then Some false else None) (if o then Some false else None) (if a then Some false else None)
              (if m then Some false else None) (if i then Some false else None) (if d then Some false else None)
     = OpTargets (negb s) (negb o) (negb a) (negb m) (negb i) (negb d).
Proof. intros s o a m i d Hn. split; [exact (flags_positive_subset s o a m i d Hn) | exact (flags_negative_subset s o a m i d Hn)]. Qed.
Print Assumptions flags_subsets.

(* source facts, regenerated on every run: predicate lookups store nothing; the key filters are reset first *)
Theorem source_facts : predicate_lookup_inserts = false /\ targets_reset_key_filters = true.
Proof. split; reflexivity. Qed.
Print Assumptions source_facts.
