# Top-level build: regenerate Gen/*.v from /repo, build the Coq development, extract and build nbmodel.
COQDIR := coq
OUT := coq/Extract/out
.PHONY: all gen coq model modeldeps clean setup
all: gen coq model
# used as MANIFEST.setup_cmd: build everything that builds (a broken file must not stop the other properties)
setup: gen coq/Makefile.coq
	-cd coq && timeout 3000 $(MAKE) -f Makefile.coq -j16 -k --no-print-directory COQC='timeout 900 coqc' > /dev/null 2>&1
	$(MAKE) --no-print-directory model
gen:
	@tools/gen/run_all.py
coq/Makefile.coq: coq/_CoqProject
	cd coq && find Base Diff Merge Schema Ts Sys Gen Props Extract -name '*.v' ! -name Extract.v | sort > .vfiles && \
	  coq_makefile -f _CoqProject $$(cat .vfiles) -o Makefile.coq
coq: coq/Makefile.coq
	cd coq && find Base Diff Merge Schema Ts Sys Gen Props Extract -name '*.v' ! -name Extract.v | sort > .vfiles.new && \
	  (cmp -s .vfiles .vfiles.new || (mv .vfiles.new .vfiles && coq_makefile -f _CoqProject $$(cat .vfiles) -o Makefile.coq)); rm -f .vfiles.new
	cd coq && timeout 1800 $(MAKE) -f Makefile.coq -j16 --no-print-directory COQC='timeout 900 coqc'
# the runner needs only the closure of Extract/*.v; other files may be broken without stopping it
modeldeps: coq/Makefile.coq
	cd coq && timeout 1800 $(MAKE) -f Makefile.coq -j16 --no-print-directory COQC='timeout 900 coqc' $$(ls Extract/Api*.v | sed 's/\.v$$/.vo/')
model: modeldeps
	@mkdir -p $(OUT)
	@cd $(OUT) && if [ ! -f nbmodel ] || [ -n "$$(find ../../Base ../../Diff ../../Merge ../../Gen ../../Extract ../../Schema ../../Ts ../../Sys -name '*.vo' -newer nbmodel 2>/dev/null | head -1)" ] || [ ../driver.ml -nt nbmodel ]; then \
	  rm -f *.ml *.mli *.cm* *.o && timeout 600 coqc -Q ../.. NB ../Extract.v > /dev/null && cp ../driver.ml . && \
	  ocamlfind ocamlopt -O3 -w -a -o nbmodel.tmp $$(ocamlfind ocamldep -sort *.mli *.ml | tr ' ' '\n' | grep -v '^driver.ml$$' | tr '\n' ' ') driver.ml 2>&1 | grep -v "options -O3" ; mv nbmodel.tmp nbmodel; fi
clean:
	cd coq && (test -f Makefile.coq && $(MAKE) -f Makefile.coq clean || true); rm -rf $(OUT) coq/Makefile.coq coq/.vfiles
